#!/bin/bash
# check.sh <PROP> quick|thorough     run the check of one property against /repo's working tree
# check.sh replay <replay.json>      re-execute one recorded case
cd "$(dirname "$0")" || exit 2
export GOFLAGS=-mod=mod GOPROXY=off GOSUMDB=off GOTOOLCHAIN=local
exec python3 ./vdriver.py "$@"
