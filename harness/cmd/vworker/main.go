// vworker executes the batches of one property shard against go-json built from /repo's
// current working tree. Every sub-case is written to the cur cell before the library is
// called, every batch's result to the journal after it.
package main

import (
	"flag"
	"fmt"
	"os"
	"runtime"
	"runtime/debug"
	"strings"

	"verif/harness/props"
	"verif/harness/rt"
)

func main() {
	prop := flag.String("prop", "", "property id")
	tier := flag.String("tier", "quick", "quick|thorough")
	seed := flag.Int64("seed", 1, "VERIF_SEED")
	shard := flag.Int("shard", 0, "shard index")
	nshards := flag.Int("nshards", 1, "number of shards")
	journal := flag.String("journal", "", "journal path")
	curPath := flag.String("cur", "", "current-case cell path")
	start := flag.Int("start", 0, "first batch index to run")
	skip := flag.String("skip", "", "comma separated idx.sub to skip")
	only := flag.String("only", "", "run only idx.sub")
	variant := flag.String("variant", "plain", "build variant label")
	count := flag.Bool("count", false, "print number of batches and exit")
	cold := flag.String("cold", "", "execute one call descriptor alone and print its result (cold oracle)")
	flag.Parse()

	p := props.Registry[*prop]
	if p == nil {
		fmt.Fprintln(os.Stderr, "unknown property", *prop)
		os.Exit(3)
	}
	if *cold != "" {
		if p.Cold == nil {
			os.Exit(3)
		}
		c := rt.NewCtx(*prop, *tier, *seed, *variant, nil, nil, "")
		c.Begin(0)
		os.Stdout.WriteString(p.Cold(c, *cold))
		return
	}
	n := p.NumBatches(*tier, *seed)
	if *count {
		fmt.Println(n)
		return
	}
	debug.SetTraceback("all")
	var cur []byte
	if *curPath != "" {
		var err error
		if cur, err = rt.OpenCur(*curPath); err != nil {
			fmt.Fprintln(os.Stderr, "cur:", err)
			os.Exit(3)
		}
	}
	j, err := rt.OpenJournal(*journal)
	if err != nil {
		fmt.Fprintln(os.Stderr, "journal:", err)
		os.Exit(3)
	}
	c := rt.NewCtx(*prop, *tier, *seed, *variant, cur, strings.Split(*skip, ","), *only)
	j.Write(map[string]any{"canary": "start", "shard": *shard, "start": *start, "go": runtime.Version(), "gomaxprocs": runtime.GOMAXPROCS(0)})
	onlyIdx := -1
	if *only != "" {
		fmt.Sscanf(*only, "%d.", &onlyIdx)
	}
	if p.Setup != nil {
		p.Setup(c)
	}
	for idx := *start; idx < n; idx++ {
		if idx%*nshards != *shard && onlyIdx < 0 {
			continue
		}
		if onlyIdx >= 0 && idx != onlyIdx {
			continue
		}
		c.Begin(idx)
		j.Write(map[string]any{"b": idx})
		p.Run(c)
		c.ClearCur()
		j.Write(c.Res)
		if c.Respawn {
			j.Write(map[string]any{"canary": "respawn", "after": idx})
			j.Close()
			os.Exit(75)
		}
	}
	j.Write(map[string]any{"canary": "done", "shard": *shard})
	j.Close()
}
