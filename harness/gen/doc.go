// Package gen holds the PRNG-driven generators: JSON documents, Go types, values, chunkings.
package gen

import (
	"fmt"
	"math/rand"
	"strconv"
)

var wsChoices = []string{"", "", "", " ", "\n", "\t", "\r\n", "  "}

func ws(r *rand.Rand, b []byte) []byte { return append(b, wsChoices[r.Intn(len(wsChoices))]...) }

var NumberForms = []string{"0", "-0", "1", "-1", "7", "12", "127", "128", "-128", "-129", "255", "256", "32767", "32768", "65535", "65536",
	"2147483647", "2147483648", "-2147483648", "-2147483649", "4294967295", "4294967296",
	"9223372036854775807", "9223372036854775808", "-9223372036854775808", "-9223372036854775809", "18446744073709551615", "18446744073709551616",
	"1.5", "-2.25", "0.1", "1e2", "1E2", "1e+2", "1E-2", "1.0", "1.0e0", "100e-2", "0.000001", "1e-7", "1e21", "1e20", "123456789012345678901234567890",
	"3.4028234663852886e38", "3.5e38", "1.7976931348623157e308", "1e309", "-1e309", "5e-324", "1e-400", "0e0", "0.0", "-0.0", "2.5", "1e1", "12345678.875"}

var StringPieces = []string{"", "a", "b", "ab", "Ab", "hello", " ", "x y", `\"`, `\\`, `\/`, `\b`, `\f`, `\n`, `\r`, `\t`,
	"é", "日本", " ", "😀", "<", ">", "&", "<script>", "'", "/", "0", "12", "true", "null", "-", "\x7f"}

var KeyPool = []string{"a", "b", "A", "B", "ab", "Ab", "aB", "AB", "x", "k", "id", "name", "", " ", "a.b", "é", "<k>", "key with space", "0", "1"}

// bs is a backslash; escapes are assembled at run time so that no tool layer can rewrite them.
const bs = "\\"

func init() {
	for _, u := range []string{"0041", "0061", "00e9", "20ac", "2028", "2029", "d83d" + bs + "ude00", "d800", "dc00", "d800" + bs + "u0041", "0000", "001f", "007f"} {
		StringPieces = append(StringPieces, bs+"u"+u)
	}
	KeyPool = append(KeyPool, bs+"u0061", bs+"u0041", bs+"u0061b", "a"+bs+"u0062", bs+"u0041"+bs+"u0062")
}

var bmpEdges = []int{0x0000, 0x001f, 0x0020, 0x0022, 0x0026, 0x002f, 0x003c, 0x003e, 0x0041, 0x005c, 0x007f, 0x0080, 0x07ff, 0x0800,
	0x2027, 0x2028, 0x2029, 0x202a, 0xd7ff, 0xe000, 0xfffd, 0xfffe, 0xffff}
var hiEdges = []int{0xd800, 0xd801, 0xd83d, 0xdbfe, 0xdbff}
var loEdges = []int{0xdc00, 0xdc01, 0xde00, 0xdffe, 0xdfff}

func hex4(r *rand.Rand, b []byte, v int) []byte {
	const lo, up = "0123456789abcdef", "0123456789ABCDEF"
	tab := lo
	switch r.Intn(3) {
	case 0:
		tab = up
	case 1: // mixed case per digit
		for sh := 12; sh >= 0; sh -= 4 {
			if r.Intn(2) == 0 {
				b = append(b, lo[(v>>uint(sh))&15])
			} else {
				b = append(b, up[(v>>uint(sh))&15])
			}
		}
		return b
	}
	for sh := 12; sh >= 0; sh -= 4 {
		b = append(b, tab[(v>>uint(sh))&15])
	}
	return b
}

func pickEdge(r *rand.Rand, edges []int, lo, hi int) int {
	if r.Intn(2) == 0 {
		return edges[r.Intn(len(edges))]
	}
	return lo + r.Intn(hi-lo+1)
}

// UEscape appends one \u-escape construct with a bias to the edges of every range the decoders
// distinguish: BMP code units, well-formed surrogate pairs (both halves at their range ends), lone
// halves, reversed pairs, and a high half followed by something that is not a low half.
func UEscape(r *rand.Rand, b []byte) []byte {
	u := func(v int) { b = append(b, bs+"u"...); b = hex4(r, b, v) }
	switch r.Intn(10) {
	case 0, 1, 2:
		u(pickEdge(r, bmpEdges, 0, 0xd7ff))
	case 3:
		u(pickEdge(r, bmpEdges, 0xe000, 0xffff))
	case 4, 5, 6:
		u(pickEdge(r, hiEdges, 0xd800, 0xdbff))
		u(pickEdge(r, loEdges, 0xdc00, 0xdfff))
	case 7:
		if r.Intn(2) == 0 {
			u(pickEdge(r, hiEdges, 0xd800, 0xdbff))
		} else {
			u(pickEdge(r, loEdges, 0xdc00, 0xdfff))
		}
	case 8:
		u(pickEdge(r, loEdges, 0xdc00, 0xdfff))
		u(pickEdge(r, hiEdges, 0xd800, 0xdbff))
	default:
		u(pickEdge(r, hiEdges, 0xd800, 0xdbff))
		switch r.Intn(4) {
		case 0:
			u(pickEdge(r, bmpEdges, 0, 0xd7ff))
		case 1:
			b = append(b, bs+"n"...)
		case 2:
			u(pickEdge(r, hiEdges, 0xd800, 0xdbff))
		default:
			b = append(b, 'x')
		}
	}
	return b
}

// StrLit produces a valid JSON string literal (with quotes).
func StrLit(r *rand.Rand) []byte {
	n := r.Intn(4)
	if r.Intn(8) == 0 {
		n = 4 + r.Intn(12)
	}
	b := []byte{'"'}
	for i := 0; i < n; i++ {
		if r.Intn(5) == 0 {
			b = UEscape(r, b)
			continue
		}
		b = append(b, StringPieces[r.Intn(len(StringPieces))]...)
	}
	return append(b, '"')
}

func NumLit(r *rand.Rand) []byte {
	switch r.Intn(6) {
	case 0:
		return []byte(strconv.FormatInt(r.Int63()>>uint(r.Intn(63))*int64(1-2*r.Intn(2)), 10))
	case 1:
		return []byte(strconv.FormatFloat(r.NormFloat64()*float64(int64(1)<<uint(r.Intn(60))), 'g', -1, 64))
	case 2:
		return []byte(fmt.Sprintf("%d.%de%d", r.Intn(100), r.Intn(1000), r.Intn(40)-20))
	}
	return []byte(NumberForms[r.Intn(len(NumberForms))])
}

func Key(r *rand.Rand) []byte {
	return []byte(`"` + KeyPool[r.Intn(len(KeyPool))] + `"`)
}

// Doc generates one valid RFC 8259 text with random whitespace, number forms, escapes,
// duplicate and unusual keys.
func Doc(r *rand.Rand, depth int) []byte {
	b := ws(r, nil)
	b = docValue(r, b, depth)
	return ws(r, b)
}

func docValue(r *rand.Rand, b []byte, depth int) []byte {
	k := r.Intn(10)
	if depth <= 0 && k >= 6 {
		k = r.Intn(6)
	}
	switch k {
	case 0:
		return append(b, "null"...)
	case 1:
		return append(b, "true"...)
	case 2:
		return append(b, "false"...)
	case 3, 4:
		return append(b, NumLit(r)...)
	case 5:
		return append(b, StrLit(r)...)
	case 6, 7:
		b = append(b, '[')
		n := r.Intn(4)
		b = ws(r, b)
		for i := 0; i < n; i++ {
			if i > 0 {
				b = append(b, ',')
				b = ws(r, b)
			}
			b = docValue(r, b, depth-1)
			b = ws(r, b)
		}
		return append(b, ']')
	default:
		b = append(b, '{')
		n := r.Intn(4)
		b = ws(r, b)
		for i := 0; i < n; i++ {
			if i > 0 {
				b = append(b, ',')
				b = ws(r, b)
			}
			b = append(b, Key(r)...)
			b = ws(r, b)
			b = append(b, ':')
			b = ws(r, b)
			b = docValue(r, b, depth-1)
			b = ws(r, b)
		}
		return append(b, '}')
	}
}
