package gen

import (
	stdjson "encoding/json"
	"math/rand"
	"strings"
	"unicode/utf16"
	"unicode/utf8"

	"verif/harness/oracle"
)

// DocMutations is the catalogue of document mutations; at most one kind is applied per document
// so that a disagreement can be attributed.
var DocMutations = []string{"none", "whitespace", "key-case", "key-escaped", "dup-key", "unknown-key", "null-at", "wrong-kind", "num-form", "num-boundary",
	"array-resize", "empty-container", "string-escapes", "nested-unknown", "quoted-value"}

type docMut struct {
	r      *rand.Rand
	kind   string
	target int // index of the node to mutate (pre-order)
	seen   int
	done   bool
}

func countNodes(n *oracle.Node) int {
	c := 1
	for _, k := range n.Kids {
		c += countNodes(k)
	}
	return c
}

// MutateDoc re-serialises a valid text with one mutation of the given kind applied at a random
// node. The result is always a valid RFC 8259 text.
func MutateDoc(r *rand.Rand, doc []byte, kind string) []byte {
	n, err := oracle.Parse(doc)
	if err != nil {
		return doc
	}
	m := &docMut{r: r, kind: kind, target: r.Intn(countNodes(n))}
	var sb strings.Builder
	m.write(&sb, n, 0)
	if !m.done && kind != "none" && kind != "whitespace" {
		// the chosen node did not admit the mutation: try every node in order
		for t := 0; t < countNodes(n) && !m.done; t++ {
			m2 := &docMut{r: r, kind: kind, target: t}
			var sb2 strings.Builder
			m2.write(&sb2, n, 0)
			if m2.done {
				return []byte(sb2.String())
			}
		}
	}
	return []byte(sb.String())
}

func (m *docMut) ws(sb *strings.Builder) {
	if m.kind == "whitespace" {
		sb.WriteString([]string{"", " ", "\n", "\t", "\r\n", "  \n\t"}[m.r.Intn(6)])
	}
}

func quote(s string) string {
	b, _ := stdjson.Marshal(s)
	return string(b)
}

// escapeSome spells some characters of s as \uXXXX escapes.
func escapeSome(r *rand.Rand, s string, all bool) string {
	b := []byte{'"'}
	u := func(v int) { b = append(b, bs+"u"...); b = hex4(r, b, v) }
	for _, ch := range s {
		if short := strings.IndexRune("\"\\/\b\f\n\r\t", ch); short >= 0 && r.Intn(3) > 0 {
			// the two-character escape (the only optional one is the solidus)
			b = append(b, '\\', "\"\\/bfnrt"[short])
			continue
		}
		switch {
		case ch == utf8.RuneError || !(all || r.Intn(2) == 0):
			q := quote(string(ch))
			b = append(b, q[1:len(q)-1]...)
		case ch < 0x10000:
			u(int(ch))
		default:
			hi, lo := utf16.EncodeRune(ch)
			u(int(hi))
			u(int(lo))
		}
	}
	return string(append(b, '"'))
}

// escapeExtra is escapeSome plus one \u construct from UEscape (lone halves, range-edge pairs, ...)
// put in front: the string no longer denotes the same value, which the decode checks do not need.
func escapeExtra(r *rand.Rand, s string) string {
	q := escapeSome(r, s, r.Intn(2) == 0)
	if r.Intn(2) == 0 {
		return q
	}
	return string(UEscape(r, []byte{'"'})) + q[1:]
}

func swapCase(r *rand.Rand, s string) string {
	b := []byte(s)
	changed := false
	for i, c := range b {
		if c >= 'a' && c <= 'z' && (r.Intn(2) == 0 || !changed) {
			b[i] = c - 32
			changed = true
		} else if c >= 'A' && c <= 'Z' && (r.Intn(2) == 0 || !changed) {
			b[i] = c + 32
			changed = true
		}
	}
	return string(b)
}

var wrongKinds = []string{`"str"`, `12`, `1.5`, `true`, `false`, `[]`, `[1]`, `{}`, `{"a":1}`, `"12"`, `""`, `-1`, `[null]`, `"true"`}
var boundaryNums = []string{"127", "128", "-128", "-129", "255", "256", "32767", "32768", "-32769", "65535", "65536", "2147483647", "2147483648", "-2147483649", "4294967295", "4294967296",
	"9223372036854775807", "9223372036854775808", "-9223372036854775808", "-9223372036854775809", "18446744073709551615", "18446744073709551616", "20000000000000000000", "30000000000000100000", "90000000000000000000", "-10000000000000000000", "100000000000000000000", "1e400", "-1e400", "3.5e38", "1e39", "0.1e-400", "1e-400", "-0"}
var numForms = []func(string) string{
	func(s string) string { return s + ".0" },
	func(s string) string { return s + "e0" },
	func(s string) string { return s + "E+0" },
	func(s string) string { return s + "0e-1" },
	func(s string) string { return s + ".000" },
}

func (m *docMut) write(sb *strings.Builder, n *oracle.Node, depth int) {
	idx := m.seen
	m.seen++
	hit := idx == m.target && !m.done
	if hit {
		switch m.kind {
		case "null-at":
			if depth > 0 || n.Kind != 'z' {
				sb.WriteString("null")
				m.done = true
				return
			}
		case "wrong-kind":
			sb.WriteString(wrongKinds[m.r.Intn(len(wrongKinds))])
			m.done = true
			return
		case "quoted-value":
			// the value's own text inside a JSON string (what the ,string option reads)
			if depth > 0 {
				var inner strings.Builder
				sub := &docMut{r: m.r, kind: "none", target: -1}
				sub.write(&inner, n, depth)
				sb.WriteString(quote(inner.String()))
				m.done = true
				return
			}
		case "empty-container":
			if n.Kind == 'o' || n.Kind == 'a' {
				sb.WriteString(map[byte]string{'o': "{}", 'a': "[]"}[n.Kind])
				m.done = true
				return
			}
		case "num-boundary":
			if n.Kind == 'n' {
				sb.WriteString(boundaryNums[m.r.Intn(len(boundaryNums))])
				m.done = true
				return
			}
		case "num-form":
			if n.Kind == 'n' && !strings.ContainsAny(n.Lit, ".eE") {
				sb.WriteString(numForms[m.r.Intn(len(numForms))](n.Lit))
				m.done = true
				return
			}
		case "string-escapes":
			if n.Kind == 's' && n.Str != "" && utf8.ValidString(n.Str) {
				sb.WriteString(escapeExtra(m.r, n.Str))
				m.done = true
				return
			}
		}
	}
	switch n.Kind {
	case 'z':
		sb.WriteString("null")
	case 't':
		sb.WriteString("true")
	case 'f':
		sb.WriteString("false")
	case 'n':
		sb.WriteString(n.Lit)
	case 's':
		sb.WriteString(quote(n.Str))
	case 'a':
		sb.WriteByte('[')
		m.ws(sb)
		kids := n.Kids
		extra := 0
		if hit && m.kind == "array-resize" {
			m.done = true
			if len(kids) > 0 && m.r.Intn(2) == 0 {
				kids = kids[:m.r.Intn(len(kids))]
			} else {
				extra = 1 + m.r.Intn(3)
			}
		}
		for i, k := range kids {
			if i > 0 {
				sb.WriteByte(',')
				m.ws(sb)
			}
			m.write(sb, k, depth+1)
			m.ws(sb)
		}
		for i := 0; i < extra; i++ {
			if i > 0 || len(kids) > 0 {
				sb.WriteByte(',')
			}
			if len(n.Kids) > 0 {
				sub := &docMut{r: m.r, kind: "none", target: -1}
				sub.write(sb, n.Kids[m.r.Intn(len(n.Kids))], depth+1)
			} else {
				sb.WriteString(wrongKinds[m.r.Intn(len(wrongKinds))])
			}
		}
		sb.WriteByte(']')
	case 'o':
		sb.WriteByte('{')
		m.ws(sb)
		first := true
		sep := func() {
			if !first {
				sb.WriteByte(',')
				m.ws(sb)
			}
			first = false
		}
		mutKey := -1
		if hit && len(n.Keys) > 0 && (m.kind == "key-case" || m.kind == "key-escaped" || m.kind == "dup-key") {
			mutKey = m.r.Intn(len(n.Keys))
		}
		if hit && (m.kind == "unknown-key" || m.kind == "nested-unknown") && m.r.Intn(2) == 0 {
			m.writeUnknown(sb, sep)
		}
		for i, k := range n.Keys {
			sep()
			key := quote(k)
			if i == mutKey {
				switch m.kind {
				case "key-case":
					if sc := swapCase(m.r, k); sc != k {
						key = quote(sc)
						m.done = true
					}
				case "key-escaped":
					if k != "" && utf8.ValidString(k) {
						key = escapeSome(m.r, k, m.r.Intn(2) == 0)
						m.done = true
					}
				}
			}
			sb.WriteString(key)
			m.ws(sb)
			sb.WriteByte(':')
			m.ws(sb)
			m.write(sb, n.Kids[i], depth+1)
			m.ws(sb)
			if i == mutKey && m.kind == "dup-key" {
				// the same key again, with the value of another member of this object or a scalar
				sep()
				sb.WriteString(quote(k))
				sb.WriteByte(':')
				if m.r.Intn(2) == 0 {
					sub := &docMut{r: m.r, kind: "none", target: -1}
					sub.write(sb, n.Kids[m.r.Intn(len(n.Kids))], depth+1)
				} else {
					sb.WriteString(wrongKinds[m.r.Intn(len(wrongKinds))])
				}
				m.done = true
			}
		}
		if hit && (m.kind == "unknown-key" || m.kind == "nested-unknown") && !m.done {
			m.writeUnknown(sb, sep)
		}
		sb.WriteByte('}')
	}
}

func (m *docMut) writeUnknown(sb *strings.Builder, sep func()) {
	sep()
	// names no member has, plain and with what the scanner for unmatched names has to step over:
	// escaped quotes and backslashes (also as the last thing before the closing quote), \u escapes
	names := []string{"unknown", "zz", "Q", "é", "0", "a b", "__", "x\\", "\\", "C:\\dir\\", "q\"", "\"", "\\\"", "a\\\\", "tab\t", "u\u00e9\\"}
	sb.WriteString(quote(names[m.r.Intn(len(names))]))
	sb.WriteByte(':')
	if m.kind == "nested-unknown" {
		sb.Write(Doc(m.r, 3))
	} else {
		// a scalar the decoder has to step over: strings with every escape class, number forms
		switch m.r.Intn(4) {
		case 0:
			sb.Write(StrLit(m.r))
		case 1:
			sb.Write(NumLit(m.r))
		default:
			sb.WriteString(wrongKinds[m.r.Intn(len(wrongKinds))])
		}
	}
	m.done = true
}

// Tokens splits a valid JSON text into its tokens (white space dropped).
func Tokens(doc []byte) [][]byte {
	var toks [][]byte
	for i := 0; i < len(doc); {
		c := doc[i]
		switch {
		case c == ' ' || c == '\t' || c == '\n' || c == '\r':
			i++
		case c == '"':
			j := i + 1
			for j < len(doc) && doc[j] != '"' {
				if doc[j] == '\\' {
					j++
				}
				j++
			}
			if j >= len(doc) {
				j = len(doc) - 1
			}
			toks = append(toks, doc[i:j+1])
			i = j + 1
		case strings.IndexByte("{}[],:", c) >= 0:
			toks = append(toks, doc[i:i+1])
			i++
		default:
			j := i
			for j < len(doc) && strings.IndexByte("{}[],: \t\r\n\"", doc[j]) < 0 {
				j++
			}
			toks = append(toks, doc[i:j])
			i = j
		}
	}
	return toks
}

// tokenSubstitutes are the tokens (and small token groups) a token is replaced with.
var tokenSubstitutes = []string{`1`, `"s"`, `null`, `true`, `[`, `]`, `{`, `}`, `,`, `:`, `[1]`, `{"k":1}`, `-`, `""`}

// TokenMutants returns the token-level mutants of a valid text: every token deleted, doubled,
// swapped with its successor and replaced by every substitute. These are the ill-formed texts a
// tokenising validator gets wrong when one of its per-position checks is missing (a value in key
// position, a missing colon, a doubled comma ...); most are invalid, a few are valid again.
func TokenMutants(doc []byte) [][]byte {
	toks := Tokens(doc)
	join := func(ts [][]byte) []byte {
		var b []byte
		for _, t := range ts {
			b = append(b, t...)
		}
		return b
	}
	var out [][]byte
	for i := range toks {
		del := append(append([][]byte{}, toks[:i]...), toks[i+1:]...)
		out = append(out, join(del))
		dbl := append(append(append([][]byte{}, toks[:i+1]...), toks[i]), toks[i+1:]...)
		out = append(out, join(dbl))
		if i+1 < len(toks) {
			sw := append([][]byte{}, toks...)
			sw[i], sw[i+1] = sw[i+1], sw[i]
			out = append(out, join(sw))
		}
		for _, s := range tokenSubstitutes {
			if string(toks[i]) == s {
				continue
			}
			rp := append([][]byte{}, toks...)
			rp[i] = []byte(s)
			out = append(out, join(rp))
		}
	}
	return out
}
