package gen

import (
	stdjson "encoding/json"
	"reflect"
	"time"

	"verif/harness/zoo"
)

// Member positions. go-json compiles a struct member into an opcode chosen by (member kind) x
// (value | pointer) x (plain | omitempty | string | both) x (first | later | last member), in each
// of its four interpreters. PositionKinds x PositionTypes enumerates that table instead of hoping
// the type grammar draws every cell.

type PositionKind struct {
	Name      string
	T         reflect.Type
	Ptr       bool // pointer variants belong to the core grammar for this kind
	StringOpt bool // ,string belongs to the core grammar for this kind
}

var PositionKinds = []PositionKind{
	{"int", reflect.TypeOf(int(0)), true, true}, {"int8", reflect.TypeOf(int8(0)), true, true}, {"int16", reflect.TypeOf(int16(0)), true, true},
	{"int32", reflect.TypeOf(int32(0)), true, true}, {"int64", reflect.TypeOf(int64(0)), true, true},
	{"uint", reflect.TypeOf(uint(0)), true, true}, {"uint8", reflect.TypeOf(uint8(0)), true, true}, {"uint16", reflect.TypeOf(uint16(0)), true, true},
	{"uint32", reflect.TypeOf(uint32(0)), true, true}, {"uint64", reflect.TypeOf(uint64(0)), true, true},
	{"bool", reflect.TypeOf(false), true, true},
	{"float32", reflect.TypeOf(float32(0)), true, true}, {"float64", reflect.TypeOf(float64(0)), true, true},
	{"string", reflect.TypeOf(""), true, true}, {"number", reflect.TypeOf(stdjson.Number("")), true, true},
	{"bytes", reflect.TypeOf([]byte(nil)), true, false}, {"slice", reflect.TypeOf([]int(nil)), true, false}, {"map", reflect.TypeOf(map[string]int(nil)), true, false},
	{"array", reflect.TypeOf([2]int{}), true, false}, {"struct", reflect.TypeOf(zoo.One{}), true, false}, {"iface", TIface, false, false},
	{"marshalerV", reflect.TypeOf(zoo.MV{}), true, false}, {"textmarshalerV", reflect.TypeOf(zoo.TV{}), true, false}, {"time", reflect.TypeOf(time.Time{}), false, false},
	{"raw", reflect.TypeOf(stdjson.RawMessage(nil)), false, false},
}

type PositionType struct {
	T       reflect.Type
	Desc    string // e.g. "ptr,omitempty:last-of-2"
	Member  int    // index of the member under test
	Variant string
}

// PositionTypes: for every variant of the member, a struct with the member alone, first of two,
// last of two and in the middle of three.
func PositionTypes(k PositionKind) []PositionType {
	type variant struct {
		name string
		t    reflect.Type
		opts string
	}
	vs := []variant{{"value", k.T, ""}, {"value,omitempty", k.T, ",omitempty"}}
	if k.StringOpt {
		vs = append(vs, variant{"value,string", k.T, ",string"}, variant{"value,omitempty,string", k.T, ",omitempty,string"})
	}
	if k.Ptr {
		pt := reflect.PtrTo(k.T)
		vs = append(vs, variant{"ptr", pt, ""}, variant{"ptr,omitempty", pt, ",omitempty"})
		if k.StringOpt {
			vs = append(vs, variant{"ptr,string", pt, ",string"}, variant{"ptr,omitempty,string", pt, ",omitempty,string"})
		}
	}
	x := reflect.StructField{Name: "X", Type: reflect.TypeOf(0), Tag: `json:"x"`}
	y := reflect.StructField{Name: "Y", Type: reflect.TypeOf(""), Tag: `json:"y"`}
	ign := reflect.StructField{Name: "Ign", Type: reflect.TypeOf([3]int16{}), Tag: `json:"-"`}
	var out []PositionType
	for _, v := range vs {
		m := reflect.StructField{Name: "M", Type: v.t, Tag: reflect.StructTag(`json:"m` + v.opts + `"`)}
		for _, lay := range []struct {
			pos    string
			fields []reflect.StructField
			at     int
		}{{"only", []reflect.StructField{m}, 0}, {"first-of-2", []reflect.StructField{m, x}, 0}, {"last-of-2", []reflect.StructField{x, m}, 1}, {"middle-of-3", []reflect.StructField{x, m, y}, 1},
			// the first encoded member does not sit at offset 0: an ignored member precedes it
			{"first-after-ignored", []reflect.StructField{ign, m, x}, 1}, {"only-after-ignored", []reflect.StructField{ign, m}, 1}} {
			if lay.pos == "only" && isPtrShaped(v.t) {
				// a struct that is nothing but one pointer-shaped member is the catalogued odd shape
				// "struct-ptr-shaped", not part of this table
				continue
			}
			out = append(out, PositionType{reflect.StructOf(lay.fields), v.name + ":" + lay.pos, lay.at, v.name})
		}
	}
	return out
}

// PositionValues: the zero value, a non-zero member (pointer set), a nil pointer next to non-zero
// neighbours, and a pointer to the zero value.
func PositionValues(pt PositionType, k PositionKind, nonZero func(reflect.Value)) []reflect.Value {
	var out []reflect.Value
	for mode := 0; mode < 4; mode++ {
		v := reflect.New(pt.T).Elem()
		for i := 0; i < v.NumField(); i++ {
			f := v.Field(i)
			if i != pt.Member {
				if f.Kind() == reflect.Array {
					// the ignored member holds a recognisable pattern in every mode
					for j := 0; j < f.Len(); j++ {
						f.Index(j).SetInt(int64(30600 + j))
					}
				}
				if mode > 0 {
					switch f.Kind() {
					case reflect.Int:
						f.SetInt(7)
					case reflect.String:
						f.SetString("y")
					}
				}
				continue
			}
			isPtr := f.Kind() == reflect.Ptr && f.Type().Elem() == k.T
			switch mode {
			case 1:
				if isPtr {
					f.Set(reflect.New(k.T))
					nonZero(f.Elem())
				} else {
					nonZero(f)
				}
			case 3:
				if isPtr {
					f.Set(reflect.New(k.T))
				}
			}
		}
		if mode == 3 && v.Field(pt.Member).Kind() != reflect.Ptr {
			continue
		}
		out = append(out, v)
	}
	return out
}
