package gen

import (
	stdjson "encoding/json"
	"fmt"
	"math/rand"
	"reflect"
	"strings"
	"time"

	"verif/harness/zoo"
)

var (
	TNumber = reflect.TypeOf(stdjson.Number(""))
	TRaw    = reflect.TypeOf(stdjson.RawMessage(nil))
	TTime   = reflect.TypeOf(time.Time{})
	TIface  = reflect.TypeOf((*interface{})(nil)).Elem()
	TBytes  = reflect.TypeOf([]byte(nil))
)

var ScalarTypes = []reflect.Type{
	reflect.TypeOf(int(0)), reflect.TypeOf(int8(0)), reflect.TypeOf(int16(0)), reflect.TypeOf(int32(0)), reflect.TypeOf(int64(0)),
	reflect.TypeOf(uint(0)), reflect.TypeOf(uint8(0)), reflect.TypeOf(uint16(0)), reflect.TypeOf(uint32(0)), reflect.TypeOf(uint64(0)), reflect.TypeOf(uintptr(0)),
	reflect.TypeOf(float32(0)), reflect.TypeOf(float64(0)), reflect.TypeOf(false), reflect.TypeOf(""),
	TBytes, TNumber, TRaw, TIface, TTime,
}

// CoreZoo: compiled types used in positions where go-json is expected to agree with encoding/json.
var CoreZoo = []reflect.Type{
	reflect.TypeOf(zoo.MV{}), reflect.TypeOf(zoo.MVS("")), reflect.TypeOf(zoo.TV{}), reflect.TypeOf(zoo.MErr{}), reflect.TypeOf(zoo.MBoth{}),
	reflect.TypeOf(zoo.MyInt(0)), reflect.TypeOf(zoo.MyInt8(0)), reflect.TypeOf(zoo.MyUint16(0)), reflect.TypeOf(zoo.MyStr("")), reflect.TypeOf(zoo.MyBool(false)),
	reflect.TypeOf(zoo.MyFloat(0)), reflect.TypeOf(zoo.MyBytes{}), reflect.TypeOf(zoo.MySlice{}), reflect.TypeOf(zoo.MyMap{}), reflect.TypeOf(zoo.MyArr{}),
	reflect.TypeOf(zoo.Rec{}), reflect.TypeOf(zoo.RecSlice{}), reflect.TypeOf(zoo.MutA{}), reflect.TypeOf(zoo.MutB{}), reflect.TypeOf(zoo.RecIface{}),
	reflect.TypeOf(zoo.EmbVal{}), reflect.TypeOf(zoo.EmbDeep{}), reflect.TypeOf(zoo.One{}), reflect.TypeOf(zoo.EmbInner{}),
}

var coreKeyTypes = []reflect.Type{
	reflect.TypeOf(""), reflect.TypeOf(int(0)), reflect.TypeOf(int8(0)), reflect.TypeOf(int64(0)), reflect.TypeOf(uint(0)), reflect.TypeOf(uint8(0)),
	reflect.TypeOf(uint32(0)), reflect.TypeOf(uintptr(0)), reflect.TypeOf(zoo.MyStr("")), reflect.TypeOf(zoo.MyInt(0)),
}

var fieldNames = []string{"A", "B", "Ab", "AB", "C1", "D_", "E", "F", "Gg", "H", "Abc", "X", "Y", "Z", "Id", "Name"}
var wideNames = []string{"I", "J", "K", "L", "M", "N", "O", "P", "Q", "R", "S", "T", "U", "V", "W", "K10", "K11", "Kk"}
var tagNames = []string{"", "a", "b", "ab", "x-y", "<k>", "Ab", "q", "é", "A", "name", "with space", "0", "x/y", "a/"}

// Feature is an "odd" type shape injected at most once per generated type. The name is part of
// every signature of a mismatch on that type, so each feature's defects are listed separately and
// the feature-free (core) grammar keeps precise, structural signatures.
type Feature struct {
	Name string
	Make func(r *rand.Rand, b *builder) reflect.Type
}

func ptrN(t reflect.Type, n int) reflect.Type {
	for i := 0; i < n; i++ {
		t = reflect.PtrTo(t)
	}
	return t
}

func pick(r *rand.Rand, ts ...reflect.Type) reflect.Type { return ts[r.Intn(len(ts))] }

func structOf(fs ...reflect.StructField) reflect.Type { return reflect.StructOf(fs) }

var tInt, tStr, tF64, tF32 = reflect.TypeOf(0), reflect.TypeOf(""), reflect.TypeOf(float64(0)), reflect.TypeOf(float32(0))

// Features is the catalogue. Order is part of the committed quick-tier case list: append only.
var Features []Feature

func init() {
	Features = []Feature{
		{"ptr2+", func(r *rand.Rand, b *builder) reflect.Type { return ptrN(b.core(r, 1), 2+r.Intn(2)) }},
		{"array1-ptr-shaped-elem", func(r *rand.Rand, b *builder) reflect.Type {
			e := pick(r, reflect.PtrTo(b.core(r, 0)), reflect.MapOf(tStr, b.core(r, 0)), structOf(reflect.StructField{Name: "P", Type: reflect.PtrTo(tInt)}))
			return reflect.ArrayOf(1, e)
		}},
		{"struct-ptr-shaped", func(r *rand.Rand, b *builder) reflect.Type {
			return pick(r, reflect.TypeOf(zoo.PtrShaped{}), reflect.TypeOf(zoo.PtrShapedM{}), structOf(reflect.StructField{Name: "Q", Type: reflect.PtrTo(b.core(r, 0)), Tag: `json:"q"`}))
		}},
		{"array0-omitempty", func(r *rand.Rand, b *builder) reflect.Type {
			return structOf(reflect.StructField{Name: "Z0", Type: reflect.ArrayOf(0, b.core(r, 0)), Tag: `json:"z0,omitempty"`}, reflect.StructField{Name: "K", Type: tInt})
		}},
		{"marshalerP-by-value", func(r *rand.Rand, b *builder) reflect.Type {
			return pick(r, reflect.TypeOf(zoo.MP{}), reflect.TypeOf(zoo.TP{}))
		}},
		{"nilable-marshalerV", func(r *rand.Rand, b *builder) reflect.Type {
			return pick(r, reflect.TypeOf(zoo.MVM{}), reflect.TypeOf(zoo.MVSl{}))
		}},
		{"ptr-to-marshaler", func(r *rand.Rand, b *builder) reflect.Type {
			return reflect.PtrTo(pick(r, reflect.TypeOf(zoo.TV{}), reflect.TypeOf(zoo.TVS("")), reflect.TypeOf(zoo.TVI(0)), reflect.TypeOf(zoo.TP{}), reflect.TypeOf(zoo.MP{}), reflect.TypeOf(zoo.MV{}), reflect.TypeOf(zoo.MVS(""))))
		}},
		{"omitempty-marshaler", func(r *rand.Rand, b *builder) reflect.Type {
			return structOf(reflect.StructField{Name: "OM", Type: pick(r, reflect.TypeOf(zoo.TVS("")), reflect.TypeOf(zoo.TVI(0)), reflect.TypeOf(zoo.MVS("")), reflect.TypeOf(zoo.MV{}), reflect.TypeOf(zoo.TV{})), Tag: `json:"om,omitempty"`},
				reflect.StructField{Name: "K", Type: tInt})
		}},
		{"mapkey-marshaler", func(r *rand.Rand, b *builder) reflect.Type {
			return reflect.MapOf(pick(r, reflect.TypeOf(zoo.TVS("")), reflect.TypeOf(zoo.TVI(0)), reflect.TypeOf(zoo.TV{}), reflect.TypeOf((*zoo.TP)(nil)), reflect.TypeOf(zoo.UTS("")), reflect.TypeOf(zoo.UTI(0))), b.core(r, 0))
		}},
		{"embedded-conflicts", func(r *rand.Rand, b *builder) reflect.Type {
			return pick(r, reflect.TypeOf(zoo.EmbShadow{}), reflect.TypeOf(zoo.EmbConflict{}), reflect.TypeOf(zoo.EmbPtr{}), reflect.TypeOf(zoo.EmbTagged{}), reflect.TypeOf(zoo.EmbUnexp{}), reflect.TypeOf(zoo.EmbPtrUnexp{}))
		}},
		{"embedded-structof", func(r *rand.Rand, b *builder) reflect.Type {
			emb := pick(r, reflect.TypeOf(zoo.EmbInner{}), reflect.TypeOf(zoo.EmbInner2{}), reflect.TypeOf(zoo.EmbDeep{}), reflect.TypeOf(zoo.One{}))
			f := reflect.StructField{Name: emb.Name(), Type: emb, Anonymous: true}
			if r.Intn(2) == 0 {
				f.Type = reflect.PtrTo(emb)
			}
			fs := []reflect.StructField{f, {Name: "A", Type: b.core(r, 0)}, {Name: "W", Type: tInt, Tag: `json:"b"`}}
			r.Shuffle(len(fs), func(i, j int) { fs[i], fs[j] = fs[j], fs[i] })
			return reflect.StructOf(fs)
		}},
		{"string-opt-float-or-string", func(r *rand.Rand, b *builder) reflect.Type {
			return structOf(reflect.StructField{Name: "SF", Type: pick(r, tF64, tF32, tStr, reflect.PtrTo(tF64), reflect.PtrTo(tStr)), Tag: `json:"sf,string"`}, reflect.StructField{Name: "K", Type: tInt})
		}},
		{"string-opt-nonscalar", func(r *rand.Rand, b *builder) reflect.Type {
			return structOf(reflect.StructField{Name: "SN", Type: pick(r, reflect.SliceOf(tInt), reflect.MapOf(tStr, tInt), reflect.TypeOf(zoo.One{}), reflect.PtrTo(reflect.TypeOf(zoo.One{})), TIface, reflect.ArrayOf(2, tInt), TNumber, TRaw, TBytes, reflect.TypeOf(zoo.MV{}), reflect.TypeOf(zoo.TV{})), Tag: `json:"sn,string"`},
				reflect.StructField{Name: "K", Type: tInt})
		}},
		{"tags-zoo", func(r *rand.Rand, b *builder) reflect.Type {
			return pick(r, reflect.TypeOf(zoo.Tags{}), reflect.TypeOf(zoo.TagsMarsh{}))
		}},
		{"iface-nonempty", func(r *rand.Rand, b *builder) reflect.Type { return reflect.TypeOf((*zoo.Stringer)(nil)).Elem() }},
		{"array0-or-1-plain", func(r *rand.Rand, b *builder) reflect.Type {
			for {
				e := b.core(r, 1)
				if !isPtrShaped(e) {
					return reflect.ArrayOf(r.Intn(2), e)
				}
			}
		}},
		{"ptr-to-container", func(r *rand.Rand, b *builder) reflect.Type {
			return structOf(reflect.StructField{Name: "PC", Type: reflect.PtrTo(pick(r, reflect.SliceOf(b.core(r, 0)), reflect.MapOf(tStr, b.core(r, 0)), reflect.ArrayOf(2, b.core(r, 0)), TBytes, TRaw, TIface)), Tag: pickTag(r)},
				reflect.StructField{Name: "K", Type: tInt})
		}},
		{"recmap", func(r *rand.Rand, b *builder) reflect.Type { return reflect.TypeOf(zoo.RecMap{}) }},
		{"byte-kind-marshaler-slices", func(r *rand.Rand, b *builder) reflect.Type {
			e := pick(r, reflect.TypeOf(zoo.TPB(0)), reflect.TypeOf(zoo.MPB(0)), reflect.TypeOf(zoo.TVB(0)))
			sl := reflect.SliceOf(e)
			return pick(r, structOf(reflect.StructField{Name: "BS", Type: sl, Tag: `json:"bs"`}, reflect.StructField{Name: "K", Type: tInt}),
				structOf(reflect.StructField{Name: "PBS", Type: reflect.PtrTo(sl), Tag: `json:"pbs"`}, reflect.StructField{Name: "K", Type: tInt}),
				reflect.SliceOf(sl), reflect.ArrayOf(2, sl), reflect.MapOf(tStr, sl), sl)
		}},
		{"name-collisions", func(r *rand.Rand, b *builder) reflect.Type {
			fs := []reflect.StructField{{Name: "A", Type: b.core(r, 0)}, {Name: "Ab", Type: b.core(r, 0), Tag: `json:"a"`}, {Name: "AB", Type: tInt, Tag: `json:"A"`},
				{Name: "X", Type: tStr, Tag: `json:"ab"`}, {Name: "Y", Type: tInt, Tag: `json:"Ab,omitempty"`}, {Name: "Abc", Type: tInt}}
			r.Shuffle(len(fs), func(i, j int) { fs[i], fs[j] = fs[j], fs[i] })
			return reflect.StructOf(fs[:2+r.Intn(5)])
		}},
		{"unmarshaler-types", func(r *rand.Rand, b *builder) reflect.Type {
			return pick(r, reflect.TypeOf(zoo.UP{}), reflect.TypeOf(zoo.UT{}), reflect.TypeOf(zoo.UTS("")), reflect.TypeOf(zoo.UTI(0)))
		}},
	}
}

func pickTag(r *rand.Rand) reflect.StructTag {
	return reflect.StructTag([]string{"", `json:"pc"`, `json:"pc,omitempty"`}[r.Intn(3)])
}

// TypeOpts steers the grammar.
type TypeOpts struct {
	FeatureProb  int // percent of types that get one feature injected (0 = core only)
	Feature      int // if >0, force Features[Feature-1]
	NoIface      bool
	MaxFields    int
	NoMarshalers bool
}

type builder struct {
	o       TypeOpts
	feat    string
	want    bool // a feature is still to be injected
	featIdx int
}

// Type generates a random Go type; the second result names the injected feature ("" = core).
func Type(r *rand.Rand, depth int, o TypeOpts) (reflect.Type, string) {
	for try := 0; ; try++ {
		b := &builder{o: o}
		if o.Feature > 0 {
			b.want, b.featIdx = true, o.Feature-1
		} else if o.FeatureProb > 0 && r.Intn(100) < o.FeatureProb {
			b.want, b.featIdx = true, r.Intn(len(Features))
		}
		t := safe(func() reflect.Type { return b.typ(r, depth, 0) })
		if t == nil {
			continue
		}
		if b.want && b.feat == "" {
			// the walk never reached an injection point: wrap
			ft := safe(func() reflect.Type { return Features[b.featIdx].Make(r, b) })
			if ft == nil {
				continue
			}
			b.feat = Features[b.featIdx].Name
			switch r.Intn(3) {
			case 0:
				t = ft
			case 1:
				t = reflect.SliceOf(ft)
			default:
				t = safe(func() reflect.Type {
					return reflect.StructOf([]reflect.StructField{{Name: "A", Type: t}, {Name: "Fx", Type: ft, Tag: `json:"fx"`}})
				})
				if t == nil {
					continue
				}
			}
		}
		return t, b.feat
	}
}

func safe(f func() reflect.Type) (t reflect.Type) {
	defer func() {
		if recover() != nil {
			t = nil
		}
	}()
	return f()
}

// core returns a feature-free type of small depth.
func (b *builder) core(r *rand.Rand, depth int) reflect.Type {
	nb := &builder{o: b.o}
	return nb.typ(r, depth, 0)
}

func (b *builder) leaf(r *rand.Rand) reflect.Type {
	if !b.o.NoMarshalers && r.Intn(3) == 0 {
		return CoreZoo[r.Intn(len(CoreZoo))]
	}
	t := ScalarTypes[r.Intn(len(ScalarTypes))]
	if b.o.NoIface && t == TIface {
		return tInt
	}
	return t
}

func (b *builder) typ(r *rand.Rand, depth int, ptrDepth int) reflect.Type {
	if b.want && b.feat == "" && r.Intn(3) == 0 {
		b.feat = Features[b.featIdx].Name
		return Features[b.featIdx].Make(r, b)
	}
	if depth <= 0 || r.Intn(3) == 0 {
		return b.leaf(r)
	}
	switch r.Intn(7) {
	case 0:
		return reflect.SliceOf(b.typ(r, depth-1, 0))
	case 1:
		e := b.typ(r, depth-1, 0)
		return reflect.ArrayOf(2+r.Intn(2), e)
	case 2:
		kt := coreKeyTypes[r.Intn(len(coreKeyTypes))]
		return reflect.MapOf(kt, b.typ(r, depth-1, 0))
	case 3:
		if ptrDepth >= 1 {
			return b.typ(r, depth-1, 0)
		}
		e := b.typ(r, depth-1, 1)
		// core: one level of pointer to a non-marshaler, non-pointer-shaped thing
		if e.Kind() == reflect.Ptr || e.Kind() == reflect.Map || e.Kind() == reflect.Slice || e.Kind() == reflect.Array || e.Kind() == reflect.Interface || implementsMarshaler(e) || isPtrShaped(e) {
			return e
		}
		return reflect.PtrTo(e)
	default:
		max := b.o.MaxFields
		if max == 0 {
			max = 6
		}
		n := r.Intn(max + 1)
		// wide structs: go-json's decoder has three key-lookup implementations, chosen by the
		// number of members (<= 8, 9..16, more)
		wide := false
		if b.o.MaxFields == 0 {
			switch r.Intn(14) {
			case 0:
				n, wide = 9+r.Intn(8), true
			case 1:
				n, wide = 17+r.Intn(6), true
			}
		}
		var fs []reflect.StructField
		used := map[string]bool{}
		usedJSON := map[string]bool{}
		var order []int
		if wide {
			order = r.Perm(len(fieldNames) + len(wideNames))
		}
		for i := 0; i < n; i++ {
			nm := fieldNames[r.Intn(len(fieldNames))]
			if wide {
				if j := order[i]; j < len(fieldNames) {
					nm = fieldNames[j]
				} else {
					nm = wideNames[j-len(fieldNames)]
				}
			}
			if used[nm] {
				continue
			}
			used[nm] = true
			fd := depth - 1
			if wide && fd > 1 {
				fd = 1
			}
			ft := b.typ(r, fd, 0)
			tag := ""
			tn0 := ""
			if r.Intn(2) == 0 {
				tn := tagNames[r.Intn(len(tagNames))]
				tn0 = tn
				opts := ""
				if r.Intn(3) == 0 && !implementsMarshaler(ft) && !(ft.Kind() == reflect.Array && ft.Len() == 0) {
					opts += ",omitempty"
				}
				if r.Intn(4) == 0 && stringOptCore(ft) {
					opts += ",string"
				}
				if r.Intn(14) == 0 {
					tn, opts = "-", ""
				}
				tag = fmt.Sprintf(`json:"%s%s"`, tn, opts)
			}
			// core structs have JSON names that are unique even case-insensitively; colliding
			// names are the "name-collisions" feature
			jn := nm
			if tag != "" && tn0 != "" {
				jn = tn0
			}
			if tag != `json:"-"` {
				if usedJSON[strings.ToLower(jn)] {
					continue
				}
				usedJSON[strings.ToLower(jn)] = true
			}
			fs = append(fs, reflect.StructField{Name: nm, Type: ft, Tag: reflect.StructTag(tag)})
		}
		if len(fs) == 1 && isPtrShaped(fs[0].Type) {
			fs = append(fs, reflect.StructField{Name: "Pad", Type: tInt, Tag: `json:"pad"`})
		}
		return reflect.StructOf(fs)
	}
}

// stringOptCore: ",string" on integers and bools only is part of the core grammar.
func stringOptCore(t reflect.Type) bool {
	if t.PkgPath() != "" {
		return false
	}
	switch t.Kind() {
	case reflect.Int, reflect.Int8, reflect.Int16, reflect.Int32, reflect.Int64, reflect.Uint, reflect.Uint8, reflect.Uint16, reflect.Uint32, reflect.Uint64, reflect.Uintptr, reflect.Bool:
		return true
	}
	return false
}

func isPtrShaped(t reflect.Type) bool {
	switch t.Kind() {
	case reflect.Ptr, reflect.Map, reflect.Chan, reflect.Func, reflect.UnsafePointer:
		return true
	case reflect.Struct:
		return t.NumField() == 1 && isPtrShaped(t.Field(0).Type)
	case reflect.Array:
		return t.Len() == 1 && isPtrShaped(t.Elem())
	}
	return false
}

var (
	marshalerT     = reflect.TypeOf((*stdjson.Marshaler)(nil)).Elem()
	textMarshalerT = reflect.TypeOf((*interface{ MarshalText() ([]byte, error) })(nil)).Elem()
)

func implementsMarshaler(t reflect.Type) bool {
	if t.Kind() == reflect.Interface {
		return false
	}
	return t.Implements(marshalerT) || t.Implements(textMarshalerT) || reflect.PtrTo(t).Implements(marshalerT) || reflect.PtrTo(t).Implements(textMarshalerT)
}
