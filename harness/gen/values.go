package gen

import (
	"math"
	"math/rand"
	"reflect"
	"time"
	"unicode/utf8"
)

var Strs = []string{"", "a", "hello", "<&>", " x", "\x00", "\"q\"", "back\\slash", "é", "日本", "\xff\xfe", "tab\t", "nl\n", "12", "true", "null", "-5", "1.5",
	"abcdefghijklmnopq", "\x7f", "é\x80", " x", " ", "😀", "\x1f", "a\bb\fc\rd", "</script>", "\xed\xa0\x80", "0123456789abcdef0123456789abcdef", "key"}

// Edge strings: the first and last code point of every UTF-8 length class and of every range a
// validator's tables distinguish (E0/ED/F0/F4 second-byte ranges, the surrogate gap, U+2028/9), the
// supplementary code points whose UTF-16 halves sit at the ends of their ranges, and one ill-formed
// sequence just outside each of those ranges.
func init() {
	for _, r := range []rune{0x7f, 0x80, 0x7ff, 0x800, 0xfff, 0x1000, 0xcfff, 0xd000, 0xd7ff, 0xe000, 0xfffd, 0xffff, 0x2027, 0x2028, 0x2029, 0x202a,
		0x10000, 0x103ff, 0x1f400, 0x3ffff, 0x40000, 0xfffff, 0x100000, 0x10fc00, 0x10ffff} {
		Strs = append(Strs, string(r), "a"+string(r)+"b")
	}
	// plain ASCII of every length class of the 8-byte scanning window whose only special byte is the last
	for _, L := range []int{1, 7, 8, 9, 10, 15, 16, 17, 23, 25} {
		for _, sp := range []string{`"`, `\`, "\n", "\x01", "<", "\x7f", "\xff"} {
			Strs = append(Strs, "abcdefghijklmnopqrstuvwxyz"[:L-1]+sp)
		}
	}
	Strs = append(Strs, "\xc0\x80", "\xc1\xbf", "\xc2", "\xdf", "\xe0\x80\x80", "\xe0\x9f\xbf", "\xe0\xa0", "\xed\x9f", "\xed\xbf\xbf",
		"\xee\x80", "\xf0\x80\x80\x80", "\xf0\x8f\xbf\xbf", "\xf0\x90\x80", "\xf4\x8f\xbf", "\xf4\x90\x80\x80", "\xf4\xbf\xbf\xbf", "\xf5\x80\x80\x80",
		"\xf8\x88\x80\x80\x80", "\xe2\x82", "\xf0\x9f\x98", "\x80", "\xbf", "\xfe", "x\xf4\x90\x80\x80y", "x\xed\xa0\x80y")
}

var I64s = []int64{0, 1, -1, 9, 10, 11, 99, 100, 101, 127, 128, -128, -129, 255, 256, 999, 1000, 9999, 10000, 32767, 32768, -32768, -32769, 65535, 65536,
	99999, 100000, math.MaxInt32, math.MinInt32, math.MaxInt32 + 1, math.MaxUint32, math.MaxUint32 + 1, math.MaxInt64, math.MinInt64, math.MaxInt64 - 1, math.MinInt64 + 1,
	1e15, 1e18, 999999999999999999, 1000000000000000000, 12345, -12345, 1234567890123456789}

var F64s = []float64{0, 1, -1, 0.1, 0.5, 1e20, 1e21, 9.999999999999999e20, 1e-6, 1e-7, 9.999999e-7, 123456789, 1.5, math.MaxFloat64, math.SmallestNonzeroFloat64,
	math.MaxFloat32, 3.4e38, 1e-45, 100, 0.000001, 1234567.875, math.Copysign(0, -1), 5e-324, 1e22, 1e23, 0.3, 2.2250738585072014e-308, 1e-5, 123e-20, 1e100,
	4.9e-324, 1.7976931348623157e308, 16777216, 16777217, 0.1 + 0.2, 1 / 3.0}

var Numbers = []string{"0", "1", "-1", "1.5", "1e5", "123456789012345678901234567890", "-0", "1E+2", "0.0001"}
var BadNumbers = []string{"", "1e", "01", "-", "+1", "1.", ".5", "0x1", "1 ", "NaN", "abc", "1e+", "--1", "1,2"}
var Raws = []string{`1`, `"x"`, `{"a":[1,2]}`, `[ 1 , 2 ]`, `null`, `true`, ` {"k" : "v"} `, `"<&>"`, `{"z":1,"a":2}`, `1.50`, `"é"`, "[\n1\n]"}
var BadRaws = []string{``, `{`, `[1,]`, `tru`, `"a`, `1 2`, `{"a":}`, "\"a\nb\"", `01`}

// ValOpts steers value generation.
type ValOpts struct {
	// ValidKeys: string map keys are valid UTF-8 (distinct keys then never coincide once written)
	ValidKeys bool
	NonFinite bool // allow NaN/Inf
	BadNumber bool // allow ill-formed json.Number
	BadRaw    bool // allow ill-formed RawMessage
	NilHeavy  bool
	RoundTrip bool // prefer values JSON can represent losslessly (valid UTF-8, JSON-natural interface contents)
	MaxLen    int
}

// Value builds a random value of type t.
func Value(r *rand.Rand, t reflect.Type, depth int, o ValOpts) reflect.Value {
	v := reflect.New(t).Elem()
	Fill(r, v, depth, o)
	return v
}

func Fill(r *rand.Rand, v reflect.Value, depth int, o ValOpts) {
	t := v.Type()
	if !v.CanSet() {
		return
	}
	maxLen := o.MaxLen
	if maxLen == 0 {
		maxLen = 4
	}
	switch t.Kind() {
	case reflect.Int, reflect.Int8, reflect.Int16, reflect.Int32, reflect.Int64:
		x := I64s[r.Intn(len(I64s))]
		if r.Intn(3) == 0 {
			x = r.Int63() >> uint(r.Intn(63))
			if r.Intn(2) == 0 {
				x = -x
			}
		}
		v.SetInt(x)
	case reflect.Uint, reflect.Uint8, reflect.Uint16, reflect.Uint32, reflect.Uint64, reflect.Uintptr:
		x := uint64(I64s[r.Intn(len(I64s))])
		if r.Intn(3) == 0 {
			x = r.Uint64() >> uint(r.Intn(64))
		}
		v.SetUint(x)
	case reflect.Float32, reflect.Float64:
		x := F64s[r.Intn(len(F64s))]
		if r.Intn(3) == 0 {
			x = math.Float64frombits(r.Uint64())
			if t.Kind() == reflect.Float32 {
				x = float64(math.Float32frombits(r.Uint32()))
			}
			if math.IsNaN(x) || math.IsInf(x, 0) {
				x = 2.5
			}
		}
		if r.Intn(2) == 0 {
			x = -x
		}
		if t.Kind() == reflect.Float32 && math.Abs(x) > math.MaxFloat32 {
			x = 1.25
		}
		if o.NonFinite && r.Intn(6) == 0 {
			x = []float64{math.NaN(), math.Inf(1), math.Inf(-1)}[r.Intn(3)]
		}
		v.SetFloat(x)
	case reflect.Bool:
		v.SetBool(r.Intn(2) == 0)
	case reflect.String:
		if t == TNumber {
			if o.BadNumber && r.Intn(3) == 0 {
				v.SetString(BadNumbers[r.Intn(len(BadNumbers))])
			} else {
				v.SetString(Numbers[r.Intn(len(Numbers))])
			}
			return
		}
		if o.RoundTrip {
			for {
				s := Strs[r.Intn(len(Strs))]
				if r.Intn(4) == 0 {
					s += Strs[r.Intn(len(Strs))] + Strs[r.Intn(len(Strs))]
				}
				if utf8.ValidString(s) {
					v.SetString(s)
					return
				}
			}
		}
		if r.Intn(6) == 0 {
			n := r.Intn(24)
			b := make([]byte, 0, n*2)
			for i := 0; i < n; i++ {
				b = append(b, Strs[r.Intn(len(Strs))]...)
			}
			v.SetString(string(b))
			return
		}
		v.SetString(Strs[r.Intn(len(Strs))])
	case reflect.Slice:
		if r.Intn(5) == 0 {
			return
		}
		if t == TRaw {
			if o.BadRaw && r.Intn(3) == 0 {
				v.SetBytes([]byte(BadRaws[r.Intn(len(BadRaws))]))
			} else {
				v.SetBytes([]byte(Raws[r.Intn(len(Raws))]))
			}
			return
		}
		if t.Elem().Kind() == reflect.Uint8 && t.Elem().PkgPath() == "" {
			b := make([]byte, r.Intn(7))
			r.Read(b)
			v.Set(reflect.ValueOf(b).Convert(t))
			return
		}
		n := r.Intn(maxLen)
		if depth <= 0 {
			n = 0
		}
		s := reflect.MakeSlice(t, n, n+r.Intn(2))
		for i := 0; i < n; i++ {
			Fill(r, s.Index(i), depth-1, o)
		}
		v.Set(s)
	case reflect.Array:
		for i := 0; i < t.Len(); i++ {
			Fill(r, v.Index(i), depth-1, o)
		}
	case reflect.Map:
		if r.Intn(5) == 0 {
			return
		}
		m := reflect.MakeMap(t)
		n := r.Intn(maxLen)
		if depth <= 0 {
			n = 0
		}
		for i := 0; i < n; i++ {
			k := reflect.New(t.Key()).Elem()
			ko := o
			if o.ValidKeys {
				ko.RoundTrip = true
			}
			Fill(r, k, 1, ko)
			if k.Kind() == reflect.Ptr && k.IsNil() {
				continue
			}
			e := reflect.New(t.Elem()).Elem()
			Fill(r, e, depth-1, o)
			m.SetMapIndex(k, e)
		}
		v.Set(m)
	case reflect.Ptr:
		nilP := 4
		if o.NilHeavy {
			nilP = 2
		}
		if r.Intn(nilP) == 0 || depth < -2 {
			return
		}
		p := reflect.New(t.Elem())
		Fill(r, p.Elem(), depth-1, o)
		v.Set(p)
	case reflect.Interface:
		if t.NumMethod() > 0 {
			// the only non-empty interface of the zoo is Stringer
			if r.Intn(3) != 0 {
				for _, c := range stringerImpls {
					if c.Type().Implements(t) {
						v.Set(c)
						return
					}
				}
			}
			return
		}
		k := r.Intn(9)
		if o.RoundTrip && k >= 6 {
			k = r.Intn(6)
		}
		switch k {
		case 0:
		case 1:
			v.Set(reflect.ValueOf(F64s[r.Intn(len(F64s))]))
		case 2:
			v.Set(reflect.ValueOf(Strs[r.Intn(len(Strs))]))
		case 3:
			v.Set(reflect.ValueOf(r.Intn(2) == 0))
		case 4:
			v.Set(reflect.ValueOf(map[string]interface{}{"k": 1.0, "z": "s", "a": nil, "<": []interface{}{true}}))
		case 5:
			v.Set(reflect.ValueOf([]interface{}{1.0, "x", nil, true, map[string]interface{}{}}))
		case 6:
			v.Set(reflect.ValueOf(int(r.Intn(1000))))
		default:
			if depth > 0 {
				t2, _ := Type(r, 1, TypeOpts{})
				v.Set(Value(r, t2, depth-1, o))
			}
		}
	case reflect.Struct:
		if t == TTime {
			ts := []time.Time{{}, time.Unix(0, 0).UTC(), time.Date(2020, 2, 29, 12, 30, 15, 123456789, time.UTC), time.Date(1999, 12, 31, 23, 59, 59, 0, time.FixedZone("X", 3600*5+1800)),
				time.Date(9999, 1, 1, 0, 0, 0, 0, time.UTC)}
			v.Set(reflect.ValueOf(ts[r.Intn(len(ts))]))
			return
		}
		for i := 0; i < t.NumField(); i++ {
			if r.Intn(4) == 0 {
				continue
			}
			f := v.Field(i)
			if !f.CanSet() {
				continue
			}
			Fill(r, f, depth-1, o)
		}
	}
}

var stringerImpls []reflect.Value

// RegisterStringer lets package props hand over Stringer implementations without an import cycle.
func RegisterStringer(v reflect.Value) { stringerImpls = append(stringerImpls, v) }
