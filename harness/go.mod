module verif/harness

go 1.21

require github.com/goccy/go-json v0.10.2

replace github.com/goccy/go-json => /repo
