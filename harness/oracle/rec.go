package oracle

import "strconv"

// Strict RFC 8259 recogniser with named relaxations.
type Relax uint32

const (
	RNumParseFloat Relax = 1 << iota // number := [-0-9][0-9.eE+-]* accepted by strconv.ParseFloat
	RStrRawCtl                       // raw 0x01..0x1f allowed inside strings
	RNulEnds                         // a NUL byte where a value/end is expected terminates the input
	RStrNulEnds
	RLitPrefixEOF  // true/false/null may be cut short by end of input
	RLitNoCheck    // letters of literal after first not checked (stream retry)
	RTrailAfterTop // anything may follow the top-level value
	RHexUnchecked  // \u followed by any 4 bytes
	RNumTrailJunk  // number may be followed by junk
	RLeadSep       // one leading ',' or ':' before the value is skipped
	RSkip          // a value may be consumed the way go-json's skip scanners do (see skipScan)
	RSkipJunk      // (stream) the skip scanner ignores bytes that cannot start a value
	RStrAnyEscape  // (Compact/Indent) a backslash may be followed by any byte
	RNulSkipped    // (stream) embedded NUL bytes are dropped when the reader can still be asked for data
	RTopDecoded    // (with RSkip) the destination is a struct: the top-level value and its member names are decoded, only member values may be skipped
)

// RelaxNames lists the named relaxations in the order explanations are tried. Scope says which
// entry points a relaxation may explain: "buf" = every entry point, "skip" = entry points whose
// destination makes the decoder skip (part of) the document, "stream" = Decoder/Valid only,
// "skipnum" = as "skip", but not standing for the whole skip scanner: only the number token inside a
// skipped value is not checked (decoded numbers are, since fix 9277c67).
var RelaxNames = []struct {
	Name  string
	R     Relax
	Scope string
}{
	{"num:parsefloat-grammar", RNumParseFloat, "skipnum"},
	{"str:raw-ctl", RStrRawCtl, "buf"},
	{"nul-terminates", RNulEnds, "buf"},
	{"skip:unvalidated", RSkip, "skip"},
	{"compact:str-any-escape", RStrAnyEscape, "compact"},
	{"stream:nul-skipped", RNulSkipped, "stream"},
	{"stream:leading-comma-or-colon-skipped", RLeadSep, "stream"},
	{"stream:skip-ignores-junk-before-value", RSkip | RSkipJunk, "stream"},
	{"stream:trailing-after-top", RTrailAfterTop, "stream"},
}

type rec struct {
	b  []byte
	i  int
	rx Relax
	// skipFirst: with RSkip, prefer the skip scanner over the strict parse at every value (the
	// recogniser does not backtrack, so both preferences are tried)
	skipFirst bool
}

func (r *rec) ws() {
	for r.i < len(r.b) && (r.b[r.i] == ' ' || r.b[r.i] == '\t' || r.b[r.i] == '\n' || r.b[r.i] == '\r') {
		r.i++
	}
}

func Recognise(b []byte, rx Relax) bool {
	if recognise1(b, rx, false) {
		return true
	}
	return rx&RSkip != 0 && recognise1(b, rx, true)
}

func recognise1(b []byte, rx Relax, skipFirst bool) bool {
	if rx&RNulSkipped != 0 {
		nb := make([]byte, 0, len(b))
		for i, c := range b {
			if c != 0 {
				nb = append(nb, c)
			} else if i > 0 && b[i-1] == '\\' {
				nb = append(nb, '/') // the skip scanner lets a backslash protect the NUL
			}
		}
		b = nb
	}
	r := &rec{b: b, rx: rx, skipFirst: skipFirst}
	r.ws()
	if rx&RLeadSep != 0 && r.i < len(b) && (b[r.i] == ',' || b[r.i] == ':') {
		r.i++
		r.ws()
	}
	if !r.value(0) {
		return false
	}
	r.ws()
	if r.i == len(r.b) {
		return true
	}
	if rx&RNulEnds != 0 && r.b[r.i] == 0 {
		return true
	}
	if rx&RTrailAfterTop != 0 {
		return true
	}
	return false
}

func (r *rec) lit(s string) bool {
	for k := 0; k < len(s); k++ {
		if r.i+k >= len(r.b) {
			if r.rx&RLitPrefixEOF != 0 {
				r.i = len(r.b)
				return true
			}
			return false
		}
		if r.b[r.i+k] != s[k] {
			if k > 0 && r.rx&RLitNoCheck != 0 {
				continue
			}
			return false
		}
	}
	r.i += len(s)
	return true
}

func isDigit(c byte) bool { return c >= '0' && c <= '9' }

func (r *rec) number() bool {
	if r.rx&RNumParseFloat != 0 {
		j := r.i + 1
		for j < len(r.b) {
			c := r.b[j]
			if isDigit(c) || c == '.' || c == 'e' || c == 'E' || c == '+' || c == '-' {
				j++
				continue
			}
			break
		}
		if _, err := strconv.ParseFloat(string(r.b[r.i:j]), 64); err != nil {
			if ne, ok := err.(*strconv.NumError); !ok || ne.Err != strconv.ErrRange {
				return false
			}
		}
		r.i = j
		return true
	}
	j := r.i
	if j < len(r.b) && r.b[j] == '-' {
		j++
	}
	if j >= len(r.b) {
		return false
	}
	if r.b[j] == '0' {
		j++
	} else if r.b[j] >= '1' && r.b[j] <= '9' {
		for j < len(r.b) && isDigit(r.b[j]) {
			j++
		}
	} else {
		return false
	}
	if j < len(r.b) && r.b[j] == '.' {
		j++
		if j >= len(r.b) || !isDigit(r.b[j]) {
			return false
		}
		for j < len(r.b) && isDigit(r.b[j]) {
			j++
		}
	}
	if j < len(r.b) && (r.b[j] == 'e' || r.b[j] == 'E') {
		j++
		if j < len(r.b) && (r.b[j] == '+' || r.b[j] == '-') {
			j++
		}
		if j >= len(r.b) || !isDigit(r.b[j]) {
			return false
		}
		for j < len(r.b) && isDigit(r.b[j]) {
			j++
		}
	}
	r.i = j
	return true
}

func isHex(c byte) bool {
	return isDigit(c) || (c >= 'a' && c <= 'f') || (c >= 'A' && c <= 'F')
}

func (r *rec) str() bool {
	r.i++ // opening quote
	for r.i < len(r.b) {
		c := r.b[r.i]
		switch {
		case c == '"':
			r.i++
			return true
		case c == '\\':
			r.i++
			if r.i >= len(r.b) {
				return false
			}
			switch r.b[r.i] {
			case '"', '\\', '/', 'b', 'f', 'n', 'r', 't':
				r.i++
			case 'u':
				if r.rx&RStrAnyEscape != 0 {
					r.i++
					break
				}
				if r.i+4 >= len(r.b) {
					return false
				}
				for k := 1; k <= 4; k++ {
					if !isHex(r.b[r.i+k]) && r.rx&RHexUnchecked == 0 {
						return false
					}
				}
				r.i += 5
			default:
				if r.rx&RStrAnyEscape == 0 || r.b[r.i] == 0 {
					return false
				}
				r.i++
			}
		case c == 0:
			return false
		case c < 0x20:
			if r.rx&RStrRawCtl == 0 {
				return false
			}
			r.i++
		default:
			r.i++
		}
	}
	return false
}

func (r *rec) value(depth int) bool {
	if r.rx&RSkip != 0 && !(r.rx&RTopDecoded != 0 && depth == 0) {
		save := r.i
		if r.skipFirst {
			if r.skipScan() {
				return true
			}
			r.i = save
			return r.value1(depth)
		}
		if r.value1(depth) {
			return true
		}
		r.i = save
		return r.skipScan()
	}
	return r.value1(depth)
}

// skipString: a quote ends the string, a backslash protects the next byte, NUL is the end of input.
func (r *rec) skipString() bool {
	for {
		r.i++
		if r.i >= len(r.b) {
			return false
		}
		switch r.b[r.i] {
		case '\\':
			r.i++
			if r.i >= len(r.b) || r.b[r.i] == 0 {
				return false
			}
		case '"':
			r.i++
			return true
		case 0:
			return false
		}
	}
}

// skipScan mirrors skipValue/skipObject/skipArray of go-json's decoder: containers are matched by
// counting their own bracket kind only (strings honoured), numbers are a run of [0-9.eE+-], strings
// are not validated; literals are.
func (r *rec) skipScan() bool {
	if r.rx&RSkipJunk != 0 {
		for r.i < len(r.b) {
			c := r.b[r.i]
			if c == '{' || c == '[' || c == '"' || c == '-' || isDigit(c) || c == 't' || c == 'f' || c == 'n' || c == 0 {
				break
			}
			r.i++
		}
	}
	if r.i >= len(r.b) {
		return false
	}
	switch c := r.b[r.i]; {
	case c == '{' || c == '[':
		open, close := c, byte('}')
		if c == '[' {
			close = ']'
		}
		count := 1
		r.i++
		for {
			if r.i >= len(r.b) || r.b[r.i] == 0 {
				return false
			}
			switch r.b[r.i] {
			case open:
				count++
			case close:
				count--
				if count == 0 {
					r.i++
					return true
				}
			case '"':
				if !r.skipString() {
					return false
				}
				continue
			}
			r.i++
		}
	case c == '"':
		return r.skipString()
	case c == '-' || isDigit(c):
		r.i++
		for r.i < len(r.b) {
			c := r.b[r.i]
			if isDigit(c) || c == '.' || c == 'e' || c == 'E' || c == '+' || c == '-' {
				r.i++
				continue
			}
			break
		}
		return true
	case c == 't':
		return r.lit("true")
	case c == 'f':
		return r.lit("false")
	case c == 'n':
		return r.lit("null")
	}
	return false
}

func (r *rec) value1(depth int) bool {
	if r.i >= len(r.b) {
		return false
	}
	switch c := r.b[r.i]; {
	case c == '{':
		r.i++
		r.ws()
		if r.i < len(r.b) && r.b[r.i] == '}' {
			r.i++
			return true
		}
		for {
			r.ws()
			if r.i >= len(r.b) || r.b[r.i] != '"' {
				return false
			}
			ks := r.i
			if !r.str() {
				// a struct destination steps over the rest of a member name it does not know like
				// over a skipped string (closing quote, backslash protects a byte); it is a string
				if r.rx&RSkip == 0 || r.rx&RTopDecoded == 0 || depth != 0 {
					return false
				}
				r.i = ks
				if !r.skipString() {
					return false
				}
			}
			r.ws()
			if r.i >= len(r.b) || r.b[r.i] != ':' {
				return false
			}
			r.i++
			r.ws()
			if !r.value(depth + 1) {
				return false
			}
			r.ws()
			if r.i >= len(r.b) {
				return false
			}
			if r.b[r.i] == '}' {
				r.i++
				return true
			}
			if r.b[r.i] != ',' {
				return false
			}
			r.i++
		}
	case c == '[':
		r.i++
		r.ws()
		if r.i < len(r.b) && r.b[r.i] == ']' {
			r.i++
			return true
		}
		for {
			r.ws()
			if !r.value(depth + 1) {
				return false
			}
			r.ws()
			if r.i >= len(r.b) {
				return false
			}
			if r.b[r.i] == ']' {
				r.i++
				return true
			}
			if r.b[r.i] != ',' {
				return false
			}
			r.i++
		}
	case c == '"':
		return r.str()
	case c == 't':
		return r.lit("true")
	case c == 'f':
		return r.lit("false")
	case c == 'n':
		return r.lit("null")
	case c == '-' || isDigit(c):
		return r.number()
	}
	return false
}
