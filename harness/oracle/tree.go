package oracle

import (
	"fmt"
	"strings"
	"unicode/utf16"
	"unicode/utf8"
)

// Node is an order-preserving parse tree of one strictly valid JSON text.
type Node struct {
	Kind       byte // o a s n t f z
	Str        string
	Lit        string // number literal as written
	Keys       []string
	RawKeys    []string // member names as written (between the quotes, escapes intact)
	Kids       []*Node
	Start, End int
	// IllFormed: the string token holds raw bytes that are not UTF-8 (Str has U+FFFD for them)
	IllFormed bool
}

type parser struct {
	b []byte
	i int
	// ill: the string scanned last contained raw ill-formed UTF-8
	ill bool
}

// Parse parses exactly one RFC 8259 text (surrounding whitespace allowed).
func Parse(b []byte) (*Node, error) {
	p := &parser{b: b}
	p.ws()
	n, err := p.value(0)
	if err != nil {
		return nil, err
	}
	p.ws()
	if p.i != len(b) {
		return nil, fmt.Errorf("trailing bytes at %d", p.i)
	}
	return n, nil
}

// ParseEncoderOutput accepts one text followed by exactly one LF (Encoder.Encode).
func (p *parser) ws() {
	for p.i < len(p.b) && (p.b[p.i] == ' ' || p.b[p.i] == '\t' || p.b[p.i] == '\n' || p.b[p.i] == '\r') {
		p.i++
	}
}

func (p *parser) value(depth int) (*Node, error) {
	if depth > 20000 {
		return nil, fmt.Errorf("too deep for the reference parser")
	}
	if p.i >= len(p.b) {
		return nil, fmt.Errorf("unexpected end")
	}
	start := p.i
	switch c := p.b[p.i]; {
	case c == '{':
		n := &Node{Kind: 'o', Start: start}
		p.i++
		p.ws()
		if p.i < len(p.b) && p.b[p.i] == '}' {
			p.i++
			n.End = p.i
			return n, nil
		}
		for {
			p.ws()
			if p.i >= len(p.b) || p.b[p.i] != '"' {
				return nil, fmt.Errorf("expected key at %d", p.i)
			}
			k0 := p.i
			k, err := p.str()
			if err != nil {
				return nil, err
			}
			raw := string(p.b[k0+1 : p.i-1])
			p.ws()
			if p.i >= len(p.b) || p.b[p.i] != ':' {
				return nil, fmt.Errorf("expected colon at %d", p.i)
			}
			p.i++
			p.ws()
			v, err := p.value(depth + 1)
			if err != nil {
				return nil, err
			}
			n.Keys = append(n.Keys, k)
			n.RawKeys = append(n.RawKeys, raw)
			n.Kids = append(n.Kids, v)
			p.ws()
			if p.i >= len(p.b) {
				return nil, fmt.Errorf("unexpected end")
			}
			if p.b[p.i] == '}' {
				p.i++
				n.End = p.i
				return n, nil
			}
			if p.b[p.i] != ',' {
				return nil, fmt.Errorf("expected , or } at %d", p.i)
			}
			p.i++
		}
	case c == '[':
		n := &Node{Kind: 'a', Start: start}
		p.i++
		p.ws()
		if p.i < len(p.b) && p.b[p.i] == ']' {
			p.i++
			n.End = p.i
			return n, nil
		}
		for {
			p.ws()
			v, err := p.value(depth + 1)
			if err != nil {
				return nil, err
			}
			n.Kids = append(n.Kids, v)
			p.ws()
			if p.i >= len(p.b) {
				return nil, fmt.Errorf("unexpected end")
			}
			if p.b[p.i] == ']' {
				p.i++
				n.End = p.i
				return n, nil
			}
			if p.b[p.i] != ',' {
				return nil, fmt.Errorf("expected , or ] at %d", p.i)
			}
			p.i++
		}
	case c == '"':
		s, err := p.str()
		if err != nil {
			return nil, err
		}
		return &Node{Kind: 's', Str: s, Start: start, End: p.i, IllFormed: p.ill}, nil
	case c == 't':
		return p.lit("true", 't')
	case c == 'f':
		return p.lit("false", 'f')
	case c == 'n':
		return p.lit("null", 'z')
	case c == '-' || (c >= '0' && c <= '9'):
		r := &rec{b: p.b, i: p.i}
		if !r.number() {
			return nil, fmt.Errorf("bad number at %d", p.i)
		}
		p.i = r.i
		return &Node{Kind: 'n', Lit: string(p.b[start:p.i]), Start: start, End: p.i}, nil
	}
	return nil, fmt.Errorf("unexpected byte %q at %d", p.b[p.i], p.i)
}

func (p *parser) lit(s string, k byte) (*Node, error) {
	if len(p.b)-p.i < len(s) || string(p.b[p.i:p.i+len(s)]) != s {
		return nil, fmt.Errorf("bad literal at %d", p.i)
	}
	n := &Node{Kind: k, Start: p.i}
	p.i += len(s)
	n.End = p.i
	return n, nil
}

func hexv(c byte) int {
	switch {
	case c >= '0' && c <= '9':
		return int(c - '0')
	case c >= 'a' && c <= 'f':
		return int(c-'a') + 10
	case c >= 'A' && c <= 'F':
		return int(c-'A') + 10
	}
	return -1
}

func (p *parser) hex4(at int) (rune, bool) {
	if at+4 > len(p.b) {
		return 0, false
	}
	var r rune
	for k := 0; k < 4; k++ {
		h := hexv(p.b[at+k])
		if h < 0 {
			return 0, false
		}
		r = r<<4 | rune(h)
	}
	return r, true
}

// str parses a string literal at p.i and returns its decoded contents: escapes resolved,
// surrogate pairs combined, lone surrogates and invalid UTF-8 replaced by U+FFFD (the
// behaviour of encoding/json, which the properties name as the reference).
func (p *parser) str() (string, error) {
	var sb strings.Builder
	p.ill = false
	p.i++
	for p.i < len(p.b) {
		c := p.b[p.i]
		switch {
		case c == '"':
			p.i++
			return sb.String(), nil
		case c == '\\':
			p.i++
			if p.i >= len(p.b) {
				return "", fmt.Errorf("unexpected end in escape")
			}
			switch p.b[p.i] {
			case '"':
				sb.WriteByte('"')
			case '\\':
				sb.WriteByte('\\')
			case '/':
				sb.WriteByte('/')
			case 'b':
				sb.WriteByte('\b')
			case 'f':
				sb.WriteByte('\f')
			case 'n':
				sb.WriteByte('\n')
			case 'r':
				sb.WriteByte('\r')
			case 't':
				sb.WriteByte('\t')
			case 'u':
				r, ok := p.hex4(p.i + 1)
				if !ok {
					return "", fmt.Errorf("bad \\u escape at %d", p.i)
				}
				p.i += 4
				if utf16.IsSurrogate(r) {
					// a following \uXXXX low surrogate combines
					if p.i+2 < len(p.b) && p.b[p.i+1] == '\\' && p.b[p.i+2] == 'u' {
						if r2, ok := p.hex4(p.i + 3); ok {
							if dec := utf16.DecodeRune(r, r2); dec != utf8.RuneError {
								sb.WriteRune(dec)
								p.i += 6
								break
							}
						}
					}
					sb.WriteRune(utf8.RuneError)
				} else {
					sb.WriteRune(r)
				}
			default:
				return "", fmt.Errorf("bad escape at %d", p.i)
			}
			p.i++
		case c < 0x20:
			return "", fmt.Errorf("raw control character at %d", p.i)
		case c < utf8.RuneSelf:
			sb.WriteByte(c)
			p.i++
		default:
			r, size := utf8.DecodeRune(p.b[p.i:])
			if r == utf8.RuneError && size == 1 {
				sb.WriteRune(utf8.RuneError)
				p.ill = true
			} else {
				sb.Write(p.b[p.i : p.i+size])
			}
			p.i += size
		}
	}
	return "", fmt.Errorf("unterminated string")
}

// NormNum normalises the tolerated spelling difference of number tokens (zero-padded exponents).
func NormNum(s string) string {
	for _, e := range []string{"e-0", "e+0", "E-0", "E+0"} {
		if i := strings.Index(s, e); i >= 0 && i+3 < len(s) {
			s = s[:i+2] + s[i+3:]
		}
	}
	return s
}

// Equal reports token-level equality (member order significant).
func Equal(a, b *Node) bool {
	if a.Kind != b.Kind {
		return false
	}
	switch a.Kind {
	case 's':
		return a.Str == b.Str
	case 'n':
		return NormNum(a.Lit) == NormNum(b.Lit)
	case 'o':
		if len(a.Keys) != len(b.Keys) {
			return false
		}
		for i := range a.Keys {
			if a.Keys[i] != b.Keys[i] || !Equal(a.Kids[i], b.Kids[i]) {
				return false
			}
		}
	case 'a':
		if len(a.Kids) != len(b.Kids) {
			return false
		}
		for i := range a.Kids {
			if !Equal(a.Kids[i], b.Kids[i]) {
				return false
			}
		}
	}
	return true
}
