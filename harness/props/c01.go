package props

import (
	"bytes"
	stdjson "encoding/json"
	"fmt"
	"math"
	"reflect"
	"runtime"
	"runtime/debug"
	"strings"

	gojson "github.com/goccy/go-json"

	"verif/harness/gen"
	"verif/harness/oracle"
	"verif/harness/rt"
	"verif/harness/zoo"
)

// C01 — Marshal agrees with encoding/json for every value of every supported type.
//
// Monitor "enc-diff": for (type, value, presentation, configuration) go-json succeeds iff
// encoding/json succeeds, and on success the token sequences are equal. Differences are localised
// by walking type, value and both outputs in lockstep (locateEnc).

func init() { gen.RegisterStringer(reflect.ValueOf(zoo.StrImpl{V: "si<>"})) }

type encCfg struct {
	name string
	gof  func(x any) ([]byte, error)
	stdf func(x any) ([]byte, error)
}

var encCfgs = []encCfg{
	{"Marshal", func(x any) ([]byte, error) { return gojson.Marshal(x) }, func(x any) ([]byte, error) { return stdjson.Marshal(x) }},
	{"MarshalIndent", func(x any) ([]byte, error) { return gojson.MarshalIndent(x, "", " ") }, func(x any) ([]byte, error) { return stdjson.MarshalIndent(x, "", " ") }},
	{"MarshalWithOption(DisableHTMLEscape)", func(x any) ([]byte, error) { return gojson.MarshalWithOption(x, gojson.DisableHTMLEscape()) },
		func(x any) ([]byte, error) {
			var b bytes.Buffer
			e := stdjson.NewEncoder(&b)
			e.SetEscapeHTML(false)
			err := e.Encode(x)
			return bytes.TrimSuffix(b.Bytes(), []byte("\n")), err
		}},
	{"Encoder", func(x any) ([]byte, error) {
		var b bytes.Buffer
		err := gojson.NewEncoder(&b).Encode(x)
		return b.Bytes(), err
	}, func(x any) ([]byte, error) {
		var b bytes.Buffer
		err := stdjson.NewEncoder(&b).Encode(x)
		return b.Bytes(), err
	}},
	{"Encoder(SetEscapeHTML(false),SetIndent)", func(x any) ([]byte, error) {
		var b bytes.Buffer
		e := gojson.NewEncoder(&b)
		e.SetEscapeHTML(false)
		e.SetIndent(">", "\t")
		err := e.Encode(x)
		return b.Bytes(), err
	}, func(x any) ([]byte, error) {
		var b bytes.Buffer
		e := stdjson.NewEncoder(&b)
		e.SetEscapeHTML(false)
		e.SetIndent(">", "\t")
		err := e.Encode(x)
		return b.Bytes(), err
	}},
	{"Encoder(SetIndent(prefix only))", func(x any) ([]byte, error) {
		var b bytes.Buffer
		e := gojson.NewEncoder(&b)
		e.SetIndent(">", "")
		err := e.Encode(x)
		return b.Bytes(), err
	}, func(x any) ([]byte, error) {
		var b bytes.Buffer
		e := stdjson.NewEncoder(&b)
		e.SetIndent(">", "")
		err := e.Encode(x)
		return b.Bytes(), err
	}},
	// the two colour interpreters, with a colour scheme that adds nothing to the text
	{"MarshalWithOption(Colorize(empty))", func(x any) ([]byte, error) {
		return gojson.MarshalWithOption(x, gojson.Colorize(&gojson.ColorScheme{}))
	},
		func(x any) ([]byte, error) { return stdjson.Marshal(x) }},
	{"MarshalIndentWithOption(Colorize(empty))", func(x any) ([]byte, error) {
		return gojson.MarshalIndentWithOption(x, "", " ", gojson.Colorize(&gojson.ColorScheme{}))
	}, func(x any) ([]byte, error) { return stdjson.MarshalIndent(x, "", " ") }},
}

// presentations of a value
func presentations(v reflect.Value) []struct {
	name string
	x    any
	t    reflect.Type
	v    reflect.Value
} {
	type P = struct {
		name string
		x    any
		t    reflect.Type
		v    reflect.Value
	}
	out := []P{{"direct", v.Interface(), v.Type(), v}}
	if v.CanAddr() {
		out = append(out, P{"ptr", v.Addr().Interface(), reflect.PtrTo(v.Type()), v.Addr()})
	}
	sl := []any{v.Interface()}
	out = append(out, P{"iface", sl, reflect.TypeOf(sl), reflect.ValueOf(sl)})
	return out
}

// positionWrappers holds a (member-position) struct value behind a pointer that is a later
// member, a first member, a slice element and a map value, and by value between two members.
func positionWrappers(v reflect.Value, full bool) []any {
	t := v.Type()
	pt := reflect.PtrTo(t)
	p := reflect.New(t)
	p.Elem().Set(v)
	a := reflect.StructField{Name: "A", Type: reflect.TypeOf(0), Tag: `json:"a"`}
	z := reflect.StructField{Name: "Z", Type: reflect.TypeOf(""), Tag: `json:"z"`}
	var out []any
	mk := func(fields []reflect.StructField, at int, val reflect.Value) {
		sv := reflect.New(reflect.StructOf(fields)).Elem()
		sv.Field(at).Set(val)
		for i := 0; i < sv.NumField(); i++ {
			switch {
			case i == at:
			case sv.Field(i).Kind() == reflect.Int:
				sv.Field(i).SetInt(5)
			case sv.Field(i).Kind() == reflect.String:
				sv.Field(i).SetString("z")
			}
		}
		out = append(out, sv.Interface(), sv.Addr().Interface())
	}
	mk([]reflect.StructField{a, {Name: "P", Type: pt, Tag: `json:"p"`}, z}, 1, p)
	mk([]reflect.StructField{{Name: "P", Type: pt, Tag: `json:"p"`}, z}, 0, p)
	// the same two with the pointer nil (same types: nothing new to compile)
	mk([]reflect.StructField{a, {Name: "P", Type: pt, Tag: `json:"p"`}, z}, 1, reflect.Zero(pt))
	mk([]reflect.StructField{{Name: "P", Type: pt, Tag: `json:"p"`}, z}, 0, reflect.Zero(pt))
	mk([]reflect.StructField{a, {Name: "S", Type: t, Tag: `json:"s"`}, z}, 1, v)
	sl := reflect.MakeSlice(reflect.SliceOf(pt), 2, 2)
	sl.Index(0).Set(p)
	out = append(out, sl.Interface())
	if !full {
		// every wrapper is a new type to compile (in both libraries): the quick tier uses four
		return out
	}
	mk([]reflect.StructField{a, {Name: "P", Type: pt, Tag: `json:"p,omitempty"`}}, 1, p)
	mk([]reflect.StructField{{Name: "S", Type: t, Tag: `json:"s"`}, a}, 0, v)
	m := reflect.MakeMap(reflect.MapOf(reflect.TypeOf(""), pt))
	m.SetMapIndex(reflect.ValueOf("k"), p)
	out = append(out, m.Interface())
	ar := reflect.New(reflect.ArrayOf(2, t)).Elem()
	ar.Index(1).Set(v)
	out = append(out, ar.Interface())
	return out
}

func stdRender(x any) string {
	b, err := stdjson.Marshal(x)
	if err != nil {
		return "<encoding/json: " + err.Error() + ">"
	}
	if len(b) > 1500 {
		b = append(b[:1500], "…"...)
	}
	return string(b)
}

func heapInUse() uint64 {
	var m runtime.MemStats
	runtime.ReadMemStats(&m)
	return m.HeapInuse
}

// heapGuard reports a sub-case that made the heap grow by more than 256 MB (a length or pointer
// read from the wrong place) and returns the memory, so that the blow-up is attributed to the
// case that caused it and not to a later, innocent one.
func heapGuard(c *rt.Ctx, sub int, before uint64, monitor, entry, feat string) {
	after := heapInUse()
	if after > before && after-before > 256<<20 {
		c.Violate(rt.Violation{Monitor: monitor, Entry: entry, Kind: "excessive-allocation", Ctx: featTag(feat),
			Detail: fmt.Sprintf("heap in use grew from %d MB to %d MB during this case", before>>20, after>>20), Sub: sub})
		debug.FreeOSMemory()
		debug.FreeOSMemory()
	}
}

func shapeCtx(frame string, feat string) string {
	if frame == "" {
		frame = "no-gojson-frame"
	}
	return frame + " @ " + featTag(feat)
}

// featCtx: core types keep the full structural localisation; feature types are described by the
// innermost node and the feature.
func featCtx(loc string, feat string) string {
	if feat == "" {
		return loc
	}
	if i := strings.Index(loc, " < "); i > 0 {
		loc = loc[:i]
	}
	return loc + " @ feature:" + feat
}

func featTag(feat string) string {
	if feat == "" {
		return "core"
	}
	return "feature:" + feat
}

func curDesc(t reflect.Type, feat string, x any, extra string) string {
	ts := t.String()
	if len(ts) > 3000 {
		ts = ts[:3000] + "…"
	}
	return "shapes=" + featTag(feat) + "\ntype: " + ts + "\nvalue(encoding/json): " + stdRender(x) + "\n" + extra
}

// encCompare runs one configuration on one presentation and reports mismatches.
func encCompare(c *rt.Ctx, sub int, monitor string, cfg *encCfg, pname string, x any, t reflect.Type, v reflect.Value, feat string) {
	var gb []byte
	var gerr error
	pan, msg, frame := rt.Guard(func() { gb, gerr = cfg.gof(x) })
	c.Eval(1)
	sb, serr := cfg.stdf(x)
	entry := cfg.name + "/" + pname
	input := map[string]any{"type": t.String(), "value": stdRender(x), "config": cfg.name, "presentation": pname}
	if pan {
		c.Violate(rt.Violation{Monitor: monitor, Entry: entry, Kind: "panic:" + rt.PanicClass(msg), Ctx: shapeCtx(frame, feat),
			Detail: msg + " | type " + t.String(), Input: input, Sub: sub})
		return
	}
	if (gerr != nil) != (serr != nil) {
		kind := "ok-vs-err"
		d := "go-json succeeded with " + rt.Q(gb) + ", encoding/json: " + fmt.Sprint(serr)
		ctx := "ref-error:" + errClass(serr) + " @ " + featTag(feat)
		if gerr != nil {
			kind = "err-vs-ok"
			d = "go-json: " + gerr.Error() + ", encoding/json succeeded with " + rt.Q(sb)
			ctx = "go-error:" + errClass(gerr) + " @ " + featTag(feat)
		}
		c.Violate(rt.Violation{Monitor: monitor, Entry: entry, Kind: kind, Ctx: ctx, Detail: d + " | type " + t.String(), Input: input, Sub: sub})
		return
	}
	if serr != nil {
		c.Obs("both_error", 1)
		return
	}
	if strings.HasPrefix(cfg.name, "Encoder") {
		if len(gb) == 0 || gb[len(gb)-1] != '\n' {
			c.Violate(rt.Violation{Monitor: monitor, Entry: entry, Kind: "malformed-output:missing-encoder-newline", Ctx: kindClass(t), Detail: rt.Q(gb), Input: input, Sub: sub})
			return
		}
		gb, sb = gb[:len(gb)-1], sb[:len(sb)-1]
	}
	// indentation prefix of SetIndent(">", ...) is not JSON: strip it line-wise for tokenising
	if strings.Contains(cfg.name, "SetIndent") {
		gb = bytes.ReplaceAll(gb, []byte("\n>"), []byte("\n"))
		sb = bytes.ReplaceAll(sb, []byte("\n>"), []byte("\n"))
	}
	rn, rerr := oracle.Parse(sb)
	if rerr != nil {
		c.Inconclusive("encoding/json output does not parse: " + rt.Q(sb) + ": " + rerr.Error())
		return
	}
	an, aerr := oracle.Parse(gb)
	if aerr != nil {
		c.Violate(rt.Violation{Monitor: monitor, Entry: entry, Kind: "malformed-output", Ctx: malformedClass(gb) + " @ " + featTag(feat),
			Detail: "go-json output " + rt.Q(gb) + " is not JSON (" + aerr.Error() + "); encoding/json: " + rt.Q(sb) + " | type " + t.String(), Input: input, Sub: sub})
		return
	}
	if oracle.Equal(rn, an) {
		// same tokens: the white space between them (indent configurations) must be the same too
		if !bytes.Equal(gb, sb) {
			if gs, ss := layoutSkeleton(gb), layoutSkeleton(sb); gs != ss {
				c.Violate(rt.Violation{Monitor: monitor, Entry: entry, Kind: "layout-differs", Ctx: featCtx(kindClass(t), feat),
					Detail: "go-json " + rt.Q(gb) + " encoding/json " + rt.Q(sb) + " | type " + t.String(), Input: input, Sub: sub})
				return
			}
		}
		c.Obs("agree", 1)
		return
	}
	loc := locateEnc(t, v, rn, an, nil)
	if loc == nil {
		c.Obs("agree_with_tolerated_spelling", 1)
		return
	}
	c.Violate(rt.Violation{Monitor: monitor, Entry: entry, Kind: loc.kind, Ctx: featCtx(loc.ctx, feat),
		Detail: "go-json " + rt.Q(gb) + " encoding/json " + rt.Q(sb) + " | type " + t.String(), Input: input, Sub: sub})
}

// layoutSkeleton keeps brackets, separators and white space; string contents and the characters of
// numbers and literals are dropped (their spelling is the tokenizer's business).
func layoutSkeleton(b []byte) string {
	var sb strings.Builder
	for i := 0; i < len(b); i++ {
		switch c := b[i]; c {
		case '"':
			sb.WriteByte('"')
			for i++; i < len(b) && b[i] != '"'; i++ {
				if b[i] == '\\' {
					i++
				}
			}
			sb.WriteByte('"')
		case '{', '}', '[', ']', ',', ':', ' ', '\n', '\t', '\r':
			sb.WriteByte(c)
		default:
			if n := sb.Len(); n == 0 || sb.String()[n-1] != '#' {
				sb.WriteByte('#')
			}
		}
	}
	return sb.String()
}

func errClass(err error) string {
	if err == nil {
		return "nil"
	}
	s := err.Error()
	switch {
	case strings.Contains(s, "unsupported value"):
		return "unsupported-value"
	case strings.Contains(s, "unsupported type"):
		return "unsupported-type"
	case strings.Contains(s, "invalid number literal"), strings.Contains(s, "json.Number"):
		return "invalid-number"
	case strings.Contains(s, "error calling Marshal"), strings.Contains(s, "MarshalJSON"), strings.Contains(s, "MarshalText"):
		return "marshaler"
	case strings.Contains(s, "encountered a cycle"):
		return "cycle"
	case strings.Contains(s, "invalid UTF-8"):
		return "invalid-utf8"
	case strings.Contains(s, "not been implemented"):
		return "opcode-not-implemented"
	}
	return "other"
}

func malformedClass(b []byte) string {
	s := string(b)
	switch {
	case len(b) == 0:
		return "empty"
	case strings.Contains(s, "NaN") || strings.Contains(s, "Inf"):
		return "nonfinite"
	}
	return "other"
}

// c01Type picks the type of case (batch, k): seed-independent in the quick tier.
// c01KeyKindMaps: one map per key kind the encoder has a routine for (every integer width, signed
// and unsigned, uintptr, string, named kinds), keys at the edges of the kind's range, as a value,
// behind a pointer, as a member, inside interface{} and nested.
func c01KeyKindMaps() []any {
	type named16 uint16
	type namedS string
	var out []any
	add := func(m any) {
		out = append(out, m, map[string]any{"in": m}, struct {
			A int
			M any
		}{1, m}, []any{m})
	}
	add(map[int]bool{0: true, -1: false, math.MaxInt64: true, math.MinInt64: false})
	add(map[int8]int{0: 0, -128: 1, 127: 2, -1: 3})
	add(map[int16]string{-32768: "a", 32767: "b", 0: "c"})
	add(map[int32][]int{math.MinInt32: {1}, math.MaxInt32: nil, -7: {}})
	add(map[int64]any{math.MinInt64: nil, math.MaxInt64: 1.5, 42: "x"})
	add(map[uint]bool{0: true, math.MaxUint64: false, 1 << 63: true})
	add(map[uint8]int{0: 0, 255: 1, 128: 2})
	add(map[uint16]bool{0: true, 443: false, 65535: true, 32768: false})
	add(map[uint32]string{0: "a", math.MaxUint32: "b", 1 << 31: "c", 7: "d"})
	add(map[uint64]float64{0: 0, math.MaxUint64: 1, 1 << 63: 2})
	add(map[uintptr]int{0: 0, math.MaxUint64: 1, 1 << 31: 2})
	add(map[named16]int{1: 1, 65535: 2})
	add(map[namedS]int{"a": 1, "<&>": 2, "": 3})
	add(map[string]map[uint16]map[int8]bool{"x": {9: {-9: true}}})
	// pointers to value-receiver TextMarshalers as keys, the nil pointer among them (its name is "")
	kt, ki := zoo.TVS("k"), zoo.TVI(7)
	add(map[*zoo.TVS]int{nil: 1, &kt: 2})
	add(map[*zoo.TVS]string{nil: "only-nil"})
	add(map[*zoo.TVI]bool{nil: true, &ki: false})
	return out
}

// c01ElemKindContainers: maps, slices and arrays whose value / element type is a pointer to a
// container or scalar (the compiler adjusts the pointer depth of elements in a routine of its own
// per container kind), with nil and non-nil elements.
func c01ElemKindContainers() []any {
	m1 := map[string]int{"a": 1}
	m2 := map[string]int{}
	var mnil map[string]int
	s1 := []int{1, 2}
	var snil []int
	a1 := [2]int{3, 4}
	n := 5
	str := "s"
	st := struct{ A, B int }{1, 2}
	pm1 := &m1
	return []any{
		map[string]*map[string]int{"x": &m1, "y": &m2, "z": nil, "w": &mnil},
		map[string]**map[string]int{"x": &pm1, "z": nil},
		map[int]*[]int{1: &s1, 2: &snil, 3: nil},
		map[string]*[2]int{"a": &a1, "n": nil},
		map[string]*int{"a": &n, "n": nil},
		map[string]*string{"a": &str, "n": nil},
		map[string]*struct{ A, B int }{"a": &st, "n": nil},
		[]*map[string]int{&m1, nil, &m2, &mnil},
		[]*[]int{&s1, nil, &snil},
		[3]*map[string]int{&m1, nil, &mnil},
		[2]*[2]int{&a1, nil},
		map[string]map[string]*map[string]int{"o": {"x": &m1, "z": nil}},
		struct {
			M map[string]*map[string]int
			L []*map[string]int
			P *map[string]*map[string]int
		}{M: map[string]*map[string]int{"x": &m1}, L: []*map[string]int{&m1}},
		map[string]any{"m": map[string]*map[string]int{"x": &m1}, "l": []*[]int{&s1}},
		map[string]*any{"n": nil},
		map[string][]*map[string]int{"k": {&m1, nil}},
	}
}

func c01Type(c *rt.Ctx, k int) (reflect.Type, string) {
	o := gen.TypeOpts{FeatureProb: 30}
	if c.Tier == "thorough" && k%2 == 1 {
		return gen.Type(c.RNG(1000+k), 3, o)
	}
	return gen.Type(rt.FixedRNG("C01type", c.Idx*4096+k), 3, o)
}

// c01Positions drives one member kind through every member-position struct type (gen.PositionTypes)
// and four value modes, all configurations and presentations.
func c01Positions(c *rt.Ctx, kind gen.PositionKind, monitor string) {
	r := c.RNG(77)
	nz := func(v reflect.Value) {
		for try := 0; try < 20; try++ {
			gen.Fill(r, v, 2, gen.ValOpts{RoundTrip: true})
			if !v.IsZero() {
				return
			}
		}
	}
	sub := 5000
	for _, pt := range gen.PositionTypes(kind) {
		for _, v := range gen.PositionValues(pt, kind, nz) {
			if !c.Cur(sub, curDesc(pt.T, "", v.Interface(), "")) {
				sub++
				continue
			}
			for pi, p := range presentations(v) {
				for ci := range encCfgs {
					if pi > 0 && ci != 0 && ci != 1+(sub+pi)%6 {
						continue
					}
					encCompare(c, sub, monitor, &encCfgs[ci], p.name, p.x, p.t, p.v, "")
				}
			}
			// the struct reached through a pointer that is itself a member, an element or a map
			// value (the pointer-head opcodes), and held by value inside another struct
			for wi, w := range positionWrappers(v, c.Tier == "thorough") {
				wv := reflect.ValueOf(w)
				for ci := range encCfgs {
					if ci != (sub+wi)%len(encCfgs) && ci != (sub+wi+3)%len(encCfgs) {
						continue
					}
					encCompare(c, sub, monitor, &encCfgs[ci], fmt.Sprintf("wrapped%d", wi), w, wv.Type(), wv, "")
				}
			}
			c.NonTrivial(pt.T.String(), stdRender(v.Interface()))
			sub++
		}
	}
	c.Obs("member_position_cases:"+kind.Name, int64(sub-5000))
}

func init() {
	register(&Prop{
		ID: "C01",
		NumBatches: func(tier string, seed int64) int {
			if tier == "thorough" {
				return 4096
			}
			return 512
		},
		Run: func(c *rt.Ctx) {
			per := 48
			rv := c.RNG(0)
			if c.Idx%8 == 3 {
				c01Positions(c, gen.PositionKinds[(c.Idx/8)%len(gen.PositionKinds)], "enc-diff")
			}
			if c.Idx%8 == (c.Idx/8)%8 {
				// every catalogued odd shape, deterministically: one type per shape and batch, a nil-heavy
				// and an ordinary value each
				for f := range gen.Features {
					t, feat := gen.Type(rt.FixedRNG("C01feat", c.Idx*4096+f), 1, gen.TypeOpts{Feature: f + 1})
					for vi, vo := range []gen.ValOpts{{NilHeavy: true}, {}} {
						v := gen.Value(rv, t, 3, vo)
						sub := 8000 + f*2 + vi
						if !c.Cur(sub, curDesc(t, feat, v.Interface(), "")) {
							continue
						}
						heap0 := heapInUse()
						for pi, p := range presentations(v) {
							for ci := range encCfgs {
								if pi > 0 && ci != 0 && ci != 1+(sub+pi)%6 {
									continue
								}
								encCompare(c, sub, "enc-diff", &encCfgs[ci], p.name, p.x, p.t, p.v, feat)
							}
						}
						heapGuard(c, sub, heap0, "enc-diff", "Marshal*", feat)
						c.NonTrivial(t.String(), stdRender(v.Interface()))
					}
				}
				c.Obs("odd_shape_sweeps", 1)
			}
			if c.Idx%64 == 7 {
				// acyclic sharing in a recursive type, around the depth where cycle detection starts
				for di, d := range []int{2, 999, 1000, 1001, 1002, 1500} {
					x := dagRec(d)
					if !c.Cur(7000+di, fmt.Sprintf("shapes=core\nshared nodes in a %d-deep chain of RecDag", d)) {
						continue
					}
					v := reflect.ValueOf(x)
					for ci := range encCfgs {
						if d > 100 && strings.Contains(encCfgs[ci].name, "ndent") {
							continue // indentation of a 1000-deep chain is quadratic; C08 drives those
						}
						encCompare(c, 7000+di, "enc-diff", &encCfgs[ci], "direct", x, v.Type(), v, "")
					}
					w := map[string]any{"v": x}
					encCompare(c, 7000+di, "enc-diff", &encCfgs[0], "iface", w, reflect.TypeOf(w), reflect.ValueOf(w), "")
					c.NonTrivial("dag", fmt.Sprint(d))
				}
			}
			if c.Idx%64 == 11 {
				// members shadowed across two and three levels of embedding (value and pointer)
				d3 := zoo.ShDeep3{X: 33, W: 34}
				dp := zoo.ShDeep{X: 21, Y: 22, ShDeep3: d3}
				shadows := []any{zoo.ShTop{X: "top", ShMid: zoo.ShMid{ShDeep: dp, Z: 3}}, &zoo.ShTop{X: "p"}, zoo.ShTopP{X: "top", ShMidP: &zoo.ShMidP{ShDeep: &dp, Z: 3}}, zoo.ShTopP{X: "nilmid"},
					zoo.ShTopP{X: "nildeep", ShMidP: &zoo.ShMidP{Z: 4}}, zoo.ShTop1{ShMid1: zoo.ShMid1{W: "w", ShDeep: dp}, K: 5}, []zoo.ShTop{{X: "a"}, {X: "b", ShMid: zoo.ShMid{Z: 1}}},
					map[string]any{"s": zoo.ShTop{X: "in-map", ShMid: zoo.ShMid{ShDeep: dp}}}, zoo.ShMid{ShDeep: dp, Z: 9}}
				for si, x := range shadows {
					if !c.Cur(7100+si, fmt.Sprintf("shapes=core\nshadowed embedded members: %T", x)) {
						continue
					}
					v := reflect.ValueOf(x)
					for ci := range encCfgs {
						encCompare(c, 7100+si, "enc-diff", &encCfgs[ci], "direct", x, v.Type(), v, "")
					}
					c.NonTrivial("shadow", fmt.Sprintf("%T", x))
				}
			}
			if c.Idx%64 == 17 {
				// omitempty members whose type has a value-receiver MarshalJSON, one type per kind,
				// empty and non-empty, as only / first / middle / last member and behind a pointer
				for si, x := range zoo.OMValues() {
					if !c.Cur(7700+si, fmt.Sprintf("shapes=core\nomitempty member with a value-receiver MarshalJSON: %T %v", x, x)) {
						continue
					}
					vt := reflect.TypeOf(x)
					f := reflect.StructField{Name: "V", Type: vt, Tag: `json:"v,omitempty"`}
					a := reflect.StructField{Name: "A", Type: reflect.TypeOf(0), Tag: `json:"a"`}
					z := reflect.StructField{Name: "Z", Type: reflect.TypeOf(""), Tag: `json:"z"`}
					for li, fs := range [][]reflect.StructField{{f}, {f, z}, {a, f, z}, {a, f}} {
						st := reflect.StructOf(fs)
						v := reflect.New(st).Elem()
						v.FieldByName("V").Set(reflect.ValueOf(x))
						for ci := range encCfgs {
							encCompare(c, 7700+si, "enc-diff", &encCfgs[ci], fmt.Sprintf("layout%d", li), v.Interface(), st, v, "")
							if li == 2 {
								encCompare(c, 7700+si, "enc-diff", &encCfgs[ci], "ptr", v.Addr().Interface(), reflect.PtrTo(st), v.Addr(), "")
							}
						}
					}
					c.NonTrivial("omitm", fmt.Sprintf("%T%v", x, x))
				}
			}
			if c.Idx%64 == 16 {
				for si, x := range append(recEmbValues(0), append(recEmbValues(3), recEmbValues(40)...)...) {
					if !c.Cur(7600+si, fmt.Sprintf("shapes=core\nembedded recursive struct: %T", x)) {
						continue
					}
					v := reflect.ValueOf(x)
					for ci := range encCfgs {
						encCompare(c, 7600+si, "enc-diff", &encCfgs[ci], "direct", x, v.Type(), v, "")
					}
					c.NonTrivial("recemb", fmt.Sprintf("%T", x), fmt.Sprint(si))
				}
			}
			if c.Idx%64 == 15 {
				for si, x := range c01ElemKindContainers() {
					if !c.Cur(7500+si, fmt.Sprintf("shapes=core\ncontainers of pointers to containers: %T", x)) {
						continue
					}
					v := reflect.ValueOf(x)
					for ci := range encCfgs {
						encCompare(c, 7500+si, "enc-diff", &encCfgs[ci], "direct", x, v.Type(), v, "")
					}
					c.NonTrivial("elemkind", fmt.Sprintf("%T", x))
				}
			}
			if c.Idx%64 == 13 {
				for si, x := range c01KeyKindMaps() {
					if !c.Cur(7300+si, fmt.Sprintf("shapes=core\nmaps of every key kind: %T", x)) {
						continue
					}
					v := reflect.ValueOf(x)
					for ci := range encCfgs {
						encCompare(c, 7300+si, "enc-diff", &encCfgs[ci], "direct", x, v.Type(), v, "")
					}
					c.NonTrivial("keykind", fmt.Sprintf("%T", x), fmt.Sprint(si))
				}
			}
			if c.Idx%64 == 14 {
				// byte slices whose base64 text is around what is left of a pooled output buffer
				// (1024 bytes when fresh), on emptied and on warm pools
				for si, n := range []int{0, 1, 2, 3, 4, 100, 700, 760, 764, 765, 766, 767, 768, 770, 1000, 1535, 1536, 3000, 49152, 70000} {
					b := make([]byte, n)
					for i := range b {
						b[i] = byte(i*13 + n)
					}
					if !c.Cur(7400+si, fmt.Sprintf("shapes=core\nbyte slice of %d bytes", n)) {
						continue
					}
					for _, x := range []any{b, struct {
						A string
						B []byte
						C []byte
					}{"pad", b, b[:n/2]}, [][]byte{b[:n/3], b}, map[string]any{"k": b}} {
						v := reflect.ValueOf(x)
						for ci := range encCfgs {
							if ci%2 == 0 {
								runtime.GC()
								runtime.GC()
							}
							encCompare(c, 7400+si, "enc-diff", &encCfgs[ci], "direct", x, v.Type(), v, "")
						}
					}
					c.NonTrivial("bytes", fmt.Sprint(n))
				}
			}
			if c.Idx%64 == 12 {
				// types with both MarshalJSON and MarshalText (pointer receivers, value receivers,
				// one of each): as by-value and pointer members of structs with one and several
				// members, elements, map values and keys, reached by value and through a pointer
				type both2 struct {
					A int
					P zoo.BothP
					V zoo.BothV
					J zoo.BothJV
					T zoo.BothTV
					Z string
				}
				type both1 struct{ P zoo.BothP }
				type bothPtr struct {
					P *zoo.BothP
					V *zoo.BothV
					J *zoo.BothJV
					T *zoo.BothTV `json:"t,omitempty"`
				}
				b2 := both2{1, zoo.BothP{N: 2}, zoo.BothV{N: 3}, zoo.BothJV{N: 4}, zoo.BothTV{N: 5}, "z"}
				boths := []any{b2, &b2, both1{zoo.BothP{N: 6}}, &both1{zoo.BothP{N: 7}}, bothPtr{&zoo.BothP{N: 8}, &zoo.BothV{N: 9}, &zoo.BothJV{N: 10}, &zoo.BothTV{N: 20}},
					[]zoo.BothP{{N: 11}, {N: 12}}, []*zoo.BothP{{N: 13}}, &[2]zoo.BothTV{{N: 14}}, map[string]zoo.BothP{"k": {N: 15}}, map[string]*both2{"k": &b2}, []both2{b2},
					[]any{b2, &b2, zoo.BothP{N: 16}, &zoo.BothP{N: 17}, zoo.BothV{N: 18}}, map[zoo.BothV]int{{N: 19}: 1}, struct{ I any }{&b2}}
				for si, x := range boths {
					if !c.Cur(7200+si, fmt.Sprintf("shapes=core\ntypes with both marshalers: %T", x)) {
						continue
					}
					v := reflect.ValueOf(x)
					for ci := range encCfgs {
						encCompare(c, 7200+si, "enc-diff", &encCfgs[ci], "direct", x, v.Type(), v, "")
					}
					c.NonTrivial("both", fmt.Sprintf("%T", x))
				}
			}
			for k := 0; k < per; k++ {
				t, feat := c01Type(c, k)
				vo := gen.ValOpts{NilHeavy: k%3 == 0}
				if feat == "" {
					// value features are injected into feature-free types only
					switch k % 12 {
					case 0:
						vo.NonFinite, feat = true, "val:nonfinite"
					case 1:
						vo.BadNumber, feat = true, "val:bad-number"
					case 2:
						vo.BadRaw, feat = true, "val:bad-raw"
					}
				}
				v := gen.Value(rv, t, 3, vo)
				if k == per-1 && c.Idx%16 == 0 {
					// the whole edge-string table, deterministically: as elements, as members with and
					// without omitempty and behind interface{} (,string on strings is the string-opt feature)
					type strRow struct {
						A string `json:"a"`
						O string `json:"o,omitempty"`
						I any    `json:"i"`
					}
					rows := make([]strRow, len(gen.Strs))
					for i, x := range gen.Strs {
						rows[i] = strRow{x, x, x}
					}
					t, feat = reflect.TypeOf(rows), ""
					v = reflect.ValueOf(rows)
				}
				c.Obs("types:"+featTag(feat), 1)
				if !c.Cur(k, curDesc(t, feat, v.Interface(), "")) {
					continue
				}
				nt := false
				heap0 := heapInUse()
				for pi, p := range presentations(v) {
					for ci := range encCfgs {
						// every configuration on the direct presentation; Marshal and one more on the others
						if pi > 0 && ci != 0 && ci != 1+(k+pi)%4 {
							continue
						}
						encCompare(c, k, "enc-diff", &encCfgs[ci], p.name, p.x, p.t, p.v, feat)
					}
					nt = true
				}
				heapGuard(c, k, heap0, "enc-diff", "Marshal*", feat)
				if nt {
					c.NonTrivial(t.String(), stdRender(v.Interface()))
					c.SetAdd("kind_classes", kindClass(t))
				}
				if k == 0 {
					c.Sample(map[string]any{"type": t.String(), "value": stdRender(v.Interface())})
				}
			}
		},
	})
}

func stdMarshal(x any) ([]byte, error) { return stdjson.Marshal(x) }
