package props

import (
	"bytes"
	stdjson "encoding/json"
	"fmt"
	"math/rand"
	"reflect"
	"strings"
	"unicode/utf8"

	gojson "github.com/goccy/go-json"

	"verif/harness/gen"
	"verif/harness/oracle"
	"verif/harness/rt"
	"verif/harness/zoo"
)

// C02 — Unmarshal agrees with encoding/json on every valid document and target.
//
// Monitor "dec-diff": for (RFC-valid, UTF-8-valid document, destination type, initial destination,
// option set) go-json returns an error exactly when encoding/json does; when both succeed the
// destinations are deeply equal (reflect walk incl. unexported fields, nil vs empty, float bits).
// Only verdict and value are compared — not messages, not the destination after an error.

type decCfg struct {
	name string
	gof  func(doc []byte, dst any) error
	stdf func(doc []byte, dst any) error
}

var decCfgs = []decCfg{
	{"Unmarshal", func(d []byte, x any) error { return gojson.Unmarshal(d, x) }, func(d []byte, x any) error { return stdjson.Unmarshal(d, x) }},
	{"Decoder", func(d []byte, x any) error { return gojson.NewDecoder(bytes.NewReader(d)).Decode(x) }, func(d []byte, x any) error { return stdjson.NewDecoder(bytes.NewReader(d)).Decode(x) }},
	{"Decoder(UseNumber)", func(d []byte, x any) error {
		dec := gojson.NewDecoder(bytes.NewReader(d))
		dec.UseNumber()
		return dec.Decode(x)
	}, func(d []byte, x any) error {
		dec := stdjson.NewDecoder(bytes.NewReader(d))
		dec.UseNumber()
		return dec.Decode(x)
	}},
	{"Decoder(DisallowUnknownFields)", func(d []byte, x any) error {
		dec := gojson.NewDecoder(bytes.NewReader(d))
		dec.DisallowUnknownFields()
		return dec.Decode(x)
	}, func(d []byte, x any) error {
		dec := stdjson.NewDecoder(bytes.NewReader(d))
		dec.DisallowUnknownFields()
		return dec.Decode(x)
	}},
	{"UnmarshalWithOption()", func(d []byte, x any) error { return gojson.UnmarshalWithOption(d, x) }, func(d []byte, x any) error { return stdjson.Unmarshal(d, x) }},
	{"UnmarshalNoEscape", func(d []byte, x any) error { return gojson.UnmarshalNoEscape(d, x) }, func(d []byte, x any) error { return stdjson.Unmarshal(d, x) }},
}

// twin destinations: two equal, unshared values built from the same PRNG stream
func twins(seed int64, t reflect.Type, prepop bool) (reflect.Value, reflect.Value) {
	if !prepop {
		return reflect.New(t), reflect.New(t)
	}
	a, b := reflect.New(t), reflect.New(t)
	gen.Fill(rand.New(rand.NewSource(seed)), a.Elem(), 3, gen.ValOpts{RoundTrip: true})
	gen.Fill(rand.New(rand.NewSource(seed)), b.Elem(), 3, gen.ValOpts{RoundTrip: true})
	return a, b
}

func docMutTag(mut string, prepop bool) string {
	s := "doc:" + mut
	if prepop {
		s += "+prepop"
	}
	return s
}

// c02Compare runs one configuration. feat is the type feature, mut the document mutation.
func c02Compare(c *rt.Ctx, sub int, cfg *decCfg, doc []byte, t reflect.Type, feat, mut string, prepop bool, seed int64) {
	gd, sd := twins(seed, t, prepop)
	var gerr error
	pan, msg, frame := rt.Guard(func() { gerr = cfg.gof(doc, gd.Interface()) })
	c.Eval(1)
	input := map[string]any{"type": t.String(), "doc": string(doc), "config": cfg.name, "prepopulated": prepop, "mutation": mut}
	if pan {
		c.Obs("panics_seen_judged_by_C06", 1)
		_, _ = msg, frame
		return
	}
	serr := cfg.stdf(doc, sd.Interface())
	tag := docMutTag(mut, prepop) + " @ " + featTag(feat)
	mismatch := (gerr != nil) != (serr != nil)
	if !mismatch && serr == nil {
		rt.Guard(func() { mismatch = diffValues(sd.Elem(), gd.Elem(), nil, 0) != nil })
	}
	if mismatch {
		// explanatory predicates: known root causes that predict the disagreement exactly
		if strings.HasPrefix(cfg.name, "Decoder") && !strings.Contains(cfg.name, "UseNumber") && !strings.Contains(cfg.name, "DisallowUnknownFields") && bufferAgrees(doc, t, prepop, seed) {
			how := "value"
			if gerr != nil && serr == nil {
				how = "err-vs-ok:" + msgClass(gerr.Error())
			} else if gerr == nil && serr != nil {
				how = "ok-vs-err:ref:" + stdErrClass(serr)
			}
			c.Violate(rt.Violation{Monitor: "dec-diff", Entry: cfg.name, Kind: "stream-differs-from-buffer", Ctx: how + " @ " + streamCtx(doc) + " @ " + featTag(feat),
				Detail: "Unmarshal agrees with encoding/json on this document, Decoder does not | doc " + rt.Q(doc) + " | type " + t.String(), Input: input, Sub: sub})
			return
		}
		if fixed := exactKeys(doc, t); fixed != nil && !bytes.Equal(fixed, doc) && agreeOn(cfg, fixed, t, prepop, seed) {
			c.Violate(rt.Violation{Monitor: "dec-diff", Entry: cfg.name, Kind: "field-selection:case-insensitive-match", Ctx: featTag(feat),
				Detail: "the disagreement disappears when every key is spelled exactly like its field | doc " + rt.Q(doc) + " | type " + t.String(), Input: input, Sub: sub})
			return
		}
	}
	if (gerr != nil) != (serr != nil) {
		kind := "ok-vs-err"
		d := "go-json accepted, encoding/json: " + fmt.Sprint(serr)
		cls := "ref:" + stdErrClass(serr)
		if gerr != nil {
			kind = "err-vs-ok"
			d = "go-json: " + gerr.Error() + ", encoding/json accepted"
			cls = "go:" + decErrClass(gerr) + ":" + msgClass(gerr.Error())
		}
		c.Violate(rt.Violation{Monitor: "dec-diff", Entry: cfg.name, Kind: kind, Ctx: cls + " @ " + tag, Detail: d + " | doc " + rt.Q(doc) + " | type " + t.String(), Input: input, Sub: sub})
		return
	}
	if serr != nil {
		c.Obs("both_error", 1)
		return
	}
	var d *valueDiff
	pan, msg, _ = rt.Guard(func() { d = diffValues(sd.Elem(), gd.Elem(), nil, 0) })
	if pan {
		c.Violate(rt.Violation{Monitor: "dec-diff", Entry: cfg.name, Kind: "ill-formed-destination", Ctx: tag, Detail: "walking the decoded value panicked: " + msg + " | doc " + rt.Q(doc), Input: input, Sub: sub})
		return
	}
	if d == nil {
		c.Obs("agree", 1)
		return
	}
	gs, _ := stdjson.Marshal(gd.Elem().Interface())
	ss, _ := stdjson.Marshal(sd.Elem().Interface())
	c.Violate(rt.Violation{Monitor: "dec-diff", Entry: cfg.name, Kind: "value:" + d.what, Ctx: featCtx(d.ctx(), feat) + " @ " + docMutTag(mut, prepop),
		Detail: "doc " + rt.Q(doc) + " go-json " + rt.Q(gs) + " encoding/json " + rt.Q(ss) + " | type " + t.String(), Input: input, Sub: sub})
}

// msgClass reduces an error message to a stable class: quoted parts and digits removed.
func msgClass(m string) string {
	var sb strings.Builder
	inq := false
	for _, ch := range m {
		switch {
		case ch == '"' || ch == '\'':
			inq = !inq
		case inq, ch >= '0' && ch <= '9':
		default:
			sb.WriteRune(ch)
		}
	}
	out := strings.Join(strings.Fields(sb.String()), " ")
	if len(out) > 56 {
		out = out[:56]
	}
	return out
}

// agreeOn: do both libraries agree (verdict and value) on doc under cfg?
func agreeOn(cfg *decCfg, doc []byte, t reflect.Type, prepop bool, seed int64) bool {
	gd, sd := twins(seed, t, prepop)
	var gerr error
	if pan, _, _ := rt.Guard(func() { gerr = cfg.gof(doc, gd.Interface()) }); pan {
		return false
	}
	serr := cfg.stdf(doc, sd.Interface())
	if (gerr != nil) != (serr != nil) {
		return false
	}
	if serr != nil {
		return true
	}
	ok := false
	rt.Guard(func() { ok = diffValues(sd.Elem(), gd.Elem(), nil, 0) == nil })
	return ok
}

func bufferAgrees(doc []byte, t reflect.Type, prepop bool, seed int64) bool {
	return agreeOn(&decCfgs[0], doc, t, prepop, seed)
}

// exactKeys rewrites, guided by the destination type, every object key that matches a field of
// the struct it addresses only case-insensitively into the exact spelling of that field (nil if
// the document does not parse).
func exactKeys(doc []byte, t reflect.Type) []byte {
	n, err := oracle.Parse(doc)
	if err != nil {
		return nil
	}
	var sb strings.Builder
	var w func(n *oracle.Node, t reflect.Type)
	w = func(n *oracle.Node, t reflect.Type) {
		for t != nil && t.Kind() == reflect.Ptr {
			t = t.Elem()
		}
		switch n.Kind {
		case 'o':
			sb.WriteByte('{')
			var fs []fieldInfo
			if t != nil && t.Kind() == reflect.Struct && marshClass(t) == "" {
				fs = jsonFields(t, nil, 0)
			}
			for i, k := range n.Keys {
				if i > 0 {
					sb.WriteByte(',')
				}
				var et reflect.Type
				if t != nil && t.Kind() == reflect.Map {
					et = t.Elem()
				}
				if fs != nil {
					var exact, fold *fieldInfo
					nfold := 0
					for fi := range fs {
						if fs[fi].name == k {
							exact = &fs[fi]
						} else if strings.EqualFold(fs[fi].name, k) {
							fold = &fs[fi]
							nfold++
						}
					}
					if exact != nil {
						et = exact.typ
					} else if nfold == 1 {
						k = fold.name
						et = fold.typ
					}
				}
				q, _ := stdjson.Marshal(k)
				sb.Write(q)
				sb.WriteByte(':')
				w(n.Kids[i], et)
			}
			sb.WriteByte('}')
		case 'a':
			sb.WriteByte('[')
			var et reflect.Type
			if t != nil && (t.Kind() == reflect.Slice || t.Kind() == reflect.Array) {
				et = t.Elem()
			}
			for i, k := range n.Kids {
				if i > 0 {
					sb.WriteByte(',')
				}
				w(k, et)
			}
			sb.WriteByte(']')
		default:
			sb.Write(doc[n.Start:n.End])
		}
	}
	w(n, t)
	return []byte(sb.String())
}

func stdErrClass(err error) string {
	switch err.(type) {
	case *stdjson.SyntaxError:
		return "syntax"
	case *stdjson.UnmarshalTypeError:
		te := err.(*stdjson.UnmarshalTypeError)
		w := te.Value
		if i := strings.IndexByte(w, ' '); i > 0 {
			w = w[:i]
		}
		k := "?"
		if te.Type != nil {
			k = kindClass(te.Type)
		}
		return "type:" + w + "->" + k
	case *stdjson.InvalidUnmarshalError:
		return "invalid-target"
	}
	if err != nil && strings.Contains(err.Error(), "unknown field") {
		return "unknown-field"
	}
	if err != nil && strings.Contains(err.Error(), "invalid use of ,string struct tag") {
		return "string-tag-payload"
	}
	return "other"
}

type c02Wide struct {
	A int                 `json:"a"`
	R gojson.RawMessage   `json:"r"`
	L []struct{}          `json:"l"`
	I any                 `json:"i"`
	M map[string]struct{} `json:"m"`
	Z int                 `json:"z"`
}

// c02Siblings: valid, shallow documents with more sibling containers than the nesting limit (10000)
// in every position a decoder treats differently - skipped (unknown member), kept raw, decoded into
// a slice, a map, interface{}; arrays of objects, of arrays, objects of arrays, mixed. A depth
// counter that is not decremented on the way out turns the number of siblings into a depth.
// c02Rec / c02DepthLimit: the nesting limit (10000 levels, as in encoding/json) is counted by every
// decoder that can contain itself - each keeps its own counter increment and test. Documents exactly
// at, one below and one and two above the limit, shaped so that the levels are objects into a
// self-referential struct, arrays into a self-referential slice type, objects into a recursive map,
// a mix, and untyped values; the verdict must be encoding/json's in every decode configuration.
type c02Rec struct {
	A *c02Rec           `json:"a"`
	E []c02Rec          `json:"e"`
	M map[string]c02Rec `json:"m"`
	V int               `json:"v"`
}

// (self-referential slice and map types - type T []T - cannot be compiled at all: KF-C06-SELFREF)

func c02DepthLimit(c *rt.Ctx, sub0 int) {
	tower := func(open, close, leaf string, n int) []byte {
		return []byte(strings.Repeat(open, n) + leaf + strings.Repeat(close, n))
	}
	shapes := []struct {
		name              string
		open, close, leaf string
		per               int // nesting levels per repetition
		mk                func() any
	}{
		{"struct-via-pointer", `{"a":`, "}", "null", 1, func() any { return &c02Rec{} }},
		{"struct-via-slice", `{"e":[`, "]}", `{"v":1}`, 2, func() any { return &c02Rec{} }},
		{"struct-via-map", `{"m":{"k":`, "}}", `{"v":1}`, 2, func() any { return &c02Rec{} }},
		{"untyped-arrays", "[", "]", "1", 1, func() any { var v any; return &v }},
		{"untyped-objects", `{"k":`, "}", "1", 1, func() any { var v any; return &v }},
		{"slice-of-any", "[", "]", "", 1, func() any { return &[]any{} }},
	}
	sub := sub0
	for _, sh := range shapes {
		for _, levels := range []int{9998, 9999, 10000, 10001, 10002} {
			n := levels / sh.per
			extra := 0
			if sh.leaf != "" && (sh.leaf[0] == '{' || sh.leaf[0] == '[') {
				extra = 1
			}
			if sh.leaf == "" {
				extra = 0 // "[" x n + "]" x n: the innermost pair is the n-th level
			}
			doc := tower(sh.open, sh.close, sh.leaf, n)
			depth := n*sh.per + extra
			sub++
			if !c.Cur(sub, fmt.Sprintf("shapes=core\nnesting %s, %d levels", sh.name, depth)) {
				continue
			}
			for ci := range decCfgs {
				cfg := &decCfgs[ci]
				var gerr error
				pan, msg, _ := rt.Guard(func() { gerr = cfg.gof(doc, sh.mk()) })
				serr := cfg.stdf(doc, sh.mk())
				c.Eval(1)
				if pan || (gerr != nil) != (serr != nil) {
					c.Violate(rt.Violation{Monitor: "dec-diff", Entry: cfg.name, Kind: "nesting-limit-verdict", Ctx: fmt.Sprintf("%s:levels=%d", sh.name, depth),
						Detail: fmt.Sprintf("%d levels of %s: go-json err=%v panic=%v %s; encoding/json err=%v", depth, sh.name, gerr, pan, msg, serr), Sub: sub})
				}
			}
			c.NonTrivial("depth-limit", sh.name, fmt.Sprint(depth))
		}
	}
	c.Obs("nesting_limit_documents", int64(len(shapes)*5))
}

func c02Siblings(c *rt.Ctx, sub0 int) {
	rep := func(unit string, n int) string { return strings.TrimSuffix(strings.Repeat(unit+",", n), ",") }
	vals := map[string]string{
		"array-of-objects":      "[" + rep("{}", 10050) + "]",
		"array-of-arrays":       "[" + rep("[]", 10050) + "]",
		"array-of-mixed":        "[" + rep(`{"k":[{}]}`, 5100) + "]",
		"object-of-arrays":      "{" + strings.TrimSuffix(strings.Repeat(`"k":[[]],`, 10050), ",") + "}",
		"object-of-objects":     "{" + strings.TrimSuffix(strings.Repeat(`"k":{"x":{}},`, 5100), ",") + "}",
		"array-of-string-pairs": "[" + rep(`["a","]"]`, 10050) + "]",
	}
	names := []string{"array-of-objects", "array-of-arrays", "array-of-mixed", "object-of-arrays", "object-of-objects", "array-of-string-pairs"}
	sub := sub0
	for _, vn := range names {
		val := vals[vn]
		for _, key := range []string{"zz", "r", "l", "i", "m"} {
			if (key == "l" && val[0] != '[') || (key == "m" && val[0] != '{') {
				continue
			}
			if key == "l" && vn != "array-of-objects" {
				continue
			}
			if key == "m" && vn != "object-of-objects" {
				continue
			}
			doc := []byte(`{"a":1,"` + key + `":` + val + `,"z":2}`)
			if !c.Cur(sub, "shapes=core\nsiblings: "+vn+" as member "+key) {
				sub++
				continue
			}
			for ci := range decCfgs {
				cfg := &decCfgs[ci]
				if strings.Contains(cfg.name, "DisallowUnknownFields") && key == "zz" {
					continue
				}
				var g, s c02Wide
				var gerr error
				pan, msg, _ := rt.Guard(func() { gerr = cfg.gof(doc, &g) })
				serr := cfg.stdf(doc, &s)
				c.Eval(1)
				if pan || (gerr != nil) != (serr != nil) || (serr == nil && (g.A != s.A || g.Z != s.Z || len(g.L) != len(s.L) || len(g.M) != len(s.M) || len(g.R) != len(s.R))) {
					c.Violate(rt.Violation{Monitor: "dec-diff", Entry: cfg.name, Kind: "many-siblings", Ctx: vn + ":member-" + key,
						Detail: fmt.Sprintf("%d-byte document with %s as member %q: go-json err=%v panic=%v %s (a=%d z=%d), encoding/json err=%v (a=%d z=%d)", len(doc), vn, key, gerr, pan, msg, g.A, g.Z, serr, s.A, s.Z), Sub: sub})
				}
			}
			c.NonTrivial("siblings", vn, key)
			sub++
		}
	}
	c.Obs("sibling_documents", int64(sub-sub0))
}

// c02Fresh: destinations whose unmarshalers accumulate instead of overwriting, as map keys, map
// values, slice/array elements and members, in documents with several members: encoding/json
// hands every key and every new element a fresh zero value.
type c02FreshDst struct {
	K1 map[zoo.AccFlags]int                      `json:"k1"`
	K2 map[zoo.AccDigits]string                  `json:"k2"`
	K3 map[zoo.AccStr]bool                       `json:"k3"`
	V1 map[string]zoo.AccJSON                    `json:"v1"`
	V2 map[string]*zoo.AccJSON                   `json:"v2"`
	V3 map[string]zoo.AccDigits                  `json:"v3"`
	S1 []zoo.AccJSON                             `json:"s1"`
	S2 []*zoo.AccDigits                          `json:"s2"`
	S3 []zoo.AccStr                              `json:"s3"`
	A1 [3]zoo.AccDigits                          `json:"a1"`
	M1 zoo.AccJSON                               `json:"m1"`
	M2 *zoo.AccFlags                             `json:"m2"`
	N  map[string]map[zoo.AccDigits][]zoo.AccStr `json:"n"`
}

// c02IfaceHolding: an interface{} destination (top level, member, element, map value) that already
// holds a pointer: encoding/json decodes into what the pointer points to (structs, unmarshalers of
// the three kinds, maps, slices, scalars, pointers to pointers); a non-pointer content is replaced.
func c02IfaceHolding(c *rt.Ctx, sub0 int) {
	mks := []struct {
		name string
		mk   func() any
	}{
		{"*struct", func() any { return &struct{ A, B int }{A: 1} }},
		{"*Unmarshaler", func() any { return &zoo.UP{} }},
		{"*TextUnmarshaler", func() any { return &zoo.UT{} }},
		{"*AccJSON", func() any { return &zoo.AccJSON{Seen: []string{"old"}} }},
		{"*map", func() any { m := map[string]int{"old": 1}; return &m }},
		{"*slice", func() any { s := []int{9, 9, 9}; return &s }},
		{"*int", func() any { n := 5; return &n }},
		{"**int", func() any { n := 5; p := &n; return &p }},
		{"*string", func() any { s := "old"; return &s }},
		{"*any", func() any { var a any = "old"; return &a }},
		{"struct-by-value", func() any { return struct{ A int }{A: 1} }},
		{"map-by-value", func() any { return map[string]any{"old": 1} }},
		{"nil-*struct", func() any { return (*struct{ A int })(nil) }},
	}
	docs := []string{`{"A":7,"B":8}`, `"text"`, `[1,2]`, `12`, `null`, `{"old":2,"new":3}`, `true`, `{"A":"wrong"}`}
	type holder struct {
		I any
		L []any
		M map[string]any
		P *any
	}
	sub := sub0
	for _, mk := range mks {
		for _, doc := range docs {
			if !c.Cur(sub, "shapes=core\ninterface holding "+mk.name+" <- "+doc) {
				sub++
				continue
			}
			for ci := range decCfgs {
				cfg := &decCfgs[ci]
				for form := 0; form < 3; form++ {
					var g, s any
					var d []byte
					switch form {
					case 0:
						gi, si := mk.mk(), mk.mk()
						g, s, d = &gi, &si, []byte(doc)
					case 1:
						g, s = &holder{I: mk.mk(), L: []any{mk.mk(), 1}}, &holder{I: mk.mk(), L: []any{mk.mk(), 1}}
						d = []byte(`{"I":` + doc + `,"L":[` + doc + `]}`)
					default:
						gp, sp := mk.mk(), mk.mk()
						g, s = &holder{M: map[string]any{"k": mk.mk()}, P: &gp}, &holder{M: map[string]any{"k": mk.mk()}, P: &sp}
						d = []byte(`{"M":{"k":` + doc + `},"P":` + doc + `}`)
					}
					var gerr error
					pan, msg, _ := rt.Guard(func() { gerr = cfg.gof(d, g) })
					serr := cfg.stdf(d, s)
					c.Eval(1)
					ctx := fmt.Sprintf("%s:form%d", mk.name, form)
					switch {
					case pan:
						c.Violate(rt.Violation{Monitor: "dec-diff", Entry: cfg.name, Kind: "iface-holding:panic", Ctx: ctx, Detail: string(d) + ": " + msg, Sub: sub})
					case (gerr != nil) != (serr != nil):
						c.Violate(rt.Violation{Monitor: "dec-diff", Entry: cfg.name, Kind: "iface-holding:verdict", Ctx: ctx, Detail: fmt.Sprintf("%s: go-json err=%v, encoding/json err=%v", d, gerr, serr), Sub: sub})
					case serr == nil && !reflect.DeepEqual(g, s):
						gs, _ := stdjson.Marshal(g)
						ss, _ := stdjson.Marshal(s)
						c.Violate(rt.Violation{Monitor: "dec-diff", Entry: cfg.name, Kind: "iface-holding:value", Ctx: ctx, Detail: fmt.Sprintf("%s: go-json %s (%T), encoding/json %s (%T)", d, gs, reflect.ValueOf(g).Elem().Interface(), ss, reflect.ValueOf(s).Elem().Interface()), Sub: sub})
					}
				}
			}
			c.NonTrivial("iface-holding", mk.name, doc)
			sub++
		}
	}
	c.Obs("interface_holding_cases", int64(sub-sub0))
}

// c02EmptyValues: the empty spelling of every kind ("", [], {}, 0, false, null) into destinations
// that are zero and that already hold something, as top-level value, member, repeated member,
// element and map value. nil and empty are different results (reflect.DeepEqual tells them apart).
func c02EmptyValues(c *rt.Ctx, sub0 int) {
	type dst struct {
		B  []byte
		S  string
		L  []int
		M  map[string]int
		A  [3]int
		P  *int
		I  int
		T  bool
		R  stdjson.RawMessage
		N  stdjson.Number
		X  any
		St struct{ Q int }
		LB [][]byte
		MB map[string][]byte
		LS []string
		F  float64
		PB *[]byte
	}
	seven := 7
	full := func() *dst {
		pb := []byte("old")
		return &dst{B: []byte("old"), S: "old", L: []int{1, 2}, M: map[string]int{"old": 1}, A: [3]int{1, 2, 3}, P: &seven, I: 7, T: true, R: stdjson.RawMessage(`"old"`), N: "7", X: "old",
			St: struct{ Q int }{7}, LB: [][]byte{[]byte("old")}, MB: map[string][]byte{"k": []byte("old")}, LS: []string{"old"}, F: 7.5, PB: &pb}
	}
	empties := map[string][]string{
		"B": {`""`, `null`, `[]`}, "S": {`""`, `null`}, "L": {`[]`, `null`}, "M": {`{}`, `null`}, "A": {`[]`, `null`, `[0]`}, "P": {`0`, `null`}, "I": {`0`, `null`, `-0`}, "T": {`false`, `null`},
		"R": {`""`, `null`, `[]`, `{}`, `0`}, "N": {`0`, `null`, `"0"`}, "X": {`""`, `null`, `[]`, `{}`, `0`, `false`}, "St": {`{}`, `null`}, "LB": {`[]`, `[""]`, `["",""]`, `[null]`},
		"MB": {`{}`, `{"k":""}`, `{"k":null}`, `{"":""}`}, "LS": {`[]`, `[""]`, `[null]`}, "F": {`0`, `0.0`, `null`, `-0.0`}, "PB": {`""`, `null`},
	}
	names := []string{"B", "S", "L", "M", "A", "P", "I", "T", "R", "N", "X", "St", "LB", "MB", "LS", "F", "PB"}
	sub := sub0
	for _, name := range names {
		for _, val := range empties[name] {
			docs := []string{`{"` + name + `":` + val + `}`, `{"I":1,"` + name + `":` + val + `,"S":"s"}`, `{"` + name + `":` + stdExample(name) + `,"` + name + `":` + val + `}`}
			if !c.Cur(sub, "shapes=core\nempty value "+val+" into member "+name) {
				sub++
				continue
			}
			for _, doc := range docs {
				for ci := range decCfgs {
					cfg := &decCfgs[ci]
					for _, pre := range []bool{false, true} {
						g, s := &dst{}, &dst{}
						if pre {
							g, s = full(), full()
						}
						var gerr error
						pan, msg, _ := rt.Guard(func() { gerr = cfg.gof([]byte(doc), g) })
						serr := cfg.stdf([]byte(doc), s)
						c.Eval(1)
						ctx := fmt.Sprintf("%s:prepopulated=%v", name, pre)
						switch {
						case pan:
							c.Obs("panics_seen_judged_by_C06", 1)
							_ = msg
						case (gerr != nil) != (serr != nil):
							c.Violate(rt.Violation{Monitor: "dec-diff", Entry: cfg.name, Kind: "empty-value:verdict", Ctx: ctx, Detail: fmt.Sprintf("%s: go-json err=%v, encoding/json err=%v", doc, gerr, serr), Sub: sub})
						case serr == nil && !reflect.DeepEqual(g, s):
							c.Violate(rt.Violation{Monitor: "dec-diff", Entry: cfg.name, Kind: "empty-value:value", Ctx: ctx, Detail: fmt.Sprintf("%s: go-json %#v, encoding/json %#v", doc, reflect.ValueOf(g).Elem().FieldByName(name).Interface(), reflect.ValueOf(s).Elem().FieldByName(name).Interface()), Sub: sub})
						}
					}
				}
			}
			c.NonTrivial("empty", name, val)
			sub++
		}
	}
	c.Obs("empty_value_cases", int64(sub-sub0))
}

// stdExample is a non-empty document for the member (the first of a repeated pair).
func stdExample(name string) string {
	switch name {
	case "B", "PB":
		return `"QUJD"`
	case "S", "X":
		return `"first"`
	case "L", "A":
		return `[4,5,6]`
	case "M":
		return `{"first":1}`
	case "P", "I", "N", "F":
		return `5`
	case "T":
		return `true`
	case "R":
		return `[1]`
	case "St":
		return `{"Q":5}`
	case "LB":
		return `["QUJD","QQ=="]`
	case "MB":
		return `{"k":"QUJD","l":"QQ=="}`
	case "LS":
		return `["a","b"]`
	}
	return `1`
}

func c02FreshRender(d c02FreshDst) string {
	var sb strings.Builder
	v := reflect.ValueOf(d)
	for i := 0; i < v.NumField(); i++ {
		f := v.Field(i)
		if f.IsZero() {
			continue
		}
		for f.Kind() == reflect.Ptr && !f.IsNil() {
			f = f.Elem()
		}
		fmt.Fprintf(&sb, "%s=%+v ", v.Type().Field(i).Name, f.Interface())
	}
	out := sb.String()
	if len(out) > 600 {
		out = out[:600] + "..."
	}
	return out
}

func c02Fresh(c *rt.Ctx, sub0 int) {
	docs := []string{
		`{"k1":{"r":1,"w":2,"x":3}}`, `{"k1":{"rw":1,"x":2,"r":3}}`,
		`{"k2":{"12":"a","34":"b","5":"c"}}`, `{"k2":{"1":"a","1":"b"}}`,
		`{"k3":{"a":true,"b":false,"":true}}`,
		`{"v1":{"a":1,"b":[2],"c":{"d":3}}}`, `{"v2":{"a":1,"b":null,"c":"s"}}`, `{"v3":{"a":"12","b":"34"}}`,
		`{"s1":[1,"two",[3],{"f":4}]}`, `{"s2":["1","22",null,"333"]}`, `{"s3":["a","b","c"]}`, `{"a1":["1","22","333"]}`, `{"a1":["9"]}`,
		`{"m1":1,"m2":"r"}`, `{"m1":1,"m1":2,"m2":"r","m2":"w"}`,
		`{"n":{"p":{"1":["a","b"],"2":["c"]},"q":{"3":["d"]}}}`,
		`{"k1":{"r":1,"w":2},"k2":{"7":"x","8":"y"},"s1":[1,2],"s3":["z","y"],"v1":{"a":1,"b":2}}`,
	}
	sub := sub0
	for _, doc := range docs {
		if !c.Cur(sub, "shapes=core\nfresh receivers: "+doc) {
			sub++
			continue
		}
		for ci := range decCfgs {
			cfg := &decCfgs[ci]
			var g, s c02FreshDst
			var gerr error
			pan, msg, _ := rt.Guard(func() { gerr = cfg.gof([]byte(doc), &g) })
			serr := cfg.stdf([]byte(doc), &s)
			c.Eval(1)
			switch {
			case pan:
				c.Obs("panics_seen_judged_by_C06", 1)
				_ = msg
			case (gerr != nil) != (serr != nil):
				c.Violate(rt.Violation{Monitor: "dec-diff", Entry: cfg.name, Kind: "fresh-receiver:verdict", Ctx: doc[2:4], Detail: fmt.Sprintf("%s: go-json err=%v, encoding/json err=%v", doc, gerr, serr), Sub: sub})
			case serr == nil && !reflect.DeepEqual(g, s):
				c.Violate(rt.Violation{Monitor: "dec-diff", Entry: cfg.name, Kind: "fresh-receiver:value", Ctx: doc[2:4], Detail: fmt.Sprintf("%s: go-json %s, encoding/json %s", doc, c02FreshRender(g), c02FreshRender(s)), Sub: sub})
			}
		}
		c.NonTrivial("fresh", doc)
		sub++
	}
	c.Obs("fresh_receiver_documents", int64(len(docs)))
}

func init() {
	register(&Prop{
		ID: "C02",
		NumBatches: func(tier string, seed int64) int {
			if tier == "thorough" {
				return 16384
			}
			return 512
		},
		Run: func(c *rt.Ctx) {
			rv := c.RNG(0)
			if c.Idx%256 == 9 {
				c02Siblings(c, 5000)
				c02DepthLimit(c, 6000)
			}
			if c.Idx%64 == 10 {
				c02Fresh(c, 6000)
			}
			if c.Idx%128 == 11 {
				c02IfaceHolding(c, 8000)
			}
			if c.Idx%128 == 12 {
				c02EmptyValues(c, 9500)
			}
			for k := 0; k < 40; k++ {
				o := gen.TypeOpts{FeatureProb: 20}
				var t reflect.Type
				var feat string
				if c.Tier == "thorough" && k%2 == 1 {
					t, feat = gen.Type(c.RNG(1000+k), 3, o)
				} else {
					t, feat = gen.Type(rt.FixedRNG("C02type", c.Idx*4096+k), 3, o)
				}
				// type-directed base document: the reference rendering of a generated value
				v := gen.Value(rv, t, 3, gen.ValOpts{RoundTrip: true, MaxLen: 4})
				base, err := stdjson.Marshal(v.Interface())
				mut := gen.DocMutations[(c.Idx+k)%len(gen.DocMutations)]
				var doc []byte
				if err != nil || k%13 == 12 {
					doc, mut = gen.Doc(rv, 3), "generic-doc"
				} else {
					doc = gen.MutateDoc(rv, base, mut)
				}
				if !oracle.Recognise(doc, 0) || !utf8.Valid(doc) {
					c.Obs("outside_domain_document", 1)
					continue
				}
				if !c.Cur(k, "shapes="+featTag(feat)+"\ntype: "+t.String()+"\ndoc: "+string(doc)) {
					continue
				}
				prepop := k%3 == 1
				for ci := range decCfgs {
					if ci >= 2 && ci != 2+(k+c.Idx)%4 {
						continue
					}
					c02Compare(c, k, &decCfgs[ci], doc, t, feat, mut, prepop, int64(rt.Mix(uint64(c.Seed), uint64(c.Idx), uint64(k))))
				}
				c.NonTrivial(t.String(), string(doc), fmt.Sprint(prepop))
				c.SetAdd("mutations", mut)
				if k == 1 {
					c.Sample(map[string]any{"type": t.String(), "doc": string(doc), "mutation": mut, "prepopulated": prepop, "feature": featTag(feat)})
				}
			}
		},
	})
}
