package props

import (
	"bytes"
	"context"
	stdjson "encoding/json"
	"fmt"
	"io"
	"math"
	"reflect"
	"strings"
	"unicode/utf8"
	"unsafe"

	gojson "github.com/goccy/go-json"

	"verif/harness/gen"
	"verif/harness/oracle"
	"verif/harness/rt"
	"verif/harness/zoo"
)

// C03 — every successful encode is exactly one well-formed JSON text.
//
// Monitor "enc-wellformed": whatever the value, entry point and option subset (no Colorize), a
// nil error implies output accepted by the strict recogniser (one value; the Encoder adds exactly
// one LF) and valid UTF-8 while normalisation is on. Monitor "enc-reject": a value JSON cannot
// represent (non-finite float, ill-formed json.Number, ill-formed marshaler output) must give an
// error. Independent of encoding/json.

type c03Entry struct {
	name    string
	encoder bool
	normal  bool // UTF-8 normalisation on
	f       func(x any) ([]byte, error)
}

func c03Entries() []c03Entry {
	q, _ := gojson.BuildFieldQuery("A", "B", "Name", "K", "Fx", gojson.BuildSubFieldQuery("Fx").Fields("A", "K", "P"))
	qctx := gojson.SetFieldQueryToContext(context.Background(), q)
	enc := func(opts ...gojson.EncodeOptionFunc) func(any) ([]byte, error) {
		return func(x any) ([]byte, error) {
			var b bytes.Buffer
			err := gojson.NewEncoder(&b).EncodeWithOption(x, opts...)
			return b.Bytes(), err
		}
	}
	return []c03Entry{
		{"Marshal", false, true, func(x any) ([]byte, error) { return gojson.Marshal(x) }},
		{"MarshalIndent", false, true, func(x any) ([]byte, error) { return gojson.MarshalIndent(x, " ", "\t") }},
		{"MarshalNoEscape", false, true, func(x any) ([]byte, error) { return gojson.MarshalNoEscape(x) }},
		{"MarshalContext", false, true, func(x any) ([]byte, error) { return gojson.MarshalContext(context.Background(), x) }},
		{"MarshalContext+FieldQuery", false, true, func(x any) ([]byte, error) { return gojson.MarshalContext(qctx, x) }},
		{"MarshalWithOption(DisableHTMLEscape)", false, true, func(x any) ([]byte, error) { return gojson.MarshalWithOption(x, gojson.DisableHTMLEscape()) }},
		{"MarshalWithOption(UnorderedMap)", false, true, func(x any) ([]byte, error) { return gojson.MarshalWithOption(x, gojson.UnorderedMap()) }},
		{"MarshalWithOption(UnorderedMap,DisableHTMLEscape)", false, true, func(x any) ([]byte, error) {
			return gojson.MarshalWithOption(x, gojson.UnorderedMap(), gojson.DisableHTMLEscape())
		}},
		{"MarshalIndentWithOption(UnorderedMap)", false, true, func(x any) ([]byte, error) {
			return gojson.MarshalIndentWithOption(x, "", "  ", gojson.UnorderedMap())
		}},
		{"MarshalWithOption(DisableNormalizeUTF8)", false, false, func(x any) ([]byte, error) { return gojson.MarshalWithOption(x, gojson.DisableNormalizeUTF8()) }},
		{"Encoder", true, true, enc()},
		{"Encoder(UnorderedMap,DisableHTMLEscape)", true, true, enc(gojson.UnorderedMap(), gojson.DisableHTMLEscape())},
		// Debug puts a second dispatch (DebugRun) in front of each interpreter
		{"MarshalWithOption(Debug)", false, true, func(x any) ([]byte, error) {
			return gojson.MarshalWithOption(x, gojson.Debug(), gojson.DebugWith(io.Discard))
		}},
		{"MarshalIndentWithOption(Debug)", false, true, func(x any) ([]byte, error) {
			return gojson.MarshalIndentWithOption(x, "", " ", gojson.Debug(), gojson.DebugWith(io.Discard))
		}},
		{"Encoder(SetIndent).EncodeWithOption(Debug)", true, true, func(x any) ([]byte, error) {
			var b bytes.Buffer
			e := gojson.NewEncoder(&b)
			e.SetIndent("", " ")
			err := e.EncodeWithOption(x, gojson.Debug(), gojson.DebugWith(io.Discard))
			return b.Bytes(), err
		}},
		{"Encoder(SetIndent)", true, true, func(x any) ([]byte, error) {
			var b bytes.Buffer
			e := gojson.NewEncoder(&b)
			e.SetIndent("", " ")
			err := e.Encode(x)
			return b.Bytes(), err
		}},
	}
}

func outputClass(b []byte) string {
	s := string(b)
	switch {
	case len(b) == 0:
		return "empty"
	case strings.Contains(s, "NaN") || strings.Contains(s, "Inf"):
		return "nonfinite"
	}
	// raw control character inside?
	for _, c := range b {
		if c < 0x20 && c != '\n' && c != '\t' && c != '\r' {
			return "raw-control-char"
		}
	}
	if !utf8.Valid(b) {
		return "invalid-utf8"
	}
	return "other"
}

// c03Check runs every entry point on x; feat names the hostile ingredient (or "" / a type feature).
func c03Check(c *rt.Ctx, sub int, x any, t reflect.Type, feat string, asciiOnly bool, mustReject string, entries []c03Entry) {
	for i := range entries {
		e := &entries[i]
		if !e.normal && !asciiOnly {
			continue
		}
		var out []byte
		var err error
		pan, msg, frame := rt.Guard(func() { out, err = e.f(x) })
		c.Eval(1)
		input := map[string]any{"type": t.String(), "value": stdRender(x), "entry": e.name}
		if pan {
			c.Obs("panics_seen_judged_by_C08", 1)
			_, _ = msg, frame
			continue
		}
		if err != nil {
			c.Obs("errors", 1)
			continue
		}
		c.Obs("successes", 1)
		body := out
		if e.encoder {
			if len(out) == 0 || out[len(out)-1] != '\n' {
				c.Violate(rt.Violation{Monitor: "enc-wellformed", Entry: e.name, Kind: "malformed-output:encoder-newline", Ctx: featTag(feat), Detail: rt.Q(out), Input: input, Sub: sub})
				continue
			}
			body = out[:len(out)-1]
		}
		if strings.HasPrefix(e.name, "MarshalIndent") && !strings.Contains(e.name, "WithOption") {
			// prefix " " at line starts is plain whitespace: still JSON
		}
		if !oracle.Recognise(body, 0) && passthroughFeature(feat) {
			// bytes supplied by user code were copied: which lenience of the validator let them pass?
			c.Violate(rt.Violation{Monitor: "enc-wellformed", Entry: e.name, Kind: "malformed-output:passthrough", Ctx: strings.ReplaceAll(utilExplain(body), " + ", " @ "+featTag(feat)+" + ") + " @ " + featTag(feat),
				Detail: e.name + " succeeded with " + rt.Q(body) + " | type " + t.String(), Input: input, Sub: sub})
			continue
		}
		if !oracle.Recognise(body, 0) {
			ctx := featTag(feat)
			if mustReject != "" {
				// what should have been rejected (e.g. the float width) is part of the signature
				must := mustReject
				if strings.HasPrefix(must, "non-finite:") && outputClass(body) == "nonfinite" {
					// which width was written? Members that are ignored, filtered by the query or
					// omitted hold non-finite floats too, so the entry point is asked again about a
					// copy whose non-finite float32s are zero: still non-finite output = a float64
					must = "non-finite:float32"
					cp := copyZeroNonfinite32(reflect.ValueOf(x))
					var out2 []byte
					var err2 error
					if pan2, _, _ := rt.Guard(func() { out2, err2 = e.f(cp.Interface()) }); !pan2 && err2 == nil && outputClass(out2) == "nonfinite" {
						must = "non-finite:float64"
					}
				}
				ctx = must + " @ " + ctx
			}
			c.Violate(rt.Violation{Monitor: "enc-wellformed", Entry: e.name, Kind: "malformed-output:" + outputClass(body), Ctx: ctx,
				Detail: e.name + " succeeded with " + rt.Q(body) + " | type " + t.String(), Input: input, Sub: sub})
			continue
		}
		if e.normal && !utf8.Valid(body) && !passthroughFeature(feat) {
			c.Violate(rt.Violation{Monitor: "enc-wellformed", Entry: e.name, Kind: "invalid-utf8-output", Ctx: featTag(feat), Detail: rt.Q(body), Input: input, Sub: sub})
			continue
		}
		if mustReject != "" && !strings.Contains(e.name, "FieldQuery") {
			c.Violate(rt.Violation{Monitor: "enc-reject", Entry: e.name, Kind: "unrepresentable-accepted", Ctx: mustReject + " @ " + featTag(feat),
				Detail: e.name + " succeeded with " + rt.Q(body) + " for a value JSON cannot represent (" + mustReject + ")", Input: input, Sub: sub})
		}
	}
}

// passthroughFeature: bytes supplied by user code (Marshaler output, RawMessage) are copied, not
// normalised, by encoding/json as well; UTF-8 validity of the output is judged only for text the
// encoder itself produced from Go strings.
func passthroughFeature(feat string) bool {
	return feat == "val:marshaler-output" || feat == "val:bad-raw"
}

func isASCII(b []byte) bool {
	for _, c := range b {
		if c >= 0x80 {
			return false
		}
	}
	return true
}

var numAlphabet = []byte("01-+.eEx")

func numberClass(s string) string {
	for i := 0; i < len(s); i++ {
		if !strings.ContainsRune("0123456789.eE+-", rune(s[i])) {
			return "number:other-char"
		}
	}
	return "number:charclass-only"
}

func validNumber(s string) bool {
	if s == "" {
		return true // encoding/json renders the empty Number as 0
	}
	n, err := oracle.Parse([]byte(s))
	return err == nil && n.Kind == 'n'
}

func init() {
	const genBatchesQ, genBatchesT = 256, 8192
	register(&Prop{
		ID: "C03",
		NumBatches: func(tier string, seed int64) int {
			if tier == "thorough" {
				return genBatchesT + 8 + 28*28
			}
			return genBatchesQ + 8 + 28
		},
		Run: func(c *rt.Ctx) {
			entries := c03Entries()
			gb := genBatchesQ
			if c.Tier == "thorough" {
				gb = genBatchesT
			}
			switch {
			case c.Idx < gb:
				// generated types and values, hostile value features included
				rv := c.RNG(0)
				if c.Idx%64 == 13 {
					// maps of every key kind the encoder has a routine for, all entry points
					for si, x := range c01KeyKindMaps() {
						if c.Cur(6000+si, fmt.Sprintf("shapes=core\nmaps of every key kind: %T", x)) {
							ref, _ := stdjson.Marshal(x)
							c03Check(c, 6000+si, x, reflect.TypeOf(x), "", isASCII(ref) && ref != nil, "", entries)
						}
					}
				}
				if c.Idx%8 == (c.Idx/8)%8 {
					// one member kind in every member position (gen.PositionTypes), all entry points
					kind := gen.PositionKinds[(c.Idx/8)%len(gen.PositionKinds)]
					nz := func(v reflect.Value) {
						for try := 0; try < 20; try++ {
							gen.Fill(rv, v, 2, gen.ValOpts{RoundTrip: true})
							if !v.IsZero() {
								return
							}
						}
					}
					sub := 5000
					for _, pt := range gen.PositionTypes(kind) {
						for _, v := range gen.PositionValues(pt, kind, nz) {
							if c.Cur(sub, curDesc(pt.T, "", v.Interface(), "")) {
								ref, _ := stdjson.Marshal(v.Interface())
								c03Check(c, sub, v.Interface(), pt.T, "", isASCII(ref) && ref != nil, "", entries)
								c03Check(c, sub, v.Addr().Interface(), reflect.PtrTo(pt.T), "", isASCII(ref) && ref != nil, "", entries[:2])
								c.NonTrivial(pt.T.String(), string(ref))
							}
							sub++
						}
					}
					c.Obs("member_position_cases:"+kind.Name, int64(sub-5000))
				}
				for k := 0; k < 24; k++ {
					o := gen.TypeOpts{FeatureProb: 25}
					var t reflect.Type
					var feat string
					if c.Tier == "thorough" && k%2 == 1 {
						t, feat = gen.Type(c.RNG(1000+k), 3, o)
					} else {
						t, feat = gen.Type(rt.FixedRNG("C03type", c.Idx*4096+k), 3, o)
					}
					vo := gen.ValOpts{NilHeavy: k%3 == 0}
					if feat == "" {
						switch k % 6 {
						case 0:
							vo.NonFinite, feat = true, "val:nonfinite"
						case 1:
							vo.BadNumber, feat = true, "val:bad-number"
						case 2:
							vo.BadRaw, feat = true, "val:bad-raw"
						}
					}
					v := gen.Value(rv, t, 3, vo)
					if !c.Cur(k, curDesc(t, feat, v.Interface(), "")) {
						continue
					}
					heap0 := heapInUse()
					ref, _ := stdjson.Marshal(v.Interface())
					must := ""
					if feat == "val:nonfinite" && ref == nil {
						// encoding/json reaches a non-finite float (it refuses the value): the width of
						// the non-finite floats the value holds (the wider one if both) names the class
						must = nonfiniteWidth(v, 0)
					}
					c03Check(c, k, v.Interface(), t, feat, isASCII(ref) && ref != nil, must, entries)
					if v.CanAddr() {
						c03Check(c, k, v.Addr().Interface(), reflect.PtrTo(t), feat, isASCII(ref) && ref != nil, "", entries[:2])
					}
					heapGuard(c, k, heap0, "enc-wellformed", "Marshal*", feat)
					c.NonTrivial(t.String(), string(ref))
					if k == 0 {
						c.Sample(map[string]any{"family": "generated", "type": t.String(), "value": stdRender(v.Interface()), "feature": featTag(feat)})
					}
				}
			case c.Idx < gb+8:
				// non-finite floats of both widths in every position; json.Number strings exhaustively
				k := c.Idx - gb
				sub := 0
				switch k {
				case 0:
					for _, f := range []float64{nan(), inf(1), inf(-1)} {
						f32 := float32(f)
						vals := []any{f, f32, &f, &f32, []float64{1, f}, []float32{f32}, [2]float32{0, f32}, map[string]float32{"a": f32}, map[string]float64{"a": f},
							struct{ F float32 }{f32}, struct{ F float64 }{f}, struct{ F *float32 }{&f32}, struct {
								F float32 `json:"f,string"`
							}{f32}, struct {
								F float64 `json:"f,omitempty"`
							}{f}, []any{f32}, []any{f}, struct{ I any }{f32}, map[string]any{"x": []any{f32}}, [][]float32{{f32}}, struct {
								A int
								F float32
								B int
							}{1, f32, 2}}
						for _, x := range vals {
							if c.Cur(sub, "shapes=feature:val:nonfinite\n"+fmt.Sprintf("%T %v", x, x)) {
								c03Check(c, sub, x, reflect.TypeOf(x), "val:nonfinite", true, nonfiniteWidth(reflect.ValueOf(x), 0), entries)
								c.NonTrivial("nonfinite", fmt.Sprintf("%T%v", x, x))
							}
							sub++
						}
					}
					// the whole member-position table (value/pointer x plain/omitempty/string x only/first/
					// last/middle member) for both widths: every cell has an opcode of its own
					for _, kind := range gen.PositionKinds {
						if kind.Name != "float32" && kind.Name != "float64" {
							continue
						}
						for _, pt := range gen.PositionTypes(kind) {
							for _, f := range []float64{nan(), inf(1), inf(-1)} {
								v := reflect.New(pt.T).Elem()
								for i := 0; i < v.NumField(); i++ {
									fv := v.Field(i)
									switch {
									case i == pt.Member && fv.Kind() == reflect.Ptr:
										fv.Set(reflect.New(fv.Type().Elem()))
										fv.Elem().SetFloat(f)
									case i == pt.Member:
										fv.SetFloat(f)
									case fv.Kind() == reflect.Int:
										fv.SetInt(7)
									case fv.Kind() == reflect.String:
										fv.SetString("y")
									}
								}
								if c.Cur(sub, "shapes=feature:val:nonfinite\n"+fmt.Sprintf("%v %v", pt.T, f)) {
									must := "non-finite:" + kind.Name
									c03Check(c, sub, v.Interface(), pt.T, "val:nonfinite", true, must, entries)
									c03Check(c, sub, v.Addr().Interface(), reflect.PtrTo(pt.T), "val:nonfinite", true, must, entries[:4])
									c.NonTrivial("nonfinite-pos", pt.T.String(), fmt.Sprint(f))
								}
								sub++
							}
						}
					}
					c.Sample(map[string]any{"family": "non-finite floats", "positions": sub})
				default:
					// json.Number strings: all strings of length k-1 over {0,1,-,+,.,e,E,x} (k-1 in 0..5)
					n := k - 1
					if n > 4 && c.Tier != "thorough" {
						return
					}
					buf := make([]byte, n)
					var rec func(i int)
					rec = func(i int) {
						if i == n {
							s := string(buf)
							num := gojson.Number(s)
							must := ""
							if !validNumber(s) {
								must = "json.Number:" + numberClass(s)
							}
							if c.Cur(sub, "shapes=feature:val:bad-number\njson.Number("+fmt.Sprintf("%q", s)+")") {
								c03Check(c, sub, num, reflect.TypeOf(num), "val:json.Number", true, must, entries[:1])
								if sub%7 == 0 {
									c03Check(c, sub, struct{ N gojson.Number }{num}, reflect.TypeOf(num), "val:json.Number", true, must, entries[1:6])
									c03Check(c, sub, []stdjson.Number{stdjson.Number(s)}, reflect.TypeOf(num), "val:json.Number", true, must, entries[10:])
								}
							}
							sub++
							return
						}
						for _, a := range numAlphabet {
							buf[i] = a
							rec(i + 1)
						}
					}
					rec(0)
					c.NonTrivialEnum(int64(sub))
					c.Obs("number_strings", int64(sub))
				}
			default:
				// marshaler output: arbitrary bytes returned by MarshalJSON / MarshalText
				k := c.Idx - gb - 8
				n := len(Alphabet28)
				var docs [][]byte
				if c.Tier == "thorough" {
					p := []byte{Alphabet28[k/n], Alphabet28[k%n]}
					for _, a := range Alphabet28 {
						docs = append(docs, append(append([]byte{}, p...), a))
						for _, b2 := range Alphabet28 {
							docs = append(docs, append(append([]byte{}, p...), a, b2))
						}
					}
					docs = append(docs, p)
				} else {
					p := []byte{Alphabet28[k]}
					docs = append(docs, p)
					for _, a := range Alphabet28 {
						docs = append(docs, []byte{p[0], a})
						for _, b2 := range Alphabet28 {
							docs = append(docs, []byte{p[0], a, b2})
						}
					}
				}
				r := c.RNG(0)
				for i := 0; i < 6; i++ {
					d := gen.Doc(r, 2)
					docs = append(docs, d, append([]byte(" "), append(d, '\n')...))
					if len(d) > 2 {
						j := r.Intn(len(d))
						m := append([]byte{}, d...)
						m[j] = Alphabet28[r.Intn(n)]
						docs = append(docs, m, d[:j])
					}
				}
				// token-level mutants of small texts with every kind of token in every position
				tm := [][]byte{[]byte(`{"a":1,"b":[true,null,"s"],"c":{"d":-1.5e2}}`), []byte(`[{"k":"v"},[],{},"x",0]`), gen.Doc(r, 2)}
				for _, m := range gen.TokenMutants(tm[k%len(tm)]) {
					docs = append(docs, m)
				}
				// valid texts with raw multi-byte characters (the copy routine rewrites U+2028/9 when HTML
				// escaping is on, and steps over the others)
				if k < 4 {
					ls, ps := string(rune(0x2028)), string(rune(0x2029))
					for _, t := range []string{`"a` + ls + `b"`, `"` + ps + `"`, `"` + ls + ps + ls + `"`, `{"k` + ps + `":"v` + ls + `"}`, `["é","😀","` + ls + `x",{"` + ls + `":[1,"y` + ps + `"]}]`,
						`"<` + ls + `>&é` + ps + `"`, `"€` + ls + `"`, `"x` + ls} {
						docs = append(docs, []byte(t))
					}
				}
				sub := 0
				for _, d := range docs {
					valid := oracle.Recognise(d, 0)
					must := ""
					if !valid {
						e := &c05Entry{name: "marshaler-output", skips: false}
						must = "marshaler-output:" + strings.TrimPrefix(utilExplain(d), "relax=")
						_ = e
					}
					if c.Cur(sub, "shapes=feature:val:marshaler-output\nMRaw{"+rt.Q(d)+"}") {
						x := zoo.MRaw{B: d}
						c03Check(c, sub, x, reflect.TypeOf(x), "val:marshaler-output", isASCII(d), must, entries[:2])
						c03Check(c, sub, []zoo.MRaw{x}, reflect.TypeOf(x), "val:marshaler-output", isASCII(d), must, entries[2:3])
						c03Check(c, sub, map[string]any{"k": x}, reflect.TypeOf(x), "val:marshaler-output", isASCII(d), must, entries[10:11])
						if valid && utf8.Valid(d) {
							// a valid text handed over by a marshaler comes out as the same value, and as
							// valid UTF-8, whatever is done to its spelling on the way
							want, _ := oracle.Parse(d)
							for ei, f := range []func() ([]byte, error){
								func() ([]byte, error) { return gojson.Marshal(x) },
								func() ([]byte, error) { return gojson.MarshalIndent(x, "", " ") },
								func() ([]byte, error) { return gojson.MarshalWithOption(x, gojson.DisableHTMLEscape()) },
								func() ([]byte, error) { return gojson.MarshalNoEscape(x) },
							} {
								var out []byte
								var err error
								if pan, _, _ := rt.Guard(func() { out, err = f() }); pan || err != nil {
									continue // verdicts are judged above
								}
								c.Eval(1)
								got, perr := oracle.Parse(out)
								if !utf8.Valid(out) || perr != nil || want == nil || !oracle.Equal(got, want) {
									c.Violate(rt.Violation{Monitor: "enc-wellformed", Entry: []string{"Marshal", "MarshalIndent", "MarshalWithOption(DisableHTMLEscape)", "MarshalNoEscape"}[ei], Kind: "marshaler-output-changed",
										Ctx: "valid-utf8=" + fmt.Sprint(utf8.Valid(out)) + " @ feature:val:marshaler-output", Detail: "MarshalJSON returned " + rt.Q(d) + ", the encoder wrote " + rt.Q(out), Sub: sub})
								}
							}
						}
						// MarshalText output is arbitrary text and must always be escaped into a valid string
						tx := zoo.TRaw{B: d}
						c03Check(c, sub, tx, reflect.TypeOf(tx), "val:marshaltext-output", false, "", entries[:2])
						c03Check(c, sub, map[zoo.TVS]zoo.TRaw{zoo.TVS(d): tx}, reflect.TypeOf(tx), "val:marshaltext-output", false, "", entries[:1])
					}
					sub++
				}
				c.NonTrivialEnum(int64(sub))
				c.Obs("marshaler_outputs", int64(sub))
				if k == 3 {
					c.Sample(map[string]any{"family": "marshaler output", "example": string(docs[5]), "outputs": sub})
				}
			}
		},
	})
}

// nonfiniteWidth reports "non-finite:float64" / "non-finite:float32" if the value holds a NaN or
// an infinity of that width ("" if none).
func nonfiniteWidth(v reflect.Value, depth int) string {
	if depth > 30 || !v.IsValid() {
		return ""
	}
	best := ""
	up := func(s string) {
		if s == "non-finite:float64" || (s != "" && best == "") {
			best = s
		}
	}
	switch v.Kind() {
	case reflect.Float32, reflect.Float64:
		if f := v.Float(); math.IsNaN(f) || math.IsInf(f, 0) {
			return "non-finite:" + v.Kind().String()
		}
	case reflect.Ptr, reflect.Interface:
		if !v.IsNil() {
			return nonfiniteWidth(v.Elem(), depth+1)
		}
	case reflect.Slice, reflect.Array:
		for i := 0; i < v.Len(); i++ {
			up(nonfiniteWidth(v.Index(i), depth+1))
		}
	case reflect.Map:
		it := v.MapRange()
		for it.Next() {
			up(nonfiniteWidth(it.Value(), depth+1))
		}
	case reflect.Struct:
		for i := 0; i < v.NumField(); i++ {
			// members neither encoder writes say nothing about what was written
			sf := v.Type().Field(i)
			if sf.Tag.Get("json") == "-" || (sf.PkgPath != "" && !sf.Anonymous) {
				continue
			}
			up(nonfiniteWidth(v.Field(i), depth+1))
		}
	}
	return best
}

// copyZeroNonfinite32 deep-copies v with every NaN/Inf of kind float32 replaced by zero.
func copyZeroNonfinite32(v reflect.Value) reflect.Value {
	if !v.IsValid() {
		return v
	}
	out := reflect.New(v.Type()).Elem()
	var cp func(dst, src reflect.Value, depth int)
	cp = func(dst, src reflect.Value, depth int) {
		if depth > 40 {
			dst.Set(src)
			return
		}
		switch src.Kind() {
		case reflect.Float32:
			if f := src.Float(); math.IsNaN(f) || math.IsInf(f, 0) {
				dst.SetFloat(0)
			} else {
				dst.SetFloat(f)
			}
		case reflect.Ptr:
			if !src.IsNil() {
				n := reflect.New(src.Type().Elem())
				cp(n.Elem(), src.Elem(), depth+1)
				dst.Set(n)
			}
		case reflect.Interface:
			if !src.IsNil() {
				n := reflect.New(src.Elem().Type()).Elem()
				cp(n, src.Elem(), depth+1)
				dst.Set(n)
			}
		case reflect.Slice:
			if !src.IsNil() {
				n := reflect.MakeSlice(src.Type(), src.Len(), src.Len())
				for i := 0; i < src.Len(); i++ {
					cp(n.Index(i), src.Index(i), depth+1)
				}
				dst.Set(n)
			}
		case reflect.Array:
			for i := 0; i < src.Len(); i++ {
				cp(dst.Index(i), src.Index(i), depth+1)
			}
		case reflect.Map:
			if !src.IsNil() {
				n := reflect.MakeMapWithSize(src.Type(), src.Len())
				it := src.MapRange()
				for it.Next() {
					e := reflect.New(src.Type().Elem()).Elem()
					cp(e, it.Value(), depth+1)
					n.SetMapIndex(it.Key(), e)
				}
				dst.Set(n)
			}
		case reflect.Struct:
			for i := 0; i < src.NumField(); i++ {
				df, sf := dst.Field(i), src.Field(i)
				if !df.CanSet() {
					if !src.Type().Field(i).Anonymous || !df.CanAddr() || !sf.CanAddr() {
						continue // unexported and not embedded: not encoded
					}
					// an embedded struct of unexported type still promotes its exported members
					df = reflect.NewAt(df.Type(), unsafe.Pointer(df.UnsafeAddr())).Elem()
					sf = reflect.NewAt(sf.Type(), unsafe.Pointer(sf.UnsafeAddr())).Elem()
				}
				cp(df, sf, depth+1)
			}
		default:
			dst.Set(src)
		}
	}
	cp(out, v, 0)
	return out
}

func baseFloat(t reflect.Type) reflect.Type {
	for {
		switch t.Kind() {
		case reflect.Ptr, reflect.Slice, reflect.Array, reflect.Map:
			t = t.Elem()
			continue
		case reflect.Struct:
			for i := 0; i < t.NumField(); i++ {
				ft := t.Field(i).Type
				for ft.Kind() == reflect.Ptr {
					ft = ft.Elem()
				}
				if ft.Kind() == reflect.Float32 || ft.Kind() == reflect.Float64 {
					return ft
				}
			}
			return t
		}
		return t
	}
}

func nan() float64      { return math.NaN() }
func inf(s int) float64 { return math.Inf(s) }
