package props

import (
	"bytes"
	stdjson "encoding/json"
	"fmt"
	"math/rand"
	"reflect"
	"strings"

	gojson "github.com/goccy/go-json"

	"verif/harness/gen"
	"verif/harness/rt"
)

// C04 — Marshal followed by Unmarshal reproduces the value.
//
// Monitor "roundtrip": for a value that round-trips under encoding/json (that is what defines
// "JSON-representable" here, so nothing more than the statement is demanded), each of the paths
// Marshal→Unmarshal, MarshalIndent→Unmarshal and Encoder→Decoder must succeed and yield a value
// deeply equal to the original (floats by bit pattern, nil vs empty, unexported fields included).

type c04Path struct {
	name string
	enc  func(x any) ([]byte, error)
	dec  func(b []byte, dst any) error
	// the same path through encoding/json: the value must survive it for the path to be judged
	stdenc func(x any) ([]byte, error)
}

var c04Paths = []c04Path{
	{"Marshal→Unmarshal", func(x any) ([]byte, error) { return gojson.Marshal(x) }, func(b []byte, d any) error { return gojson.Unmarshal(b, d) }, func(x any) ([]byte, error) { return stdjson.Marshal(x) }},
	{"MarshalIndent→Unmarshal", func(x any) ([]byte, error) { return gojson.MarshalIndent(x, "", "  ") }, func(b []byte, d any) error { return gojson.Unmarshal(b, d) }, func(x any) ([]byte, error) { return stdjson.MarshalIndent(x, "", "  ") }},
	{"Encoder→Decoder", func(x any) ([]byte, error) {
		var buf bytes.Buffer
		err := gojson.NewEncoder(&buf).Encode(x)
		return buf.Bytes(), err
	}, func(b []byte, d any) error { return gojson.NewDecoder(bytes.NewReader(b)).Decode(d) }, func(x any) ([]byte, error) { return stdjson.Marshal(x) }},
	{"Encoder(SetEscapeHTML(false))→Decoder", func(x any) ([]byte, error) {
		var buf bytes.Buffer
		e := gojson.NewEncoder(&buf)
		e.SetEscapeHTML(false)
		err := e.Encode(x)
		return buf.Bytes(), err
	}, func(b []byte, d any) error { return gojson.NewDecoder(bytes.NewReader(b)).Decode(d) }, func(x any) ([]byte, error) { return stdjson.Marshal(x) }},
	{"MarshalWithOption(DisableHTMLEscape,DisableNormalizeUTF8)→Unmarshal", func(x any) ([]byte, error) {
		return gojson.MarshalWithOption(x, gojson.DisableHTMLEscape(), gojson.DisableNormalizeUTF8())
	}, func(b []byte, d any) error { return gojson.Unmarshal(b, d) }, func(x any) ([]byte, error) { return stdjson.Marshal(x) }},
	{"MarshalIndentWithOption(UnorderedMap)→UnmarshalWithOption(FirstWin)", func(x any) ([]byte, error) {
		return gojson.MarshalIndentWithOption(x, "", "\t", gojson.UnorderedMap())
	}, func(b []byte, d any) error {
		return gojson.UnmarshalWithOption(b, d, gojson.DecodeFieldPriorityFirstWin())
	}, func(x any) ([]byte, error) { return stdjson.MarshalIndent(x, "", "\t") }},
	{"MarshalNoEscape→UnmarshalNoEscape", func(x any) ([]byte, error) { return gojson.MarshalNoEscape(x) }, func(b []byte, d any) error { return gojson.UnmarshalNoEscape(b, d) }, func(x any) ([]byte, error) { return stdjson.Marshal(x) }},
}

// stdRoundTrips reports whether v survives encoding/json's own Marshal→Unmarshal.
func stdRoundTrips(t reflect.Type, v reflect.Value, enc func(any) ([]byte, error)) bool {
	b, err := enc(v.Interface())
	if err != nil {
		return false
	}
	fresh := reflect.New(t)
	if err := stdjson.Unmarshal(b, fresh.Interface()); err != nil {
		return false
	}
	if diffValues(v, fresh.Elem(), nil, 0) != nil {
		return false
	}
	return true
}

func c04Case(c *rt.Ctx, sub int, t reflect.Type, v reflect.Value, feat string) {
	input := map[string]any{"type": t.String(), "value": stdRender(v.Interface())}
	// Phase 1: every path encodes; the returned slices are kept as they are while the later paths
	// (and their pooled buffers) run. Phase 2 decodes them: an output that shares memory with the
	// library is overwritten in between.
	outs := make([][]byte, len(c04Paths))
	skip := make([]bool, len(c04Paths))
	for i := range c04Paths {
		p := &c04Paths[i]
		if i > 0 && !stdRoundTrips(t, v, p.stdenc) {
			c.Obs("path_filtered_not_roundtrippable_under_reference", 1)
			skip[i] = true
			continue
		}
		var b []byte
		var err error
		pan, msg, frame := rt.Guard(func() { b, err = p.enc(v.Interface()) })
		c.Eval(1)
		if pan {
			c.Violate(rt.Violation{Monitor: "roundtrip", Entry: p.name, Kind: "panic:" + rt.PanicClass(msg), Ctx: shapeCtx(frame, feat), Detail: "encode: " + msg + " | type " + t.String(), Input: input, Sub: sub})
			skip[i] = true
			continue
		}
		if err != nil {
			c.Violate(rt.Violation{Monitor: "roundtrip", Entry: p.name, Kind: "encode-error", Ctx: errClass(err) + " @ " + featTag(feat), Detail: err.Error() + " | type " + t.String(), Input: input, Sub: sub})
			skip[i] = true
			continue
		}
		outs[i] = b
	}
	for i := range c04Paths {
		p := &c04Paths[i]
		if skip[i] {
			continue
		}
		b := outs[i]
		var err error
		var pan bool
		var msg, frame string
		fresh := reflect.New(t)
		pan, msg, frame = rt.Guard(func() { err = p.dec(b, fresh.Interface()) })
		c.Eval(1)
		if pan {
			c.Violate(rt.Violation{Monitor: "roundtrip", Entry: p.name, Kind: "panic:" + rt.PanicClass(msg), Ctx: shapeCtx(frame, feat), Detail: "decode of " + rt.Q(b) + ": " + msg + " | type " + t.String(), Input: input, Sub: sub})
			continue
		}
		if err != nil && streamOnly(p, b, t, v) {
			c.Violate(rt.Violation{Monitor: "roundtrip", Entry: p.name, Kind: "stream-differs-from-buffer", Ctx: streamCtx(b),
				Detail: "own output (" + rt.Q(b) + ", " + fmt.Sprint(len(b)) + " bytes) decodes with Unmarshal but not with Decoder: " + err.Error() + " | type " + t.String(), Input: input, Sub: sub})
			continue
		}
		if err != nil {
			c.Violate(rt.Violation{Monitor: "roundtrip", Entry: p.name, Kind: "decode-error", Ctx: decErrClass(err) + " @ " + featCtx(kindClass(t), feat),
				Detail: "own output " + rt.Q(b) + " does not decode: " + err.Error() + " | type " + t.String(), Input: input, Sub: sub})
			continue
		}
		var d *valueDiff
		pan, msg, frame = rt.Guard(func() { d = diffValues(v, fresh.Elem(), nil, 0) })
		if pan {
			c.Violate(rt.Violation{Monitor: "roundtrip", Entry: p.name, Kind: "ill-formed-destination", Ctx: featCtx(kindClass(t), feat), Detail: "walking the decoded value panicked: " + msg, Input: input, Sub: sub})
			continue
		}
		if d != nil && streamOnly(p, b, t, v) {
			c.Violate(rt.Violation{Monitor: "roundtrip", Entry: p.name, Kind: "stream-differs-from-buffer", Ctx: streamCtx(b),
				Detail: "own output (" + fmt.Sprint(len(b)) + " bytes) decodes to the original with Unmarshal but to another value with Decoder (" + d.what + " at " + d.ctx() + ") | type " + t.String(), Input: input, Sub: sub})
			continue
		}
		if d != nil {
			got, _ := stdjson.Marshal(fresh.Elem().Interface())
			c.Violate(rt.Violation{Monitor: "roundtrip", Entry: p.name, Kind: "not-equal:" + d.what, Ctx: featCtx(d.ctx(), feat),
				Detail: "via " + rt.Q(b) + " got " + rt.Q(got) + " | type " + t.String(), Input: input, Sub: sub})
		} else {
			c.Obs("roundtrips_ok", 1)
		}
	}
}

// streamOnly: the Decoder path failed, but the very same bytes decode to the original value in
// buffer mode — the defect is in the stream decoder (C09's subject), not in the round trip.
func streamOnly(p *c04Path, b []byte, t reflect.Type, v reflect.Value) bool {
	if !strings.HasSuffix(p.name, "→Decoder") {
		return false
	}
	fresh := reflect.New(t)
	ok := false
	rt.Guard(func() {
		if gojson.Unmarshal(b, fresh.Interface()) == nil && diffValues(v, fresh.Elem(), nil, 0) == nil {
			ok = true
		}
	})
	return ok
}

func streamCtx(b []byte) string {
	if len(b) > 500 && bytes.Contains(b, []byte{'\\', 'u', '0', '0'}) {
		return "doc>500B with \\u00XX escapes (escape across a refill boundary)"
	}
	if len(b) > 500 {
		return "doc>500B"
	}
	return "doc<=500B"
}

func decErrClass(err error) string {
	switch err.(type) {
	case *gojson.SyntaxError:
		return "syntax"
	case *gojson.UnmarshalTypeError:
		return "type"
	}
	return "other"
}

// c04Padded: the same value behind a padding member, so that its encoding crosses the stream
// decoder's refill boundaries (511, 1023 bytes) at a PRNG-chosen offset inside the value.
func c04Padded(c *rt.Ctx, sub int, r *rand.Rand, t reflect.Type, v reflect.Value, feat string) {
	var wt reflect.Type
	if pan, _, _ := rt.Guard(func() {
		wt = reflect.StructOf([]reflect.StructField{{Name: "P", Type: reflect.TypeOf(""), Tag: `json:"p"`}, {Name: "V", Type: t, Tag: `json:"v"`}})
	}); pan {
		return
	}
	wv := reflect.New(wt).Elem()
	wv.Field(1).Set(v)
	b0, err := stdjson.Marshal(wv.Interface())
	if err != nil || len(b0) < 16 {
		return
	}
	for i := 0; i < 12; i++ {
		boundary := 511
		if i%3 == 2 {
			boundary = 1023
		}
		// the boundary falls o bytes before the end of the text
		o := 1 + r.Intn(len(b0)-12)
		pad := boundary - (len(b0) - o)
		if pad < 0 {
			continue
		}
		wv.Field(0).SetString(strings.Repeat("p", pad))
		if !stdRoundTrips(wt, wv, c04Paths[0].stdenc) {
			return
		}
		c04Case(c, sub, wt, wv, feat)
		c.Obs("padded_roundtrips", 1)
	}
}

// c04LargeOffsets: members behind a large leading member, so that their offsets in the struct pass
// 2^8, 2^16 and 2^20 (widths an offset could be kept in); the leading member is ignored, encoded as a
// byte string, or a nested array, and the members behind it cover scalars, strings, pointers,
// containers and interfaces.
func c04LargeOffsets(c *rt.Ctx, sub0 int) {
	sub := sub0
	for _, pad := range []int{250, 256, 65528, 65536, 65537, 70000, 1 << 20} {
		for variant := 0; variant < 3; variant++ {
			sub++
			var lead reflect.StructField
			switch variant {
			case 0:
				lead = reflect.StructField{Name: "Pad", Type: reflect.ArrayOf(pad, reflect.TypeOf(uint8(0))), Tag: `json:"-"`}
			case 1:
				lead = reflect.StructField{Name: "Pad", Type: reflect.ArrayOf(pad, reflect.TypeOf(uint8(0))), Tag: `json:"pad"`}
			default:
				if pad%8 != 0 || pad > 70000 {
					continue
				}
				lead = reflect.StructField{Name: "Pad", Type: reflect.ArrayOf(pad/8, reflect.TypeOf([2]int32{})), Tag: `json:"pad"`}
			}
			if variant == 1 && pad > 70000 {
				continue
			}
			t := reflect.StructOf([]reflect.StructField{lead,
				{Name: "Score", Type: reflect.TypeOf(int64(0))},
				{Name: "Level", Type: reflect.TypeOf(int8(0)), Tag: `json:"level,omitempty"`},
				{Name: "Done", Type: reflect.TypeOf(false)},
				{Name: "Name", Type: reflect.TypeOf("")},
				{Name: "P", Type: reflect.TypeOf((*int)(nil))},
				{Name: "M", Type: reflect.TypeOf(map[string]int(nil))},
				{Name: "S", Type: reflect.TypeOf([]string(nil))},
				{Name: "I", Type: reflect.TypeOf((*any)(nil)).Elem()},
				{Name: "Q", Type: reflect.TypeOf(uint16(0)), Tag: `json:"q,string"`},
				{Name: "In", Type: reflect.TypeOf(struct {
					A float64
					B []byte
				}{})},
			})
			v := reflect.New(t).Elem()
			n := 7
			v.Field(1).SetInt(123456789 + int64(pad))
			v.Field(2).SetInt(-7)
			v.Field(3).SetBool(true)
			v.Field(4).SetString(fmt.Sprint("name-", pad))
			v.Field(5).Set(reflect.ValueOf(&n))
			v.Field(6).Set(reflect.ValueOf(map[string]int{"k": pad}))
			v.Field(7).Set(reflect.ValueOf([]string{"a", "b"}))
			v.Field(8).Set(reflect.ValueOf("iface"))
			v.Field(9).SetUint(65535)
			v.Field(10).Field(0).SetFloat(2.5)
			v.Field(10).Field(1).SetBytes([]byte{1, 2, 3})
			if variant != 0 {
				// a few marked cells of the leading member
				if variant == 1 {
					v.Field(0).Index(0).SetUint(1)
					v.Field(0).Index(pad - 1).SetUint(255)
				} else {
					v.Field(0).Index(pad/8 - 1).Index(1).SetInt(-5)
				}
			}
			if !c.Cur(sub, fmt.Sprintf("shapes=core\nmembers behind a %d-byte leading member (variant %d)", pad, variant)) {
				continue
			}
			c04Case(c, sub, t, v, "")
			// and against encoding/json byte for byte (compact form)
			gb, gerr := gojson.Marshal(v.Interface())
			sb, serr := stdjson.Marshal(v.Interface())
			c.Eval(1)
			if (gerr != nil) != (serr != nil) || !bytes.Equal(gb, sb) {
				d := firstDiff(gb, sb)
				lo, hi := d-40, d+40
				if lo < 0 {
					lo = 0
				}
				cut := func(b []byte) []byte {
					if hi > len(b) {
						return b[lo:]
					}
					return b[lo:hi]
				}
				c.Violate(rt.Violation{Monitor: "roundtrip", Entry: "Marshal", Kind: "differs-from-reference", Ctx: fmt.Sprintf("large-offset:%d", pad),
					Detail: fmt.Sprintf("errors %v / %v; outputs differ at byte %d: go-json …%s… encoding/json …%s…", gerr, serr, d, rt.Q(cut(gb)), rt.Q(cut(sb))), Sub: sub})
			}
			c.Obs("large_offset_structs", 1)
			c.NonTrivial("large-offset", fmt.Sprint(pad, variant))
		}
	}
}

func init() {
	register(&Prop{
		ID: "C04",
		NumBatches: func(tier string, seed int64) int {
			if tier == "thorough" {
				return 16384
			}
			return 512
		},
		Run: func(c *rt.Ctx) {
			rv := c.RNG(0)
			if c.Idx%512 == 9 {
				c04LargeOffsets(c, 100000)
			}
			for k := 0; k < 64; k++ {
				o := gen.TypeOpts{FeatureProb: 15}
				var t reflect.Type
				var feat string
				if c.Tier == "thorough" && k%2 == 1 {
					t, feat = gen.Type(c.RNG(1000+k), 3, o)
				} else {
					t, feat = gen.Type(rt.FixedRNG("C04type", c.Idx*4096+k), 3, o)
				}
				v := gen.Value(rv, t, 3, gen.ValOpts{RoundTrip: true, MaxLen: 5})
				if !stdRoundTrips(t, v, c04Paths[0].stdenc) {
					c.Obs("filtered_not_roundtrippable_under_reference", 1)
					continue
				}
				if !c.Cur(k, curDesc(t, feat, v.Interface(), "")) {
					continue
				}
				heap0 := heapInUse()
				c04Case(c, k, t, v, feat)
				if k%8 == 7 {
					c04Padded(c, k, rv, t, v, feat)
				}
				heapGuard(c, k, heap0, "roundtrip", "roundtrip", feat)
				c.NonTrivial(t.String(), stdRender(v.Interface()))
				c.SetAdd("kind_classes", kindClass(t))
				if len(c.Res.Samples) == 0 {
					c.Sample(map[string]any{"type": t.String(), "value": stdRender(v.Interface()), "feature": featTag(feat)})
				}
			}
		},
	})
}
