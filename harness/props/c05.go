package props

import (
	"bytes"
	"context"
	stdjson "encoding/json"
	"io"
	"strconv"
	"strings"

	gojson "github.com/goccy/go-json"

	"verif/harness/gen"
	"verif/harness/oracle"
	"verif/harness/rt"
)

// C05 — decoding accepts exactly the RFC 8259 language.
//
// Monitor "accept-language": for a byte string b and an entry point E, accepted(E,b) must equal
// the strict recogniser's verdict. A mis-acceptance is localised by the named grammar relaxation
// (or pair of relaxations) under which the recogniser would accept b too; anything no listed
// relaxation explains carries ctx "relax=unexplained".

// Alphabet28 contains every structurally significant byte.
var Alphabet28 = []byte("[]{},:\"\\u01-+.eEtralsnf x\x00\x01\xff")

type c05Unm struct{ seen []byte }

func (u *c05Unm) UnmarshalJSON(b []byte) error { u.seen = append(u.seen[:0], b...); return nil }

type c05Struct17 struct {
	A                                                                     int `json:"a"`
	F1, F2, F3, F4, F5, F6, F7, F8, F9, F10, F11, F12, F13, F14, F15, F16 any
}

type c05Entry struct {
	name string
	// accept reports whether the entry point took b as one complete JSON text.
	accept func(b []byte) bool
	// shape restricts the entry to inputs whose first significant byte is one of these ("" = all)
	stream bool
	// skips: the destination makes the decoder skip (part of) the document without decoding it
	skips bool
}

func c05DecodeOne(b []byte, dst any) bool {
	d := gojson.NewDecoder(bytes.NewReader(b))
	if err := d.Decode(dst); err != nil {
		return false
	}
	var x any
	return d.Decode(&x) == io.EOF
}

func c05DecodeChunked(b []byte, dst any, n int) bool {
	d := gojson.NewDecoder(&cutReader{append([]byte{}, b...), n})
	if err := d.Decode(dst); err != nil {
		return false
	}
	var x any
	return d.Decode(&x) == io.EOF
}

var c05Entries = []c05Entry{
	{"Valid", func(b []byte) bool { return gojson.Valid(b) }, true, false},
	{"Unmarshal:iface", func(b []byte) bool { var v any; return gojson.Unmarshal(b, &v) == nil }, false, false},
	{"Decode:iface", func(b []byte) bool { var v any; return c05DecodeOne(b, &v) }, true, false},
	{"Unmarshal:struct{}", func(b []byte) bool { var v struct{}; return gojson.Unmarshal(b, &v) == nil }, false, true},
	{"Unmarshal:struct{A}", func(b []byte) bool {
		var v struct {
			A int `json:"a"`
		}
		return gojson.Unmarshal(b, &v) == nil
	}, false, true},
	// more than 16 members: keys are looked up through the string decoder and a map, not the bitmaps
	{"Unmarshal:struct17", func(b []byte) bool { var v c05Struct17; return gojson.Unmarshal(b, &v) == nil }, false, true},
	{"Decode:struct17", func(b []byte) bool { var v c05Struct17; return c05DecodeOne(b, &v) }, true, true},
	{"Decode(2-byte reads):struct17", func(b []byte) bool { var v c05Struct17; return c05DecodeChunked(b, &v, 2) }, true, true},
	{"Unmarshal:[0]int", func(b []byte) bool { var v [0]int; return gojson.Unmarshal(b, &v) == nil }, false, true},
	{"Unmarshal:[1]iface", func(b []byte) bool { var v [1]any; return gojson.Unmarshal(b, &v) == nil }, false, true},
	{"Unmarshal:RawMessage", func(b []byte) bool { var v gojson.RawMessage; return gojson.Unmarshal(b, &v) == nil }, false, true},
	{"Unmarshal:Unmarshaler", func(b []byte) bool { var v c05Unm; return gojson.Unmarshal(b, &v) == nil }, false, true},
	{"Unmarshal:[]RawMessage", func(b []byte) bool { var v []gojson.RawMessage; return gojson.Unmarshal(b, &v) == nil }, false, true},
	{"Unmarshal:map[string]Unmarshaler", func(b []byte) bool { var v map[string]*c05Unm; return gojson.Unmarshal(b, &v) == nil }, false, true},
	{"Decode:struct{}", func(b []byte) bool { var v struct{}; return c05DecodeOne(b, &v) }, true, true},
	{"Decode:[0]int", func(b []byte) bool { var v [0]int; return c05DecodeOne(b, &v) }, true, true},
	{"Decode:RawMessage", func(b []byte) bool { var v gojson.RawMessage; return c05DecodeOne(b, &v) }, true, true},
	{"Decode:struct{U Unmarshaler}", func(b []byte) bool {
		var v struct{ U c05Unm }
		return c05DecodeOne(b, &v)
	}, true, true},
	// the stream decoder fed in pieces: every refill boundary falls inside the text
	{"Decode(1-byte reads):iface", func(b []byte) bool { var v any; return c05DecodeChunked(b, &v, 1) }, true, false},
	{"Decode(2-byte reads):iface", func(b []byte) bool { var v any; return c05DecodeChunked(b, &v, 2) }, true, false},
	{"Decode(3-byte reads):struct{A}", func(b []byte) bool {
		var v struct {
			A string `json:"a"`
		}
		return c05DecodeChunked(b, &v, 3)
	}, true, true},
	{"Decode(1-byte reads):[]string", func(b []byte) bool { var v []string; return c05DecodeChunked(b, &v, 1) }, true, true},
	// Decoder options that select other scanners (UseNumber: numbers are kept as text)
	{"Decode(UseNumber):iface", func(b []byte) bool {
		d := gojson.NewDecoder(bytes.NewReader(b))
		d.UseNumber()
		var v any
		if d.Decode(&v) != nil {
			return false
		}
		var x any
		return d.Decode(&x) == io.EOF
	}, true, false},
	{"Decode(UseNumber,DisallowUnknownFields):struct{A}", func(b []byte) bool {
		d := gojson.NewDecoder(bytes.NewReader(b))
		d.UseNumber()
		d.DisallowUnknownFields()
		var v struct {
			A any `json:"a"`
		}
		if d.Decode(&v) != nil {
			return false
		}
		var x any
		return d.Decode(&x) == io.EOF
	}, true, true},
	{"Unmarshal:struct{N Number}", func(b []byte) bool {
		var v struct {
			N gojson.Number `json:"n"`
			L []gojson.Number
		}
		return gojson.Unmarshal(b, &v) == nil
	}, false, true},
	// typed number destinations at top level and as elements, so that the short exhaustive texts
	// reach each number decoder (json.Number, float, int) in buffer and stream mode
	{"Unmarshal:Number", func(b []byte) bool { var v gojson.Number; return gojson.Unmarshal(b, &v) == nil }, false, false},
	{"Unmarshal:[]Number", func(b []byte) bool { var v []gojson.Number; return gojson.Unmarshal(b, &v) == nil }, false, false},
	{"Decode:[]Number", func(b []byte) bool { var v []gojson.Number; return c05DecodeOne(b, &v) }, true, false},
	{"Unmarshal:[]float64", func(b []byte) bool { var v []float64; return gojson.Unmarshal(b, &v) == nil }, false, false},
	{"Decode:[]float32", func(b []byte) bool { var v []float32; return c05DecodeOne(b, &v) }, true, false},
	{"Unmarshal:map[string]int64", func(b []byte) bool { var v map[string]int64; return gojson.Unmarshal(b, &v) == nil }, false, false},
	// option and context entry points (they share pooled decoder contexts with the ones above and
	// with each other: the first-win entries run directly before the context ones)
	{"UnmarshalNoEscape:iface", func(b []byte) bool { var v any; return gojson.UnmarshalNoEscape(b, &v) == nil }, false, false},
	{"UnmarshalWithOption(FirstWin):struct{A}", func(b []byte) bool {
		var v struct {
			A int `json:"a"`
		}
		return gojson.UnmarshalWithOption(b, &v, gojson.DecodeFieldPriorityFirstWin()) == nil
	}, false, true},
	{"UnmarshalContext:struct{A}", func(b []byte) bool {
		var v struct {
			A int `json:"a"`
		}
		return gojson.UnmarshalContext(context.Background(), b, &v) == nil
	}, false, true},
	{"DecodeWithOption(FirstWin):struct{A}", func(b []byte) bool {
		var v struct {
			A int `json:"a"`
		}
		d := gojson.NewDecoder(bytes.NewReader(b))
		if d.DecodeWithOption(&v, gojson.DecodeFieldPriorityFirstWin()) != nil {
			return false
		}
		var x any
		return d.Decode(&x) == io.EOF
	}, true, true},
	{"DecodeContext:struct{A}", func(b []byte) bool {
		var v struct {
			A int `json:"a"`
		}
		d := gojson.NewDecoder(bytes.NewReader(b))
		if d.DecodeContext(context.Background(), &v) != nil {
			return false
		}
		var x any
		return d.Decode(&x) == io.EOF
	}, true, true},
	{"Unmarshal:struct{A}(after-options)", func(b []byte) bool {
		var v struct {
			A int `json:"a"`
		}
		return gojson.Unmarshal(b, &v) == nil
	}, false, true},
}

// typed entries accept only documents of a matching shape, so "ref accepts but entry rejects"
// is judged for the untyped entries only.
func c05Untyped(name string) bool {
	return name == "Valid" || strings.HasSuffix(name, ":iface") || strings.HasSuffix(name, ":RawMessage") || name == "Unmarshal:Unmarshaler"
}

func c05Explain(b []byte, e *c05Entry) string {
	type rn = struct {
		Name string
		R    oracle.Relax
	}
	var rx []rn
	for _, r := range oracle.RelaxNames {
		// a relaxation that stands for the skip scanners explains only entry points whose
		// destination skips something
		if r.R&oracle.RSkip != 0 && !e.skips {
			continue
		}
		// Valid looks at the whole text itself (fix 89981db): what a Decoder leaves in the
		// stream or steps over in front of a value explains nothing there
		if e.name == "Valid" && (r.R == oracle.RLeadSep || r.R == oracle.RTrailAfterTop) {
			continue
		}
		if r.Scope == "buf" || ((r.Scope == "skip" || r.Scope == "skipnum") && e.skips) || (e.stream && (r.Scope == "stream" || r.Scope == "skip")) {
			rx = append(rx, rn{r.Name, r.R})
		}
	}
	// a struct destination decodes the top-level object and its member names itself: the skip
	// scanners explain member values only
	var top oracle.Relax
	if strings.Contains(e.name, ":struct") {
		top = oracle.RTopDecoded
	}
	for i := range rx {
		if oracle.Recognise(b, rx[i].R|top) {
			return "relax=" + rx[i].Name
		}
	}
	for i := range rx {
		for k := i + 1; k < len(rx); k++ {
			if oracle.Recognise(b, rx[i].R|rx[k].R|top) {
				return "relax=" + rx[i].Name + " + relax=" + rx[k].Name
			}
		}
	}
	for i := range rx {
		for k := i + 1; k < len(rx); k++ {
			for m := k + 1; m < len(rx); m++ {
				if oracle.Recognise(b, rx[i].R|rx[k].R|rx[m].R|top) {
					return "relax=" + rx[i].Name + " + relax=" + rx[k].Name + " + relax=" + rx[m].Name
				}
			}
		}
	}
	return "relax=unexplained"
}

func c05Check(c *rt.Ctx, sub int, b []byte) {
	if !c.Cur(sub, rt.Q(b)) {
		return
	}
	ref := oracle.Recognise(b, 0)
	if std := stdjson.Valid(b); std != ref {
		c.Inconclusive("reference disagreement: strict recogniser=" + boolS(ref) + " encoding/json.Valid=" + boolS(std) + " on " + rt.Q(b))
		return
	}
	if ref {
		c.Obs("ref_valid", 1)
	} else {
		c.Obs("ref_invalid", 1)
	}
	for i := range c05Entries {
		e := &c05Entries[i]
		var acc bool
		pan, msg, frame := rt.Guard(func() { acc = e.accept(b) })
		c.Eval(1)
		if pan {
			// a panic is C06's business; for the language it counts as a rejection
			_, _ = msg, frame
			c.Obs("panics_seen_judged_by_C06", 1)
			acc = false
		}
		if acc && !ref {
			c.Obs("misaccept:"+e.name, 1)
			why := c05Explain(b, e)
			if why == "relax=unexplained" && e.stream && bytes.IndexByte(b, 0) >= 0 {
				// the NUL handling of the stream scanners (a NUL is stepped over whenever the reader
				// can still be asked for data) is only partly modelled by the recogniser
				why = "relax=stream:nul-skipped-unmodelled"
			}
			c.Violate(rt.Violation{Monitor: "accept-language", Entry: e.name, Kind: "ok-vs-err", Ctx: why,
				Detail: e.name + " accepts " + rt.Q(b) + " which is not an RFC 8259 text", Input: string(b), Sub: sub})
		} else if !acc && ref && c05Untyped(e.name) {
			ctx := "valid-text-rejected:" + docClass(b)
			if hasFloatRangeNumber(b) {
				// a number token beyond float64: encoding/json.Valid accepts it, and so must Valid
				// (C05/C18); for decoding into interface{} encoding/json reports a range error as
				// well, so nothing is demanded of Unmarshal/Decode there.
				if e.name != "Valid" {
					c.Obs("float_range_rejections_not_judged", 1)
					continue
				}
				ctx = "valid-text-rejected:float64-range-number"
			}
			c.Violate(rt.Violation{Monitor: "accept-language", Entry: e.name, Kind: "err-vs-ok", Ctx: ctx,
				Detail: e.name + " rejects the valid text " + rt.Q(b), Input: string(b), Sub: sub})
		}
	}
}

// hasFloatRangeNumber reports whether a valid text contains a number token outside float64.
func hasFloatRangeNumber(b []byte) bool {
	n, err := oracle.Parse(b)
	if err != nil {
		return false
	}
	found := false
	var walk func(n *oracle.Node)
	walk = func(n *oracle.Node) {
		if n.Kind == 'n' {
			if _, err := strconv.ParseFloat(n.Lit, 64); err != nil {
				found = true
			}
		}
		for _, k := range n.Kids {
			walk(k)
		}
	}
	walk(n)
	return found
}

func boolS(b bool) string {
	if b {
		return "true"
	}
	return "false"
}

// docClass: first significant byte class of a document (small vocabulary for signatures).
func docClass(b []byte) string {
	for _, ch := range b {
		switch {
		case ch == ' ' || ch == '\t' || ch == '\n' || ch == '\r':
			continue
		case ch == '{':
			return "object"
		case ch == '[':
			return "array"
		case ch == '"':
			return "string"
		case ch == '-' || (ch >= '0' && ch <= '9'):
			return "number"
		case ch == 't' || ch == 'f':
			return "bool"
		case ch == 'n':
			return "null"
		default:
			return "other"
		}
	}
	return "empty"
}

const c05MutBatchesQuick = 48
const c05MutBatchesThorough = 640

// byte-table family: the scanners classify bytes through 256-entry tables (white space, number
// characters, value starts, escapes), so every byte value is put at every position of a few
// documents - inserted and substituted - not only the structurally significant ones.
var c05ByteDocs = []string{
	`{"a":[1,true,"s",null,-2.5e3],"b":{"c":{}}}`,
	` [ { "A" : 10 , "B" : "x\ny" } , [ ] , 0.5 , false ] `,
	`{"A":1,"B":"two","C":[3.5,null],"D":{"E":true}}`,
	`"str"`, `-12.5E+2`, `null`,
}

const c05ByteBatchesQuick = 6
const c05ByteBatchesThorough = 6 + 26

func c05ByteTable(c *rt.Ctx, k int) {
	var doc []byte
	if k < len(c05ByteDocs) {
		doc = []byte(c05ByteDocs[k])
	} else {
		doc = gen.Doc(rt.FixedRNG("C05bytes", k), 2)
		if len(doc) > 90 {
			doc = doc[:90] // an invalid prefix is as good a base as any
		}
	}
	sub := 0
	c05Check(c, sub, doc)
	for i := 0; i <= len(doc); i++ {
		for v := 0; v < 256; v++ {
			sub++
			m := append(append(append([]byte{}, doc[:i]...), byte(v)), doc[i:]...)
			c05Check(c, sub, m)
			if i < len(doc) && byte(v) != doc[i] {
				sub++
				m2 := append([]byte{}, doc...)
				m2[i] = byte(v)
				c05Check(c, sub, m2)
			}
		}
	}
	c.NonTrivial("bytes", string(doc))
	c.Obs("byte_table_texts", int64(sub))
	c.Sample(map[string]any{"family": "byte-table", "base": string(doc), "texts": sub, "byte_values": 256, "positions": len(doc) + 1})
}

func c05MutBatches(tier string) int {
	if tier == "thorough" {
		return c05MutBatchesThorough
	}
	return c05MutBatchesQuick
}

func c05Exhaustive(tier string) (prefixBatches, sufLen int) {
	n := len(Alphabet28)
	if tier == "thorough" {
		return n * n, 4
	}
	return n * n, 2
}

func init() {
	register(&Prop{
		ID: "C05",
		NumBatches: func(tier string, seed int64) int {
			pb, _ := c05Exhaustive(tier)
			if tier == "thorough" {
				return 1 + pb + c05MutBatchesThorough + c05ByteBatchesThorough
			}
			return 1 + pb + c05MutBatchesQuick + c05ByteBatchesQuick
		},
		Run: func(c *rt.Ctx) {
			n := len(Alphabet28)
			pb, sufLen := c05Exhaustive(c.Tier)
			switch {
			case c.Idx == 0:
				// lengths 0 and 1
				sub := 0
				c05Check(c, sub, []byte{})
				for _, a := range Alphabet28 {
					sub++
					c05Check(c, sub, []byte{a})
				}
				c.NonTrivialEnum(int64(n + 1))
				c.Sample(map[string]any{"family": "exhaustive", "example": "every string of length 0..1 over the 28-symbol alphabet"})
			case c.Idx <= pb:
				k := c.Idx - 1
				prefix := []byte{Alphabet28[k/n], Alphabet28[k%n]}
				sub := 0
				buf := make([]byte, 0, 8)
				var rec func(depth int)
				rec = func(depth int) {
					c05Check(c, sub, append([]byte{}, buf...))
					sub++
					if depth == sufLen {
						return
					}
					for _, a := range Alphabet28 {
						buf = append(buf, a)
						rec(depth + 1)
						buf = buf[:len(buf)-1]
					}
				}
				buf = append(buf, prefix...)
				rec(0)
				c.NonTrivialEnum(int64(sub))
				c.Obs("exhaustive_strings", int64(sub))
				if k == 5 {
					c.Sample(map[string]any{"family": "exhaustive", "prefix": string(prefix), "strings": sub, "max_len": 2 + sufLen})
				}
			case c.Idx > pb+c05MutBatches(c.Tier):
				c05ByteTable(c, c.Idx-pb-c05MutBatches(c.Tier)-1)
			default:
				// mutation family: a generated valid text and every single-byte deletion, insertion
				// and substitution over the alphabet
				r := c.RNG(0)
				doc := gen.Doc(r, 3)
				sub := 0
				c05Check(c, sub, doc)
				c.NonTrivial("mut", string(doc))
				for i := 0; i <= len(doc); i++ {
					if i < len(doc) {
						sub++
						m := append(append([]byte{}, doc[:i]...), doc[i+1:]...)
						c05Check(c, sub, m)
						c.NonTrivial("mut", string(m))
					}
					for _, a := range Alphabet28 {
						sub++
						m := append(append(append([]byte{}, doc[:i]...), a), doc[i:]...)
						c05Check(c, sub, m)
						if i < len(doc) && a != doc[i] {
							sub++
							m2 := append([]byte{}, doc...)
							m2[i] = a
							c05Check(c, sub, m2)
						}
					}
				}
				// token-level mutants (a value in key position, a missing colon, a doubled comma ...)
				tms := gen.TokenMutants(doc)
				if len(tms) > 600 {
					tms = tms[:600]
				}
				for _, m := range tms {
					sub++
					c05Check(c, sub, m)
				}
				c.Obs("token_mutants", int64(len(tms)))
				// a stray byte far behind the value: beyond the bytes a stream decoder has already
				// read (first read 511 bytes, then 512, 1024 ...), and beyond a whole further read
				far := 0
				for _, n := range []int{1, 400, 505, 508, 509, 510, 511, 512, 513, 600, 1020, 1023, 1024, 1030, 1535, 1536, 2047, 2048, 3000, 5000} {
					pad := n - len(doc)
					if pad < 0 {
						pad = n
					}
					g := []string{"x", "]", "1", ",", "}", "\"s\"", "\x00"}[(n+c.Idx)%7]
					for _, ws := range []string{" ", "\n", "\t\r\n "} {
						sub++
						far++
						c05Check(c, sub, append(append(append([]byte{}, doc...), bytes.Repeat([]byte(ws), pad/len(ws)+1)...), g...))
					}
					sub++
					far++
					c05Check(c, sub, append(append(bytes.Repeat([]byte(" "), pad+1), doc...), g...))
				}
				c.Obs("far_trailing_texts", int64(far))
				c.Obs("mutation_docs", 1)
				c.Obs("mutants", int64(sub))
				c.Sample(map[string]any{"family": "mutation", "base": string(doc), "mutants": sub})
			}
		},
	})
}
