package props

import (
	"bytes"
	"context"
	"fmt"
	"io"
	"reflect"
	"runtime"
	"strings"
	"time"
	"unsafe"

	gojson "github.com/goccy/go-json"

	"verif/harness/gen"
	"verif/harness/rt"
	"verif/harness/zoo"
)

// C06 — decoding and utilities always return: no panic, crash or hang on any input.
//
// Monitor "no-panic": every decoding/utility entry point, on every byte string, destination type
// and reader behaviour, returns a result or an error. A recovered panic is a violation; a process
// death or a confirmed hang is attributed by the driver to the journalled sub-case.

type c06Entry struct {
	name string
	f    func(b []byte)
}

type c06Big struct {
	A  int            `json:"a"`
	B  string         `json:"b"`
	C  []int          `json:"c"`
	D  map[string]any `json:"d"`
	E  *c06Big        `json:"e"`
	F  [2]float32     `json:"f"`
	G  any            `json:"g"`
	H  []byte         `json:"h"`
	I  gojson.Number  `json:"i"`
	J  gojson.RawMessage
	K  zoo.UP
	L  zoo.UT
	M  map[int]string
	N  bool `json:"n,string"`
	O  *int
	P  [0]int
	Q  struct{}
	R  zoo.EmbVal
	S  []zoo.RecSlice
	T  map[zoo.UTS]*zoo.UP
	U8 uint8
}

// c06Odd: members of kinds JSON has no value for.
type c06Odd struct {
	A int             `json:"a"`
	F func()          `json:"b"`
	C chan int        `json:"c"`
	X complex128      `json:"d"`
	U unsafe.Pointer  `json:"e"`
	S zoo.Shaper      `json:"f"`
	E error           `json:"g"`
	P *func(int) bool `json:"h"`
	M map[string]func()
	Z string `json:"i"`
}

// c06CtxU implements only the context-aware unmarshaler interface.
type c06CtxU struct{ got []byte }

func (u *c06CtxU) UnmarshalJSON(ctx context.Context, b []byte) error {
	u.got = append(u.got[:0], b...)
	return nil
}

// c06Ctx mixes plain, context-aware and text unmarshalers as members, by value and by pointer.
type c06Ctx struct {
	A zoo.UP    `json:"a"`
	B *zoo.UP   `json:"b"`
	C c06CtxU   `json:"c"`
	D *c06CtxU  `json:"d"`
	E zoo.UT    `json:"e"`
	F []c06CtxU `json:"f"`
	G map[string]*zoo.UP
}

func c06Entries() []c06Entry {
	dec := func(mk func() any) func([]byte) {
		return func(b []byte) { gojson.Unmarshal(b, mk()) }
	}
	sdec := func(mk func() any, chunk int) func([]byte) {
		return func(b []byte) {
			d := gojson.NewDecoder(&cutReader{append([]byte{}, b...), chunk})
			for i := 0; i < 4; i++ {
				if err := d.Decode(mk()); err != nil {
					break
				}
			}
			d.More()
			d.InputOffset()
			io.ReadAll(d.Buffered())
		}
	}
	paths := []string{"$", "$.a", "$.a.b", "$[0]", "$[*]", "$..a", "$.*", "$.a[1].b", "$['a']", `$["a b"]`, "$..*", "$.d.x", "$.e.e.e", "$[-1]", "$.a[-2]", "$.c[-0]", "$[99999999]", "$..a[-1]"}
	var compiled []*gojson.Path
	for _, p := range paths {
		if cp, err := gojson.CreatePath(p); err == nil {
			compiled = append(compiled, cp)
		}
	}
	return []c06Entry{
		{"Unmarshal:iface", dec(func() any { var v any; return &v })},
		{"Unmarshal:big-struct", dec(func() any { return &c06Big{} })},
		{"Unmarshal:struct{}", dec(func() any { return &struct{}{} })},
		{"Unmarshal:map[string]iface", dec(func() any { return &map[string]any{} })},
		{"Unmarshal:[]iface", dec(func() any { return &[]any{} })},
		{"Unmarshal:[]int", dec(func() any { return &[]int{} })},
		{"Unmarshal:[2]string", dec(func() any { return &[2]string{} })},
		{"Unmarshal:string", dec(func() any { var v string; return &v })},
		{"Unmarshal:int8", dec(func() any { var v int8; return &v })},
		{"Unmarshal:float32", dec(func() any { var v float32; return &v })},
		{"Unmarshal:bool", dec(func() any { var v bool; return &v })},
		{"Unmarshal:[]byte", dec(func() any { var v []byte; return &v })},
		{"Unmarshal:*int", dec(func() any { var v *int; return &v })},
		{"Unmarshal:RawMessage", dec(func() any { var v gojson.RawMessage; return &v })},
		{"Unmarshal:Number", dec(func() any { var v gojson.Number; return &v })},
		{"Unmarshal:Unmarshaler", dec(func() any { return &zoo.UP{} })},
		{"Unmarshal:TextUnmarshaler", dec(func() any { return &zoo.UT{} })},
		{"Unmarshal:map[int]RecSlice", dec(func() any { return &map[int]zoo.RecSlice{} })},
		{"Unmarshal:map[UTS]int", dec(func() any { return &map[zoo.UTS]int{} })},
		{"Unmarshal:Tags", dec(func() any { return &zoo.Tags{} })},
		{"Unmarshal:EmbShadow", dec(func() any { return &zoo.EmbShadow{} })},
		{"UnmarshalNoEscape:big-struct", func(b []byte) { gojson.UnmarshalNoEscape(b, &c06Big{}) }},
		// the context entry points with plain and context-aware unmarshalers (the decoder has to call
		// the interface the type implements, not the one that matches the entry point)
		{"UnmarshalContext:Unmarshaler", func(b []byte) { gojson.UnmarshalContext(context.Background(), b, &zoo.UP{}) }},
		{"UnmarshalContext:big-struct", func(b []byte) { gojson.UnmarshalContext(context.Background(), b, &c06Big{}) }},
		{"UnmarshalContext:iface", func(b []byte) { var v any; gojson.UnmarshalContext(context.Background(), b, &v) }},
		{"UnmarshalContext:struct{ctx-unmarshaler}", func(b []byte) { gojson.UnmarshalContext(context.Background(), b, &c06Ctx{}) }},
		{"Unmarshal:struct{ctx-unmarshaler}", func(b []byte) { gojson.Unmarshal(b, &c06Ctx{}) }},
		{"Unmarshal:ctx-unmarshaler", func(b []byte) { gojson.Unmarshal(b, &c06CtxU{}) }},
		{"Decoder.DecodeContext:struct{ctx-unmarshaler}/4", func(b []byte) {
			gojson.NewDecoder(&cutReader{append([]byte{}, b...), 4}).DecodeContext(context.Background(), &c06Ctx{})
		}},
		{"Decoder.DecodeContext:big-struct/full", func(b []byte) {
			gojson.NewDecoder(bytes.NewReader(b)).DecodeContext(context.Background(), &c06Big{})
		}},
		{"Decoder.DecodeWithOption(FirstWin):big-struct/6", func(b []byte) {
			gojson.NewDecoder(&cutReader{append([]byte{}, b...), 6}).DecodeWithOption(&c06Big{}, gojson.DecodeFieldPriorityFirstWin())
		}},
		{"UnmarshalWithOption(FirstWin):big-struct", func(b []byte) { gojson.UnmarshalWithOption(b, &c06Big{}, gojson.DecodeFieldPriorityFirstWin()) }},
		{"Decoder:iface/1", sdec(func() any { var v any; return &v }, 1)},
		{"Decoder:iface/7", sdec(func() any { var v any; return &v }, 7)},
		{"Decoder:big-struct/1", sdec(func() any { return &c06Big{} }, 1)},
		{"Decoder:big-struct/5", sdec(func() any { return &c06Big{} }, 5)},
		{"Decoder:struct{}/3", sdec(func() any { return &struct{}{} }, 3)},
		{"Decoder:[]int/2", sdec(func() any { return &[]int{} }, 2)},
		{"Decoder:map[string]RawMessage/3", sdec(func() any { return &map[string]gojson.RawMessage{} }, 3)},
		{"Decoder:string/1", sdec(func() any { var v string; return &v }, 1)},
		{"Decoder:iface/full", sdec(func() any { var v any; return &v }, 1<<30)},
		{"Decoder:big-struct/full", sdec(func() any { return &c06Big{} }, 1<<30)},
		{"Decoder.Token/full", func(b []byte) {
			d := gojson.NewDecoder(bytes.NewReader(b))
			for i := 0; i < 200; i++ {
				if _, err := d.Token(); err != nil {
					break
				}
				d.More()
			}
		}},
		{"Decoder.Token", func(b []byte) {
			d := gojson.NewDecoder(&cutReader{append([]byte{}, b...), 3})
			for i := 0; i < 200; i++ {
				if _, err := d.Token(); err != nil {
					break
				}
				d.More()
			}
		}},
		{"Decoder.UseNumber+DisallowUnknownFields", func(b []byte) {
			d := gojson.NewDecoder(bytes.NewReader(b))
			d.UseNumber()
			d.DisallowUnknownFields()
			d.Decode(&c06Big{})
		}},
		{"Valid", func(b []byte) { gojson.Valid(b) }},
		{"Compact", func(b []byte) { var o bytes.Buffer; gojson.Compact(&o, b) }},
		{"Indent", func(b []byte) { var o bytes.Buffer; gojson.Indent(&o, b, ">", " ") }},
		{"HTMLEscape", func(b []byte) { var o bytes.Buffer; gojson.HTMLEscape(&o, b) }},
		{"CreatePath", func(b []byte) {
			if p, err := gojson.CreatePath(string(b)); err == nil && p != nil {
				_ = p.PathString()
				p.Extract([]byte(`{"a":{"b":[1,{"b":2}]},"c":[1,2,3],"a b":null}`))
				var out any
				p.Unmarshal([]byte(`[{"a":1},{"a":[2]}]`), &out)
				p.Get(map[string]any{"a": []any{1, map[string]any{"b": 2}}}, &out)
			}
		}},
		{"Path.Extract", func(b []byte) {
			for _, p := range compiled {
				p.Extract(b)
			}
		}},
		{"Path.Unmarshal", func(b []byte) {
			for _, p := range compiled[:6] {
				var v any
				p.Unmarshal(b, &v)
				var s []string
				p.Unmarshal(b, &s)
				var st struct{ A int }
				p.Unmarshal(b, &st)
			}
		}},
		// destinations of kinds JSON has no value for, and interfaces with methods
		{"Unmarshal:odd-kinds", func(b []byte) {
			gojson.Unmarshal(b, &c06Odd{})
			gojson.Unmarshal(b, &[]func(){})
			gojson.Unmarshal(b, &map[string]chan int{})
			var f func()
			gojson.Unmarshal(b, &f)
			var e error
			gojson.Unmarshal(b, &e)
			var sh zoo.Shaper = zoo.SmallShape{}
			gojson.Unmarshal(b, &sh)
			var x complex128
			gojson.Unmarshal(b, &x)
		}},
		{"Decoder:odd-kinds/3", func(b []byte) {
			gojson.NewDecoder(&cutReader{append([]byte{}, b...), 3}).Decode(&c06Odd{})
			var f func()
			gojson.NewDecoder(bytes.NewReader(b)).Decode(&f)
			var sh zoo.Shaper = &zoo.SmallShape{}
			gojson.NewDecoder(bytes.NewReader(b)).Decode(&sh)
		}},
		// Path.Get assigns what it selected to destinations of every kind (a conversion table of its own)
		{"Path.Get:dst-kinds", func(b []byte) {
			var src any
			if gojson.Unmarshal(b, &src) != nil {
				return
			}
			srcs := []any{src, map[string]any{"a": src, "c": []any{src, 1.5, "12", true, nil}}, c06Big{A: 3, B: "4", C: []int{5}, U8: 6}, []any{src}, map[string]int{"a": 7},
				zoo.EmbShadow{}, &zoo.EmbPtr{}, zoo.Tags{Plain: 1}, map[string]zoo.Tags{"a": {}}, []zoo.EmbPtr{{}}, map[int]any{1: src}, [2]any{src, nil}, time.Now(), nil,
				[]any{1.0, nil, 3.0}, map[string]any{"a": nil, "k": nil, "c": []any{nil}}, []*int{nil, new(int)}, map[string]any{"a": map[string]any{"b": nil}, "P": nil, "Q": nil},
				struct {
					A  uint8
					B  float32
					C  []string
					D  map[string]any
					E  *int
					F  bool
					G  [2]int8
					H  gojson.Number
					a2 int
				}{A: 8, B: 1.5, C: []string{"9", "x"}, D: map[string]any{"x": src}, F: true, G: [2]int8{1, -1}, H: "10"}}
			for _, p := range compiled[:8] {
				for _, sv := range srcs {
					var d1 int8
					var d2 uint16
					var d3 string
					var d4 bool
					var d5 float32
					var d6 [2]int
					var d7 []string
					var d8 map[string]int
					var d9 struct{ A int }
					var d10 *int
					var d11 []any
					var d12 gojson.Number
					var d13 uint64
					var d14 map[string]any
					var d15 []c06Big
					var d16 float64
					type namedInt int
					type namedStrs []string
					type namedMap map[string]any
					var d17 namedInt
					var d18 namedStrs
					var d19 namedMap
					var d20 zoo.EmbPtr
					var d21 zoo.Tags
					var d22 *zoo.RecB
					var d23 error
					var d24 func()
					var d25 chan int
					var d26 zoo.Shaper
					var d27 [0]int
					var d28 map[int]string
					var d29 **string
					var d30 zoo.EmbShadow
					var d31 struct {
						a int
						B namedInt
						C *namedStrs
					}
					var d32 time.Time
					for _, dst := range []any{&d1, &d2, &d3, &d4, &d5, &d6, &d7, &d8, &d9, &d10, &d11, &d12, &d13, &d14, &d15, &d16,
						&d17, &d18, &d19, &d20, &d21, &d22, &d23, &d24, &d25, &d26, &d27, &d28, &d29, &d30, &d31, &d32, d9, nil, 5,
						// pointers at inner positions: a null or a nil interface in the source lands on them
						new([]*int), new(map[string]*int), new([2]*string), new(struct {
							P *int
							Q **string
						}), new([]*c06Big), new(map[string][]*float64), new([]any), new([]*any)} {
						p.Get(sv, dst)
					}
				}
			}
		}},
		{"Path.Get", func(b []byte) {
			var src any
			if gojson.Unmarshal(b, &src) != nil {
				return
			}
			for _, p := range compiled {
				var v any
				p.Get(src, &v)
				var i int
				p.Get(src, &i)
			}
			for _, p := range compiled[:4] {
				var v any
				p.Get(c06Big{A: 1, E: &c06Big{}, D: map[string]any{"x": 1}}, &v)
				p.Get(&c06Big{}, &v)
				p.Get([]any{src, 1, "s"}, &v)
				p.Get(map[string]int{"a": 1}, &v)
			}
		}},
	}
}

// Container types that contain themselves without a struct in between. The decoder's compiler
// follows element types until it meets a struct it has seen, so these recurse until the stack is
// gone: each sub-case carries its own shape tag because the process does not survive it.
type c06SelfSlice []c06SelfSlice
type c06SelfMap map[string]c06SelfMap
type c06SelfPtrSlice []*c06SelfPtrSlice

func c06SelfRefTypes(c *rt.Ctx, sub0 int) {
	cases := []struct {
		name string
		f    func() error
	}{
		{"[]T", func() error { var v c06SelfSlice; return gojson.Unmarshal([]byte("[[],[[]]]"), &v) }},
		{"map[string]T", func() error { var v c06SelfMap; return gojson.Unmarshal([]byte(`{"a":{"b":null}}`), &v) }},
		{"[]*T", func() error {
			var v c06SelfPtrSlice
			return gojson.NewDecoder(strings.NewReader("[null,[]]")).Decode(&v)
		}},
	}
	for i, cs := range cases {
		if !c.Cur(sub0+i, "shapes=selfref-container-type\nUnmarshal into a self-referential container type "+cs.name) {
			continue
		}
		pan, msg, frame := rt.Guard(func() { cs.f() })
		c.Eval(1)
		if pan {
			c.Violate(rt.Violation{Monitor: "no-panic", Entry: "Unmarshal", Kind: "panic:" + rt.PanicClass(msg), Ctx: frame + " @ selfref-container-type", Detail: cs.name + ": " + msg, Sub: sub0 + i})
		}
		c.Obs("selfref_container_types_survived", 1)
	}
}

func c06Run(c *rt.Ctx, sub int, entries []c06Entry, b []byte, class string) {
	if !c.Cur(sub, "shapes=core\ninput("+class+"): "+rt.Q(b)) {
		return
	}
	for i := range entries {
		e := &entries[i]
		pan, msg, frame := rt.Guard(func() { e.f(b) })
		c.Eval(1)
		if pan {
			if frame == "" {
				frame = "no-gojson-frame"
			}
			ename := e.name
			if j := strings.IndexByte(ename, '/'); j > 0 {
				ename = ename[:j]
			}
			c.Violate(rt.Violation{Monitor: "no-panic", Entry: ename, Kind: "panic:" + rt.PanicClass(msg), Ctx: frame,
				Detail: e.name + " panicked on " + rt.Q(b) + ": " + msg, Input: string(b), Sub: sub})
		}
	}
}

// c06RunTimed is c06Run with every call on its own goroutine and a deadline: the inputs of the
// families that use it are a few KiB and take microseconds, so a call that has not returned after
// 20 s and still has not after 60 s more is reported as a hang (the goroutine is abandoned and the
// rest of the batch skipped). Returns false after a hang.
func c06RunTimed(c *rt.Ctx, sub int, entries []c06Entry, b []byte, class string) bool {
	if !c.Cur(sub, "shapes=core\ninput("+class+"): "+rt.Q(b)) {
		return true
	}
	for i := range entries {
		e := &entries[i]
		type res struct {
			pan        bool
			msg, frame string
		}
		done := make(chan res, 1)
		in := append([]byte{}, b...)
		go func() {
			pan, msg, frame := rt.Guard(func() { e.f(in) })
			done <- res{pan, msg, frame}
		}()
		var r res
		returned := false
		for _, wait := range []time.Duration{20 * time.Second, 60 * time.Second} {
			select {
			case r = <-done:
				returned = true
			case <-time.After(wait):
			}
			if returned {
				break
			}
		}
		c.Eval(1)
		ename := e.name
		if j := strings.IndexByte(ename, '/'); j > 0 {
			ename = ename[:j]
		}
		if !returned {
			c.Violate(rt.Violation{Monitor: "termination", Entry: ename, Kind: "hang", Ctx: class[:strings.IndexByte(class+":", ':')],
				Detail: fmt.Sprintf("%s did not return within 80 s on a %d-byte input (%s)", e.name, len(b), class), Input: string(b), Sub: sub})
			return false
		}
		if r.pan {
			frame := r.frame
			if frame == "" {
				frame = "no-gojson-frame"
			}
			c.Violate(rt.Violation{Monitor: "no-panic", Entry: ename, Kind: "panic:" + rt.PanicClass(r.msg), Ctx: frame,
				Detail: e.name + " panicked on " + rt.Q(b) + ": " + r.msg, Input: string(b), Sub: sub})
		}
	}
	return true
}

// c06BoundaryLens are total input lengths around the sizes at which the stream buffer is refilled
// and doubled (the first read offers 511 bytes, then 512, 1024, ...).
var c06BoundaryLens = []int{510, 511, 512, 1022, 1023, 1024, 2046, 2047, 2048, 4095, 4096, 8191}

// c06Boundary feeds valid texts (and value sequences) whose total length, or whose first value's
// length, is exactly L.
func c06Boundary(c *rt.Ctx, entries []c06Entry, L int) {
	pad := func(n int, ch string) string { return strings.Repeat(ch, n) }
	var docs [][2]string
	add := func(class, d string) { docs = append(docs, [2]string{class, d}) }
	add("string", `"`+pad(L-2, "x")+`"`)
	add("string-escaped-tail", `"`+pad(L-4, "x")+`\n"`)
	add("string-multibyte-tail", `"`+pad(L-4, "x")+"\u00e9"+`"`)
	add("object", `{"a":"`+pad(L-8, "y")+`"}`)
	add("object-num-tail", `{"b":"`+pad(L-14, "y")+`","a":1}`)
	add("array", `["`+pad(L-6, "z")+`",1]`)
	add("array-nums", `[`+pad((L-3)/2, "1,")+pad(1+(L-3)%2, "2")+`]`)
	add("number", `1`+pad(L-1, "0"))
	add("nested", `{"d":{"x":["`+pad(L-16, "q")+`"]}}`)
	add("unknown-member", `{"zz":"`+pad(L-15, "w")+`","a":1}`)
	add("ws-inside", `[`+pad(L-2, " ")+`]`)
	add("literal-tail", `[`+pad(L-6, " ")+`true]`)
	add("null-tail", `{"e":`+pad(L-10, " ")+`null}`)
	sub := 0
	for _, d := range docs {
		if len(d[1]) != L {
			panic(fmt.Sprintf("c06Boundary: %s has length %d, want %d", d[0], len(d[1]), L))
		}
		for _, tail := range []string{"", " ", "\n", "1", ` {"a":2}`, `"s"`, "x", ","} {
			if !c06RunTimed(c, sub, entries, []byte(d[1]+tail), fmt.Sprintf("boundary:%s first-value-length=%d tail=%q", d[0], L, tail)) {
				return
			}
			sub++
		}
		// the same text ending exactly at L after leading white space
		for _, lead := range []int{1, 7} {
			if L-lead > 20 {
				t := pad(lead, " ") + strings.Replace(d[1], pad(lead, string(d[1][len(d[1])/2])), "", 1)
				if len(t) == L {
					if !c06RunTimed(c, sub, entries, []byte(t), fmt.Sprintf("boundary:%s total-length=%d lead=%d", d[0], L, lead)) {
						return
					}
					sub++
				}
			}
		}
	}
	// multi-byte characters whose lead byte sits just before, on and just behind the last slot of a
	// completely filled read (stream offsets 510, 1022, ...): as a string value, an object key, a
	// struct's string member and an array element
	if L == 511 || L == 1023 || L == 2047 {
		for _, ch := range []string{"\u00e9", "\u20ac", "\U0001F600", "\xe2\x82", "\xf0\x9f\x98"} {
			for off := -5; off <= 1; off++ {
				lead := L + off // stream offset of the character's lead byte
				forms := []struct{ head, tail string }{{`"`, `tail"`}, {`{"`, `k":1}`}, {`{"b":"`, `","a":1}`}, {`["`, `",2]`}, {`{"M":{"`, `":"v"}}`}}
				for _, f := range forms {
					if lead < len(f.head) {
						continue
					}
					text := f.head + pad(lead-len(f.head), "p") + ch + f.tail
					if !c06RunTimed(c, sub, entries, []byte(text), fmt.Sprintf("boundary:multibyte lead-byte-offset=%d", lead)) {
						return
					}
					sub++
				}
			}
		}
	}
	// texts of exactly L bytes that end inside a token, with fresh and with grown pooled buffers
	// (the scratch copies of the utilities have capacity 1024, then what append grows them to)
	const bs = "\\"
	for ei, end := range []string{"t", "tr", "tru", "f", "fa", "fal", "fals", "n", "nu", "nul", "-", "1.", "1e", `"`, `"a`, `"` + bs, `"` + bs + "u", `"` + bs + "u00", `"` + bs + "ud83d" + bs, "[", "[1,", `{"a"`, `{"a":`} {
		for d := -3; d <= 1; d++ {
			for _, two := range []int{1024, 2048, 4096} {
				n := two + d
				if n < L-8 || n > L+8 || n < len(end)+2 {
					continue
				}
				for pi, lead := range []string{strings.Repeat(" ", n-len(end)), "[" + strings.Repeat(" ", n-len(end)-1), `["` + strings.Repeat("p", n-len(end)-4) + `",`} {
					if (ei+pi)%2 == 0 {
						runtime.GC()
						runtime.GC()
					}
					if !c06RunTimed(c, sub, entries, []byte(lead+end), fmt.Sprintf("boundary:cut-token total-length=%d end=%q", n, end)) {
						return
					}
					sub++
				}
			}
		}
	}
	c.NonTrivialEnum(int64(sub))
	c.Obs("boundary_length_inputs", int64(sub))
	c.SetAdd("boundary_lengths", fmt.Sprint(L))
	c.Sample(map[string]any{"family": "refill-boundary lengths", "length": L, "inputs": sub, "entry_points": len(entries)})
}

// c06AfterErrors: an entry point that fails must leave the pooled state usable. After every
// failing call (each kind of failure an entry point can report) a decode that holds two pooled
// contexts at once (an unmarshaler that decodes its own bytes with the library) must still return.
func c06AfterErrors(c *rt.Ctx, entries []c06Entry, sub0 int) {
	bad := []string{`{"a":1} x`, `{"a":{"b":[1]}}]`, `[1,2`, `{"a":}`, `{"a":1}{"a":2}`, `"abc`, `{"a":"\ud800"} ,`, `nul`, `[1,2] 3`, ``, `{"e":{"e":{"e":1}}} }`, `{"d":{"x":[1,2]},"S":[{"name":"n"}]} !`}
	type nestedDst struct {
		A string       `json:"a"`
		N c11NestedU   `json:"n"`
		L []c11NestedU `json:"l"`
		Z []int        `json:"z"`
	}
	good := []byte(`{"a":"before","n":{"k":[1,2],"x":"inner"},"l":[{"k":1},[2],{"k":{"k":4}}],"z":[7,8,9]}`)
	sub := sub0
	for i := range entries {
		e := &entries[i]
		ename := e.name
		if j := strings.IndexByte(ename, '/'); j > 0 {
			ename = ename[:j]
		}
		if !c.Cur(sub, "shapes=core\nafter a failing call of "+e.name) {
			sub++
			continue
		}
		for _, b := range bad {
			rt.Guard(func() { e.f([]byte(b)) })
			for rep := 0; rep < 2; rep++ {
				var v nestedDst
				var err error
				pan, msg, frame := rt.Guard(func() { err = gojson.Unmarshal(good, &v) })
				c.Eval(1)
				if pan || err != nil || v.A != "before" || len(v.Z) != 3 || len(v.L) != 3 {
					if frame == "" {
						frame = "no-gojson-frame"
					}
					kind := "panic:" + rt.PanicClass(msg)
					if !pan {
						kind = "valid-document-fails-after-error"
					}
					c.Violate(rt.Violation{Monitor: "no-panic", Entry: ename, Kind: kind, Ctx: "after-error:" + frame,
						Detail: fmt.Sprintf("after %s on %s a nested decode of a valid document gave err=%v panic=%v %s (a=%q z=%v)", e.name, rt.Q([]byte(b)), err, pan, msg, v.A, v.Z), Input: b, Sub: sub})
					break
				}
			}
		}
		sub++
	}
	c.Obs("after_error_histories", int64(len(entries)*len(bad)))
}

func tower(open, close string, depth int, leaf string) []byte {
	return []byte(strings.Repeat(open, depth) + leaf + strings.Repeat(close, depth))
}

func init() {
	const mutQ, mutT = 96, 1024
	register(&Prop{
		ID: "C06",
		NumBatches: func(tier string, seed int64) int {
			n := len(Alphabet28)
			if tier == "thorough" {
				return 1 + n*n + mutT + 64 + len(c06BoundaryLens) + 40
			}
			return 1 + n*n + mutQ + 16 + len(c06BoundaryLens) + 8
		},
		Run: func(c *rt.Ctx) {
			entries := c06Entries()
			n := len(Alphabet28)
			nmut, ntow, ntyped := mutQ, 16, 8
			sufLen := 1
			if c.Tier == "thorough" {
				nmut, ntow, ntyped, sufLen = mutT, 64, 40, 2
			}
			switch {
			case c.Idx == 0:
				sub := 0
				c06Run(c, sub, entries, []byte{}, "empty")
				for _, a := range Alphabet28 {
					sub++
					c06Run(c, sub, entries, []byte{a}, "exhaustive")
				}
				c.NonTrivialEnum(int64(n + 1))
				c06AfterErrors(c, entries, 1000)
				c06SelfRefTypes(c, 2000)
			case c.Idx <= n*n:
				// every string of length 2..2+sufLen with this two-symbol prefix
				k := c.Idx - 1
				buf := []byte{Alphabet28[k/n], Alphabet28[k%n]}
				sub := 0
				var rec func(d int)
				rec = func(d int) {
					c06Run(c, sub, entries, append([]byte{}, buf...), "exhaustive")
					sub++
					if d == sufLen {
						return
					}
					for _, a := range Alphabet28 {
						buf = append(buf, a)
						rec(d + 1)
						buf = buf[:len(buf)-1]
					}
				}
				rec(0)
				c.NonTrivialEnum(int64(sub))
				c.Obs("exhaustive_strings", int64(sub))
				if k == 9 {
					c.Sample(map[string]any{"family": "exhaustive", "prefix": string(buf[:2]), "strings": sub, "entry_points": len(entries)})
				}
			case c.Idx <= n*n+nmut:
				// every prefix and every single-byte mutation of a generated valid text
				r := c.RNG(0)
				doc := gen.Doc(r, 3)
				if c.Idx%3 == 0 {
					// a document shaped for the big struct
					doc = []byte(`{"a":1,"b":"xé\n","c":[1,2],"d":{"k":[null,{"z":1.5e3}]},"e":{"a":2,"e":null},"f":[1.5,2],"g":[true],"h":"aGk=","i":12,"J":{"r":1},"K":[1],"L":"t","M":{"1":"a"},"n":"true","O":5,"P":[],"Q":{},"R":{"A":1,"b":"s"},"S":[{"name":"n","kids":[{"name":"k"}]}],"T":{"k":[1]},"U8":255}`)
				}
				sub := 0
				c06Run(c, sub, entries, doc, "generated")
				for i := 0; i < len(doc); i++ {
					sub++
					c06Run(c, sub, entries, doc[:i], "prefix")
				}
				for i := 0; i <= len(doc); i++ {
					for _, a := range []byte{Alphabet28[r.Intn(n)], Alphabet28[r.Intn(n)], 0, '"', '\\', '{', '['} {
						sub++
						m := append(append(append([]byte{}, doc[:i]...), a), doc[i:]...)
						c06Run(c, sub, entries, m, "insertion")
						if i < len(doc) {
							sub++
							m2 := append([]byte{}, doc...)
							m2[i] = a
							c06Run(c, sub, entries, m2, "substitution")
						}
					}
					if i < len(doc) {
						sub++
						c06Run(c, sub, entries, append(append([]byte{}, doc[:i]...), doc[i+1:]...), "deletion")
					}
				}
				c.NonTrivial("mut", string(doc))
				c.Obs("mutants", int64(sub))
				c.Sample(map[string]any{"family": "prefixes+mutants", "base": string(doc[:minInt(len(doc), 120)]), "cases": sub})
			case c.Idx <= n*n+nmut+ntow:
				// nesting towers
				k := c.Idx - (n*n + nmut) - 1
				if c.Tier != "thorough" && k >= 14 {
					// a struct that contains itself through a pointer member, far beyond the nesting
					// limit: the struct decoder counts the levels itself (every struct entry point)
					var se []c06Entry
					for _, e := range entries {
						if strings.Contains(e.name, "big-struct") {
							se = append(se, e)
						}
					}
					sh := [][3]string{{`{"e":`, "}", "null"}, {`{"e":`, "", ""}}[k-14]
					doc := tower(sh[0], sh[1], 5000000, sh[2])
					c06Run(c, 0, se, doc, "tower:"+sh[0]+" x 5000000 (self-referential struct entries)")
					c.ObsMax("max_nesting_depth_struct_entries", 5000000)
					c.NonTrivial("tower-struct", sh[0], sh[1])
					return
				}
				if c.Tier != "thorough" && k >= 12 {
					// the path evaluators alone on towers far beyond the nesting limit: a level that is not
					// counted is a level of native recursion (every entry point gets these depths in the
					// thorough tier)
					var pe []c06Entry
					for _, e := range entries {
						if strings.HasPrefix(e.name, "Path.") {
							pe = append(pe, e)
						}
					}
					sh := [][3]string{{"[", "]", "1"}, {"[", "", ""}}[k-12]
					doc := tower(sh[0], sh[1], 5000000, sh[2])
					c06Run(c, 0, pe, doc, fmt.Sprintf("tower:%s x 5000000 (path entries)", sh[0]))
					c.ObsMax("max_nesting_depth_path_entries", 5000000)
					c.NonTrivial("tower-path", sh[0], sh[1])
					return
				}
				depths := []int{100, 1000, 9999, 10000, 10001, 100000}
				if c.Tier == "thorough" {
					depths = []int{100, 1000, 9999, 10000, 10001, 100000, 1000000, 10000000}
				}
				d := depths[k%len(depths)]
				shapes := [][3]string{{"[", "]", "1"}, {`{"a":`, "}", "null"}, {`[{"e":`, "}]", `"x"`}, {"[", "", ""}, {`{"a":`, "", ""}, {`[[{"e":{"e":[`, "", ""}, {`{"e":`, "}", "null"}, {`{"e":`, "", ""}}
				sh := shapes[(k/len(depths))%len(shapes)]
				doc := tower(sh[0], sh[1], d, sh[2])
				c06Run(c, 0, entries, doc, fmt.Sprintf("tower:%s x %d", sh[0], d))
				c.ObsMax("max_nesting_depth", int64(d))
				c.NonTrivial("tower", sh[0], fmt.Sprint(d))
				c.Sample(map[string]any{"family": "nesting tower", "open": sh[0], "depth": d, "closed": sh[1] != ""})
			case c.Idx <= n*n+nmut+ntow+len(c06BoundaryLens):
				c06Boundary(c, entries, c06BoundaryLens[c.Idx-(n*n+nmut+ntow)-1])
			default:
				// generated destination types x documents (valid, mutated, truncated)
				r := c.RNG(0)
				// ntyped types from the grammar, then every catalogued odd shape four times (the
				// alternatives inside a shape are drawn, so several draws each)
				nsweep := 4 * len(gen.Features)
				for k := 0; k < ntyped+nsweep; k++ {
					var t reflect.Type
					var feat string
					if k < ntyped {
						t, feat = gen.Type(rt.FixedRNG("C06type", c.Idx*64+k), 3, gen.TypeOpts{FeatureProb: 30})
					} else {
						t, feat = gen.Type(rt.FixedRNG("C06feat", c.Idx*4096+k), 1, gen.TypeOpts{Feature: 1 + (k-ntyped)%len(gen.Features)})
					}
					v := gen.Value(r, t, 3, gen.ValOpts{RoundTrip: true})
					base, err := stdRenderBytes(v.Interface())
					if err != nil {
						continue
					}
					docs := [][]byte{base, gen.MutateDoc(r, base, gen.DocMutations[r.Intn(len(gen.DocMutations))]), gen.Doc(r, 2), gen.MutateDoc(r, base, "quoted-value")}
					if len(base) > 2 {
						docs = append(docs, base[:r.Intn(len(base))])
						m := append([]byte{}, base...)
						m[r.Intn(len(m))] = Alphabet28[r.Intn(n)]
						docs = append(docs, m)
					}
					for di, d := range docs {
						sub := k*10 + di
						if !c.Cur(sub, "shapes="+featTag(feat)+"\ntype: "+t.String()+"\ndoc: "+string(d)) {
							continue
						}
						for mode := 0; mode < 3; mode++ {
							dst := reflect.New(t)
							pan, msg, frame := rt.Guard(func() {
								switch mode {
								case 0:
									gojson.Unmarshal(d, dst.Interface())
								case 1:
									gojson.NewDecoder(&cutReader{append([]byte{}, d...), 1 + r.Intn(9)}).Decode(dst.Interface())
								default:
									dec := gojson.NewDecoder(bytes.NewReader(d))
									dec.DisallowUnknownFields()
									dec.UseNumber()
									dec.Decode(dst.Interface())
								}
							})
							c.Eval(1)
							if pan {
								c.Violate(rt.Violation{Monitor: "no-panic", Entry: []string{"Unmarshal", "Decoder", "Decoder(opts)"}[mode] + ":generated-type", Kind: "panic:" + rt.PanicClass(msg), Ctx: shapeCtx(frame, feat),
									Detail: msg + " | doc " + rt.Q(d) + " | type " + t.String(), Input: map[string]any{"type": t.String(), "doc": string(d)}, Sub: sub})
							}
						}
						c.NonTrivial(t.String(), string(d))
					}
				}
			}
		},
	})
}

func stdRenderBytes(x any) ([]byte, error) {
	return stdMarshal(x)
}
