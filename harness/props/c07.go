package props

import (
	"bytes"
	"context"
	"encoding"
	stdjson "encoding/json"
	"fmt"
	"math/rand"
	"reflect"
	"runtime"
	"runtime/debug"
	"strings"
	"testing/iotest"
	"unsafe"

	gojson "github.com/goccy/go-json"

	"verif/harness/rt"
	"verif/harness/zoo"
)

// C07 — decoding touches only the destination: no stray reads or writes.
//
// Monitors:
//   canary      destination fields sit between [16]byte canaries (json:"-") inside one heap object;
//               after any Unmarshal/Decode, successful or not, every canary byte is unchanged
//   twin        on success the destination equals what encoding/json produces from the same
//               pre-populated twin (bytes the document does not address keep their contents)
//   wellformed  after any decode the destination can be traversed: every string/slice header is
//               read at both ends under SetPanicOnFault, cap>=len, then a forced GC runs
//   (checkptr / ASan builds replay the same list: stray reads and pointer arithmetic)

var c07Sink byte

func elemTypeOfSize(s int) reflect.Type {
	switch s {
	case 1:
		return reflect.TypeOf(uint8(0))
	case 2:
		return reflect.TypeOf(uint16(0))
	case 4:
		return reflect.TypeOf(uint32(0))
	case 8:
		return reflect.TypeOf(uint64(0))
	case 16:
		return reflect.TypeOf("")
	case 24:
		return reflect.TypeOf([]int16(nil))
	}
	return reflect.ArrayOf(s, reflect.TypeOf(uint8(0)))
}

func elemDoc(r *rand.Rand, t reflect.Type) string {
	switch t.Kind() {
	case reflect.Uint8:
		return fmt.Sprint(r.Intn(256))
	case reflect.Uint16:
		return fmt.Sprint(r.Intn(65536))
	case reflect.Uint32, reflect.Uint64:
		return fmt.Sprint(r.Uint32())
	case reflect.String:
		return `"s` + fmt.Sprint(r.Intn(1000)) + `"`
	case reflect.Slice:
		return "[" + fmt.Sprint(r.Intn(100)) + "," + fmt.Sprint(r.Intn(100)) + "]"
	case reflect.Array:
		n := r.Intn(t.Len() + 2)
		parts := make([]string, n)
		for i := range parts {
			parts[i] = fmt.Sprint(r.Intn(256))
		}
		return "[" + strings.Join(parts, ",") + "]"
	}
	return "0"
}

type c07Field struct {
	name string
	typ  reflect.Type
	desc string
	elem reflect.Type
	alen int
}

// buildCanaryType: struct{K0 [16]byte; F0 T0; K1 [16]byte; F1 T1; ... Kn [16]byte}
func buildCanaryType(r *rand.Rand, nf int) (reflect.Type, []c07Field) {
	canary := reflect.TypeOf([16]byte{})
	var fs []reflect.StructField
	var out []c07Field
	for i := 0; i < nf; i++ {
		fs = append(fs, reflect.StructField{Name: fmt.Sprintf("K%d", i), Type: canary, Tag: `json:"-"`})
		size := 1 + r.Intn(64)
		if r.Intn(3) == 0 {
			size = []int{1, 2, 3, 4, 5, 7, 8, 9, 12, 16, 17, 24, 31, 32, 33, 48, 63, 64}[r.Intn(18)]
		}
		et := elemTypeOfSize(size)
		var ft reflect.Type
		desc := ""
		alen := 0
		switch r.Intn(8) {
		case 0, 1, 2:
			alen = 1 + r.Intn(5)
			ft = reflect.ArrayOf(alen, et)
			desc = fmt.Sprintf("array%d(elem%d)", alen, size)
		case 3:
			ft = reflect.SliceOf(et)
			desc = fmt.Sprintf("slice(elem%d)", size)
		case 4:
			ft = et
			desc = fmt.Sprintf("elem%d", size)
		case 5:
			ft = reflect.PtrTo(et)
			desc = fmt.Sprintf("ptr(elem%d)", size)
		case 6:
			ft = reflect.MapOf(reflect.TypeOf(""), et)
			desc = fmt.Sprintf("map(elem%d)", size)
		default:
			alen = 2 + r.Intn(2)
			ft = reflect.ArrayOf(alen, reflect.StructOf([]reflect.StructField{{Name: "A", Type: reflect.TypeOf(uint8(0))}, {Name: "S", Type: reflect.TypeOf("")}, {Name: "B", Type: et}}))
			et = ft.Elem()
			desc = fmt.Sprintf("array%d(struct{u8,string,elem%d})", alen, size)
		}
		name := fmt.Sprintf("F%d", i)
		fs = append(fs, reflect.StructField{Name: name, Type: ft, Tag: reflect.StructTag(fmt.Sprintf(`json:"f%d"`, i))})
		out = append(out, c07Field{name, ft, desc, et, alen})
	}
	fs = append(fs, reflect.StructField{Name: fmt.Sprintf("K%d", nf), Type: canary, Tag: `json:"-"`})
	return reflect.StructOf(fs), out
}

func fieldDoc(r *rand.Rand, f c07Field, mode int) string {
	t := f.typ
	switch mode {
	case 0:
		return "null"
	case 1: // wrong kind
		return []string{`"x"`, `true`, `{"a":1}`, `[[1]]`, `1.5`}[r.Intn(5)]
	}
	switch t.Kind() {
	case reflect.Array:
		n := r.Intn(t.Len() + 3) // shorter, exact, longer
		if mode == 2 {
			n = r.Intn(t.Len()) // strictly shorter
		}
		parts := make([]string, n)
		for i := range parts {
			if t.Elem().Kind() == reflect.Struct {
				parts[i] = fmt.Sprintf(`{"A":%d,"S":"s%d","B":%s}`, r.Intn(256), i, elemDoc(r, t.Elem().Field(2).Type))
				if r.Intn(3) == 0 {
					parts[i] = fmt.Sprintf(`{"S":"only%d"}`, i)
				}
			} else {
				parts[i] = elemDoc(r, t.Elem())
			}
		}
		return "[" + strings.Join(parts, ",") + "]"
	case reflect.Slice:
		if t.Elem().Kind() == reflect.Int16 {
			return elemDoc(r, t)
		}
		n := r.Intn(5)
		parts := make([]string, n)
		for i := range parts {
			parts[i] = elemDoc(r, t.Elem())
		}
		return "[" + strings.Join(parts, ",") + "]"
	case reflect.Ptr:
		return elemDoc(r, t.Elem())
	case reflect.Map:
		n := r.Intn(3)
		parts := make([]string, n)
		for i := range parts {
			parts[i] = fmt.Sprintf(`"k%d":%s`, i, elemDoc(r, t.Elem()))
		}
		return "{" + strings.Join(parts, ",") + "}"
	}
	return elemDoc(r, t)
}

// fillCanaries paints every [16]byte canary field and pre-populates payload fields
func paint(v reflect.Value, seed int64) {
	r := rand.New(rand.NewSource(seed))
	t := v.Type()
	for i := 0; i < t.NumField(); i++ {
		f := v.Field(i)
		if t.Field(i).Tag.Get("json") == "-" {
			for j := 0; j < 16; j++ {
				f.Index(j).SetUint(uint64(0xA0 + (i+j)%16))
			}
			continue
		}
		prepopulate(r, f)
	}
}

func prepopulate(r *rand.Rand, f reflect.Value) {
	switch f.Kind() {
	case reflect.Uint8, reflect.Uint16, reflect.Uint32, reflect.Uint64:
		f.SetUint(0x5151515151515151 & (1<<(uint(f.Type().Size())*8-1)<<1 - 1))
	case reflect.String:
		f.SetString("prepop")
	case reflect.Array:
		for i := 0; i < f.Len(); i++ {
			prepopulate(r, f.Index(i))
		}
	case reflect.Struct:
		for i := 0; i < f.NumField(); i++ {
			prepopulate(r, f.Field(i))
		}
	case reflect.Slice:
		if r.Intn(2) == 0 {
			s := reflect.MakeSlice(f.Type(), 2, 4)
			prepopulate(r, s.Index(0))
			prepopulate(r, s.Index(1))
			f.Set(s)
		}
	case reflect.Ptr:
		if r.Intn(2) == 0 {
			p := reflect.New(f.Type().Elem())
			prepopulate(r, p.Elem())
			f.Set(p)
		}
	case reflect.Map:
		if r.Intn(2) == 0 {
			m := reflect.MakeMap(f.Type())
			e := reflect.New(f.Type().Elem()).Elem()
			prepopulate(r, e)
			m.SetMapIndex(reflect.ValueOf("old"), e)
			f.Set(m)
		}
	case reflect.Int16:
		f.SetInt(0x5151)
	}
}

func canariesIntact(v reflect.Value) (bool, string) {
	t := v.Type()
	for i := 0; i < t.NumField(); i++ {
		if t.Field(i).Tag.Get("json") != "-" {
			continue
		}
		f := v.Field(i)
		for j := 0; j < 16; j++ {
			if byte(f.Index(j).Uint()) != byte(0xA0+(i+j)%16) {
				return false, fmt.Sprintf("%s[%d]=%#x", t.Field(i).Name, j, f.Index(j).Uint())
			}
		}
	}
	return true, ""
}

// wellFormed traverses a value the way ordinary code would and touches both ends of every
// string and slice (loaded into a package-level sink so that the load is not optimised away).
func wellFormed(v reflect.Value, depth int) string {
	if depth > 40 || !v.IsValid() {
		return ""
	}
	switch v.Kind() {
	case reflect.String:
		s := v.String()
		h := (*[2]uintptr)(unsafe.Pointer(&s))
		if h[0] == 0 && h[1] != 0 {
			return fmt.Sprintf("string header with nil data and len %d", h[1])
		}
		if len(s) > 1<<30 {
			return fmt.Sprintf("string header with absurd len %d", len(s))
		}
		if len(s) > 0 {
			c07Sink += s[0] + s[len(s)-1]
		}
	case reflect.Slice:
		if v.IsNil() {
			if v.Len() != 0 {
				return "nil slice with non-zero len"
			}
			return ""
		}
		if v.Cap() < v.Len() {
			return "slice with cap < len"
		}
		if v.Len() > 1<<28 {
			return fmt.Sprintf("slice with absurd len %d", v.Len())
		}
		for i := 0; i < v.Len(); i++ {
			if m := wellFormed(v.Index(i), depth+1); m != "" {
				return m
			}
		}
	case reflect.Array:
		for i := 0; i < v.Len(); i++ {
			if m := wellFormed(v.Index(i), depth+1); m != "" {
				return m
			}
		}
	case reflect.Struct:
		for i := 0; i < v.NumField(); i++ {
			if m := wellFormed(v.Field(i), depth+1); m != "" {
				return m
			}
		}
	case reflect.Ptr, reflect.Interface:
		if !v.IsNil() {
			if v.Kind() == reflect.Interface && v.NumMethod() > 0 {
				// an interface with methods carries a method table for its dynamic type: a value
				// stored as (type, data) has a type descriptor where the table should be
				if m := ifaceTableOK(v); m != "" {
					return m
				}
			}
			return wellFormed(v.Elem(), depth+1)
		}
	case reflect.Map:
		if v.IsNil() {
			return ""
		}
		it := v.MapRange()
		for it.Next() {
			if m := wellFormed(it.Key(), depth+1); m != "" {
				return m
			}
			if m := wellFormed(it.Value(), depth+1); m != "" {
				return m
			}
		}
	}
	return ""
}

// c07EmbeddedErrors: a promoted member of an embedded pointer fails to decode (wrong kind,
// truncated, bad literal). Whatever the error path tidies up, the embedded struct - fresh or put
// there by the caller - stays a well-formed value, the members decoded before the error keep their
// values, and nothing next to it is written.
func c07EmbeddedErrors(c *rt.Ctx, sub0 int) {
	type mkT struct {
		name string
		mk   func(prefill bool) any
		docs []string
		ok   func(v any, prefill bool) string
	}
	strOK := func(e *zoo.EPStrFirst, prefill bool, firstDecoded bool) string {
		if e == nil {
			return ""
		}
		want := ""
		if prefill {
			want = "caller"
		}
		if firstDecoded {
			want = "decoded"
		}
		if e.Name != want {
			return fmt.Sprintf("Name is %q (len %d), want %q", e.Name, len(e.Name), want)
		}
		return ""
	}
	cases := []mkT{
		{"EPOutStr", func(p bool) any {
			if p {
				return &zoo.EPOutStr{EPStrFirst: &zoo.EPStrFirst{Name: "caller", Age: 3, Tags: []string{"t"}}, Z: 9}
			}
			return &zoo.EPOutStr{}
		}, []string{`{"Age":"x"}`, `{"Name":"decoded","Age":"x","Z":1}`, `{"Name":"decoded","Tags":[1]}`, `{"Age":1,"Tags":"no"}`, `{"Age":tru}`, `{"Name":"decoded","Age":`},
			func(v any, p bool) string { return "" }},
		{"EPOutSlice", func(p bool) any {
			if p {
				return &zoo.EPOutSlice{A: 1, EPSliceFirst: &zoo.EPSliceFirst{Tags: []string{"caller", "x"}, Age: 2}}
			}
			return &zoo.EPOutSlice{}
		}, []string{`{"Age":"x"}`, `{"A":2,"Age":[]}`, `{"Tags":["a"],"Age":"x"}`, `{"Age":nul}`},
			func(v any, p bool) string { return "" }},
		{"EPOutTiny", func(p bool) any {
			o := &zoo.EPOutTiny{}
			if p {
				o.EPTiny = &zoo.EPTiny{Flag: 5}
			}
			for i := range o.G {
				o.G[i] = 0xA5
			}
			return o
		}, []string{`{"Flag":"x"}`, `{"Flag":1000}`, `{"Flag":[1]}`},
			func(v any, p bool) string {
				o := v.(*zoo.EPOutTiny)
				for i, b := range o.G {
					if b != 0xA5 {
						return fmt.Sprintf("guard byte %d behind the embedded pointer is %#x", i, b)
					}
				}
				return ""
			}},
	}
	sub := sub0
	for _, cs := range cases {
		for _, doc := range cs.docs {
			for _, prefill := range []bool{false, true} {
				sub++
				if !c.Cur(sub, fmt.Sprintf("shapes=core\nfailing promoted member: %s prefill=%v doc %s", cs.name, prefill, doc)) {
					continue
				}
				for mode := 0; mode < 4; mode++ {
					dst := cs.mk(prefill)
					var err error
					pan, msg, _ := rt.Guard(func() {
						switch mode {
						case 0:
							err = gojson.Unmarshal([]byte(doc), dst)
						case 1:
							err = gojson.UnmarshalNoEscape([]byte(doc), dst)
						case 2:
							err = gojson.UnmarshalContext(context.Background(), []byte(doc), dst)
						default:
							err = gojson.NewDecoder(strings.NewReader(doc)).Decode(dst)
						}
					})
					c.Eval(1)
					entry := []string{"Unmarshal", "Unmarshal", "Unmarshal", "Decoder"}[mode]
					if pan {
						c.Obs("panics_seen_judged_by_C06", 1)
						_ = msg
						continue
					}
					if err == nil {
						c.Obs("embedded_error_docs_accepted", 1)
					}
					runtime.GC()
					bad := ""
					pan, msg, _ = rt.Guard(func() { bad = wellFormed(reflect.ValueOf(dst).Elem(), 0) })
					if pan {
						bad = "walking the destination panicked: " + msg
					}
					if bad == "" {
						bad = cs.ok(dst, prefill)
					}
					if o, isStr := dst.(*zoo.EPOutStr); bad == "" && isStr {
						bad = strOK(o.EPStrFirst, prefill, strings.Contains(doc, `"decoded"`))
					}
					if bad != "" {
						c.Violate(rt.Violation{Monitor: "well-formed", Entry: entry, Kind: "malformed-value", Ctx: "embedded-pointer-after-error:" + cs.name,
							Detail: fmt.Sprintf("%s (prefill=%v) after the failed decode of %s: %s", cs.name, prefill, doc, bad), Sub: sub})
					}
				}
				c.Obs("embedded_error_decodes", 4)
				c.NonTrivial("emberr", cs.name, doc, fmt.Sprint(prefill))
			}
		}
	}
}

// c07NullElems: the slice decoders build their result in pooled scratch arrays that still hold the
// elements of earlier documents. A null element (and an element beyond the earlier length) must
// come out as the zero value of its kind, not as what an earlier document left there: after a
// document with non-empty elements, documents with nulls at every index, into fresh destinations.
func c07NullElems(c *rt.Ctx, sub0 int) {
	type st struct {
		S string
		P *int
		L []string
	}
	elems := []struct {
		t   reflect.Type
		val string
	}{
		{reflect.TypeOf(""), `"hello world"`}, {reflect.TypeOf(gojson.Number("")), `12345.5`}, {reflect.TypeOf(c07NamedStr("")), `"named"`},
		{reflect.TypeOf([]byte(nil)), `"aGVsbG8="`}, {reflect.TypeOf((*int)(nil)), `7`}, {reflect.TypeOf(map[string]int(nil)), `{"k":1}`},
		{reflect.TypeOf([]int(nil)), `[1,2,3]`}, {reflect.TypeOf((*any)(nil)).Elem(), `"in-iface"`}, {reflect.TypeOf(st{}), `{"S":"sss","P":3,"L":["a","b"]}`},
		{reflect.TypeOf((*string)(nil)), `"ptr-to-string"`}, {reflect.TypeOf(zoo.UTS("")), `"text"`},
	}
	rep := func(v string, n int) string { return "[" + strings.TrimSuffix(strings.Repeat(v+",", n), ",") + "]" }
	sub := sub0
	for _, el := range elems {
		t := reflect.SliceOf(el.t)
		docs := []string{rep(el.val, 6), rep("null", 7), "[" + el.val + ",null," + el.val + ",null,null,null,null,null," + el.val + "]", rep("null", 2), rep(el.val, 3)}
		for _, holder := range []bool{false, true} {
			dt := t
			wrap := func(d string) string { return d }
			if holder {
				dt = reflect.StructOf([]reflect.StructField{{Name: "A", Type: reflect.TypeOf(0)}, {Name: "V", Type: t}, {Name: "Z", Type: reflect.TypeOf("")}})
				wrap = func(d string) string { return `{"A":1,"V":` + d + `,"Z":"z"}` }
			}
			sub++
			if !c.Cur(sub, "shapes=core\nnull elements after longer documents: "+dt.String()) {
				continue
			}
			for _, stream := range []bool{false, true} {
				for di, d := range docs {
					doc := wrap(d)
					g, sd := reflect.New(dt), reflect.New(dt)
					var err error
					pan, msg, _ := rt.Guard(func() {
						if stream {
							err = gojson.NewDecoder(strings.NewReader(doc)).Decode(g.Interface())
						} else {
							err = gojson.Unmarshal([]byte(doc), g.Interface())
						}
					})
					c.Eval(1)
					if pan {
						c.Obs("panics_seen_judged_by_C06", 1)
						_ = msg
						continue
					}
					serr := stdjson.Unmarshal([]byte(doc), sd.Interface())
					bad := ""
					pan, msg, _ = rt.Guard(func() { bad = wellFormed(g.Elem(), 0) })
					if pan {
						bad = "walking the destination panicked: " + msg
					}
					if bad == "" && err == nil && serr == nil && !reflect.DeepEqual(g.Elem().Interface(), sd.Elem().Interface()) {
						gb, _ := stdjson.Marshal(g.Elem().Interface())
						sb, _ := stdjson.Marshal(sd.Elem().Interface())
						bad = fmt.Sprintf("value %s, encoding/json %s", gb, sb)
					}
					if bad != "" {
						c.Violate(rt.Violation{Monitor: "well-formed", Entry: map[bool]string{false: "Unmarshal", true: "Decoder"}[stream], Kind: "stale-scratch-element", Ctx: "elem:" + el.t.Kind().String(),
							Detail: fmt.Sprintf("%s, document #%d %s after the earlier ones: %s", dt, di, doc, bad), Sub: sub})
						break
					}
				}
			}
			c.Obs("null_element_histories", 1)
			c.NonTrivial("nullelems", dt.String())
		}
	}
}

func ifaceTableOK(v reflect.Value) (msg string) {
	defer func() {
		if r := recover(); r != nil {
			msg = fmt.Sprintf("interface value of type %s cannot be inspected: %v", v.Type(), r)
		}
	}()
	et := v.Elem().Type()
	if !et.Implements(v.Type()) {
		return fmt.Sprintf("interface value of type %s holds a %s, which does not implement it", v.Type(), et)
	}
	return ""
}

// c07NilIfaces: nil interfaces with methods as destinations (member, element, map value, top
// level). Whatever the verdict, the destination must stay a value reflect and the collector can
// walk: such an interface is a (method table, data) pair, an empty interface a (type, data) pair.
func c07NilIfaces(c *rt.Ctx, sub0 int) {
	type holder struct {
		A  int
		E  error
		S  fmt.Stringer
		Sh zoo.Shaper
		TU encoding.TextUnmarshaler
		B  string
	}
	dsts := []func() any{
		func() any { return &holder{} },
		func() any { var e error; return &e },
		func() any { var s fmt.Stringer; return &s },
		func() any { return &[]fmt.Stringer{} },
		func() any { return &map[string]zoo.Shaper{} },
		func() any { return &[2]error{} },
		func() any { return &struct{ P *fmt.Stringer }{} },
	}
	vals := []string{`"s"`, `1.5`, `true`, `[1,"x"]`, `{"a":1}`, `null`, `""`}
	sub := sub0
	for di, mk := range dsts {
		for _, val := range vals {
			var docs []string
			switch di {
			case 0:
				for _, k := range []string{"E", "S", "Sh", "TU"} {
					docs = append(docs, `{"A":1,"`+k+`":`+val+`,"B":"b"}`)
				}
			case 1, 2:
				docs = []string{val, " " + val + " "}
			case 3, 5:
				docs = []string{"[" + val + "]", "[" + val + "," + val + "]"}
			case 4:
				docs = []string{`{"k":` + val + `}`}
			default:
				docs = []string{`{"P":` + val + `}`}
			}
			for _, doc := range docs {
				sub++
				if !c.Cur(sub, "shapes=core\nnil interface destination "+fmt.Sprintf("%T", mk())+"\ndoc: "+doc) {
					continue
				}
				for mode := 0; mode < 3; mode++ {
					dst := mk()
					var err error
					pan, msg, _ := rt.Guard(func() {
						switch mode {
						case 0:
							err = gojson.Unmarshal([]byte(doc), dst)
						case 1:
							err = gojson.NewDecoder(strings.NewReader(doc)).Decode(dst)
						default:
							err = gojson.NewDecoder(iotest.OneByteReader(strings.NewReader(doc))).Decode(dst)
						}
					})
					c.Eval(1)
					entry := []string{"Unmarshal", "Decoder", "Decoder"}[mode]
					if pan {
						c.Obs("panics_seen_judged_by_C06", 1)
						_ = msg
						continue
					}
					_ = err
					runtime.GC()
					var m string
					pan, msg, _ = rt.Guard(func() { m = wellFormed(reflect.ValueOf(dst).Elem(), 0) })
					if pan {
						m = "walking the destination panicked: " + msg
					}
					if m != "" {
						c.Violate(rt.Violation{Monitor: "well-formed", Entry: entry, Kind: "malformed-value", Ctx: "nil-interface-with-methods", Detail: fmt.Sprintf("%T from %s: %s", dst, doc, m), Sub: sub})
					}
					c.Obs("nil_interface_decodes", 1)
				}
				c.NonTrivial("niliface", fmt.Sprint(di), doc)
			}
		}
	}
}

func c07Case(c *rt.Ctx, sub int, t reflect.Type, fdesc string, doc []byte, seed int64, stream bool) {
	// the entry point follows the sub-case number; the signature keeps the family name (all buffer
	// entry points share one decoder, as do the stream ones)
	entry := "Unmarshal"
	variant := []string{"Unmarshal", "UnmarshalContext", "UnmarshalNoEscape", "UnmarshalWithOption"}[sub%4]
	if stream {
		entry = "Decoder"
		variant = []string{"Decode", "DecodeContext", "DecodeWithOption"}[sub%3]
	}
	gd, sd := reflect.New(t), reflect.New(t)
	paint(gd.Elem(), seed)
	paint(sd.Elem(), seed)
	// the input lives in the middle of a larger array: bytes before and behind it are canaries too
	arena := make([]byte, len(doc)+64)
	for i := range arena {
		arena[i] = 0xC7
	}
	in := arena[32 : 32+len(doc) : len(arena)]
	copy(in, doc)
	var gerr error
	pan, msg, frame := rt.Guard(func() {
		switch variant {
		case "Unmarshal":
			gerr = gojson.Unmarshal(in, gd.Interface())
		case "UnmarshalContext":
			gerr = gojson.UnmarshalContext(context.Background(), in, gd.Interface())
		case "UnmarshalNoEscape":
			gerr = gojson.UnmarshalNoEscape(in, gd.Interface())
		case "UnmarshalWithOption":
			gerr = gojson.UnmarshalWithOption(in, gd.Interface())
		case "Decode":
			gerr = gojson.NewDecoder(bytes.NewReader(in)).Decode(gd.Interface())
		case "DecodeContext":
			gerr = gojson.NewDecoder(bytes.NewReader(in)).DecodeContext(context.Background(), gd.Interface())
		default:
			gerr = gojson.NewDecoder(bytes.NewReader(in)).DecodeWithOption(gd.Interface())
		}
	})
	c.Eval(1)
	for i, b := range arena {
		inside := i >= 32 && i < 32+len(doc)
		if (inside && b != doc[i-32]) || (!inside && b != 0xC7) {
			where := "input-bytes"
			if !inside {
				where = "bytes-around-the-input"
			}
			c.Violate(rt.Violation{Monitor: "canary", Entry: entry, Kind: "input-arena-written", Ctx: variant + ":" + where,
				Detail: fmt.Sprintf("byte %d of the arena (input occupies 32..%d) changed to %#x while decoding %s | type %s", i, 32+len(doc), b, rt.Q(doc), t), Sub: sub})
			return
		}
	}
	input := map[string]any{"type": t.String(), "doc": string(doc), "entry": entry}
	if pan {
		c.Obs("panics_seen_judged_by_C06", 1)
		_, _ = msg, frame
	}
	verdict := "ok"
	if gerr != nil || pan {
		verdict = "err"
	}
	if ok, where := canariesIntact(gd.Elem()); !ok {
		c.Violate(rt.Violation{Monitor: "canary", Entry: entry, Kind: "canary-overwritten", Ctx: fdesc + ":" + verdict,
			Detail: "canary " + where + " changed after decoding " + rt.Q(doc) + " (err=" + fmt.Sprint(gerr) + ") | type " + t.String(), Input: input, Sub: sub})
		return
	}
	old := debug.SetPanicOnFault(true)
	var wf string
	pan2, msg2, _ := rt.Guard(func() { wf = wellFormed(gd.Elem(), 0) })
	debug.SetPanicOnFault(old)
	if pan2 {
		wf = "traversal faulted: " + msg2
	}
	if wf != "" {
		c.Violate(rt.Violation{Monitor: "wellformed", Entry: entry, Kind: "ill-formed-destination", Ctx: fdesc + ":" + verdict,
			Detail: wf + " after decoding " + rt.Q(doc) + " (err=" + fmt.Sprint(gerr) + ") | type " + t.String(), Input: input, Sub: sub})
		return
	}
	if gerr == nil && !pan {
		var serr error
		if stream {
			serr = stdjson.NewDecoder(bytes.NewReader(doc)).Decode(sd.Interface())
		} else {
			serr = stdjson.Unmarshal(doc, sd.Interface())
		}
		if serr == nil {
			if d := diffValues(sd.Elem(), gd.Elem(), nil, 0); d != nil {
				gs, _ := stdjson.Marshal(gd.Elem().Interface())
				ss, _ := stdjson.Marshal(sd.Elem().Interface())
				c.Violate(rt.Violation{Monitor: "twin", Entry: entry, Kind: "unaddressed-storage-differs:" + d.what, Ctx: d.ctx() + " @ " + fdesc,
					Detail: "doc " + rt.Q(doc) + " go-json " + rt.Q(gs) + " encoding/json " + rt.Q(ss) + " | type " + t.String(), Input: input, Sub: sub})
			} else {
				c.Obs("twin_equal", 1)
			}
		} else {
			c.Obs("reference_rejects_not_judged_here(C02)", 1)
		}
	}
}

// c07StringOpt: members narrower than a word that carry the ,string option (their decoder works on
// a quoted payload and has its own null handling), packed next to each other and framed by
// canaries; pre-painted destinations, buffer and stream mode.
func c07StringOpt(c *rt.Ctx, sub0 int) {
	canary := reflect.TypeOf([16]byte{})
	opt := ",string"
	mk := func(kinds []reflect.Type) reflect.Type {
		fs := []reflect.StructField{{Name: "K0", Type: canary, Tag: `json:"-"`}}
		for i, k := range kinds {
			fs = append(fs, reflect.StructField{Name: fmt.Sprintf("F%d", i), Type: k, Tag: reflect.StructTag(fmt.Sprintf(`json:"f%d%s"`, i, opt))})
		}
		fs = append(fs, reflect.StructField{Name: "K1", Type: canary, Tag: `json:"-"`})
		return reflect.StructOf(fs)
	}
	types := []reflect.Type{
		mk([]reflect.Type{reflect.TypeOf(int8(0)), reflect.TypeOf(false), reflect.TypeOf(uint8(0)), reflect.TypeOf(int16(0)), reflect.TypeOf(uint8(0))}),
		mk([]reflect.Type{reflect.TypeOf(false)}), mk([]reflect.Type{reflect.TypeOf(int32(0)), reflect.TypeOf(float32(0))}), mk([]reflect.Type{reflect.TypeOf(""), reflect.TypeOf(int8(0))}),
		mk([]reflect.Type{reflect.TypeOf(uint16(0)), reflect.TypeOf(uint16(0)), reflect.TypeOf(uint16(0))}), mk([]reflect.Type{reflect.TypeOf(new(int8)), reflect.TypeOf(int8(0))}),
	}
	// members whose types decode themselves (UnmarshalText / UnmarshalJSON) and are narrower than a word
	opt = ""
	types = append(types, mk([]reflect.Type{reflect.TypeOf(zoo.UT8(0)), reflect.TypeOf(zoo.UT8(0)), reflect.TypeOf(zoo.UJ8(0))}), mk([]reflect.Type{reflect.TypeOf(zoo.UT16{}), reflect.TypeOf(zoo.UT8(0))}),
		mk([]reflect.Type{reflect.TypeOf(zoo.UJ8(0))}), mk([]reflect.Type{reflect.TypeOf(new(zoo.UT8)), reflect.TypeOf(zoo.UT8(0))}),
		// unmarshalers of slice, map, string, array and byte-slice kind: null resets each differently
		mk([]reflect.Type{reflect.TypeOf(zoo.UTSl{}), reflect.TypeOf(zoo.UT8(0)), reflect.TypeOf(zoo.UTMp{})}), mk([]reflect.Type{reflect.TypeOf(zoo.UTBy{}), reflect.TypeOf(zoo.UTStr("")), reflect.TypeOf(zoo.UTArr{})}),
		mk([]reflect.Type{reflect.TypeOf(zoo.UJSl{}), reflect.TypeOf(zoo.UJMp{}), reflect.TypeOf(new(zoo.UTSl))}), mk([]reflect.Type{reflect.TypeOf([]zoo.UTSl{}), reflect.TypeOf(map[string]zoo.UTSl{})}))
	payload := func(t reflect.Type) string {
		switch t.Kind() {
		case reflect.Bool:
			return `"true"`
		case reflect.String:
			return `"\"s\""`
		case reflect.Float32:
			return `"1.5"`
		}
		return `"7"`
	}
	sub := sub0
	for _, t := range types {
		n := t.NumField() - 2
		var docs [][2]string
		for i := 0; i < n; i++ {
			ft := t.Field(i + 1).Type
			for _, v := range []string{"null", `"null"`, payload(ft), "7", `""`, `[1]`, `"x"`} {
				docs = append(docs, [2]string{fmt.Sprintf(`{"f%d":%s}`, i, v), fmt.Sprintf("string-opt(%s):%s", ft, v)})
				// a later sibling first, then this member: the sibling's bytes lie behind the member
				if i+1 < n {
					docs = append(docs, [2]string{fmt.Sprintf(`{"f%d":%s,"f%d":%s}`, i+1, payload(t.Field(i+2).Type), i, v), fmt.Sprintf("string-opt(%s):after-sibling:%s", ft, v)})
				}
			}
		}
		for di, d := range docs {
			if !c.Cur(sub, "shapes=core\ntype: "+t.String()+"\ndoc: "+d[0]) {
				sub++
				continue
			}
			seed := int64(rt.Mix(uint64(c.Seed), uint64(c.Idx), uint64(sub)))
			desc := strings.NewReplacer(`"`, "", "7", "num", "1.5", "num").Replace(d[1])
			c07Case(c, sub, t, desc, []byte(d[0]), seed, false)
			c07Case(c, sub, t, desc, []byte(d[0]), seed, true)
			_ = di
			sub++
		}
	}
	c.Obs("string_opt_canary_cases", int64(sub-sub0))
}

// c07AllocEdge: documents whose private copy (len+1 bytes) exactly fills a Go allocation size
// class and which end in a construct that makes a scanner look ahead (a high surrogate escape, a
// pair, a short escape, a multi-byte character, a backslash-quote, a number, a literal). A scanner
// that forms a pointer or reads past the end of the copy is stopped by checkptr / ASan in those
// variants; in every variant the result is compared with encoding/json's.
func c07AllocEdge(c *rt.Ctx, sub0 int) {
	bsl := "\\"
	tails := []string{bsl + "ud83d", bsl + "ud83d" + bsl + "ude00", bsl + "udbff" + bsl + "udfff", bsl + "ud800" + bsl + "u0041", bsl + "u00e9", bsl + "u0000", bsl + "n", bsl + bsl, bsl + `"`, bsl + "/",
		"é", "\xe2\x82\xac", "\xf0\x9f\x98\x80", "x", bsl + "ud83d" + bsl + "n", bsl + "udc00", bsl + "ud83d" + bsl + "ud83d"}
	classes := []int{8, 16, 24, 32, 48, 64, 80, 96, 112, 128, 144, 160, 176, 192, 208, 224, 240, 256, 288, 320, 352, 384, 416, 448, 480, 512, 576, 640, 704, 768, 896, 1024, 1152, 1280, 1408, 1536, 1792, 2048}
	type dst struct {
		name string
		mk   func() any
	}
	forms := []struct {
		pre, post string
		dsts      []dst
	}{
		{`"`, `"`, []dst{{"string", func() any { return new(string) }}, {"any", func() any { return new(any) }}}},
		{`["`, `"]`, []dst{{"[]string", func() any { return new([]string) }}, {"any", func() any { return new(any) }}, {"[1]string", func() any { return new([1]string) }}}},
		{`{"k":"`, `"}`, []dst{{"struct{K string}", func() any { return new(struct{ K string }) }}, {"map[string]string", func() any { return new(map[string]string) }}, {"struct{}", func() any { return new(struct{}) }},
			{"struct{K RawMessage}", func() any { return new(struct{ K gojson.RawMessage }) }}}},
		{`{"`, `":1}`, []dst{{"map[string]int", func() any { return new(map[string]int) }}, {"struct{K int}", func() any { return new(struct{ K int }) }}, {"any", func() any { return new(any) }}}},
		{`{"k":["`, `"]}`, []dst{{"struct{K []string}", func() any { return new(struct{ K []string }) }}, {"struct{X int}", func() any { return new(struct{ X int }) }}}},
	}
	sub := sub0
	n := 0
	for _, S := range classes {
		for ti, tail := range tails {
			for fi, f := range forms {
				// the copy is len(doc)+1 bytes: len(doc) = S-1 (and S, S-2: the neighbours)
				for _, total := range []int{S - 1, S, S - 2} {
					pad := total - len(f.pre) - len(tail) - len(f.post)
					if pad < 0 {
						continue
					}
					doc := []byte(f.pre + strings.Repeat("p", pad) + tail + f.post)
					if !c.Cur(sub, fmt.Sprintf("shapes=core\nalloc-edge doc of %d bytes ending in %q form %d", len(doc), tail, fi)) {
						sub++
						continue
					}
					for _, d := range f.dsts {
						for mode := 0; mode < 2; mode++ {
							g, s := d.mk(), d.mk()
							var gerr error
							pan, msg, _ := rt.Guard(func() {
								if mode == 0 {
									gerr = gojson.Unmarshal(doc, g)
								} else {
									gerr = gojson.NewDecoder(bytes.NewReader(doc)).Decode(g)
								}
							})
							c.Eval(1)
							n++
							serr := stdjson.Unmarshal(doc, s)
							ctx := fmt.Sprintf("tail%d:%s:%s", ti, d.name, []string{"buffer", "stream"}[mode])
							switch {
							case pan:
								c.Violate(rt.Violation{Monitor: "alloc-edge", Entry: "decode", Kind: "panic:" + rt.PanicClass(msg), Ctx: ctx, Detail: msg + " | doc " + rt.Q(doc), Sub: sub})
							case (gerr != nil) != (serr != nil):
								c.Violate(rt.Violation{Monitor: "alloc-edge", Entry: "decode", Kind: "verdict-differs", Ctx: ctx, Detail: fmt.Sprintf("doc %s (%d bytes): go-json %v encoding/json %v", rt.Q(doc), len(doc), gerr, serr), Sub: sub})
							case serr == nil && !reflect.DeepEqual(g, s):
								gb, _ := stdjson.Marshal(g)
								sb, _ := stdjson.Marshal(s)
								c.Violate(rt.Violation{Monitor: "alloc-edge", Entry: "decode", Kind: "value-differs", Ctx: ctx, Detail: fmt.Sprintf("doc %s (%d bytes): go-json %s encoding/json %s", rt.Q(doc), len(doc), gb, sb), Sub: sub})
							}
						}
					}
					sub++
				}
			}
		}
	}
	c.Obs("alloc_edge_decodes", int64(n))
	c.NonTrivialEnum(int64(sub - sub0))
}

// c07OddMapKeys decodes objects into maps whose key types are everything reflect can build a map
// from (pointers, pointer chains, floats, arrays, structs, bool, interface{}, text unmarshalers):
// whatever the verdict, the destination must stay a value that reflect and the collector can walk.
func c07OddMapKeys(c *rt.Ctx, sub0 int) {
	keys := []reflect.Type{reflect.TypeOf((*int)(nil)), reflect.TypeOf((*string)(nil)), reflect.TypeOf((**int)(nil)), reflect.TypeOf((*bool)(nil)), reflect.TypeOf((*float64)(nil)),
		reflect.TypeOf((*uint8)(nil)), reflect.TypeOf((*gojson.Number)(nil)), reflect.TypeOf((*interface{})(nil)), reflect.TypeOf(float64(0)), reflect.TypeOf([2]int{}), reflect.TypeOf(struct{ A int }{}),
		reflect.TypeOf(true), reflect.TypeOf(int8(0)), reflect.TypeOf(uint64(0)), reflect.TypeOf((*interface{})(nil)).Elem(), reflect.TypeOf((*zoo.UT)(nil)), reflect.TypeOf(zoo.UTS("")), reflect.TypeOf(gojson.Number(""))}
	vals := []reflect.Type{reflect.TypeOf(""), reflect.TypeOf(0), reflect.TypeOf([]int{})}
	docs := []string{`{"1":"a"}`, `{"1":1}`, `{"1":[1,2]}`, `{"k":"a","":"b"}`, `{"true":"x","false":"y"}`, `{"1.5":"f"}`, `{"-7":7,"8":8}`, `{"[1,2]":"arr"}`, `{"null":"n"}`, `{"{\"A\":1}":"s"}`, `{}`, `null`,
		`{"123456789012345678901234567890":"big"}`, `{"1":"a","1":"b"}`}
	sub := sub0
	for _, kt := range keys {
		for vi, vt := range vals {
			mt := reflect.MapOf(kt, vt)
			for di, doc := range docs {
				if (vi+di)%3 != 0 && vi != 0 {
					continue
				}
				sub++
				if !c.Cur(sub, "shapes=core\ntype: "+mt.String()+"\ndoc: "+doc) {
					continue
				}
				for _, stream := range []bool{false, true} {
					dst := reflect.New(mt)
					var err error
					pan, msg, frame := rt.Guard(func() {
						if stream {
							err = gojson.NewDecoder(strings.NewReader(doc)).Decode(dst.Interface())
						} else {
							err = gojson.Unmarshal([]byte(doc), dst.Interface())
						}
					})
					c.Eval(1)
					if pan {
						c.Obs("panics_seen_judged_by_C06", 1)
						_, _ = msg, frame
						continue
					}
					// the collector must be able to scan the map, and reflect to walk it
					runtime.GC()
					if m := wellFormed(dst.Elem(), 0); m != "" {
						c.Violate(rt.Violation{Monitor: "well-formed", Entry: "Unmarshal", Kind: "malformed-value", Ctx: "map-key:" + kt.Kind().String(), Detail: mt.String() + " from " + doc + ": " + m, Sub: sub})
					}
					// a pointer key must point to a value of its own: reading it, writing it back and
					// comparing it with the key text must work (a pointer made from the number, or
					// pointing into the input copy, faults or shows foreign bytes here)
					if err == nil && kt.Kind() == reflect.Ptr && dst.Elem().Len() == 1 && di < 3 {
						k := dst.Elem().MapKeys()[0]
						e := k
						for e.Kind() == reflect.Ptr && !e.IsNil() {
							e = e.Elem()
						}
						if e.Kind() != reflect.Ptr {
							cp := reflect.New(e.Type()).Elem()
							cp.Set(e)
							e.Set(cp)
							got := fmt.Sprint(e.Interface())
							if e.Kind() == reflect.Uint8 || e.Kind() == reflect.Int || e.Kind() == reflect.Float64 || e.Kind() == reflect.String {
								if got != "1" {
									c.Violate(rt.Violation{Monitor: "well-formed", Entry: "Unmarshal", Kind: "pointer-key-points-to-foreign-memory", Ctx: "map-key:" + kt.String(), Detail: mt.String() + " from " + doc + ": the key points to " + rt.Q([]byte(got)) + ", not to 1", Sub: sub})
								}
							}
						}
					}
					c.Obs("odd_map_key_decodes", 1)
				}
				c.NonTrivial("oddkey", mt.String(), doc)
			}
		}
	}
}

// c07MapElemSizes: the Go runtime keeps map keys and values larger than 128 bytes behind a pointer,
// and the decoder chooses between the runtime's string-key fast path (which hands out the value slot)
// and the generic assignment by the value's size. Value sizes on both sides of that limit and of
// every multiple of 256 (a size kept in one byte would wrap there), with string-kind and integer
// keys, one member and more members than one bucket holds; every member is read back after a
// collection and a burst of allocations.
type c07NamedStr string

func c07MapElemSizes(c *rt.Ctx, sub0 int) {
	words := []int{1, 2, 15, 16, 17, 18, 31, 32, 33, 34, 40, 47, 48, 49, 63, 64, 65, 66, 80, 96, 97, 128, 129}
	keys := []reflect.Type{reflect.TypeOf(""), reflect.TypeOf(c07NamedStr("")), reflect.TypeOf(0), reflect.TypeOf(uint8(0))}
	sub := sub0
	for _, w := range words {
		for ki, kt := range keys {
			for _, members := range []int{1, 3, 11} {
				if ki >= 2 && members == 3 {
					continue
				}
				sub++
				// value: [w]uint64, or for odd w a struct{ P *int; A [w-1]uint64 } (pointer-bearing)
				var vt reflect.Type
				ptrBearing := w%2 == 1 && w > 1
				if ptrBearing {
					vt = reflect.StructOf([]reflect.StructField{{Name: "P", Type: reflect.TypeOf((*int)(nil))}, {Name: "A", Type: reflect.ArrayOf(w-1, reflect.TypeOf(uint64(0)))}})
				} else {
					vt = reflect.ArrayOf(w, reflect.TypeOf(uint64(0)))
				}
				mt := reflect.MapOf(kt, vt)
				var sb strings.Builder
				sb.WriteByte('{')
				for m := 0; m < members; m++ {
					if m > 0 {
						sb.WriteByte(',')
					}
					fmt.Fprintf(&sb, `"%d":`, m+1)
					n := w
					if ptrBearing {
						fmt.Fprintf(&sb, `{"P":%d,"A":`, 1000+m)
						n = w - 1
					}
					sb.WriteByte('[')
					for i := 0; i < n; i++ {
						if i > 0 {
							sb.WriteByte(',')
						}
						fmt.Fprintf(&sb, "%d", (m+1)*100000+i)
					}
					sb.WriteByte(']')
					if ptrBearing {
						sb.WriteByte('}')
					}
				}
				sb.WriteByte('}')
				doc := sb.String()
				if !c.Cur(sub, fmt.Sprintf("shapes=core\ntype: %s (value size %d)\ndoc: %d members", mt.String(), vt.Size(), members)) {
					continue
				}
				for _, stream := range []bool{false, true} {
					dst := reflect.New(mt)
					var err error
					pan, msg, _ := rt.Guard(func() {
						if stream {
							err = gojson.NewDecoder(strings.NewReader(doc)).Decode(dst.Interface())
						} else {
							err = gojson.Unmarshal([]byte(doc), dst.Interface())
						}
					})
					c.Eval(1)
					entry := "Unmarshal"
					if stream {
						entry = "Decoder.Decode"
					}
					ctx := fmt.Sprintf("map-value-size:%d:key-%s", vt.Size(), kt.Kind())
					if pan {
						c.Violate(rt.Violation{Monitor: "well-formed", Entry: entry, Kind: "panic:" + rt.PanicClass(msg), Ctx: ctx, Detail: mt.String() + ": " + msg, Sub: sub})
						continue
					}
					if err != nil {
						c.Violate(rt.Violation{Monitor: "well-formed", Entry: entry, Kind: "valid-doc-rejected", Ctx: ctx, Detail: mt.String() + ": " + err.Error(), Sub: sub})
						continue
					}
					// churn the size classes around the value size, collect, then read everything back
					runtime.GC()
					var keep [][]byte
					for _, n := range []int{8, 16, int(vt.Size()), int(vt.Size()) + 8, 208} {
						for i := 0; i < 64; i++ {
							b := make([]byte, n)
							for j := range b {
								b[j] = 0xEE
							}
							keep = append(keep, b)
						}
					}
					runtime.GC()
					c07Sink += keep[len(keep)-1][0]
					bad := ""
					mv := dst.Elem()
					if mv.Len() != members {
						bad = fmt.Sprintf("%d members, want %d", mv.Len(), members)
					}
					for m := 0; m < members && bad == ""; m++ {
						k := reflect.New(kt).Elem()
						switch kt.Kind() {
						case reflect.String:
							k.SetString(fmt.Sprint(m + 1))
						case reflect.Int:
							k.SetInt(int64(m + 1))
						default:
							k.SetUint(uint64(m + 1))
						}
						e := mv.MapIndex(k)
						if !e.IsValid() {
							bad = fmt.Sprintf("member %d missing", m+1)
							break
						}
						arr := e
						if ptrBearing {
							pp := e.Field(0)
							if pp.IsNil() || pp.Elem().Int() != int64(1000+m) {
								bad = fmt.Sprintf("member %d: P does not point to %d", m+1, 1000+m)
								break
							}
							arr = e.Field(1)
						}
						for i := 0; i < arr.Len(); i++ {
							if arr.Index(i).Uint() != uint64((m+1)*100000+i) {
								bad = fmt.Sprintf("member %d element %d = %d, want %d", m+1, i, arr.Index(i).Uint(), (m+1)*100000+i)
								break
							}
						}
					}
					if bad != "" {
						c.Violate(rt.Violation{Monitor: "well-formed", Entry: entry, Kind: "map-value-corrupted", Ctx: ctx, Detail: mt.String() + ": " + bad, Sub: sub})
					}
					c.Obs("map_elem_size_decodes", 1)
				}
				c.NonTrivial("mapelem", mt.String(), fmt.Sprint(members))
				c.SetAdd("map_value_sizes", fmt.Sprint(vt.Size()))
			}
		}
	}
}

// c07Embedded: promoted members of embedded nil pointers make the decoder allocate the embedded
// object. It must have the embedded type's size and pointer layout: the members are written,
// a collection and a burst of same-sized allocations follow, and the members are read back.
func c07Embedded(c *rt.Ctx, sub0 int) {
	doc := []byte(`{"B1":1,"B2":2,"B3":3,"B4":4,"B5":5,"B6":6,"B7":7,"B8":8,"S":"ess","P":99,"L":[1,2,3],"Q":17,"R":[4,5],"A":3,"N":1,"M":2,"Z":9}`)
	docP := []byte(`{"PS":"pointed","Q":17,"R":[4,5],"N":1,"M":2}`)
	churn := func() {
		runtime.GC()
		var keep [][]byte
		for _, n := range []int{8, 16, 24, 32, 48, 64, 80, 96, 112, 128, 144, 160, 176, 192, 208, 224} {
			for i := 0; i < 200; i++ {
				b := make([]byte, n)
				for j := range b {
					b[j] = 0xEE
				}
				keep = append(keep, b)
			}
		}
		runtime.GC()
		c07Sink += keep[len(keep)-1][0]
	}
	bigOK := func(b *zoo.EPBig) string {
		if b == nil {
			return "embedded pointer still nil"
		}
		if b.B1 != 1 || b.B2 != 2 || b.B3 != 3 || b.B4 != 4 || b.B5 != 5 || b.B6 != 6 || b.B7 != 7 || b.B8 != 8 || b.S != "ess" || b.P == nil || *b.P != 99 || fmt.Sprint(b.L) != "[1 2 3]" {
			p := "nil"
			if b.P != nil {
				p = fmt.Sprint(*b.P)
			}
			return fmt.Sprintf("EPBig members changed: %d %d %d %d %d %d %d %d %q *P=%s L=%v", b.B1, b.B2, b.B3, b.B4, b.B5, b.B6, b.B7, b.B8, b.S, p, b.L)
		}
		return ""
	}
	innerOK := func(in *zoo.EPInnerP, wantP bool) string {
		if in == nil {
			return "embedded pointer still nil"
		}
		if in.Q != 17 || in.R == nil || fmt.Sprint(*in.R) != "[4 5]" || (wantP && (in.PS == nil || *in.PS != "pointed")) {
			return fmt.Sprintf("EPInnerP members changed: Q=%d R=%v PS=%v", in.Q, in.R, in.PS)
		}
		return ""
	}
	cases := []struct {
		name  string
		doc   []byte
		mk    func() any
		check func(v any) string
	}{
		{"EPOutSmall", doc, func() any { return &zoo.EPOutSmall{} }, func(v any) string { return bigOK(v.(*zoo.EPOutSmall).EPBig) }},
		{"EPOutScalar", docP, func() any { return &zoo.EPOutScalar{} }, func(v any) string {
			o := v.(*zoo.EPOutScalar)
			if o.N != 1 || o.M != 2 {
				return fmt.Sprintf("outer members changed: N=%d M=%d", o.N, o.M)
			}
			return innerOK(o.EPInnerP, true)
		}},
		{"EPOutMix", doc, func() any { return &zoo.EPOutMix{} }, func(v any) string {
			o := v.(*zoo.EPOutMix)
			if o.A != 3 || o.K0 != [16]byte{} || o.K1 != [16]byte{} {
				return fmt.Sprintf("outer members changed: A=%d K0=%v K1=%v", o.A, o.K0, o.K1)
			}
			if m := bigOK(o.EPBig); m != "" {
				return m
			}
			return innerOK(o.EPInnerP, false)
		}},
		{"EPDeep", doc, func() any { return &zoo.EPDeep{} }, func(v any) string {
			o := v.(*zoo.EPDeep)
			if o.Z != 9 || o.EPOutSmall == nil {
				return fmt.Sprintf("outer members changed: Z=%d", o.Z)
			}
			return bigOK(o.EPOutSmall.EPBig)
		}},
		{"[]EPOutSmall", []byte(`[` + string(doc) + `,` + string(doc) + `,` + string(doc) + `]`), func() any { return &[]zoo.EPOutSmall{} }, func(v any) string {
			l := *v.(*[]zoo.EPOutSmall)
			if len(l) != 3 {
				return fmt.Sprintf("%d elements", len(l))
			}
			for i := range l {
				if m := bigOK(l[i].EPBig); m != "" {
					return fmt.Sprintf("element %d: %s", i, m)
				}
			}
			return ""
		}},
	}
	for ci, cs := range cases {
		for ei, entry := range []string{"Unmarshal", "Decoder", "UnmarshalContext"} {
			sub := sub0 + ci*10 + ei
			if !c.Cur(sub, "shapes=core\nembedded nil pointer: "+cs.name+" via "+entry) {
				continue
			}
			for rep := 0; rep < 6; rep++ {
				v := cs.mk()
				var err error
				pan, msg, _ := rt.Guard(func() {
					switch entry {
					case "Unmarshal":
						err = gojson.Unmarshal(cs.doc, v)
					case "Decoder":
						err = gojson.NewDecoder(bytes.NewReader(cs.doc)).Decode(v)
					default:
						err = gojson.UnmarshalContext(context.Background(), cs.doc, v)
					}
				})
				c.Eval(1)
				if pan {
					c.Obs("panics_seen_judged_by_C06", 1)
					_ = msg
					break
				}
				if err != nil {
					c.Obs("embedded_pointer_decode_errors", 1)
					break
				}
				churn()
				if m := cs.check(v); m != "" {
					c.Violate(rt.Violation{Monitor: "well-formed", Entry: entry, Kind: "embedded-object-not-its-own-allocation", Ctx: cs.name, Detail: cs.name + " via " + entry + " after a collection and allocations: " + m, Sub: sub})
					break
				}
				c.Obs("embedded_pointer_decodes", 1)
			}
			c.NonTrivial("embedded", cs.name, entry)
		}
	}
}

// c07AfterErrors: a decode that fails inside an array (missing or wrong separator, truncation, a
// bad element after three or more good ones) hands its pooled scratch array back; the next decode
// of the same slice type must not write outside what it then takes from the pool. Canary arrays
// of the scratch array's own size class are allocated around the failing call and checked after
// the next successful one (checkptr and ASan see the overflow directly).
func c07AfterErrors(c *rt.Ctx, sub0 int) {
	type e48 [6]uint64
	type e16 struct{ A, B int64 }
	elems := []struct {
		name string
		t    reflect.Type
		lit  func(i int) string
	}{
		{"[6]uint64", reflect.TypeOf(e48{}), func(i int) string { return fmt.Sprintf("[%d,2,3,4,5,6]", i) }},
		{"uint64", reflect.TypeOf(uint64(0)), func(i int) string { return fmt.Sprint(i) }},
		{"struct16", reflect.TypeOf(e16{}), func(i int) string { return fmt.Sprintf(`{"A":%d,"B":2}`, i) }},
		{"string", reflect.TypeOf(""), func(i int) string { return fmt.Sprintf(`"s%d"`, i) }},
		{"[3]uint8", reflect.TypeOf([3]uint8{}), func(i int) string { return fmt.Sprintf("[%d,2,3]", i%200) }},
		{"[]int", reflect.TypeOf([]int{}), func(i int) string { return fmt.Sprintf("[%d,2]", i) }},
	}
	sub := sub0
	for _, el := range elems {
		st := reflect.SliceOf(el.t)
		join := func(n int, sep string) string {
			var parts []string
			for i := 0; i < n; i++ {
				parts = append(parts, el.lit(i+1))
			}
			return strings.Join(parts, sep)
		}
		bads := []string{"[" + join(3, ",") + " " + el.lit(4) + "]", "[" + join(4, ","), "[" + join(3, ",") + ";" + el.lit(4) + "]", "[" + join(5, ",") + ",x]", "[" + join(3, ",") + ",]", "[" + el.lit(1) + " " + el.lit(2) + "]"}
		good := "[" + join(7, ",") + "]"
		for bi, bad := range bads {
			for _, holder := range []string{"top", "member"} {
				if !c.Cur(sub, fmt.Sprintf("shapes=core\nafter a failing []%s decode (%s, bad document %d)", el.name, holder, bi)) {
					sub++
					continue
				}
				runtime.GC()
				runtime.GC()
				// canaries of the size classes a 2-, 4- and 8-element scratch array falls into
				var canaries [][]byte
				plant := func() {
					for _, n := range []int{2, 4, 8} {
						for i := 0; i < 24; i++ {
							b := make([]byte, n*int(el.t.Size()))
							for j := range b {
								b[j] = 0xC7
							}
							canaries = append(canaries, b)
						}
					}
				}
				plant()
				decode := func(doc string) (reflect.Value, error) {
					if holder == "top" {
						d := reflect.New(st)
						return d.Elem(), gojson.Unmarshal([]byte(doc), d.Interface())
					}
					ht := reflect.StructOf([]reflect.StructField{{Name: "A", Type: reflect.TypeOf(0)}, {Name: "L", Type: st}})
					d := reflect.New(ht)
					return d.Elem().Field(1), gojson.Unmarshal([]byte(`{"A":1,"L":`+doc+`}`), d.Interface())
				}
				var ferr, gerr error
				var got reflect.Value
				pan, msg, _ := rt.Guard(func() {
					_, ferr = decode(bad)
					plant()
					got, gerr = decode(good)
				})
				c.Eval(2)
				if pan {
					c.Obs("panics_seen_judged_by_C06", 1)
					_ = msg
					sub++
					continue
				}
				if ferr == nil {
					c.Obs("after_error_first_decode_did_not_fail", 1)
				}
				want := reflect.New(st)
				stdjson.Unmarshal([]byte(good), want.Interface())
				switch {
				case gerr != nil || !reflect.DeepEqual(got.Interface(), want.Elem().Interface()):
					c.Violate(rt.Violation{Monitor: "twin", Entry: "Unmarshal", Kind: "valid-decode-wrong-after-error", Ctx: "[]" + el.name, Detail: fmt.Sprintf("after %s failed, %s decoded to %v (err %v)", bad, good, got, gerr), Sub: sub})
				default:
					for ci, b := range canaries {
						for j := range b {
							if b[j] != 0xC7 {
								c.Violate(rt.Violation{Monitor: "canary", Entry: "Unmarshal", Kind: "neighbouring-allocation-written", Ctx: "[]" + el.name, Detail: fmt.Sprintf("after %s failed and %s was decoded, canary allocation %d (%d bytes) changed at byte %d", bad, good, ci, len(b), j), Sub: sub})
								ci = -1
								break
							}
						}
						if ci == -1 {
							break
						}
					}
				}
				runtime.KeepAlive(canaries)
				c.Obs("after_error_slice_decodes", 1)
				sub++
			}
		}
		c.NonTrivial("after-error", el.name)
	}
}

func init() {
	register(&Prop{
		ID: "C07",
		NumBatches: func(tier string, seed int64) int {
			if tier == "thorough" {
				return 4096
			}
			return 384
		},
		Run: func(c *rt.Ctx) {
			for k := 0; k < 12; k++ {
				// quick: canary layouts are independent of VERIF_SEED; documents follow the seed
				tr := rt.FixedRNG("C07type", c.Idx*64+k)
				if c.Tier == "thorough" && k%2 == 1 {
					tr = c.RNG(500 + k)
				}
				nf := 1 + tr.Intn(4)
				t, fields := buildCanaryType(tr, nf)
				r := c.RNG(k)
				var descs []string
				for _, f := range fields {
					descs = append(descs, f.desc)
				}
				docs := [][2]string{}
				// every field alone in each mode; then all fields; then truncations
				for fi, f := range fields {
					for mode := 0; mode < 5; mode++ {
						docs = append(docs, [2]string{fmt.Sprintf(`{"f%d":%s}`, fi, fieldDoc(r, f, mode)), f.desc + modeName(mode)})
					}
				}
				var all []string
				for fi, f := range fields {
					all = append(all, fmt.Sprintf(`"f%d":%s`, fi, fieldDoc(r, f, 3)))
				}
				full := "{" + strings.Join(all, ",") + "}"
				docs = append(docs, [2]string{full, "all-fields"})
				if len(full) > 4 {
					cut := 1 + r.Intn(len(full)-1)
					docs = append(docs, [2]string{full[:cut], "truncated"}, [2]string{full + "]", "trailing-garbage"}, [2]string{strings.Replace(full, ":", ": ", 1), "all-fields"})
				}
				docs = append(docs, [2]string{`{"unknown":[1,2,3],"f0":` + fieldDoc(r, fields[0], 2) + `}`, fields[0].desc + ":after-unknown"})
				for di, d := range docs {
					sub := k*100 + di
					if !c.Cur(sub, "shapes=core\ntype: "+t.String()+"\ndoc: "+d[0]) {
						continue
					}
					seed := int64(rt.Mix(uint64(c.Seed), uint64(c.Idx), uint64(sub)))
					c07Case(c, sub, t, d[1], []byte(d[0]), seed, false)
					if di%2 == 0 {
						c07Case(c, sub, t, d[1], []byte(d[0]), seed, true)
					}
					c.NonTrivial(t.String(), d[0])
				}
				if k%4 == 3 {
					runtime.GC()
					c.Obs("forced_gc", 1)
				}
				for _, d := range descs {
					c.SetAdd("field_shapes", shapeOnly(d))
				}
				if k == 11 && c.Idx%64 == 0 {
					c07AllocEdge(c, 100000)
				}
				if k == 11 && c.Idx%64 == 1 {
					c07StringOpt(c, 300000)
				}
				if k == 11 && c.Idx%64 == 2 {
					c07OddMapKeys(c, 500000)
				}
				if k == 11 && c.Idx%64 == 3 {
					c07Embedded(c, 700000)
				}
				if k == 11 && c.Idx%64 == 4 {
					c07AfterErrors(c, 800000)
				}
				if k == 11 && c.Idx%64 == 5 {
					c07MapElemSizes(c, 900000)
				}
				if k == 11 && c.Idx%64 == 6 {
					c07NilIfaces(c, 950000)
				}
				if k == 11 && c.Idx%64 == 7 {
					c07NullElems(c, 960000)
				}
				if k == 11 && c.Idx%64 == 8 {
					c07EmbeddedErrors(c, 970000)
				}
				if k == 0 {
					c.Sample(map[string]any{"type": t.String(), "docs": len(docs), "example_doc": docs[len(docs)/2][0], "fields": descs})
				}
			}
		},
	})
}

func modeName(m int) string {
	return []string{":null", ":wrong-kind", ":short", ":any-len", ":any-len"}[m]
}

func shapeOnly(d string) string {
	if i := strings.IndexByte(d, '('); i > 0 {
		return d[:i]
	}
	return "elem"
}
