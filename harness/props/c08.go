package props

import (
	"bytes"
	"context"
	stdjson "encoding/json"
	"fmt"
	"math"
	"reflect"
	"runtime"
	"strings"
	"time"

	gojson "github.com/goccy/go-json"

	"verif/harness/gen"
	"verif/harness/oracle"
	"verif/harness/rt"
	"verif/harness/zoo"
)

// C08 — encoding any acyclic value is safe; cyclic values give an error.
//
// Monitors:
//   enc-safety   no panic / fatal error / hang for an acyclic value in any of the four interpreters
//   slot-owner   hooked VM state: every slot access inside ctx.Ptrs (R1), no frame reads a slot
//                last written by a later-pushed frame (R2), frame pops land on live frames (R3)
//   cycle        a cyclic value yields an error (never unbounded recursion, never output)
//   gc-callback  marshaler callbacks that allocate, force GC and grow the stack leave the result
//                equal to encoding/json's

type c08Interp struct {
	name string
	f    func(x any) ([]byte, error)
}

func c08Interps() []c08Interp {
	scheme, _ := markerScheme()
	return []c08Interp{
		{"vm", func(x any) ([]byte, error) { return gojson.Marshal(x) }},
		{"vm_indent", func(x any) ([]byte, error) { return gojson.MarshalIndent(x, "", " ") }},
		{"vm_color", func(x any) ([]byte, error) { return gojson.MarshalWithOption(x, gojson.Colorize(scheme)) }},
		{"vm_color_indent", func(x any) ([]byte, error) {
			return gojson.MarshalIndentWithOption(x, "", " ", gojson.Colorize(scheme))
		}},
		// the other entry points into the same interpreters, after the colour runs (they take their
		// contexts from the same pool)
		{"vm:Encoder.EncodeContext", func(x any) ([]byte, error) {
			var buf bytes.Buffer
			err := gojson.NewEncoder(&buf).EncodeContext(context.Background(), x)
			return buf.Bytes(), err
		}},
		{"vm:MarshalContext", func(x any) ([]byte, error) { return gojson.MarshalContext(context.Background(), x) }},
		{"vm_indent:Encoder.SetIndent", func(x any) ([]byte, error) {
			var buf bytes.Buffer
			e := gojson.NewEncoder(&buf)
			e.SetIndent("", " ")
			err := e.Encode(x)
			return buf.Bytes(), err
		}},
		{"vm:MarshalNoEscape", func(x any) ([]byte, error) { return gojson.MarshalNoEscape(x) }},
	}
}

// c08AfterErrors: after an entry point has failed (cycle, non-finite float, failing marshaler,
// unsupported type), encoding an acyclic value whose marshaler encodes with the library itself (two
// pooled contexts in use at once) must still be safe and give encoding/json's bytes.
func c08AfterErrors(c *rt.Ctx, sub0 int, interps []c08Interp) {
	cyc := &zoo.RecB{V: 1}
	cyc.R = cyc
	failing := []any{cyc, math.NaN(), []float64{1, math.Inf(1)}, map[string]any{"c": make(chan int)}, zoo.MErr{N: 1}, struct{ F func() }{}, []any{1, zoo.MErr{N: 3}}}
	more := append([]c08Interp{}, interps...)
	more = append(more, c08Interp{"vm_indent:MarshalIndentWithOption", func(x any) ([]byte, error) {
		return gojson.MarshalIndentWithOption(x, ">", "\t", gojson.UnorderedMap())
	}},
		c08Interp{"vm:Encoder.EncodeWithOption", func(x any) ([]byte, error) {
			var buf bytes.Buffer
			err := gojson.NewEncoder(&buf).EncodeWithOption(x, gojson.DisableHTMLEscape())
			return buf.Bytes(), err
		}})
	good := []any{c11Nested{A: 1, In: map[string]any{"k": []any{1.0, "x"}}}, []c11Nested{{A: 2, In: []any{"a", "b"}}, {A: 3, In: "s"}}}
	var want []string
	for _, g := range good {
		w, _ := stdjson.Marshal(g)
		want = append(want, string(w))
	}
	for i := range more {
		ip := &more[i]
		sub := sub0 + i
		if !c.Cur(sub, "shapes=core\nafter a failing call of "+ip.name) {
			continue
		}
		for fi, f := range failing {
			var ferr error
			pan, _, _ := rt.Guard(func() { _, ferr = ip.f(f) })
			if !pan && ferr == nil {
				c.Obs("after_error_first_call_did_not_fail", 1)
			}
			for rep := 0; rep < 2; rep++ {
				gi := (fi + rep) % len(good)
				var out []byte
				var err error
				pan, msg, frame := rt.Guard(func() { out, err = gojson.Marshal(good[gi]) })
				c.Eval(1)
				if pan || err != nil || string(out) != want[gi] {
					if frame == "" {
						frame = "no-gojson-frame"
					}
					c.Violate(rt.Violation{Monitor: "enc-safety", Entry: ip.name, Kind: "nested-encode-wrong-after-error", Ctx: fmt.Sprintf("failing-value-%d", fi),
						Detail: fmt.Sprintf("after %s failed on %T, Marshal of a value whose marshaler calls Marshal gave %s err=%v panic=%v %s; want %s", ip.name, f, rt.Q(out), err, pan, msg, want[gi]), Sub: sub})
					break
				}
			}
		}
		c.NonTrivial("after-error", ip.name)
	}
	c.Obs("after_error_histories", int64(len(more)*len(failing)))
}

// c08GCMaps: collections (and allocations that take over what they free) from inside callbacks
// while a map is being traversed, in every interpreter, sorted and unordered, on fresh and on warm
// pooled contexts. The per-map iteration state lives in a slot of the working area.
func c08GCMaps(c *rt.Ctx, sub0 int) {
	type holder struct {
		A int
		M map[string]zoo.GCChurn
		K map[zoo.GCChurn]int
		N map[string]map[string]zoo.GCChurn
		Z string
	}
	mk := func(n int) holder {
		h := holder{A: n, M: map[string]zoo.GCChurn{}, K: map[zoo.GCChurn]int{}, N: map[string]map[string]zoo.GCChurn{}, Z: "z"}
		for i := 0; i < 6; i++ {
			h.M[fmt.Sprint("m", i)] = zoo.GCChurn{N: i}
			h.K[zoo.GCChurn{N: 10 + i}] = i
		}
		h.N["a"] = map[string]zoo.GCChurn{"x": {N: 20}, "y": {N: 21}}
		h.N["b"] = map[string]zoo.GCChurn{"z": {N: 22}}
		return h
	}
	scheme := &gojson.ColorScheme{}
	entries := []struct {
		name string
		f    func(x any) ([]byte, error)
	}{
		{"vm", func(x any) ([]byte, error) { return gojson.Marshal(x) }},
		{"vm_indent", func(x any) ([]byte, error) { return gojson.MarshalIndent(x, "", " ") }},
		{"vm_color", func(x any) ([]byte, error) { return gojson.MarshalWithOption(x, gojson.Colorize(scheme)) }},
		{"vm_color_indent", func(x any) ([]byte, error) {
			return gojson.MarshalIndentWithOption(x, "", " ", gojson.Colorize(scheme))
		}},
		{"vm:UnorderedMap", func(x any) ([]byte, error) { return gojson.MarshalWithOption(x, gojson.UnorderedMap()) }},
		{"vm_color:UnorderedMap", func(x any) ([]byte, error) {
			return gojson.MarshalWithOption(x, gojson.Colorize(scheme), gojson.UnorderedMap())
		}},
		{"vm_indent:UnorderedMap", func(x any) ([]byte, error) { return gojson.MarshalIndentWithOption(x, "", " ", gojson.UnorderedMap()) }},
		{"vm_color_indent:UnorderedMap", func(x any) ([]byte, error) {
			return gojson.MarshalIndentWithOption(x, "", " ", gojson.Colorize(scheme), gojson.UnorderedMap())
		}},
	}
	vals := []any{mk(1), &holder{A: 2, M: map[string]zoo.GCChurn{"only": {N: 1}}}, map[string]any{"h": mk(3), "c": zoo.GCChurn{N: 4}}, []any{mk(5).M, mk(6).K}}
	for vi, x := range vals {
		want, serr := stdjson.Marshal(x)
		if serr != nil {
			continue
		}
		var wantV any
		stdjson.Unmarshal(want, &wantV)
		for ei, e := range entries {
			for _, fresh := range []bool{true, false} {
				sub := sub0 + vi*100 + ei*2
				if !c.Cur(sub, fmt.Sprintf("shapes=core\nGC inside map traversal: %T via %s", x, e.name)) {
					continue
				}
				if fresh {
					// empty the pools: a new context has no stale references in its spare capacity
					runtime.GC()
					runtime.GC()
				}
				var got []byte
				var err error
				pan, msg, frame := rt.Guard(func() { got, err = e.f(x) })
				c.Eval(1)
				var gotV any
				perr := stdjson.Unmarshal(got, &gotV)
				if pan || err != nil || perr != nil || !reflect.DeepEqual(gotV, wantV) {
					if frame == "" {
						frame = "no-gojson-frame"
					}
					kind := "output-differs-after-gc-in-map"
					if pan {
						kind = "panic:" + rt.PanicClass(msg)
					}
					c.Violate(rt.Violation{Monitor: "gc-callback", Entry: e.name, Kind: kind, Ctx: fmt.Sprintf("map-traversal:fresh=%v", fresh),
						Detail: fmt.Sprintf("%T via %s: err=%v panic=%v %s parse=%v got %s want %s", x, e.name, err, pan, msg, perr, rt.Q(got), rt.Q(want)), Sub: sub})
				}
				c.Obs("gc_in_map_traversal_encodings", 1)
			}
		}
		c.NonTrivial("gc-map", fmt.Sprint(vi))
	}
}

// Container types that contain themselves without a struct in between: the encoder's compiler
// recurses on them until the stack is gone (KF-C08-SELFREF); own shape tag, the process dies.
type c08SelfSlice []c08SelfSlice
type c08SelfMap map[string]c08SelfMap

func c08SelfRefTypes(c *rt.Ctx, sub0 int) {
	vals := []any{c08SelfSlice{c08SelfSlice{}, c08SelfSlice{c08SelfSlice{}}}, c08SelfMap{"a": c08SelfMap{"b": nil}}}
	for i, x := range vals {
		if !c.Cur(sub0+i, fmt.Sprintf("shapes=selfref-container-type\nMarshal of an acyclic value of the self-referential container type %T", x)) {
			continue
		}
		var out []byte
		var err error
		pan, msg, frame := rt.Guard(func() { out, err = gojson.Marshal(x) })
		c.Eval(1)
		want, _ := stdjson.Marshal(x)
		if pan || err != nil || string(out) != string(want) {
			c.Violate(rt.Violation{Monitor: "enc-safety", Entry: "vm", Kind: "selfref-container-type", Ctx: frame + " @ selfref-container-type",
				Detail: fmt.Sprintf("%T: got %s err=%v panic=%v %s; want %s", x, out, err, pan, msg, want), Sub: sub0 + i})
		}
		c.Obs("selfref_container_types_survived", 1)
	}
}

// c08Run returns false when a call on a cyclic value was abandoned after its deadline; the caller
// must leave the batch (the worker is replaced once the batch is journalled).
func c08Run(c *rt.Ctx, sub int, x any, t reflect.Type, feat string, interps []c08Interp, cyclic bool) bool {
	input := map[string]any{"type": t.String()}
	if !cyclic {
		input["value"] = stdRender(x)
	}
	for i := range interps {
		ip := &interps[i]
		var out []byte
		var err error
		var pan bool
		var msg, frame string
		if cyclic {
			// cycle detection answers in milliseconds; unbounded recursion does not answer at all
			// (and grows the heap), so the call gets a deadline on its own goroutine
			type res struct {
				out        []byte
				err        error
				pan        bool
				msg, frame string
			}
			done := make(chan res, 1)
			go func() {
				var r res
				r.pan, r.msg, r.frame = rt.Guard(func() { r.out, r.err = ip.f(x) })
				done <- r
			}()
			returned := false
			for _, wait := range []time.Duration{20 * time.Second, 40 * time.Second} {
				select {
				case r := <-done:
					out, err, pan, msg, frame = r.out, r.err, r.pan, r.msg, r.frame
					returned = true
				case <-time.After(wait):
				}
				if returned {
					break
				}
			}
			if !returned {
				c.Eval(1)
				c.Violate(rt.Violation{Monitor: "cycle", Entry: ip.name, Kind: "hang", Ctx: featTag(feat),
					Detail: "no answer within 60 s for a cyclic value (unbounded recursion) | type " + t.String(), Input: input, Sub: sub})
				c.Respawn = true
				return false
			}
		} else {
			pan, msg, frame = rt.Guard(func() { out, err = ip.f(x) })
		}
		c.Eval(1)
		st, reports := gojson.VerifSlotTake()
		c.Obs("slot_accesses", int64(st.Access))
		c.Obs("slot_accesses:"+ip.name, int64(st.Access))
		c.Obs("frame_pushes", int64(st.Push))
		c.Obs("frame_pushes:"+ip.name, int64(st.Push))
		c.Obs("vm_runs", int64(st.Runs))
		c.Obs("uninit_reads_counted_not_judged", int64(st.Uninit))
		c.ObsMax("max_frame_depth", int64(st.MaxDepth))
		for _, r := range reports {
			rule := r
			if len(r) >= 2 {
				rule = r[:2]
			}
			c.Violate(rt.Violation{Monitor: "slot-owner", Entry: ip.name, Kind: "slot-clobber:" + rule, Ctx: featTag(feat), Detail: r + " | type " + t.String(), Input: input, Sub: sub})
		}
		if pan {
			if cyclic {
				c.Violate(rt.Violation{Monitor: "cycle", Entry: ip.name, Kind: "panic:" + rt.PanicClass(msg), Ctx: shapeCtx(frame, feat), Detail: msg + " | type " + t.String(), Input: input, Sub: sub})
			} else {
				c.Violate(rt.Violation{Monitor: "enc-safety", Entry: ip.name, Kind: "panic:" + rt.PanicClass(msg), Ctx: shapeCtx(frame, feat), Detail: msg + " | type " + t.String(), Input: input, Sub: sub})
			}
			continue
		}
		if cyclic && err == nil {
			c.Violate(rt.Violation{Monitor: "cycle", Entry: ip.name, Kind: "cycle-not-reported", Ctx: featTag(feat), Detail: fmt.Sprintf("returned %d bytes and no error for a cyclic value | type %s", len(out), t.String()), Input: input, Sub: sub})
		}
		if !cyclic && err != nil && strings.Contains(err.Error(), "encountered a cycle") {
			// every interpreter keeps its own list of what it is inside of: an acyclic value is
			// not a cycle in any of them (the value was built without one)
			c.Violate(rt.Violation{Monitor: "cycle", Entry: ip.name, Kind: "acyclic-value-reported-as-cycle", Ctx: featTag(feat), Detail: err.Error() + " | type " + t.String(), Input: input, Sub: sub})
		}
		if cyclic && err != nil {
			c.Obs("cycles_reported_as_error", 1)
		}
	}
	return true
}

// deep chains and cycles over the recursive zoo types
func chainRecA(n int, leaf *zoo.RecA) *zoo.RecA {
	cur := leaf
	for i := 0; i < n; i++ {
		nx := &zoo.RecA{I8: int8(i), R: cur, S: "s", F: float64(i) + 0.5, U64: uint64(i)}
		switch i % 5 {
		case 0:
			nx.I = []interface{}{i, "x", map[string]interface{}{"k": i}}
		case 1:
			nx.Sl = []zoo.RecA{{I8: 1}, {I: "in-slice"}}
		case 2:
			nx.M = map[string]*zoo.RecA{"m": {S: "in-map", I: 3.5}}
		case 3:
			nx.Arr[1] = &zoo.RecA{Bo: true}
			nx.B = []byte{1, 2, 3}
		}
		cur = nx
	}
	return cur
}

// dagRec: an acyclic chain of n nodes through Next. One shared leaf is referenced near the root
// (before the chain is descended) and again from the deepest node; every 97th node also points
// back up to a node that is already finished (its Side) - sharing without a cycle, above and below
// the depth at which cycle detection switches on.
func dagRec(n int) *zoo.RecDag {
	leaf := &zoo.RecDag{ID: -1}
	root := &zoo.RecDag{ID: 0, Side: leaf}
	cur := root
	for i := 1; i < n; i++ {
		nx := &zoo.RecDag{ID: i}
		if i%97 == 0 {
			nx.Side = leaf
		}
		cur.Next = nx
		cur = nx
	}
	cur.Tail = leaf
	return root
}

// dagRecI: an acyclic chain of n nodes; every node holds a nil pointer in an interface member, and
// one finished leaf (which holds one too) is referenced from two neighbouring nodes at every depth
// in at - sharing right after an interface value that is encoded as null.
func dagRecI(n int, at ...int) *zoo.RecDagI {
	leaf := &zoo.RecDagI{ID: -1, V: (*int)(nil), W: (*zoo.RecDagI)(nil)}
	// a second shared leaf whose interface members hold values: its interface slots are entered
	// (and must be left again) each time it is reached
	leaf2 := &zoo.RecDagI{ID: -2, V: []interface{}{1, "x"}, W: map[string]interface{}{"k": 2}}
	root := &zoo.RecDagI{ID: 0, V: 0}
	cur := root
	for i := 1; i < n; i++ {
		nx := &zoo.RecDagI{ID: i, V: (*string)(nil)}
		if i%2 == 0 {
			nx.V = i
		}
		for _, a := range at {
			if i == a || i == a+1 {
				nx.Side = leaf
			}
			if i == a+2 || i == a+3 {
				nx.Side = leaf2
			}
		}
		cur.Next = nx
		cur = nx
	}
	return root
}

// embedded recursive structs (value, pointer, two levels, and a second recursion around them)
func chainRecEmb(n int) *zoo.RecEmbInner {
	var cur *zoo.RecEmbInner
	for i := 0; i < n; i++ {
		cur = &zoo.RecEmbInner{X: i, I: []interface{}{i, "s"}, Next: cur}
		if i%4 == 1 {
			cur.Kids = []zoo.RecEmbInner{{X: -i}}
			cur.M = map[string]*zoo.RecEmbInner{"m": {X: 100 + i}}
		}
	}
	return cur
}

func recEmbValues(n int) []any {
	in := chainRecEmb(n)
	if in == nil {
		in = &zoo.RecEmbInner{}
	}
	two := &zoo.RecEmbTwo{Q: 1, RecEmbPtr: zoo.RecEmbPtr{S: "s", RecEmbInner: chainRecEmb(n / 2), Y: 2}}
	two.T = &zoo.RecEmbTwo{Q: 2, RecEmbPtr: zoo.RecEmbPtr{S: "t"}}
	return []any{zoo.RecEmbVal{RecEmbInner: *in, Y: n}, &zoo.RecEmbVal{RecEmbInner: *in, Y: n}, zoo.RecEmbPtr{S: "p", RecEmbInner: chainRecEmb(n), Y: 3}, zoo.RecEmbPtr{S: "nil"},
		zoo.RecEmbDeep{RecEmbVal: zoo.RecEmbVal{RecEmbInner: *in, Y: 1}, Z: "z"}, two, []any{zoo.RecEmbVal{Y: 5}, &zoo.RecEmbPtr{RecEmbInner: chainRecEmb(2)}}, map[string]zoo.RecEmbVal{"k": {RecEmbInner: *in}}}
}

func chainIfaceFirst(n int) *zoo.RecIfaceFirst {
	var cur *zoo.RecIfaceFirst
	for i := 0; i < n; i++ {
		cur = &zoo.RecIfaceFirst{V: i, Next: cur}
		if i%7 == 3 {
			cur.V = map[string]interface{}{"k": []interface{}{i}}
		}
	}
	return cur
}

func chainIfaceFirstV(n int) zoo.RecIfaceFirstV {
	cur := zoo.RecIfaceFirstV{V: zoo.SmallShape{V: -1}, N: -1}
	for i := 0; i < n; i++ {
		cur = zoo.RecIfaceFirstV{V: zoo.SmallShape{V: i}, Kids: []zoo.RecIfaceFirstV{cur}, N: i}
	}
	return cur
}

func chainRecB(n int) *zoo.RecB {
	var cur *zoo.RecB
	for i := 0; i < n; i++ {
		cur = &zoo.RecB{I: map[string]interface{}{"d": i, "l": []interface{}{i}}, R: cur, V: uint16(i)}
		if i%3 == 0 {
			cur.Next = &zoo.RecB{I: i}
		}
	}
	return cur
}

func chainRecE(n int) *zoo.RecE {
	var cur *zoo.RecE
	for i := 0; i < n; i++ {
		cur = &zoo.RecE{A: i, H: -i, I: []interface{}{map[string]interface{}{"x": []interface{}{i}}}, R: cur, Z: 7}
	}
	return cur
}

// chainRecIP: n nodes, each carrying pointer-to-interface members whose dynamic values rotate
// through slot-hungry structs, containers, a nested RecIP and scalars.
func chainRecIP(n, rot int) *zoo.RecIP {
	hungry := func(i int) zoo.SlotHungry {
		h := zoo.SlotHungry{S1: []string{"a", "b"}, S2: []string{"c"}, S3: []string{}, I1: []int{i, i + 1, i + 2}, I2: []int{-i},
			M: map[string][]int{"k": {1, 2}, "l": {3}}, T: "t"}
		h.N.A = []float64{1.5, 2.5}
		h.N.B = []float64{float64(i)}
		return h
	}
	var cur *zoo.RecIP
	for i := 0; i < n; i++ {
		var a, b interface{}
		var sh zoo.Shaper
		switch (i + rot) % 5 {
		case 0:
			a, b, sh = hungry(i), []interface{}{hungry(i), i}, hungry(i)
		case 1:
			h := hungry(i)
			a, b, sh = &h, map[string]interface{}{"h": hungry(i)}, &h
		case 2:
			a, b, sh = map[string]interface{}{"x": []interface{}{i, "s"}, "y": hungry(i)}, i, zoo.SmallShape{V: i}
		case 3:
			a, b, sh = &zoo.RecIP{A: -i, Z: "inner", Ip: func() *interface{} { var x interface{} = hungry(i); return &x }()}, nil, nil
		default:
			a, b, sh = i, "s", zoo.SmallShape{V: -i}
		}
		nd := &zoo.RecIP{A: i, Ip: &a, R: cur, Z: "z"}
		if b != nil {
			nd.Ip2 = &b
		}
		if sh != nil {
			nd.Sp = &sh
		}
		if i%3 == 2 && cur != nil {
			nd.Kid = []*zoo.RecIP{{A: 100 + i, Ip: &a, Sp: nd.Sp}, nil}
		}
		cur = nd
	}
	return cur
}

func chainRecC(n int) *zoo.RecC {
	var cur *zoo.RecC
	for i := 0; i < n; i++ {
		cur = &zoo.RecC{M: map[string]interface{}{"a": i, "b": []interface{}{"x", map[string]interface{}{"c": nil}}}, S: []interface{}{i, cur == nil}, R: cur, N: i}
	}
	return cur
}

func nestedIface(n int) interface{} {
	var cur interface{} = "leaf"
	for i := 0; i < n; i++ {
		if i%2 == 0 {
			cur = []interface{}{cur}
		} else {
			cur = map[string]interface{}{"k": cur}
		}
	}
	return cur
}

type cyc struct {
	name string
	mk   func(n int) any
}

var cycles = []cyc{
	{"ptr-self", func(n int) any { a := &zoo.RecA{}; a.R = a; return a }},
	{"ptr-ring", func(n int) any {
		head := &zoo.RecB{V: 1}
		cur := head
		for i := 0; i < n; i++ {
			cur.R = &zoo.RecB{V: uint16(i)}
			cur = cur.R
		}
		cur.R = head
		return head
	}},
	{"map-self", func(n int) any { m := map[string]interface{}{}; m["self"] = m; return m }},
	{"map-ring", func(n int) any {
		head := map[string]interface{}{}
		cur := head
		for i := 0; i < n; i++ {
			nx := map[string]interface{}{"i": i}
			cur["n"] = nx
			cur = nx
		}
		cur["n"] = head
		return head
	}},
	{"slice-self", func(n int) any { s := make([]interface{}, 1); s[0] = s; return s }},
	{"slice-ring", func(n int) any {
		head := make([]interface{}, 1)
		cur := head
		for i := 0; i < n; i++ {
			nx := make([]interface{}, 1)
			cur[0] = nx
			cur = nx
		}
		cur[0] = head
		return head
	}},
	{"iface-ptr", func(n int) any { a := &zoo.RecB{}; a.I = a; return a }},
	{"struct-map-ptr", func(n int) any { a := &zoo.RecA{}; a.M = map[string]*zoo.RecA{"x": a}; return a }},
	{"struct-slice-iface", func(n int) any { c := &zoo.RecC{}; c.S = []interface{}{c}; return c }},
	{"mutual", func(n int) any { a := &zoo.MutA{}; b := &zoo.MutB{A: a}; a.B = b; return a }},
	{"recslice-map", func(n int) any { r := &zoo.RecSlice{Name: "r"}; r.MK = map[string]*zoo.RecSlice{"k": r}; return r }},
}

// c08Huge: flat struct types with 100..400 members (the root frame is longer than the slot area a
// fresh or an append-grown pooled context starts with), interface and nested-struct members late
// in the layout, encoded right after a value whose nested interfaces made the pooled context grow.
func c08Huge(c *rt.Ctx, sub0 int, interps []c08Interp) {
	kinds := []reflect.Type{reflect.TypeOf(0), reflect.TypeOf(""), reflect.TypeOf((*any)(nil)).Elem(), reflect.TypeOf([]int(nil)), reflect.TypeOf(map[string]int(nil)), reflect.TypeOf((*int)(nil)),
		reflect.TypeOf(struct {
			A any
			B int
		}{}), reflect.TypeOf(1.5), reflect.TypeOf(false), reflect.TypeOf([]any(nil))}
	for ni, n := range []int{60, 100, 127, 130, 141, 200, 260, 400} {
		fs := make([]reflect.StructField, n)
		for i := range fs {
			fs[i] = reflect.StructField{Name: fmt.Sprintf("F%03d", i), Type: kinds[(i*7+ni)%len(kinds)]}
		}
		t := reflect.StructOf(fs)
		v := reflect.New(t).Elem()
		for i := 0; i < n; i++ {
			f := v.Field(i)
			switch f.Kind() {
			case reflect.Int:
				f.SetInt(int64(i))
			case reflect.String:
				f.SetString(fmt.Sprint("s", i))
			case reflect.Interface:
				f.Set(reflect.ValueOf(map[string]any{"i": i, "l": []any{i, "x"}}))
			case reflect.Slice:
				if f.Type().Elem().Kind() == reflect.Int {
					f.Set(reflect.ValueOf([]int{i, i + 1}))
				} else {
					f.Set(reflect.ValueOf([]any{i, nil, "y"}))
				}
			case reflect.Map:
				f.Set(reflect.ValueOf(map[string]int{"k": i}))
			case reflect.Ptr:
				x := i
				f.Set(reflect.ValueOf(&x))
			case reflect.Struct:
				f.Field(0).Set(reflect.ValueOf([]any{"in", i}))
				f.Field(1).SetInt(int64(i))
			case reflect.Float64:
				f.SetFloat(float64(i) + 0.5)
			case reflect.Bool:
				f.SetBool(i%2 == 0)
			}
		}
		for _, grow := range []int{0, 3, 13, 40} {
			sub := sub0 + ni*10 + grow%10
			if !c.Cur(sub, fmt.Sprintf("shapes=core\nflat struct of %d members after a %d-deep interface nest", n, grow)) {
				continue
			}
			// make the pooled context grow (or not) first
			if grow > 0 {
				rt.Guard(func() { gojson.Marshal(nestedIface(grow)); gojson.MarshalIndent(nestedIface(grow), "", " ") })
				gojson.VerifSlotTake()
			}
			c08Run(c, sub, v.Interface(), t, "", interps, false)
			c08Run(c, sub, v.Addr().Interface(), reflect.PtrTo(t), "", interps[:2], false)
			got, gerr := gojson.Marshal(v.Interface())
			want, _ := stdjson.Marshal(v.Interface())
			c.Eval(1)
			if gerr != nil || string(got) != string(want) {
				c.Violate(rt.Violation{Monitor: "enc-safety", Entry: "vm", Kind: "huge-struct-output-differs", Ctx: fmt.Sprintf("members=%d", n), Detail: fmt.Sprintf("err %v; first difference at %d of %d bytes", gerr, firstDiff(got, want), len(want)), Sub: sub})
			}
			c.NonTrivial("huge", fmt.Sprint(n, grow))
		}
	}
	// fresh pooled contexts (two collections empty the pool), grown by a nest of every depth before a
	// flat struct of mostly integers with an interface-holding struct at the end: the struct's frame
	// length then falls between the length and the capacity the slot area was left with
	type tailT struct {
		X any
		Y int
	}
	for ni, n := range []int{112, 125, 131, 137, 141, 150, 176, 230} {
		fs := make([]reflect.StructField, n)
		for i := range fs {
			fs[i] = reflect.StructField{Name: fmt.Sprintf("F%03d", i), Type: reflect.TypeOf(0)}
		}
		fs[n-1] = reflect.StructField{Name: "Tail", Type: reflect.TypeOf(tailT{})}
		if ni%4 == 3 {
			// (an earlier interface member grows the slot area before the last one is reached)
			fs[n/2] = reflect.StructField{Name: "Mid", Type: reflect.TypeOf(tailT{})}
		}
		t := reflect.StructOf(fs)
		v := reflect.New(t).Elem()
		for i := 0; i < n; i++ {
			if v.Field(i).Kind() == reflect.Int {
				v.Field(i).SetInt(int64(i))
			} else {
				v.Field(i).Set(reflect.ValueOf(tailT{X: []any{"x", i}, Y: 7}))
			}
		}
		{
			want, _ := stdjson.Marshal(v.Interface())
			for grow := 1; grow <= 40; grow++ {
				sub := sub0 + 200 + ni*50 + grow
				if !c.Cur(sub, fmt.Sprintf("shapes=core\nflat struct of %d members on a fresh context grown by a %d-deep nest", n, grow)) {
					continue
				}
				runtime.GC()
				runtime.GC()
				rt.Guard(func() { gojson.Marshal(nestedIface(grow)) })
				gojson.VerifSlotTake()
				c08Run(c, sub, v.Addr().Interface(), reflect.PtrTo(t), "", interps[:1], false)
				var got []byte
				var gerr error
				pan, msg, _ := rt.Guard(func() { got, gerr = gojson.Marshal(v.Interface()) })
				c.Eval(1)
				if pan || gerr != nil || string(got) != string(want) {
					c.Violate(rt.Violation{Monitor: "enc-safety", Entry: "vm", Kind: "huge-struct-output-differs", Ctx: fmt.Sprintf("members=%d:fresh-context", n), Detail: fmt.Sprintf("after a %d-deep nest: err %v panic %v %s; first difference at %d of %d bytes", grow, gerr, pan, msg, firstDiff(got, want), len(want)), Sub: sub})
				}
			}
		}
	}
	c.Obs("huge_struct_cases", 32)
}

func init() {
	register(&Prop{
		ID: "C08",
		Setup: func(c *rt.Ctx) {
			gojson.VerifSlotArm(true)
		},
		NumBatches: func(tier string, seed int64) int {
			if tier == "thorough" {
				return 2048 + 64
			}
			return 256 + 24
		},
		Run: func(c *rt.Ctx) {
			interps := c08Interps()
			gb := 256
			if c.Tier == "thorough" {
				gb = 2048
			}
			if c.Idx < gb {
				rv := c.RNG(0)
				for k := 0; k < 24; k++ {
					o := gen.TypeOpts{FeatureProb: 20}
					var t reflect.Type
					var feat string
					if c.Tier == "thorough" && k%2 == 1 {
						t, feat = gen.Type(c.RNG(1000+k), 3, o)
					} else {
						t, feat = gen.Type(rt.FixedRNG("C08type", c.Idx*4096+k), 3, o)
					}
					v := gen.Value(rv, t, 4, gen.ValOpts{NilHeavy: k%3 == 0})
					if !c.Cur(k, curDesc(t, feat, v.Interface(), "")) {
						continue
					}
					heap0 := heapInUse()
					c08Run(c, k, v.Interface(), t, feat, interps, false)
					if v.CanAddr() && k%2 == 0 {
						c08Run(c, k, v.Addr().Interface(), reflect.PtrTo(t), feat, interps[:2], false)
					}
					heapGuard(c, k, heap0, "enc-safety", "Marshal*", feat)
					c.NonTrivial(t.String(), stdRender(v.Interface()))
					if k == 0 {
						c.Sample(map[string]any{"family": "generated", "type": t.String(), "value": stdRender(v.Interface())})
					}
				}
				return
			}
			k := c.Idx - gb
			r := c.RNG(0)
			depths := []int{0, 1, 2, 3, 4, 5, 8, 16, 50, 200, 1000, 2000}
			switch {
			case k < 12:
				// deep acyclic chains through every recursive zoo type, all four interpreters
				d := depths[k]
				vals := []any{chainRecA(d, nil), chainRecA(d, &zoo.RecA{I: nestedIface(d % 60)}), chainRecB(d), chainRecE(d), chainRecC(d), nestedIface(d),
					[]interface{}{chainRecB(d / 2), chainRecE(d / 2)}, map[string]interface{}{"a": chainRecC(d / 2), "b": nestedIface(d / 2)}, dagRec(d), dagRec(d + 1),
					chainRecIP(d, 0), chainRecIP(d, 1), []interface{}{chainRecIP(d/2, 2), chainRecIP(minInt(d, 3), 3)},
					dagRecI(d+2, 1, d/2, d-1), chainIfaceFirst(d), chainIfaceFirst(d + 2), chainIfaceFirstV(d)}
				vals = append(vals, recEmbValues(d)...)
				for i, x := range vals {
					if !c.Cur(i, fmt.Sprintf("shapes=core\ndeep chain %T depth %d", x, d)) {
						continue
					}
					ips := interps
					if d > 500 && i >= 5 && i < 13 {
						// towers of maps inside interfaces: indented output is quadratic in depth and
						// go-json's per-level map buffers make memory cubic; only the compact
						// interpreters are driven at these depths (a memory budget is not a safety verdict)
						ips = []c08Interp{interps[0], interps[2]}
					}
					c08Run(c, i, x, reflect.TypeOf(x), "", ips, false)
					// result must still be what encoding/json produces (clobbered frames garble output);
					// the verdict is compared at every depth: an acyclic value is not a cycle, however
					// deep it is and whatever shares an address on the way
					{
						gb1, gerr := gojson.Marshal(x)
						sb1, serr := stdjson.Marshal(x)
						c.Eval(1)
						if (gerr != nil) != (serr != nil) {
							c.Violate(rt.Violation{Monitor: "enc-safety", Entry: "vm", Kind: "deep-chain-verdict-differs", Ctx: fmt.Sprintf("%T", x), Detail: fmt.Sprint(gerr, " vs ", serr), Sub: i})
						} else if gerr == nil && (d <= 200 || i >= 8) {
							a, e1 := oracle.Parse(gb1)
							b, _ := oracle.Parse(sb1)
							if e1 != nil || b == nil || !oracle.Equal(a, b) {
								c.Violate(rt.Violation{Monitor: "enc-safety", Entry: "vm", Kind: "deep-chain-output-differs", Ctx: strings.TrimPrefix(fmt.Sprintf("%T", x), "*zoo."), Detail: rt.Q(gb1) + " vs " + rt.Q(sb1), Sub: i})
							}
						}
					}
					c.NonTrivial("deep", fmt.Sprintf("%T", x), fmt.Sprint(d))
				}
				c.ObsMax("max_chain_depth", int64(d))
				c.Sample(map[string]any{"family": "deep chains", "depth": d, "values": len(vals)})
				if k == 0 {
					c08SelfRefTypes(c, 5000)
				}
			case k < 18:
				// cycles of length 1..N through pointers, maps, slices and interfaces
				ns := []int{0, 1, 2, 5, 20, 300}
				n := ns[k-12]
				for i, cy := range cycles {
					x := cy.mk(n)
					if !c.Cur(i, fmt.Sprintf("shapes=core\ncycle %s length %d", cy.name, n)) {
						continue
					}
					if !c08Run(c, i, x, reflect.TypeOf(x), "", interps, true) {
						return
					}
					c.NonTrivial("cycle", cy.name, fmt.Sprint(n))
				}
				c.Sample(map[string]any{"family": "cycles", "ring_length": n, "shapes": len(cycles)})
			default:
				// callbacks that allocate, force GC and grow the stack during the traversal
				for i := 0; i < 12; i++ {
					str := "p"
					h := &zoo.GCHolder{A: strings.Repeat("a", r.Intn(2000)), G1: zoo.GCMarshaler{N: i, Mode: r.Intn(4)}, B: []int{1, 2, 3}, G2: &zoo.GCMarshaler{N: -i, Mode: r.Intn(4)},
						M: map[string]zoo.GCText{"x": {N: 1, Mode: r.Intn(4)}, "y": {N: 2, Mode: r.Intn(4)}}, I: zoo.GCMarshaler{N: 99, Mode: r.Intn(4)},
						S: []zoo.GCMarshaler{{N: 5, Mode: 1}, {N: 6, Mode: 2}}, P: &str}
					h.R = &zoo.GCHolder{A: "inner", G1: zoo.GCMarshaler{N: 7, Mode: 3}, I: []interface{}{zoo.GCText{N: 3, Mode: 1}, "s"}}
					var x any = h
					if i%3 == 1 {
						x = []interface{}{h, *h.R, map[string]interface{}{"g": zoo.GCMarshaler{N: 1, Mode: 0}}}
					}
					if !c.Cur(i, "shapes=core\nGC/stack-growth callbacks") {
						continue
					}
					c08Run(c, i, x, reflect.TypeOf(x), "", interps[:2], false)
					gb1, gerr := gojson.Marshal(x)
					sb1, serr := stdjson.Marshal(x)
					c.Eval(1)
					a, e1 := oracle.Parse(gb1)
					b, e2 := oracle.Parse(sb1)
					if gerr != nil || serr != nil || e1 != nil || e2 != nil || !oracle.Equal(a, b) {
						c.Violate(rt.Violation{Monitor: "gc-callback", Entry: "vm", Kind: "output-differs-after-gc-callbacks", Ctx: "GCHolder", Detail: fmt.Sprint(gerr, serr, e1, e2) + " " + rt.Q(gb1) + " vs " + rt.Q(sb1), Sub: i})
					}
					c.NonTrivial("gc", fmt.Sprint(c.Idx, i))
					c.Obs("gc_callback_values", 1)
				}
				c08StackResident(c, 100)
				if k == 18 {
					c08Huge(c, 500, interps)
				}
				if k == 19 {
					c08AfterErrors(c, 900, interps)
				}
				if k == 20 {
					c08GCMaps(c, 2000)
				}
				if k == 21 {
					// containers whose elements are pointers to containers: every interpreter and
					// entry point (a wrong pointer depth reads a length from the wrong word)
					for i, x := range c01ElemKindContainers() {
						if !c.Cur(3000+i, fmt.Sprintf("shapes=core\ncontainers of pointers to containers: %T", x)) {
							continue
						}
						heap0 := heapInUse()
						c08Run(c, 3000+i, x, reflect.TypeOf(x), "", interps, false)
						heapGuard(c, 3000+i, heap0, "enc-safety", "Marshal*", "")
						c.NonTrivial("elemkind", fmt.Sprintf("%T", x))
					}
				}
				c.Sample(map[string]any{"family": "GC/stack-growth callbacks", "values": 12, "stack_resident_entry_points": len(stackEntries)})
			}
		},
	})
}
