package props

import (
	"bytes"
	"context"
	"fmt"
	"strings"
	"sync"

	gojson "github.com/goccy/go-json"

	"verif/harness/rt"
)

// Stack-resident values (C08: "callbacks that ... grow the stack do not invalidate the traversal").
//
// Everything else in the harness builds its values through reflection, i.e. on the heap. Here the
// value is a local variable of the calling function and every entry point is called directly, so
// that whether the value lives on the goroutine stack is decided by the escape analysis of the
// library's own parameters, as it is for a user. The interpreter walks values through raw
// addresses: if an entry point lets the compiler keep the value on the stack, a callback that
// makes the runtime move the stack leaves the encoder reading the abandoned copy. The callback
// knows the address of the sibling that is encoded after it (a real pointer, which the runtime
// adjusts when it moves the stack) and stores the final value there after growing the stack;
// encoding is sequential, so the sibling must appear with that final value.

//go:noinline
func stackGrow(n int) int {
	var pad [128]byte
	pad[n%len(pad)] = byte(n)
	if n == 0 {
		return int(pad[0])
	}
	return stackGrow(n-1) + int(pad[n%len(pad)])
}

//go:noinline
func stackScribble(depth int) int {
	var pad [64]uint64
	for i := range pad {
		pad[i] = 0x5a5a5a5a5a5a5a5a
	}
	if depth == 0 {
		return int(pad[3])
	}
	return stackScribble(depth-1) ^ int(pad[depth%len(pad)])
}

type stackCB struct {
	nextI *int64
	nextS *string
	nextL *[]int
	depth int
	churn bool // let other goroutines take over the released stack segments
}

func (c stackCB) work() {
	stackGrow(c.depth)
	if c.churn {
		var wg sync.WaitGroup
		for i := 0; i < 32; i++ {
			wg.Add(1)
			go func(i int) {
				defer wg.Done()
				stackScribble(8 << (i % 5))
			}(i)
		}
		wg.Wait()
	}
	if c.nextI != nil {
		*c.nextI = 2
	}
	if c.nextS != nil {
		*c.nextS = "two"
	}
	if c.nextL != nil {
		*c.nextL = []int{2, 2}
	}
}

type stackCBJ stackCB

func (c stackCBJ) MarshalJSON() ([]byte, error) { stackCB(c).work(); return []byte(`"cb"`), nil }

type stackCBT stackCB

func (c stackCBT) MarshalText() ([]byte, error) { stackCB(c).work(); return []byte("cb"), nil }

type stackDocJ struct {
	A stackCBJ `json:"a"`
	I int64    `json:"i"`
	S string   `json:"s"`
	L []int    `json:"l"`
	Q [24]int8 `json:"q"`
}

type stackDocT struct {
	H int64    `json:"h"`
	A stackCBT `json:"a"`
	I int64    `json:"i"`
	S string   `json:"s"`
	L []int    `json:"l"`
}

const stackWantJ = `{"a":"cb","i":2,"s":"two","l":[2,2],"q":[7,7,7,7,7,7,7,7,7,7,7,7,7,7,7,7,7,7,7,7,7,7,7,7]}`
const stackWantT = `{"h":5,"a":"cb","i":2,"s":"two","l":[2,2]}`

// The documents are armed in line in every function below: a helper taking the address would by
// itself move the document to the heap.

type stackEntry struct {
	name string
	want string // "" = compact form of the constant
	run  func(depth int, churn bool) ([]byte, error)
}

// One function per (entry point, document type): the calls must be direct.

//go:noinline
func stackMarshalJ(depth int, churn bool) ([]byte, error) {
	var d stackDocJ
	d.I, d.S, d.L = 1, "one", []int{1}
	for i := range d.Q {
		d.Q[i] = 7
	}
	d.A = stackCBJ{nextI: &d.I, nextS: &d.S, nextL: &d.L, depth: depth, churn: churn}
	return gojson.Marshal(&d)
}

//go:noinline
func stackMarshalT(depth int, churn bool) ([]byte, error) {
	var d stackDocT
	d.H, d.I, d.S, d.L = 5, 1, "one", []int{1}
	d.A = stackCBT{nextI: &d.I, nextS: &d.S, nextL: &d.L, depth: depth, churn: churn}
	return gojson.Marshal(&d)
}

//go:noinline
func stackMarshalNoEscapeT(depth int, churn bool) ([]byte, error) {
	var d stackDocT
	d.H, d.I, d.S, d.L = 5, 1, "one", []int{1}
	d.A = stackCBT{nextI: &d.I, nextS: &d.S, nextL: &d.L, depth: depth, churn: churn}
	return gojson.MarshalNoEscape(&d)
}

//go:noinline
func stackMarshalOptJ(depth int, churn bool) ([]byte, error) {
	var d stackDocJ
	d.I, d.S, d.L = 1, "one", []int{1}
	for i := range d.Q {
		d.Q[i] = 7
	}
	d.A = stackCBJ{nextI: &d.I, nextS: &d.S, nextL: &d.L, depth: depth, churn: churn}
	return gojson.MarshalWithOption(&d, gojson.UnorderedMap())
}

//go:noinline
func stackMarshalCtxT(depth int, churn bool) ([]byte, error) {
	var d stackDocT
	d.H, d.I, d.S, d.L = 5, 1, "one", []int{1}
	d.A = stackCBT{nextI: &d.I, nextS: &d.S, nextL: &d.L, depth: depth, churn: churn}
	return gojson.MarshalContext(context.Background(), &d)
}

//go:noinline
func stackMarshalIndentJ(depth int, churn bool) ([]byte, error) {
	var d stackDocJ
	d.I, d.S, d.L = 1, "one", []int{1}
	for i := range d.Q {
		d.Q[i] = 7
	}
	d.A = stackCBJ{nextI: &d.I, nextS: &d.S, nextL: &d.L, depth: depth, churn: churn}
	b, err := gojson.MarshalIndent(&d, "", " ")
	if err != nil {
		return nil, err
	}
	var out bytes.Buffer
	if err := gojson.Compact(&out, b); err != nil {
		return nil, fmt.Errorf("indented output not compactable: %v: %q", err, b)
	}
	return out.Bytes(), nil
}

//go:noinline
func stackEncoderT(depth int, churn bool) ([]byte, error) {
	var d stackDocT
	d.H, d.I, d.S, d.L = 5, 1, "one", []int{1}
	d.A = stackCBT{nextI: &d.I, nextS: &d.S, nextL: &d.L, depth: depth, churn: churn}
	var out bytes.Buffer
	err := gojson.NewEncoder(&out).Encode(&d)
	return bytes.TrimSuffix(out.Bytes(), []byte("\n")), err
}

//go:noinline
func stackEncoderOptJ(depth int, churn bool) ([]byte, error) {
	var d stackDocJ
	d.I, d.S, d.L = 1, "one", []int{1}
	for i := range d.Q {
		d.Q[i] = 7
	}
	d.A = stackCBJ{nextI: &d.I, nextS: &d.S, nextL: &d.L, depth: depth, churn: churn}
	var out bytes.Buffer
	err := gojson.NewEncoder(&out).EncodeWithOption(&d, gojson.UnorderedMap())
	return bytes.TrimSuffix(out.Bytes(), []byte("\n")), err
}

//go:noinline
func stackSliceOfDocs(depth int, churn bool) ([]byte, error) {
	var ds [2]stackDocT
	for k := range ds {
		d := &ds[k]
		d.H, d.I, d.S, d.L = 5, 1, "one", []int{1}
		d.A = stackCBT{nextI: &d.I, nextS: &d.S, nextL: &d.L, depth: depth / (k + 1), churn: churn && k == 0}
	}
	return gojson.Marshal(ds[:])
}

var stackEntries = []stackEntry{
	{"Marshal(&local)/MarshalJSON", stackWantJ, stackMarshalJ},
	{"Marshal(&local)/MarshalText", stackWantT, stackMarshalT},
	{"MarshalNoEscape(&local)", stackWantT, stackMarshalNoEscapeT},
	{"MarshalWithOption(&local)", stackWantJ, stackMarshalOptJ},
	{"MarshalContext(&local)", stackWantT, stackMarshalCtxT},
	{"MarshalIndent(&local)", stackWantJ, stackMarshalIndentJ},
	{"Encoder.Encode(&local)", stackWantT, stackEncoderT},
	{"Encoder.EncodeWithOption(&local)", stackWantJ, stackEncoderOptJ},
	{"Marshal(local[:])", "[" + stackWantT + "," + stackWantT + "]", stackSliceOfDocs},
}

// c08StackResident runs every entry on a fresh goroutine (a small stack, so that the callback's
// recursion is what moves it), for several recursion depths and pre-grown sizes.
func c08StackResident(c *rt.Ctx, subBase int) {
	for ei, e := range stackEntries {
		shapes := "core"
		if strings.HasPrefix(e.name, "MarshalNoEscape") {
			// the one entry point that leaves its argument on the caller's stack by design
			shapes = "noescape-stack-resident"
		}
		if !c.Cur(subBase+ei, "shapes="+shapes+"\nstack-resident value: "+e.name) {
			continue
		}
		for _, pre := range []int{0, 100, 700} {
			for _, depth := range []int{50, 600, 4000, 20000} {
				for _, churn := range []bool{false, true} {
					if churn && depth != 4000 {
						continue
					}
					type res struct {
						b   []byte
						err error
						pan string
					}
					ch := make(chan res, 1)
					go func() {
						var r res
						defer func() {
							if p := recover(); p != nil {
								r.pan = fmt.Sprint(p)
							}
							ch <- r
						}()
						// make room for the encoder's own frames first, so that the first stack
						// move after the entry point has taken the address is the one in the callback
						stackGrow(pre)
						r.b, r.err = e.run(depth, churn)
					}()
					r := <-ch
					c.Eval(1)
					c.Obs("stack_resident_encodings", 1)
					switch {
					case r.pan != "":
						c.Violate(rt.Violation{Monitor: "gc-callback", Entry: "stack-resident", Kind: "panic:" + rt.PanicClass(r.pan), Ctx: e.name, Detail: r.pan, Sub: subBase + ei})
					case r.err != nil:
						c.Violate(rt.Violation{Monitor: "gc-callback", Entry: "stack-resident", Kind: "error", Ctx: e.name, Detail: r.err.Error(), Sub: subBase + ei})
					case string(r.b) != e.want:
						got := string(r.b)
						if len(got) > 300 {
							got = got[:300] + "..."
						}
						kind := "stale-or-foreign-data-encoded"
						if strings.Contains(got, `"i":1`) || strings.Contains(got, `"one"`) {
							kind = "abandoned-stack-copy-encoded"
						}
						c.Violate(rt.Violation{Monitor: "gc-callback", Entry: "stack-resident", Kind: kind, Ctx: e.name,
							Detail: fmt.Sprintf("pre-grown %d, callback recursion %d, churn %v: got %s want %s", pre, depth, churn, got, e.want), Sub: subBase + ei})
					}
				}
			}
		}
		c.NonTrivial("stack-resident", e.name)
	}
}
