package props

import (
	"bytes"
	stdjson "encoding/json"
	"errors"
	"fmt"
	"io"
	"math/rand"
	"reflect"
	"strings"
	"unicode/utf8"
	"unsafe"

	gojson "github.com/goccy/go-json"

	"verif/harness/gen"
	"verif/harness/oracle"
	"verif/harness/rt"
	"verif/harness/zoo"
)

// C09 — stream decoding equals buffer decoding for every chunking of the input.
//
// Monitors:
//   stream-vs-buffer  Decoder.Decode over a chunked reader gives the verdict and value of Unmarshal
//   stream-seq        a concatenated stream decodes to the values of its documents one by one;
//                     InputOffset/More/Token agree with encoding/json's Decoder; offsets never
//                     decrease; bytes delivered = InputOffset + Buffered (conservation)
//   reader-fault      a non-EOF reader error is returned to the caller (errors.Is) and never turned
//                     into a successfully decoded value

var errInjected = errors.New("verif: injected reader fault")

// chunkReader delivers data cut at the given positions; it can insert zero-length reads, fail at a
// position, and return the last piece together with the error.
type chunkReader struct {
	data      []byte
	cuts      []int // strictly increasing positions in (0,len)
	pos       int
	zeroEvery int // every n-th call returns (0, nil) first
	calls     int
	failAt    int // -1: never; otherwise fail when pos reaches failAt
	errWith   bool
	delivered int
	finalErr  error
	erred     bool // the injected error was actually returned from a Read call
}

func (r *chunkReader) Read(p []byte) (int, error) {
	r.calls++
	if r.zeroEvery > 0 && r.calls%r.zeroEvery == 0 {
		return 0, nil
	}
	if r.failAt >= 0 && r.pos >= r.failAt {
		r.erred = true
		return 0, errInjected
	}
	if r.pos >= len(r.data) {
		if r.finalErr != nil {
			return 0, r.finalErr
		}
		return 0, io.EOF
	}
	end := len(r.data)
	for _, c := range r.cuts {
		if c > r.pos {
			end = c
			break
		}
	}
	if r.failAt >= 0 && end > r.failAt {
		end = r.failAt
	}
	if end-r.pos > len(p) {
		end = r.pos + len(p)
	}
	n := copy(p, r.data[r.pos:end])
	r.pos += n
	r.delivered += n
	if r.errWith && r.failAt >= 0 && r.pos >= r.failAt {
		r.erred = true
		return n, errInjected
	}
	return n, nil
}

func fixedCuts(n, size int) []int {
	var out []int
	for c := size; c < n; c += size {
		out = append(out, c)
	}
	return out
}

// cutClass names the token a cut position falls into (valid documents only).
func cutClass(doc []byte, n *oracle.Node, pos int) string {
	if n == nil {
		return "invalid-doc"
	}
	var find func(n *oracle.Node, key bool) string
	find = func(n *oracle.Node, key bool) string {
		if pos <= n.Start || pos >= n.End {
			return ""
		}
		switch n.Kind {
		case 'o', 'a':
			for _, k := range n.Kids {
				if s := find(k, false); s != "" {
					return s
				}
			}
			// inside a key string?
			if n.Kind == 'o' {
				if s := inString(doc, n.Start, n.End, pos); s != "" {
					return "key-" + s
				}
			}
			return "between-tokens"
		case 's':
			return "string-" + strPart(doc, n.Start, n.End, pos)
		case 'n':
			return "number"
		default:
			return "literal"
		}
	}
	if s := find(n, false); s != "" {
		return s
	}
	return "outside-value"
}

// inString: pos inside some string literal within [start,end) that is not a child node (object keys)
func inString(doc []byte, start, end, pos int) string {
	in := false
	esc := false
	sStart := 0
	for i := start; i < end && i < pos+1; i++ {
		c := doc[i]
		if in {
			if esc {
				esc = false
			} else if c == '\\' {
				esc = true
			} else if c == '"' {
				in = false
				if pos > sStart && pos <= i {
					return strPart(doc, sStart, i+1, pos)
				}
			}
		} else if c == '"' {
			in = true
			sStart = i
		}
	}
	if in && pos > sStart {
		// find the closing quote
		e := sStart + 1
		esc = false
		for e < end {
			if esc {
				esc = false
			} else if doc[e] == '\\' {
				esc = true
			} else if doc[e] == '"' {
				break
			}
			e++
		}
		if pos <= e {
			return strPart(doc, sStart, e+1, pos)
		}
	}
	return ""
}

// strPart: is the cut inside an escape sequence, inside a multi-byte character, or plain?
func strPart(doc []byte, start, end, pos int) string {
	for i := start + 1; i < end-1; {
		c := doc[i]
		w := 1
		kind := "plain"
		switch {
		case c == '\\' && i+1 < end && doc[i+1] == 'u':
			w, kind = 6, "u-escape"
		case c == '\\':
			w, kind = 2, "simple-escape"
		case c >= 0xf0:
			w, kind = 4, "multibyte"
		case c >= 0xe0:
			w, kind = 3, "multibyte"
		case c >= 0xc0:
			w, kind = 2, "multibyte"
		}
		if pos > i && pos < i+w {
			return kind
		}
		i += w
	}
	return "plain"
}

type c09Dest struct {
	name string
	mk   func() any
}

func streamDecodeOne(doc []byte, r io.Reader, dst any) error {
	return gojson.NewDecoder(r).Decode(dst)
}

// compareStreamBuffer runs one chunking of one document into one destination type.
func compareStreamBuffer(c *rt.Ctx, sub int, doc []byte, tree *oracle.Node, valid bool, t reflect.Type, rd *chunkReader, chunkDesc string, cutPos int) {
	bd := reflect.New(t)
	var berr error
	if pan, _, _ := rt.Guard(func() { berr = gojson.Unmarshal(doc, bd.Interface()) }); pan {
		c.Obs("panics_seen_judged_by_C06", 1)
		return
	}
	sd := reflect.New(t)
	var serr error
	pan, msg, _ := rt.Guard(func() { serr = gojson.NewDecoder(rd).Decode(sd.Interface()) })
	c.Eval(2)
	if pan {
		c.Obs("panics_seen_judged_by_C06", 1)
		_ = msg
		return
	}
	vtag := "valid-doc"
	if !valid {
		vtag = "invalid-doc"
	}
	where := cutClass(doc, tree, cutPos)
	if cutPos < 0 {
		where = "n/a"
	}
	if bytes.Contains(doc, []byte{'\\', 'u'}) {
		where += ":doc-has-u-escapes"
	}
	if !utf8.Valid(doc) {
		where += ":doc-not-utf8"
	}
	input := map[string]any{"doc": string(doc), "type": t.String(), "chunking": chunkDesc, "cuts": rd.cuts}
	if rd.finalErr != nil && serr != nil && errors.Is(serr, rd.finalErr) {
		// the reader ended with an error other than EOF and the decoder reported it
		c.Obs("final_reader_error_reported", 1)
		return
	}
	if (berr != nil) != (serr != nil) {
		kind := "verdict:stream-err-buffer-ok"
		ctx := vtag + ":" + chunkClass(chunkDesc) + ":" + where + ":" + msgClass(fmt.Sprint(serr))
		if !valid && serr != nil {
			// the buffer decoder accepted an invalid text (C05's lenience) that the stream decoder rejects
			e := &c05Entry{name: "Unmarshal", stream: false, skips: t.Kind() != reflect.Interface}
			kind = "verdict:stream-err-buffer-ok-on-invalid-doc"
			ctx = c05Explain(doc, e)
		}
		if serr == nil {
			kind = "verdict:stream-ok-buffer-err"
			e := &c05Entry{name: "Decode", stream: true, skips: t.Kind() != reflect.Interface}
			ctx = c05Explain(doc, e)
			if ctx == "relax=unexplained" && bytes.IndexByte(doc, 0) >= 0 {
				// the NUL handling of the stream scanners is only partly modelled by the recogniser
				ctx = "relax=stream:nul-skipped-unmodelled"
			}
			if valid {
				ctx = vtag + ":" + chunkClass(chunkDesc) + ":buffer-error=" + msgClass(berr.Error()) + ":" + kindClass(t) + ":" + docClass(doc)
				if bytes.Contains(doc, []byte{'\\', 'u'}) {
					ctx += ":doc-has-u-escapes"
				}
			}
		}
		c.Violate(rt.Violation{Monitor: "stream-vs-buffer", Entry: kindClass(t), Kind: kind, Ctx: ctx,
			Detail: fmt.Sprintf("doc %s chunking %s %v: Decoder err=%v, Unmarshal err=%v", rt.Q(doc), chunkDesc, rd.cuts, serr, berr), Input: input, Sub: sub})
		return
	}
	if berr != nil {
		c.Obs("both_reject", 1)
		return
	}
	var d *valueDiff
	if pan, _, _ := rt.Guard(func() { d = diffValues(bd.Elem(), sd.Elem(), nil, 0) }); pan {
		c.Violate(rt.Violation{Monitor: "stream-vs-buffer", Entry: kindClass(t), Kind: "ill-formed-destination", Ctx: vtag + ":" + chunkClass(chunkDesc) + ":" + where, Detail: "walking the stream-decoded value panicked", Input: input, Sub: sub})
		return
	}
	if d != nil && !valid {
		// both modes accepted an invalid text (C05's lenience) but read it differently
		why := "other"
		if bytes.IndexByte(doc, 0) >= 0 {
			why = "embedded-nul: buffer terminates, stream skips"
		}
		bs, _ := stdjson.Marshal(bd.Elem().Interface())
		ss, _ := stdjson.Marshal(sd.Elem().Interface())
		c.Violate(rt.Violation{Monitor: "stream-vs-buffer", Entry: kindClass(t), Kind: "value-differs-on-invalid-doc", Ctx: why,
			Detail: fmt.Sprintf("doc %s chunking %s %v: Decoder %s, Unmarshal %s", rt.Q(doc), chunkDesc, rd.cuts, ss, bs), Input: input, Sub: sub})
		return
	}
	if d != nil {
		bs, _ := stdjson.Marshal(bd.Elem().Interface())
		ss, _ := stdjson.Marshal(sd.Elem().Interface())
		c.Violate(rt.Violation{Monitor: "stream-vs-buffer", Entry: kindClass(t), Kind: "value-differs:" + d.what, Ctx: vtag + ":" + chunkClass(chunkDesc) + ":" + where,
			Detail: fmt.Sprintf("doc %s chunking %s %v: Decoder %s, Unmarshal %s", rt.Q(doc), chunkDesc, rd.cuts, ss, bs), Input: input, Sub: sub})
		return
	}
	c.Obs("stream_equals_buffer", 1)
}

func chunkClass(desc string) string {
	if i := strings.IndexByte(desc, '='); i > 0 {
		return desc[:i]
	}
	return desc
}

// faultRun: the reader fails at byte position `at`; completePrefix tells whether the bytes
// delivered before the fault contain a complete self-delimited value (then success is legitimate).
func faultRun(c *rt.Ctx, sub int, doc []byte, t reflect.Type, at int, errWith bool, tree *oracle.Node) {
	rd := &chunkReader{data: doc, failAt: at, errWith: errWith, cuts: fixedCuts(len(doc), 7)}
	sd := reflect.New(t)
	var serr error
	pan, _, _ := rt.Guard(func() { serr = gojson.NewDecoder(rd).Decode(sd.Interface()) })
	c.Eval(1)
	if pan {
		c.Obs("panics_seen_judged_by_C06", 1)
		return
	}
	prefix := doc[:at]
	// self-delimited: an object, array or string that is complete within the prefix; a number or
	// literal is complete only if a delimiter follows it inside the prefix
	complete := false
	if n := tree; n != nil {
		end := n.End
		switch n.Kind {
		case 'o', 'a', 's':
			complete = at >= end
		default:
			complete = at > end
		}
	}
	mode := "err-after-data"
	if errWith {
		mode = "err-with-data"
	}
	input := map[string]any{"doc": string(doc), "type": t.String(), "fail_at": at, "err_with_data": errWith}
	where := cutClass(doc, tree, at)
	if !rd.erred {
		// the decoder never asked the reader again: no error was delivered to it
		c.Obs("reader_fault_never_reached", 1)
		return
	}
	switch {
	case serr == nil && !complete:
		bs, _ := stdjson.Marshal(sd.Elem().Interface())
		c.Violate(rt.Violation{Monitor: "reader-fault", Entry: kindClass(t), Kind: "reader-error:swallowed", Ctx: mode + ":" + where,
			Detail: fmt.Sprintf("reader failed after %q of %s, Decode returned nil and value %s", prefix, rt.Q(doc), bs), Input: input, Sub: sub})
	case serr != nil && !errors.Is(serr, errInjected):
		c.Violate(rt.Violation{Monitor: "reader-fault", Entry: kindClass(t), Kind: "reader-error:replaced", Ctx: mode + ":" + where,
			Detail: fmt.Sprintf("reader failed after %q of %s, Decode returned %q instead of the reader's error", prefix, rt.Q(doc), serr), Input: input, Sub: sub})
	default:
		c.Obs("reader_fault_reported_or_value_complete", 1)
	}
}

// sequence: concatenated documents, checked call by call against encoding/json's Decoder
func sequenceRun(c *rt.Ctx, sub int, docs [][]byte, sep string, chunk int) {
	var all []byte
	for i, d := range docs {
		if i > 0 {
			all = append(all, sep...)
		}
		all = append(all, d...)
	}
	rd := &chunkReader{data: all, cuts: fixedCuts(len(all), chunk), failAt: -1}
	gd := gojson.NewDecoder(rd)
	sdec := stdjson.NewDecoder(bytes.NewReader(all))
	lastOff := int64(0)
	input := map[string]any{"stream": string(all), "chunk": chunk}
	for i := 0; i <= len(docs); i++ {
		var gv, sv any
		var gerr error
		gmore, smore := false, sdec.More()
		pan, _, _ := rt.Guard(func() { gmore = gd.More() })
		if pan {
			c.Obs("panics_seen_judged_by_C06", 1)
			return
		}
		if gmore != smore {
			c.Violate(rt.Violation{Monitor: "stream-seq", Entry: "More", Kind: "more-differs", Ctx: fmt.Sprintf("after-%d-of-%d:sep=%q", i, len(docs), sep),
				Detail: fmt.Sprintf("stream %s: More()=%v, encoding/json %v before document %d", rt.Q(all), gmore, smore, i), Input: input, Sub: sub})
			return
		}
		pan, _, _ = rt.Guard(func() { gerr = gd.Decode(&gv) })
		serr := sdec.Decode(&sv)
		c.Eval(1)
		if pan {
			c.Obs("panics_seen_judged_by_C06", 1)
			return
		}
		if (gerr != nil) != (serr != nil) || (gerr == nil && !reflect.DeepEqual(gv, sv)) {
			c.Violate(rt.Violation{Monitor: "stream-seq", Entry: "Decode", Kind: "sequence-differs", Ctx: fmt.Sprintf("doc-%d-of-%d:sep=%q:%s", i, len(docs), sep, msgClass(fmt.Sprint(gerr))),
				Detail: fmt.Sprintf("stream %s chunk %d: document %d: go-json (%v, %v) encoding/json (%v, %v)", rt.Q(all), chunk, i, gv, gerr, sv, serr), Input: input, Sub: sub})
			return
		}
		if gerr != nil {
			break
		}
		goff, soff := gd.InputOffset(), sdec.InputOffset()
		if goff != soff {
			c.Violate(rt.Violation{Monitor: "stream-seq", Entry: "InputOffset", Kind: "offset-differs", Ctx: fmt.Sprintf("%s:escapes=%v", docClass(docs[i]), bytes.Contains(docs[i], []byte{'\\'})),
				Detail: fmt.Sprintf("stream %s chunk %d: after document %d InputOffset=%d, encoding/json %d", rt.Q(all), chunk, i, goff, soff), Input: input, Sub: sub})
			return
		}
		if goff < lastOff {
			c.Violate(rt.Violation{Monitor: "stream-seq", Entry: "InputOffset", Kind: "offset-decreased", Ctx: "sequence", Detail: fmt.Sprint(lastOff, "->", goff), Input: input, Sub: sub})
			return
		}
		lastOff = goff
		// conservation: delivered = consumed + buffered
		buf, _ := io.ReadAll(gd.Buffered())
		if int64(rd.delivered) != goff+int64(len(buf)) {
			c.Violate(rt.Violation{Monitor: "stream-seq", Entry: "Buffered", Kind: "conservation", Ctx: fmt.Sprintf("sep=%q", sep),
				Detail: fmt.Sprintf("stream %s chunk %d: delivered %d != InputOffset %d + Buffered %d", rt.Q(all), chunk, rd.delivered, goff, len(buf)), Input: input, Sub: sub})
			return
		}
	}
	c.Obs("sequences_checked", 1)
}

// tokenRun: Token()/More() against encoding/json on one valid document
func tokenRun(c *rt.Ctx, sub int, doc []byte, chunk int) {
	rd := &chunkReader{data: doc, cuts: fixedCuts(len(doc), chunk), failAt: -1}
	gd := gojson.NewDecoder(rd)
	sdec := stdjson.NewDecoder(bytes.NewReader(doc))
	sdec.UseNumber()
	gd.UseNumber()
	input := map[string]any{"doc": string(doc), "chunk": chunk}
	for i := 0; i < 10000; i++ {
		var gt gojson.Token
		var gerr error
		pan, _, _ := rt.Guard(func() { gt, gerr = gd.Token() })
		st, serr := sdec.Token()
		c.Eval(1)
		if pan {
			c.Obs("panics_seen_judged_by_C06", 1)
			return
		}
		if (gerr != nil) != (serr != nil) || (gerr == nil && fmt.Sprintf("%T %v", gt, gt) != fmt.Sprintf("%T %v", st, st)) {
			c.Violate(rt.Violation{Monitor: "stream-seq", Entry: "Token", Kind: "token-differs", Ctx: fmt.Sprintf("%T->%T:%s", st, gt, msgClass(fmt.Sprint(gerr))),
				Detail: fmt.Sprintf("doc %s chunk %d token #%d: go-json (%T %v, %v) encoding/json (%T %v, %v)", rt.Q(doc), chunk, i, gt, gt, gerr, st, st, serr), Input: input, Sub: sub})
			return
		}
		if serr != nil {
			break
		}
		gm, sm := gd.More(), sdec.More()
		if gm != sm {
			c.Violate(rt.Violation{Monitor: "stream-seq", Entry: "More", Kind: "more-differs", Ctx: fmt.Sprintf("after-token:%T", st),
				Detail: fmt.Sprintf("doc %s chunk %d after token #%d (%v): More()=%v encoding/json %v", rt.Q(doc), chunk, i, st, gm, sm), Input: input, Sub: sub})
			return
		}
	}
	c.Obs("token_sequences_checked", 1)
}

func init() {
	register(&Prop{
		ID: "C09",
		NumBatches: func(tier string, seed int64) int {
			if tier == "thorough" {
				return 12288
			}
			return 1536
		},
		Run: func(c *rt.Ctx) {
			r := c.RNG(0)
			ifaceT := reflect.TypeOf((*any)(nil)).Elem()
			fam := c.Idx % 8
			switch {
			case fam == 5:
				c09BoundarySweep(c, r)
			case fam == 6 && c.Idx/8%2 == 1:
				c09StringSweep(c, r)
			case fam == 6:
				c09SkipSweep(c, r)
				if c.Idx%256 == 6 {
					c09BigSkips(c)
				}
				if c.Idx%256 == 22 {
					c09Prefilled(c)
				}
				if c.Idx%256 == 38 {
					c09EscapedKeys(c)
				}
			case fam < 5:
				// documents x destination types x chunkings
				var doc []byte
				t := ifaceT
				switch fam {
				case 0, 1:
					doc = gen.Doc(r, 3)
				case 2:
					// type-directed: the reference rendering of a generated value, decoded into its type
					tt, feat := gen.Type(rt.FixedRNG("C09type", c.Idx), 3, gen.TypeOpts{})
					_ = feat
					v := gen.Value(r, tt, 3, gen.ValOpts{RoundTrip: true})
					b, err := stdjson.Marshal(v.Interface())
					if err != nil {
						return
					}
					doc, t = gen.MutateDoc(r, b, gen.DocMutations[c.Idx/8%len(gen.DocMutations)]), tt
				case 3:
					// invalid: one mutation of a valid text
					d := gen.Doc(r, 2)
					if len(d) > 0 {
						i := r.Intn(len(d))
						d = append([]byte{}, d...)
						switch r.Intn(3) {
						case 0:
							d[i] = Alphabet28[r.Intn(len(Alphabet28))]
						case 1:
							d = d[:i]
						default:
							d = append(d[:i], append([]byte{Alphabet28[r.Intn(len(Alphabet28))]}, d[i:]...)...)
						}
					}
					doc = d
				default:
					// long: strings with escapes and multi-byte characters straddling 511..514 and 1022..1026
					pad := 500 + r.Intn(20)
					if r.Intn(2) == 0 {
						pad = 1010 + r.Intn(20)
					}
					var sb strings.Builder
					sb.WriteString(`{"k":"`)
					sb.WriteString(strings.Repeat("x", pad))
					for i := 0; i < 12; i++ {
						sb.WriteString(gen.StringPieces[r.Intn(len(gen.StringPieces))])
					}
					sb.WriteString(`","` + gen.KeyPool[r.Intn(len(gen.KeyPool))] + `":[1.5e3,true,null,"` + strings.Repeat("é", r.Intn(8)) + `"]}`)
					doc = []byte(sb.String())
				}
				valid := oracle.Recognise(doc, 0)
				var tree *oracle.Node
				if valid {
					tree, _ = oracle.Parse(doc)
				}
				if !c.Cur(0, "shapes=core\ntype: "+t.String()+"\ndoc: "+string(doc)) {
					return
				}
				n := len(doc)
				sub := 0
				run := func(rd *chunkReader, desc string, cutPos int) {
					compareStreamBuffer(c, sub, doc, tree, valid, t, rd, desc, cutPos)
					sub++
				}
				// every single cut (long documents: cuts around the buffer boundaries and a sample)
				for cut := 1; cut < n; cut++ {
					if n > 300 && !(cut >= 505 && cut <= 520) && !(cut >= 1018 && cut <= 1030) && cut%37 != 0 {
						continue
					}
					run(&chunkReader{data: doc, cuts: []int{cut}, failAt: -1}, "single-cut", cut)
				}
				for size := 1; size <= 17; size++ {
					run(&chunkReader{data: doc, cuts: fixedCuts(n, size), failAt: -1}, fmt.Sprintf("fixed=%d", size), -1)
				}
				if n <= 24 || c.Tier == "thorough" && n <= 40 {
					for a := 1; a < n; a++ {
						for b := a + 1; b < n; b++ {
							run(&chunkReader{data: doc, cuts: []int{a, b}, failAt: -1}, "pair-of-cuts", a)
						}
					}
				}
				run(&chunkReader{data: doc, cuts: fixedCuts(n, 3), zeroEvery: 2, failAt: -1}, "zero-length-reads", -1)
				run(&chunkReader{data: doc, cuts: fixedCuts(n, 5), failAt: -1, finalErr: io.ErrUnexpectedEOF}, "final-err-not-eof", -1)
				// reader failures injected at every byte position (valid documents)
				if valid {
					step := 1
					if n > 200 {
						step = 1 + n/120
					}
					for at := 0; at <= n; at += step {
						faultRun(c, sub, doc, t, at, false, tree)
						if at > 0 {
							faultRun(c, sub, doc, t, at, true, tree)
						}
						sub++
					}
					for _, ch := range []int{1, 4, 9} {
						tokenRun(c, sub, doc, ch)
					}
				}
				c.NonTrivial(t.String(), string(doc))
				c.Obs("documents", 1)
				if valid {
					c.Obs("valid_documents", 1)
				}
				c.Sample(map[string]any{"doc": string(doc[:minInt(len(doc), 200)]), "len": n, "valid": valid, "type": t.String(), "chunkings": sub})
			default:
				// sequences of concatenated documents
				for k := 0; k < 6; k++ {
					nd := 1 + r.Intn(4)
					var docs [][]byte
					for i := 0; i < nd; i++ {
						docs = append(docs, bytes.TrimSpace(gen.Doc(r, 2)))
					}
					sep := []string{" ", "\n", "", "\t\n", " "}[r.Intn(5)]
					if sep == "" {
						// adjacent numbers/literals would merge: only self-delimiting documents
						for i := range docs {
							if len(docs[i]) == 0 || (docs[i][0] != '{' && docs[i][0] != '[' && docs[i][0] != '"') {
								docs[i] = []byte(`[` + string(docs[i]) + `]`)
							}
						}
					}
					if !c.Cur(k, fmt.Sprintf("shapes=core\nsequence of %d docs sep %q", nd, sep)) {
						continue
					}
					for _, ch := range []int{1, 3, 8, 64, 1 << 20} {
						sequenceRun(c, k, docs, sep, ch)
					}
					c.NonTrivial("seq", fmt.Sprint(docs), sep)
				}
			}
		},
	})
}

var c09SweepNames = []string{"alpha", "Beta", "x/y", "g_3", "Delta9", "e", "ab", "name", "id", "k10", "k11", "k12", "k13", "k14", "k15", "k16", "k17", "k18", "k19"}
var c09SweepTypes = []reflect.Type{reflect.TypeOf(0), reflect.TypeOf(""), reflect.TypeOf([]int(nil)), reflect.TypeOf(map[string]int(nil)), reflect.TypeOf((*int)(nil)),
	reflect.TypeOf(struct {
		A int
		B string
	}{}), reflect.TypeOf(1.5), reflect.TypeOf(false), reflect.TypeOf((*any)(nil)).Elem(), reflect.TypeOf(int8(0)), reflect.TypeOf([]string(nil))}

// c09BoundarySweep: the stream decoder refills (and reallocates) its buffer after 511, 1023, 2047
// bytes. A padding member in front moves those boundaries over every byte of the members that
// follow, for struct destinations of each of the three key-lookup implementations (<= 8 names,
// 9..16 names, more), with keys spelled raw, escaped, in another case, and unknown keys.
func c09BoundarySweep(c *rt.Ctx, r *rand.Rand) {
	nf := []int{2, 8, 9, 12, 16, 17, 19}[c.Idx/8%7]
	var inner []reflect.StructField
	for i := 0; i < nf; i++ {
		inner = append(inner, reflect.StructField{Name: fmt.Sprintf("F%d", i), Type: c09SweepTypes[(i+r.Intn(3))%len(c09SweepTypes)],
			Tag: reflect.StructTag(`json:"` + c09SweepNames[i] + `"`)})
	}
	it := reflect.StructOf(inner)
	full := reflect.StructOf(append([]reflect.StructField{{Name: "P", Type: reflect.TypeOf(""), Tag: `json:"p"`}}, inner...))
	v := gen.Value(r, it, 2, gen.ValOpts{RoundTrip: true, MaxLen: 3})
	base, err := stdjson.Marshal(v.Interface())
	if err != nil {
		return
	}
	mut := []string{"none", "key-escaped", "key-case", "unknown-key", "string-escapes", "nested-unknown", "whitespace", "dup-key"}[c.Idx/56%8]
	tail := bytes.TrimSpace(gen.MutateDoc(r, base, mut))
	if len(tail) < 4 || tail[0] != '{' || !oracle.Recognise(tail, 0) {
		return
	}
	tail = tail[1:]
	if !c.Cur(0, "shapes=core\ntype: "+full.String()+"\ntail: "+string(tail)) {
		return
	}
	sub := 0
	for _, boundary := range []int{511, 1023, 2047} {
		if boundary == 2047 && c.Tier != "thorough" {
			continue
		}
		for o := 0; o < len(tail) && o < boundary-8; o++ {
			doc := []byte(`{"p":"` + strings.Repeat("x", boundary-8-o) + `",` + string(tail))
			tree, _ := oracle.Parse(doc)
			if tree == nil {
				c.Obs("outside_domain_document", 1)
				break
			}
			compareStreamBuffer(c, sub, doc, tree, true, full, &chunkReader{data: doc, failAt: -1}, "whole-reads", boundary)
			compareStreamBuffer(c, sub, doc, tree, true, full, &chunkReader{data: doc, cuts: fixedCuts(len(doc), 64), failAt: -1}, "fixed=64", boundary)
			sub++
		}
	}
	c.NonTrivial(full.String(), string(tail))
	c.NonTrivialEnum(int64(sub))
	c.Obs("boundary_sweep_positions", int64(sub))
	c.SetAdd("boundary_sweep_field_counts", fmt.Sprint(nf+1))
	if c.Idx%56 == 5 {
		c.Sample(map[string]any{"family": "buffer-boundary sweep", "fields": nf + 1, "mutation": mut, "tail": string(tail[:minInt(len(tail), 160)]), "positions": sub})
	}
}

type c09SkipDst struct {
	A int
	B string
	N struct {
		A int
		C []struct{ A int }
	}
}

// c09SkipValues: values the decoder has to step over (unknown members): every escape class at the
// start, middle and end of a string, number forms, literals, containers holding those.
func c09SkipValues() []string {
	q, b := `\"`, `\\`
	vals := []string{`""`, `"a"`, `"` + q + `"`, `"a` + q + `b"`, `"` + q + q + `"`, `"` + b + `"`, `"` + b + b + `"`, `"x` + b + q + `y"`, `"` + b + `"`, `"` + q + b + `"`,
		`"\/"`, `"\n\t"`, `"é"`, `"😀"`, `"` + bsU("00e9") + `"`, `"` + bsU("d83d") + bsU("de00") + `"`, `"a` + bsU("0022") + `"`, `"` + bsU("005c") + `"`,
		`0`, `-0`, `12`, `-12.5e+3`, `1E9`, `0.001`, `true`, `false`, `null`, `[]`, `{}`, `[1]`, `[ ]`, `{ }`,
		`["a` + q + `b",1,{"k":"` + b + `"}]`, `{"a":"` + q + `","b":[1,2,{"c":"` + b + q + `"}]}`, `[[[["` + b + `"]]]]`, `{"` + q + `":1}`, `{"k` + b + `":"v"}`,
		`[true,false,null,-1.5]`, `{"x":{"y":{"z":[{},[]]}}}`, `["` + b + `","` + q + `"]`}
	return vals
}

func bsU(hex string) string { return "\\" + "u" + hex }

// c09SkipSweep: documents for a struct destination with one member the destination does not have,
// at every position (first, middle, last, in a nested struct, in an element of a slice of structs),
// its value drawn from c09SkipValues or generated; every single cut and small fixed chunk sizes.
// c09BigSkips: skipped values holding more containers than the nesting limit counts levels
// (a depth counter that is not decremented overflows there), as unknown members, RawMessage and
// Unmarshaler members and as elements beyond a fixed-size array, in a few chunkings.
// c09Prefilled: destinations that are not zero - interfaces that already hold a pointer (encoding/json
// and the buffer decoder decode into the pointee, null clears the interface), pointers that already
// point somewhere, slices with elements. Every document is decoded with Unmarshal and through a
// Decoder with every single cut and with one-byte reads, each into a freshly pre-filled
// destination; value, verdict and "still the caller's pointer" must agree.
func c09Prefilled(c *rt.Ctx) {
	type in struct {
		A int
		S string
	}
	type holder struct {
		X int
		I any
		P *in
		L []in
		Z string
	}
	type made struct {
		dst  any
		ptrs []unsafe.Pointer // what the caller put in
		look func() []any     // the interface / pointer members to compare with ptrs
	}
	mks := []func() made{
		func() made {
			n := 7
			h := &holder{I: &n, P: &in{A: 1, S: "p"}, L: []in{{A: 1}, {A: 2}, {A: 3}}}
			return made{h, []unsafe.Pointer{unsafe.Pointer(&n), unsafe.Pointer(h.P)}, func() []any { return []any{h.I, h.P} }}
		},
		func() made {
			v := &in{A: 3, S: "s"}
			h := &holder{I: v}
			return made{h, []unsafe.Pointer{unsafe.Pointer(v), nil}, func() []any { return []any{h.I, h.P} }}
		},
		func() made {
			sl := []int{1, 2}
			h := &holder{I: &sl}
			return made{h, []unsafe.Pointer{unsafe.Pointer(&sl), nil}, func() []any { return []any{h.I, h.P} }}
		},
		func() made {
			v := &in{A: 5}
			var x any = v
			return made{&x, []unsafe.Pointer{unsafe.Pointer(v)}, func() []any { return []any{x} }}
		},
		func() made {
			// only the pointer member is set (the interface is nil and takes any value)
			h := &holder{X: 4, P: &in{A: 1, S: "p"}, Z: "old"}
			return made{h, []unsafe.Pointer{nil, unsafe.Pointer(h.P)}, func() []any { return []any{h.I, h.P} }}
		},
		func() made {
			// the Decode target itself is a set pointer
			hp := &holder{X: 5, P: &in{A: 2}, Z: "kept"}
			return made{&hp, []unsafe.Pointer{unsafe.Pointer(hp), unsafe.Pointer(hp.P)}, func() []any { return []any{hp, hp.P} }}
		},
		func() made {
			v := &in{A: 9}
			l := []any{v, nil, "s"}
			return made{&l, []unsafe.Pointer{unsafe.Pointer(v)}, func() []any {
				if len(l) == 0 {
					return []any{nil}
				}
				return []any{l[0]}
			}}
		},
	}
	// ({"S":"t"} fills a struct pointee only partly: what the caller had in A stays)
	vals := []string{"null", "5", `{"A":2,"S":"t"}`, `{"S":"t"}`, `"str"`, `[3,4,5]`, `[8]`, "true"}
	wss := []string{"", " ", "\n\t "}
	render := func(m made, err error) string {
		if err != nil {
			// what a failed decode leaves behind is not compared (as for the other families)
			return "err=true"
		}
		b, _ := stdjson.Marshal(m.dst)
		out := string(b) + "|err=" + fmt.Sprint(err != nil)
		for i, x := range m.look() {
			same := false
			if rv := reflect.ValueOf(x); rv.IsValid() && rv.Kind() == reflect.Ptr && !rv.IsNil() && i < len(m.ptrs) {
				same = rv.UnsafePointer() == m.ptrs[i]
			}
			out += fmt.Sprintf("|keeps-caller-pointer[%d]=%v", i, same)
		}
		return out
	}
	sub := 0
	for mi, mk := range mks {
		for _, val := range vals {
			for _, ws := range wss {
				var doc string
				switch {
				case mi <= 2:
					doc = `{"X":1,"I":` + ws + val + ws + `,"P":` + ws + val + `,"L":[{"A":9}],"Z":"z"}`
				case mi == 4 || mi == 5:
					doc = `{"I":` + ws + val + ws + `,"P":` + ws + val + `,"L":[{"A":9}]}`
				case mi == 3:
					doc = ws + val + ws
				default:
					doc = `[` + ws + val + ws + `,` + val + `]`
				}
				sub++
				if !c.Cur(sub, "shapes=core\npre-filled destination "+fmt.Sprint(mi)+"\ndoc: "+doc) {
					continue
				}
				bm := mk()
				var berr error
				if pan, _, _ := rt.Guard(func() { berr = gojson.Unmarshal([]byte(doc), bm.dst) }); pan {
					c.Obs("panics_seen_judged_by_C06", 1)
					continue
				}
				want := render(bm, berr)
				var cutsList [][]int
				for p := 1; p < len(doc); p++ {
					cutsList = append(cutsList, []int{p})
				}
				cutsList = append(cutsList, nil, fixedCuts(len(doc), 1))
				for _, cuts := range cutsList {
					sm := mk()
					var serr error
					pan, _, _ := rt.Guard(func() {
						serr = gojson.NewDecoder(&chunkReader{data: []byte(doc), cuts: cuts, failAt: -1}).Decode(sm.dst)
					})
					c.Eval(1)
					if pan {
						c.Obs("panics_seen_judged_by_C06", 1)
						continue
					}
					if got := render(sm, serr); got != want {
						ctx := "value"
						if (serr != nil) != (berr != nil) {
							ctx = "verdict"
						}
						c.Violate(rt.Violation{Monitor: "stream-vs-buffer", Entry: "prefilled", Kind: "prefilled-destination-differs", Ctx: ctx + ":" + strings.Trim(val[:1], "\"") + ":dst" + fmt.Sprint(mi),
							Detail: fmt.Sprintf("doc %s cuts %v: Decoder gives %s, Unmarshal gives %s", rt.Q([]byte(doc)), cuts, got, want), Sub: sub})
						break
					}
				}
				c.Obs("prefilled_documents", 1)
				c.NonTrivial("prefilled", fmt.Sprint(mi), doc)
			}
		}
	}
}

// c09EscapedKeys: member names spelled with escapes - two-character ones, BMP \u escapes and
// surrogate pairs for names outside the BMP - under every single cut and piece sizes 1..17: the
// stream key matchers look ahead across refills while they decode an escape.
func c09EscapedKeys(c *rt.Ctx) {
	type dst struct {
		Big   int    `json:"\U00020000"`
		Emo   string `json:"x\U0001F600y"`
		Acc   int    `json:"\u00e9t\u00e9"`
		Sl    int    `json:"a/b"`
		Plain int    `json:"plain"`
	}
	t := reflect.TypeOf(dst{})
	u := func(h string) string { return "\\" + "u" + h }
	keys := [][2]string{
		{u("d840") + u("dc00"), "Big"}, {"\U00020000", "Big"}, {"x" + u("d83d") + u("de00") + "y", "Emo"}, {"x\U0001F600y", "Emo"}, {u("0078") + u("D83D") + u("DE00") + u("0079"), "Emo"},
		{u("00e9") + "t" + u("00E9"), "Acc"}, {"a\\/b", "Sl"}, {"a" + u("002f") + "b", "Sl"}, {u("0070") + "lain", "Plain"}, {u("d840") + "x", ""}, {u("d840") + u("0041"), ""},
	}
	sub := 0
	for _, k := range keys {
		for _, form := range []string{`{"%s":7,"plain":1}`, `{"plain":1,"%s":7}`, `{ "%s" : 7 }`} {
			val := "7"
			if k[1] == "Emo" {
				val = `"seven"`
			}
			doc := []byte(strings.Replace(fmt.Sprintf(form, k[0]), ":7", ":"+val, 1))
			doc = []byte(strings.Replace(string(doc), ": 7", ": "+val, 1))
			tree, _ := oracle.Parse(doc)
			sub++
			if !c.Cur(sub, "shapes=core\nescaped member name: "+string(doc)) {
				continue
			}
			for p := 1; p < len(doc); p++ {
				compareStreamBuffer(c, sub, doc, tree, tree != nil, t, &chunkReader{data: doc, cuts: []int{p}, failAt: -1}, "single-cut", p)
			}
			for size := 1; size <= 17; size++ {
				compareStreamBuffer(c, sub, doc, tree, tree != nil, t, &chunkReader{data: doc, cuts: fixedCuts(len(doc), size), failAt: -1}, fmt.Sprintf("fixed=%d", size), -1)
			}
			c.NonTrivial("esckey", string(doc))
		}
	}
	c.Obs("escaped_key_documents", int64(sub))
}

func c09BigSkips(c *rt.Ctx) {
	rep := func(unit string, n int) string { return strings.TrimSuffix(strings.Repeat(unit+",", n), ",") }
	vals := []string{"[" + rep("{}", 10050) + "]", "[" + rep("[]", 10050) + "]", "[" + rep(`{"k":[{}]}`, 5100) + "]", "{" + rep(`"k":[[]]`, 10050) + "}", "{" + rep(`"k":{"x":{}}`, 5100) + "}", "[" + rep(`["a","]"]`, 10050) + "]"}
	type dst struct {
		A int
		R stdjson.RawMessage
		U zoo.UP
		F [1][]struct{}
		B string
	}
	t := reflect.TypeOf(dst{})
	sub := 0
	for vi, val := range vals {
		for mi, member := range []string{"zz", "R", "U", "F"} {
			if member == "F" {
				if val[0] != '[' {
					continue
				}
				val = "[[]," + val + "]"
			}
			doc := []byte(`{"A":1,"` + member + `":` + val + `,"B":"x"}`)
			tree, _ := oracle.Parse(doc)
			sub = vi*100 + mi*10
			if !c.Cur(sub, fmt.Sprintf("shapes=core\nbig skipped value %d as member %s (%d bytes)", vi, member, len(doc))) {
				continue
			}
			for ci, cuts := range [][]int{nil, fixedCuts(len(doc), 4096), fixedCuts(len(doc), 511), {len(doc) / 2}} {
				compareStreamBuffer(c, sub+ci, doc, tree, true, t, &chunkReader{data: doc, cuts: cuts, failAt: -1}, []string{"whole", "fixed=4096", "fixed=511", "single-cut"}[ci], -1)
			}
			c.NonTrivial("big-skip", fmt.Sprint(vi), member)
		}
	}
	c.Obs("big_skip_documents", int64(len(vals)*4))
}

func c09SkipSweep(c *rt.Ctx, r *rand.Rand) {
	vals := c09SkipValues()
	t := reflect.TypeOf(c09SkipDst{})
	for k := 0; k < 12; k++ {
		var val string
		if k < 8 {
			val = vals[(c.Idx/8*8+k)%len(vals)]
		} else {
			val = string(bytes.TrimSpace(gen.Doc(r, 2)))
		}
		w1, w2 := wsPick(r), wsPick(r)
		// the unknown member's name has its own escapes (the key scanner for unmatched names is a
		// separate routine)
		ukey := []string{"zz", `z\"z`, `\\`, `k\\\"`, bsU("0041") + "x", `\"`, "é" + `\n`, "zz"}[(c.Idx/8+k)%8]
		unk := `"` + ukey + `":` + w1 + val + w2
		var doc string
		switch (c.Idx/8 + k) % 6 {
		case 0:
			doc = `{` + unk + `,"A":1,"B":"x"}`
		case 1:
			doc = `{"A":1,` + unk + `,"B":"x"}`
		case 2:
			doc = `{"A":1,"B":"x",` + unk + `}`
		case 3:
			doc = `{"A":1,"N":{` + unk + `,"A":2},"B":"x"}`
		case 4:
			doc = `{"N":{"C":[{"A":3,` + unk + `},{` + unk + `,"A":4}]},"B":"x"}`
		default:
			doc = `{` + unk + `,` + unk + `,"B":"x"}`
		}
		d := []byte(doc)
		valid := oracle.Recognise(d, 0)
		var tree *oracle.Node
		if valid {
			tree, _ = oracle.Parse(d)
		}
		if !c.Cur(k, "shapes=core\ntype: "+t.String()+"\ndoc: "+doc) {
			continue
		}
		sub := k * 1000
		for cut := 1; cut < len(d); cut++ {
			compareStreamBuffer(c, sub, d, tree, valid, t, &chunkReader{data: d, cuts: []int{cut}, failAt: -1}, "single-cut", cut)
			sub++
		}
		for size := 1; size <= 4; size++ {
			compareStreamBuffer(c, sub, d, tree, valid, t, &chunkReader{data: d, cuts: fixedCuts(len(d), size), failAt: -1}, fmt.Sprintf("fixed=%d", size), -1)
			sub++
		}
		c.NonTrivial("skip-sweep", doc)
		c.Obs("skip_sweep_documents", 1)
	}
	if c.Idx%64 == 6 {
		c.Sample(map[string]any{"family": "skipped-member sweep", "catalogue": len(vals), "documents": 12})
	}
}

type c09StrDst struct {
	S string
	T string
	L []string
	M map[string]string
}

// c09StringSweep: string contents of every class the string scanners treat specially - ill-formed
// UTF-8 (which the stream decoder replaces in place), multi-byte characters, every escape - decoded
// into string-typed destinations (member, slice element, map key and value), followed by more
// members so that a refill comes after them; every single cut and chunk sizes 1..4.
func c09StringSweep(c *rt.Ctx, r *rand.Rand) {
	contents := []string{"\xff", "a\xffb", "\xe2\x82", "\xed\xa0\x80", "\xf4\x90\x80\x80", "\xc0\x80", "\xff\xfe\xfd", "é", "\xf0\x9f\x98\x80", "€\xff€", "x\x80", "\x80x",
		bsU("00e9"), bsU("d83d") + bsU("de00"), bsU("d800"), `\n`, `\"`, `\\`, "plain", "", "\xffé\xff" + bsU("0041") + "\xff"}
	t := reflect.TypeOf(c09StrDst{})
	for k := 0; k < 10; k++ {
		a := contents[(c.Idx/16*10+k)%len(contents)]
		b := contents[r.Intn(len(contents))]
		var doc string
		switch (c.Idx/16 + k) % 5 {
		case 0:
			doc = `{"S":"` + a + `","T":"` + b + `"}`
		case 1:
			doc = `{"L":["` + a + `","` + b + `","z"],"T":"t"}`
		case 2:
			doc = `{"M":{"` + a + `":"` + b + `","k":"v"},"S":"s"}`
		case 3:
			doc = `{"S":"` + a + `","zz":["` + b + `"],"T":"` + a + `"}`
		default:
			doc = `{"S":"` + strings.Repeat("p", 490+r.Intn(30)) + a + `","T":"` + b + `","L":["` + a + `"]}`
		}
		d := []byte(doc)
		valid := oracle.Recognise(d, 0)
		var tree *oracle.Node
		if valid {
			tree, _ = oracle.Parse(d)
		}
		if !c.Cur(k, "shapes=core\ntype: "+t.String()+"\ndoc: "+doc) {
			continue
		}
		sub := k * 1000
		for cut := 1; cut < len(d); cut++ {
			if len(d) > 300 && !(cut >= 480 && cut <= 540) && cut%41 != 0 {
				continue
			}
			compareStreamBuffer(c, sub, d, tree, valid, t, &chunkReader{data: d, cuts: []int{cut}, failAt: -1}, "single-cut", cut)
			sub++
		}
		for size := 1; size <= 4; size++ {
			compareStreamBuffer(c, sub, d, tree, valid, t, &chunkReader{data: d, cuts: fixedCuts(len(d), size), failAt: -1}, fmt.Sprintf("fixed=%d", size), -1)
			sub++
		}
		compareStreamBuffer(c, sub, d, tree, valid, t, &chunkReader{data: d, failAt: -1}, "whole-reads", -1)
		c.NonTrivial("string-sweep", doc)
		c.Obs("string_sweep_documents", 1)
	}
}

func wsPick(r *rand.Rand) string { return []string{"", "", " ", "\n", "  "}[r.Intn(5)] }

func minInt(a, b int) int {
	if a < b {
		return a
	}
	return b
}
