package props

import (
	"bytes"
	"context"
	"encoding/base64"
	stdjson "encoding/json"
	"fmt"
	"io"
	"math"
	"math/rand"
	"reflect"
	"runtime"
	"sort"
	"strings"
	"sync"
	"sync/atomic"
	"testing/iotest"
	"time"

	gojson "github.com/goccy/go-json"

	"verif/harness/gen"
	"verif/harness/rt"
	"verif/harness/zoo"
	"verif/harness/zoo14"
)

// C10 — all package functions are safe under concurrent use.
//
// Monitors:
//   concurrent-result  every call made while G goroutines hammer the package (same and different
//                      types, first use of a type included) returns what it returns alone
//   race-detector      (race build) no data race with a go-json frame — reports are parsed from the
//                      GORACE log by the driver and de-duplicated by the innermost go-json functions
//   (crash / hang: driver)
// Cold caches: every trial uses generated types that this process has never touched, a FieldQuery
// and a compiled Path created for the trial. verifYield hooks inject seeded Gosched/sleeps between
// the library's critical sections.

type QT struct {
	A int
	B string
	C *QT
	D []int
	E map[string]int
}

type c10Op struct {
	name string
	run  func() (got string, want string)
	// alone, if set, recomputes the call sequentially after the concurrent phase: the relation is
	// "what the call returns alone", which for lenient utilities is go-json's own answer
	alone func() string
}

// c10AllKinds has one member per decoder implementation: compiled decoders are shared by every
// goroutine, so whatever a decoder object keeps between calls is shared memory.
type c10AllKinds struct {
	S   string
	B   []byte
	N   gojson.Number
	I   int64
	U   uint16
	F   float64
	Bo  bool
	T   zoo.UT
	TP  *zoo.UT
	TS  zoo.UTS
	TSl zoo.UTSl
	UJ  zoo.UP
	UJP *zoo.UP
	M   map[string]string
	MT  map[zoo.UTS]zoo.UTStr
	MI  map[int]string
	If  interface{}
	Sl  []string
	Ar  [2]string
	P   *string
	Q   int64  `json:",string"`
	QS  string `json:",string"`
	Raw gojson.RawMessage
	E   struct{ X, Y string }
	IfU gojson.Unmarshaler
}

type c10CtxKey struct{}

// c10CtxSeen reports the value its context carries under c10CtxKey ("none" without one).
type c10CtxSeen struct{ seen string }

func (u *c10CtxSeen) UnmarshalJSON(ctx context.Context, b []byte) error {
	u.seen = "none"
	if ctx != nil {
		if v := ctx.Value(c10CtxKey{}); v != nil {
			u.seen = fmt.Sprint(v)
		}
	}
	return nil
}

func c10AllKindsDoc(id int) []byte {
	w := fmt.Sprintf("g%07d", id)
	ws := strings.Repeat(w, 5)
	return []byte(fmt.Sprintf(`{"S":"s-%[1]s","B":"%[3]s","N":%[2]d.5,"I":-%[2]d,"U":%[4]d,"F":%[2]d.25,"Bo":%[5]v,"T":"t-%[1]s","TP":"tp-%[1]s","TS":"ts-%[1]s","TSl":"tsl-%[1]s",`+
		`"UJ":{"uj":"%[1]s"},"UJP":["ujp","%[1]s"],"M":{"k-%[6]s":"v-%[1]s","a":"b"},"MT":{"mk-%[6]s":"mv-%[1]s"},"MI":{"%[2]d":"mi-%[6]s"},"If":{"if":["%[1]s",%[2]d]},`+
		`"Sl":["a-%[6]s","b-%[1]s"],"Ar":["x-%[6]s","y-%[6]s"],"P":"p-%[1]s","Q":"%[2]d","QS":"\"qs-%[6]s\"","Raw":{"raw":"%[1]s"},"E":{"X":"ex-%[1]s","Y":"ey-%[6]s"},"IfU":{"ifu":"%[1]s"}}`,
		ws, id, base64.StdEncoding.EncodeToString([]byte(ws)), id%65536, id%2 == 0, w))
}

var c10Next int64
var c10RT int64 // next unused zoo14 type of this process

func c10Trial(c *rt.Ctx, sub int, r *rand.Rand, G, procs, opsPer int, yieldMode int) {
	old := runtime.GOMAXPROCS(procs)
	defer runtime.GOMAXPROCS(old)
	// fresh material
	var fresh []zoo14.Entry
	for len(fresh) < 6 {
		i := int(atomic.AddInt64(&c10Next, 1)) - 1
		if i >= len(zoo14.All) {
			c.Obs("trials_without_cold_types", 1)
			break
		}
		fresh = append(fresh, zoo14.All[i])
	}
	query, _ := gojson.BuildFieldQuery("A", "B", gojson.BuildSubFieldQuery("C").Fields("A", gojson.BuildSubFieldQuery("C").Fields("B")))
	qctx := gojson.SetFieldQueryToContext(context.Background(), query)
	pathStr := []string{"$.a.b", "$.k[1]", "$.a", "$.k[*]"}[r.Intn(4)]
	path, perr := gojson.CreatePath(pathStr)
	docs := [][]byte{[]byte(`{"a":{"b":[1,{"c":2}]},"k":[1,"two",{"three":3}],"z":null}`), []byte(` {"k":[null,[4,5]],"a":{"b":"s"}}`), []byte(`{"a":1}`), []byte(`{"a":{"b":1e2},"k":[{"x":1},{"y":2}]}`), []byte(`[1,2`)}
	// the sequential truth for path extraction comes from a path nobody shares
	pathWant := make([]string, len(docs))
	if perr == nil {
		for i, d := range docs {
			ref, _ := gojson.CreatePath(pathStr)
			out, err := ref.Extract(d)
			pathWant[i] = fmt.Sprint(out, err != nil)
		}
	}
	recVals := []any{chainRecB(3), chainRecE(2), &zoo.RecSlice{Name: "r", Kids: []zoo.RecSlice{{Name: "k", I: 1.5}}, I: []any{"x"}}, map[string]any{"m": []any{1.0, "s", nil}}, zoo.Tags{Plain: 1, Renamed: 2, Str: 3}, []zoo.MV{{N: 1}, {N: 2}}}
	utilDocs := [][]byte{gen.Doc(r, 3), gen.Doc(r, 2), []byte(`{"a" : [1, 2 , {"b":null}] }`), []byte(`[1,]`), []byte(`{"x":"<&>"}`)}

	// struct types nobody has seen before, with an interface member: every goroutine compiles them
	// at the same moment, all but one lose the publication, and the nested program of the interface
	// value runs while the losers' outer programs are referenced by nothing the collector sees
	var freshRT []reflect.Type
	var freshTag []string
	for i := 0; i < 6; i++ {
		tag := fmt.Sprintf("rt%d_%d", atomic.AddInt64(&c10Next, 0), atomic.AddInt64(&c10RT, 1))
		freshTag = append(freshTag, tag)
		freshRT = append(freshRT, reflect.StructOf([]reflect.StructField{
			{Name: "F", Type: reflect.TypeOf(0), Tag: reflect.StructTag(`json:"` + tag + `"`)},
			{Name: "I", Type: reflect.TypeOf((*any)(nil)).Elem()},
			{Name: "R", Type: reflect.TypeOf((*QT)(nil))},
			{Name: "Z", Type: reflect.TypeOf("")},
		}))
	}
	mkOps := func(g int, rr *rand.Rand) []c10Op {
		var ops []c10Op
		for k := 0; k < opsPer; k++ {
			id := g*100000 + k
			switch rr.Intn(30) {
			case 28, 29:
				// sorted and unordered maps through each of the four interpreters: the pooled map
				// contexts (key/value items, buffers) are shared by all of them
				ops = append(ops, c10Op{name: "encode:maps-interpreters", run: func() (string, string) {
					m := map[string]any{}
					for i := 0; i < 3+id%5; i++ {
						m[fmt.Sprintf("k%d_%d", id, i)] = map[string]int{fmt.Sprintf("n%d", id): i, "z": id}
					}
					var b []byte
					var err error
					switch id % 6 {
					case 0:
						b, err = gojson.Marshal(m)
					case 1:
						b, err = gojson.MarshalIndent(m, "", " ")
					case 2:
						b, err = gojson.MarshalWithOption(m, gojson.Colorize(&gojson.ColorScheme{}))
					case 3:
						b, err = gojson.MarshalIndentWithOption(m, "", " ", gojson.Colorize(&gojson.ColorScheme{}))
					case 4:
						b, err = gojson.MarshalIndentWithOption(m, "", " ", gojson.Colorize(&gojson.ColorScheme{}), gojson.UnorderedMap())
					default:
						b, err = gojson.MarshalWithOption(m, gojson.UnorderedMap())
					}
					want, _ := stdjson.Marshal(m)
					var cb bytes.Buffer
					if err == nil && stdjson.Compact(&cb, b) == nil {
						b = cb.Bytes()
					}
					if id%6 >= 4 && err == nil {
						// unordered: compare as values
						var gv, sv any
						if stdjson.Unmarshal(b, &gv) == nil && stdjson.Unmarshal(want, &sv) == nil && reflect.DeepEqual(gv, sv) {
							b = want
						}
					}
					return string(b) + errS(err), string(want)
				}})
			case 26, 27:
				// what one Decoder is told through DecodeWithOption / DecodeContext stays with that call:
				// a first-win decode, a plain decode of the same duplicate-key document and a context
				// decode whose unmarshaler reports the value found in the context it is handed
				ops = append(ops, c10Op{name: "decode:decoder-options", run: func() (string, string) {
					doc := fmt.Sprintf(`{"a":%d,"a":%d}`, id, id+1)
					var first, last struct {
						A int `json:"a"`
					}
					e1 := gojson.NewDecoder(strings.NewReader(doc)).DecodeWithOption(&first, gojson.DecodeFieldPriorityFirstWin())
					e2 := gojson.NewDecoder(strings.NewReader(doc)).Decode(&last)
					var cu, pu c10CtxSeen
					ctx := context.WithValue(context.Background(), c10CtxKey{}, id)
					e3 := gojson.NewDecoder(strings.NewReader(`{"x":1}`)).DecodeContext(ctx, &cu)
					e4 := gojson.NewDecoder(strings.NewReader(`{"x":2}`)).Decode(&pu)
					return fmt.Sprintf("%d %d %s %s%s%s%s%s", first.A, last.A, cu.seen, pu.seen, errS(e1), errS(e2), errS(e3), errS(e4)), fmt.Sprintf("%d %d %d none", id, id+1, id)
				}})
			case 24, 25:
				// a document only this call has, into one member per decoder kind, through a
				// rotating entry point; the answer is encoding/json's for the same document
				ops = append(ops, c10Op{name: "decode:all-kinds", run: func() (string, string) {
					doc := c10AllKindsDoc(id)
					var gv, sv c10AllKinds
					gv.IfU, sv.IfU = &zoo.UP{}, &zoo.UP{}
					var err error
					switch id % 5 {
					case 0:
						err = gojson.Unmarshal(doc, &gv)
					case 1:
						err = gojson.NewDecoder(bytes.NewReader(doc)).Decode(&gv)
					case 2:
						err = gojson.NewDecoder(iotest.OneByteReader(bytes.NewReader(doc))).Decode(&gv)
					case 3:
						err = gojson.UnmarshalNoEscape(doc, &gv)
					default:
						err = gojson.UnmarshalContext(context.Background(), doc, &gv)
					}
					serr := stdjson.Unmarshal(doc, &sv)
					g, _ := stdjson.Marshal(gv)
					w, _ := stdjson.Marshal(sv)
					return string(g) + errS(err), string(w) + errS(serr)
				}})
			case 22:
				// a failing encode through a rotating entry point: the error paths release the
				// pooled context too
				fv := []any{math.NaN(), map[string]any{"c": make(chan int)}, zoo.MErr{N: 1}, []any{id, zoo.MErr{N: 3}}}[id%4]
				ops = append(ops, c10Op{name: "encode:failing", run: func() (string, string) {
					var err error
					switch id % 7 {
					case 0:
						_, err = gojson.Marshal(fv)
					case 1:
						_, err = gojson.MarshalIndent(fv, "", " ")
					case 2:
						_, err = gojson.MarshalNoEscape(fv)
					case 3:
						_, err = gojson.MarshalContext(context.Background(), fv)
					case 4:
						_, err = gojson.MarshalWithOption(fv, gojson.UnorderedMap())
					case 5:
						err = gojson.NewEncoder(io.Discard).Encode(fv)
					default:
						err = gojson.NewEncoder(io.Discard).EncodeContext(context.Background(), fv)
					}
					return fmt.Sprint(err != nil), "true"
				}})
			case 23:
				ops = append(ops, c10Op{name: "decode:failing", run: func() (string, string) {
					bad := [][]byte{[]byte(`{"a":{"b":1}} x`), []byte(`[1,2`), []byte(`{"A":"s"}`), []byte(`{"a":1}{`)}[id%4]
					if id%6 < 3 && id%5 == 0 {
						// a slice member whose elements lack a separator: the array decoder's own error exit
						bad = [][]byte{[]byte(`{"A":1,"D":[1,2,3 4]}`), []byte(`{"D":[1 2]}`), []byte(`{"D":[1,2,3,4,5;6]}`)}[id%3]
					}
					if id%6 == 3 || id%6 == 4 {
						// the path entry points fail on malformed input only
						bad = [][]byte{[]byte(`{"a":{"b":1}} x`), []byte(`[1,2`), []byte(`{"a":{"b":[1]},"k":[1,2]}]`)}[id%3]
					}
					var err error
					switch id % 6 {
					case 0:
						var v QT
						err = gojson.Unmarshal(bad, &v)
					case 1:
						var v QT
						err = gojson.UnmarshalContext(context.Background(), bad, &v)
					case 2:
						var v QT
						err = gojson.UnmarshalNoEscape(bad, &v)
					case 3:
						if perr == nil {
							_, err = path.Extract(bad)
						} else {
							err = perr
						}
					case 4:
						var v any
						if perr == nil {
							err = path.Unmarshal(bad, &v)
						} else {
							err = perr
						}
					default:
						var v QT
						d := gojson.NewDecoder(bytes.NewReader(bad))
						err = d.Decode(&v)
						if err == nil {
							err = d.Decode(&v)
						}
					}
					return fmt.Sprint(err != nil), "true"
				}})
			case 19, 20:
				ti := rr.Intn(len(freshRT))
				ops = append(ops, c10Op{name: "Marshal:fresh-struct-with-interface", run: func() (string, string) {
					v := reflect.New(freshRT[ti]).Elem()
					v.Field(0).SetInt(int64(id))
					v.Field(1).Set(reflect.ValueOf(map[string]any{"k": []any{id, map[string]any{"d": []any{id, "x"}}}}))
					v.Field(2).Set(reflect.ValueOf(&QT{A: id, C: &QT{A: 1, B: "in"}}))
					v.Field(3).SetString("z")
					// every entry point pins the running program on its own (three copies of the
					// routine in encode.go): rotate through them
					var b []byte
					var err error
					x := v.Addr().Interface()
					switch id % 6 {
					case 0:
						b, err = gojson.Marshal(x)
					case 1:
						b, err = gojson.MarshalIndent(x, "", " ")
					case 2:
						b, err = gojson.MarshalNoEscape(x)
					case 3:
						b, err = gojson.MarshalContext(context.Background(), x)
					case 4:
						var w bytes.Buffer
						enc := gojson.NewEncoder(&w)
						enc.SetIndent("", "\t")
						err = enc.Encode(x)
						b = bytes.TrimSuffix(w.Bytes(), []byte("\n"))
					default:
						b, err = gojson.MarshalIndentWithOption(x, "", "  ", gojson.UnorderedMap())
					}
					if err == nil && (id%6 == 1 || id%6 >= 4) {
						var cb bytes.Buffer
						if cerr := stdjson.Compact(&cb, b); cerr != nil {
							return "indented output is not JSON: " + cerr.Error() + ": " + string(b), "valid JSON"
						}
						b = cb.Bytes()
					}
					return string(b) + errS(err), fmt.Sprintf(`{"%s":%d,"I":{"k":[%d,{"d":[%d,"x"]}]},"R":{"A":%d,"B":"","C":{"A":1,"B":"in","C":null,"D":null,"E":null},"D":null,"E":null},"Z":"z"}`, freshTag[ti], id, id, id, id)
				}})
			case 21:
				ops = append(ops, c10Op{name: "runtime.GC", run: func() (string, string) { runtime.GC(); return "", "" }})
			case 17, 18:
				// a query nobody has used before (the unknown name makes its hash unique) on the shared
				// type: every goroutine adds to that type's query cache at the same time
				mask := 1 + rr.Intn(15)
				var names []gojson.FieldQueryString
				var want []string
				for bi, nm := range []string{"A", "B", "D", "E"} {
					if mask&(1<<uint(bi)) != 0 {
						names = append(names, gojson.FieldQueryString(nm))
						want = append(want, []string{fmt.Sprintf(`"A":%d`, id), `"B":"cq"`, `"D":[1]`, `"E":{"e":1}`}[bi])
					}
				}
				names = append(names, gojson.FieldQueryString(fmt.Sprintf("zz%d", id)))
				ops = append(ops, c10Op{name: "MarshalContext:cold-query", run: func() (string, string) {
					q, err := gojson.BuildFieldQuery(names...)
					if err != nil {
						return "build: " + err.Error(), "ok"
					}
					b, err := gojson.MarshalContext(gojson.SetFieldQueryToContext(context.Background(), q), QT{A: id, B: "cq", D: []int{1}, E: map[string]int{"e": 1}})
					return string(b) + errS(err), "{" + strings.Join(want, ",") + "}"
				}})
			case 13:
				// stream decodes of slices (pooled scratch arrays), a stream that ends right behind an
				// element first; the payload carries the operation's id
				ops = append(ops, c10Op{name: "Decoder:slices", run: func() (string, string) {
					var bad []int
					e0 := gojson.NewDecoder(strings.NewReader(fmt.Sprintf("[%d,%d,%d", id, id+1, id+2))).Decode(&bad)
					var a []int
					e1 := gojson.NewDecoder(strings.NewReader(fmt.Sprintf("[%d,%d,%d,%d,%d]", id, id+1, id+2, id+3, id+4))).Decode(&a)
					var ss []string
					e2 := gojson.NewDecoder(strings.NewReader(fmt.Sprintf(`["s%d","t%d","u%d"]`, id, id, id))).Decode(&ss)
					var qs []QT
					e3 := gojson.NewDecoder(strings.NewReader(fmt.Sprintf(`[{"A":%d,"B":"x"},{"A":%d,"D":[%d]}]`, id, id+1, id))).Decode(&qs)
					got := fmt.Sprint(e0 != nil, a, errS(e1), ss, errS(e2))
					if len(qs) == 2 {
						got += fmt.Sprint(qs[0].A, qs[0].B, qs[1].A, qs[1].D, errS(e3))
					}
					return got, fmt.Sprint(true, []int{id, id + 1, id + 2, id + 3, id + 4}, "", []string{fmt.Sprint("s", id), fmt.Sprint("t", id), fmt.Sprint("u", id)}, "") + fmt.Sprint(id, "x", id+1, []int{id}, "")
				}})
			case 14:
				ops = append(ops, c10Op{name: "Unmarshal:slices", run: func() (string, string) {
					var bad []int
					e0 := gojson.Unmarshal([]byte(fmt.Sprintf("[%d,%d", id, id+1)), &bad)
					a := make([]int, 1, 8)
					e1 := gojson.Unmarshal([]byte(fmt.Sprintf("[%d,%d,%d]", id, id+1, id+2)), &a)
					var m map[string][]int
					e2 := gojson.Unmarshal([]byte(fmt.Sprintf(`{"k":[%d,%d],"l":[%d]}`, id, id, id+9)), &m)
					return fmt.Sprint(e0 != nil, a, errS(e1), m["k"], m["l"], errS(e2)), fmt.Sprint(true, []int{id, id + 1, id + 2}, "", []int{id, id}, []int{id + 9}, "")
				}})
			case 15:
				// large texts through the utilities: long scans are where a goroutine is preempted
				if rr.Intn(8) != 0 {
					continue
				}
				ops = append(ops, c10Op{name: "Compact+Indent:large", run: func() (string, string) {
					var sb strings.Builder
					sb.WriteString(`{ "id" : ` + fmt.Sprint(id) + ` , "rows" : [`)
					for i := 0; i < 6000; i++ {
						if i > 0 {
							sb.WriteString(" ,\n")
						}
						fmt.Fprintf(&sb, `{ "i" : %d , "o" : %d , "s" : "row %d of %d" }`, i, id, i, id)
					}
					sb.WriteString(" ] }")
					src := []byte(sb.String())
					var ga, sa bytes.Buffer
					ga.WriteString("keep:")
					sa.WriteString("keep:")
					e1 := gojson.Compact(&ga, src)
					e2 := stdjson.Compact(&sa, src)
					if e1 != nil || e2 != nil || !bytes.Equal(ga.Bytes(), sa.Bytes()) {
						return fmt.Sprintf("compact differs (err %v %v, %d vs %d bytes, first difference at %d)", e1, e2, ga.Len(), sa.Len(), firstDiff(ga.Bytes(), sa.Bytes())), "equal"
					}
					var gi, si bytes.Buffer
					e1 = gojson.Indent(&gi, ga.Bytes()[5:], "", " ")
					e2 = stdjson.Indent(&si, sa.Bytes()[5:], "", " ")
					if e1 != nil || e2 != nil || !bytes.Equal(gi.Bytes(), si.Bytes()) {
						return fmt.Sprintf("indent differs (err %v %v, first difference at %d)", e1, e2, firstDiff(gi.Bytes(), si.Bytes())), "equal"
					}
					return "equal", "equal"
				}})
			case 16:
				if rr.Intn(8) != 0 {
					continue
				}
				ops = append(ops, c10Op{name: "Marshal:large", run: func() (string, string) {
					rows := make([]QT, 3000)
					for i := range rows {
						rows[i] = QT{A: id, B: fmt.Sprint("row", i), D: []int{i, id}}
					}
					b, err := gojson.Marshal(rows)
					w, _ := stdjson.Marshal(rows)
					if err != nil || !bytes.Equal(b, w) {
						return fmt.Sprintf("differs (err %v, first difference at %d)", err, firstDiff(b, w)), "equal"
					}
					return "equal", "equal"
				}})
			case 0, 1, 2:
				if len(fresh) == 0 {
					continue
				}
				e := fresh[rr.Intn(len(fresh))]
				ops = append(ops, c10Op{name: fmt.Sprintf("Marshal:T%06d", e.ID), run: func() (string, string) {
					b, err := gojson.Marshal(e.Val(id))
					return string(b) + errS(err), c14Expected(e, id)
				}})
			case 3, 4:
				if len(fresh) == 0 {
					continue
				}
				e := fresh[rr.Intn(len(fresh))]
				ops = append(ops, c10Op{name: fmt.Sprintf("Unmarshal:T%06d", e.ID), run: func() (string, string) {
					p := e.New()
					err := gojson.Unmarshal([]byte(fmt.Sprintf(`{"t%d":%d}`, e.ID, id)), p)
					return fmt.Sprint(e.Get(p)) + errS(err), fmt.Sprint(id)
				}})
			case 5:
				if len(fresh) == 0 {
					continue
				}
				e := fresh[rr.Intn(len(fresh))]
				ops = append(ops, c10Op{name: "Encoder+Decoder", run: func() (string, string) {
					var buf bytes.Buffer
					err := gojson.NewEncoder(&buf).Encode(e.Val(id))
					p := e.New()
					err2 := gojson.NewDecoder(bytes.NewReader(buf.Bytes())).Decode(p)
					return buf.String() + errS(err) + errS(err2) + fmt.Sprint(e.Get(p)), c14Expected(e, id) + "\n" + fmt.Sprint(id)
				}})
			case 6:
				v := recVals[rr.Intn(len(recVals))]
				ops = append(ops, c10Op{name: "Marshal:zoo", run: func() (string, string) {
					b, err := gojson.Marshal(v)
					s, _ := stdjson.Marshal(v)
					return string(b) + errS(err), string(s)
				}})
			case 7:
				v := recVals[rr.Intn(len(recVals))]
				ops = append(ops, c10Op{name: "MarshalIndent:zoo", run: func() (string, string) {
					b, err := gojson.MarshalIndent(v, "", " ")
					s, _ := stdjson.MarshalIndent(v, "", " ")
					return string(b) + errS(err), string(s)
				}})
			case 8:
				d := utilDocs[rr.Intn(len(utilDocs))]
				util := func() string {
					var a, b2 bytes.Buffer
					e1 := gojson.Compact(&a, d)
					e2 := gojson.Indent(&b2, d, "", " ")
					return fmt.Sprint(gojson.Valid(d), e1 != nil, e2 != nil, a.String(), b2.String())
				}
				ops = append(ops, c10Op{name: "Valid+Compact+Indent", run: func() (string, string) { return util(), "ALONE" }, alone: util})
			case 9, 10:
				q := QT{A: id, B: "b", C: &QT{A: 1, B: "x", C: &QT{A: 2, B: "deep"}}, D: []int{1}, E: map[string]int{"e": 1}}
				ops = append(ops, c10Op{name: "MarshalContext:shared-FieldQuery", run: func() (string, string) {
					b, err := gojson.MarshalContext(qctx, q)
					// "alone" = the same call with a query object nobody shares, made after the
					// concurrent phase (see aloneQuery); C19 judges whether that projection is right
					return string(b) + errS(err), "ALONE:" + fmt.Sprint(id)
				}})
			case 11:
				if perr != nil {
					continue
				}
				di := rr.Intn(len(docs))
				ops = append(ops, c10Op{name: "Path.Extract:shared-Path", run: func() (string, string) {
					out, err := path.Extract(docs[di])
					return fmt.Sprint(out, err != nil), pathWant[di]
				}})
			default:
				q := QT{A: id, B: "n"}
				ops = append(ops, c10Op{name: "Marshal:QT-unfiltered", run: func() (string, string) {
					b, err := gojson.Marshal(q)
					return string(b) + errS(err), fmt.Sprintf(`{"A":%d,"B":"n","C":null,"D":null,"E":null}`, id)
				}})
			}
		}
		return ops
	}

	// seeded yields at the library's hook points
	var yieldEvents int64
	var seenMu sync.Mutex
	seenPoints := map[string]int{}
	var order []string
	ys := uint64(r.Int63())
	gojson.VerifSetYield(func(point string) {
		n := atomic.AddInt64(&yieldEvents, 1)
		seenMu.Lock()
		seenPoints[point]++
		if len(order) < 48 {
			order = append(order, point)
		}
		seenMu.Unlock()
		h := rt.Mix(ys, uint64(n))
		switch yieldMode {
		case 1:
			if h%2 == 0 {
				runtime.Gosched()
			}
		case 2:
			if h%4 == 0 {
				time.Sleep(time.Duration(h%200) * time.Microsecond)
			} else {
				runtime.Gosched()
			}
		}
	})
	defer gojson.VerifSetYield(nil)

	type rec struct {
		name       string
		got, want  string
		start, end int64
		panicked   string
		alone      func() string
	}
	results := make([][]rec, G)
	var wg sync.WaitGroup
	start := make(chan struct{})
	t0 := time.Now()
	for g := 0; g < G; g++ {
		ops := mkOps(g, rand.New(rand.NewSource(int64(rt.Mix(ys, uint64(g))))))
		wg.Add(1)
		go func(g int, ops []c10Op) {
			defer wg.Done()
			<-start
			for _, o := range ops {
				rc := rec{name: o.name, start: int64(time.Since(t0)), alone: o.alone}
				pan, msg, frame := rt.Guard(func() { rc.got, rc.want = o.run() })
				if pan {
					rc.panicked = msg + " @ " + frame
				}
				rc.end = int64(time.Since(t0))
				results[g] = append(results[g], rc)
			}
		}(g, ops)
	}
	close(start)
	wg.Wait()
	// offline checks over the recorded history
	total, overlaps := 0, 0
	type iv struct{ s, e int64 }
	var ivs []iv
	for g := range results {
		for _, rc := range results[g] {
			total++
			ivs = append(ivs, iv{rc.start, rc.end})
			switch {
			case rc.panicked != "":
				c.Violate(rt.Violation{Monitor: "concurrent-result", Entry: opClass(rc.name), Kind: "panic-under-concurrency", Ctx: strings.SplitN(rc.panicked, " @ ", 2)[1],
					Detail: fmt.Sprintf("G=%d procs=%d: %s panicked: %s", G, procs, rc.name, rc.panicked), Sub: sub})
			case strings.HasPrefix(rc.want, "ALONE:") && rc.got == aloneQuery(rc.want):
			case rc.want == "ALONE" && rc.alone != nil && rc.got == rc.alone():
			case rc.got != rc.want:
				c.Violate(rt.Violation{Monitor: "concurrent-result", Entry: opClass(rc.name), Kind: "result-differs-under-concurrency", Ctx: opClass(rc.name),
					Detail: fmt.Sprintf("G=%d procs=%d yield=%d: %s returned %q, alone it returns %q", G, procs, yieldMode, rc.name, rc.got, rc.want), Sub: sub})
			}
		}
	}
	sort.Slice(ivs, func(a, b int) bool { return ivs[a].s < ivs[b].s })
	maxEnd := int64(-1)
	for _, x := range ivs {
		if x.s < maxEnd {
			overlaps++
		}
		if x.e > maxEnd {
			maxEnd = x.e
		}
	}
	c.Eval(int64(total))
	c.Obs("operations", int64(total))
	c.Obs("operations_overlapping_an_earlier_one", int64(overlaps))
	c.Obs("yield_hook_events", atomic.LoadInt64(&yieldEvents))
	for p, n := range seenPoints {
		c.Obs("yield:"+p, int64(n))
	}
	c.SetAdd("interleaving_fingerprints", fmt.Sprintf("%016x", rt.HashStr(strings.Join(order, ","))))
	if overlaps > 0 {
		c.Obs("trials_with_overlap", 1)
		c.NonTrivial(fmt.Sprint(c.Idx, sub, G, procs, yieldMode))
	} else {
		c.Obs("trials_without_overlap_not_counted", 1)
	}
}

// aloneQuery recomputes a shared-FieldQuery call sequentially with a private query object.
func aloneQuery(tag string) string {
	var id int
	fmt.Sscanf(tag, "ALONE:%d", &id)
	query, _ := gojson.BuildFieldQuery("A", "B", gojson.BuildSubFieldQuery("C").Fields("A", gojson.BuildSubFieldQuery("C").Fields("B")))
	q := QT{A: id, B: "b", C: &QT{A: 1, B: "x", C: &QT{A: 2, B: "deep"}}, D: []int{1}, E: map[string]int{"e": 1}}
	b, err := gojson.MarshalContext(gojson.SetFieldQueryToContext(context.Background(), query), q)
	return string(b) + errS(err)
}

func errS(err error) string {
	if err == nil {
		return ""
	}
	return " ERR:" + err.Error()
}

func opClass(name string) string {
	if i := strings.Index(name, ":T0"); i > 0 {
		return name[:i] + ":generated-type"
	}
	return name
}

func init() {
	register(&Prop{
		ID: "C10",
		NumBatches: func(tier string, seed int64) int {
			if tier == "thorough" {
				return 64
			}
			return 16
		},
		Run: func(c *rt.Ctx) {
			r := c.RNG(0)
			Gs := []int{2, 4, 8, 16, 64}
			procs := []int{1, 2, 4, 16}
			trials := 10
			for k := 0; k < trials; k++ {
				G := Gs[(c.Idx+k)%len(Gs)]
				p := procs[(c.Idx/2+k)%len(procs)]
				if !c.Cur(k, fmt.Sprintf("shapes=core\ntrial G=%d GOMAXPROCS=%d", G, p)) {
					continue
				}
				ops := 40
				if G >= 16 {
					ops = 12
				}
				c10Trial(c, k, r, G, p, ops, k%3)
				if k == 0 {
					c.Sample(map[string]any{"goroutines": G, "gomaxprocs": p, "ops_per_goroutine": ops, "cold_types_per_trial": 6, "shared": []string{"FieldQuery in context", "compiled Path"}})
				}
			}
		},
	})
}

func firstDiff(a, b []byte) int {
	for i := 0; i < len(a) && i < len(b); i++ {
		if a[i] != b[i] {
			return i
		}
	}
	return minInt(len(a), len(b))
}
