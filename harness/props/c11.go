package props

import (
	"bytes"
	"context"
	stdjson "encoding/json"
	"errors"
	"fmt"
	"io"
	"math"
	"math/rand"
	"os"
	"os/exec"
	"reflect"
	"strings"

	gojson "github.com/goccy/go-json"

	"verif/harness/gen"
	"verif/harness/oracle"
	"verif/harness/rt"
	"verif/harness/zoo"
)

// C11 — results depend only on the arguments, never on earlier calls.
//
// Monitor "history": a generated history of 150..400 calls over the whole public API (failing
// calls interleaved, reusable handles reused after errors) is executed in one process; every
// call's observable result — returned bytes/values, error class, and everything written to writers
// it was given — is compared with the result of the same call issued first in a fresh process (the
// cold oracle: the worker re-executes itself once per distinct call descriptor). Sinks handed to
// earlier calls are re-checked at the end of the history.

type c11Panicker struct{ N int }

func (p c11Panicker) MarshalJSON() ([]byte, error) {
	if p.N%2 == 1 {
		panic("c11: marshaler panic")
	}
	return []byte(`"ok"`), nil
}

type c11Err struct{ N int }

func (e c11Err) MarshalJSON() ([]byte, error) {
	if e.N%2 == 1 {
		return nil, errors.New("c11: marshaler error")
	}
	return []byte(`{"n":true}`), nil
}

type c11Holder struct {
	A string
	P c11Panicker
	E c11Err
	M map[string]int
	Z []int
}

type c11Sink struct {
	buf    bytes.Buffer
	closed int
}

func (s *c11Sink) Write(p []byte) (int, error) { return s.buf.Write(p) }
func (s *c11Sink) Close() error                { s.closed++; return nil }

// c11Call is one call descriptor. run executes it against the given handles and returns the
// observable result.
type c11Call struct {
	name  string
	fails bool
	run   func(h *c11Handles) string
}

// handles reused along a history (a cold run gets fresh ones)
type c11Handles struct {
	paths   map[string]*gojson.Path
	queries map[string]context.Context
	enc     *gojson.Encoder
	encBuf  *bytes.Buffer
	sinks   []*c11Sink // sinks handed to calls, with the length they had when the call returned
	sinkLen []int
	sinkWho []string
}

func newHandles() *c11Handles {
	h := &c11Handles{paths: map[string]*gojson.Path{}, queries: map[string]context.Context{}, encBuf: &bytes.Buffer{}}
	h.enc = gojson.NewEncoder(h.encBuf)
	return h
}

func (h *c11Handles) path(p string) *gojson.Path {
	if x, ok := h.paths[p]; ok {
		return x
	}
	x, err := gojson.CreatePath(p)
	if err != nil {
		return nil
	}
	h.paths[p] = x
	return x
}

func (h *c11Handles) query(key string) context.Context {
	if c, ok := h.queries[key]; ok {
		return c
	}
	sub := gojson.BuildSubFieldQuery
	var q *gojson.FieldQuery
	switch key {
	case "AB":
		q, _ = gojson.BuildFieldQuery("A", "B")
	case "A-C":
		q, _ = gojson.BuildFieldQuery("A", sub("C").Fields("B"))
	case "C-A":
		q, _ = gojson.BuildFieldQuery(sub("C").Fields("A", "D"))
	case "C-C":
		q, _ = gojson.BuildFieldQuery("B", sub("C").Fields("A", sub("C").Fields("B")))
	case "C":
		q, _ = gojson.BuildFieldQuery("C")
	case "N:B-X":
		q, _ = gojson.BuildFieldQuery("A", sub("B").Fields("X"))
	case "N:B-YZ":
		q, _ = gojson.BuildFieldQuery(sub("B").Fields("Y", "Z"))
	case "N:P-Z":
		q, _ = gojson.BuildFieldQuery(sub("P").Fields("Z"), sub("B").Fields("Z"))
	case "N:all":
		q, _ = gojson.BuildFieldQuery("A", sub("B").Fields("X", "Y", "Z"), sub("P").Fields("X", "Y", "Z"), sub("L").Fields("Y"))
	case "N:L-X":
		q, _ = gojson.BuildFieldQuery(sub("L").Fields("X"), sub("P").Fields("X"))
	default:
		q, _ = gojson.BuildFieldQuery("D", "E", "nope")
	}
	c := gojson.SetFieldQueryToContext(context.Background(), q)
	h.queries[key] = c
	return c
}

func errClassStr(err error) string {
	if err == nil {
		return "<nil>"
	}
	switch err.(type) {
	case *gojson.SyntaxError:
		return "SyntaxError"
	case *gojson.UnmarshalTypeError:
		return "UnmarshalTypeError"
	case *gojson.UnsupportedValueError:
		return "UnsupportedValueError"
	case *gojson.MarshalerError:
		return "MarshalerError"
	}
	return "error:" + msgClass(err.Error())
}

func guardS(f func() string) (out string) {
	defer func() {
		if r := recover(); r != nil {
			out = "PANIC:" + fmt.Sprint(r)
		}
	}()
	return f()
}

func canonJSON(b []byte) string {
	n, err := oracle.Parse(bytes.TrimSpace(b))
	if err != nil {
		return string(b)
	}
	canon(n)
	return serial(n)
}

// c11Nested encodes its payload with the library from inside its own MarshalJSON.
type c11Nested struct {
	A  int
	In any
}

func (n c11Nested) MarshalJSON() ([]byte, error) {
	in, err := gojson.Marshal(n.In)
	if err != nil {
		return nil, err
	}
	return gojson.Marshal(map[string]any{"a": n.A, "in": stdjson.RawMessage(in)})
}

// c11NestedU decodes its own bytes with the library: two pooled decoder contexts are in use at
// once, the outer one in the middle of its document.
type c11NestedU struct {
	Got  map[string]any
	Path []string
}

func (n *c11NestedU) UnmarshalJSON(b []byte) error {
	n.Got = nil
	if err := gojson.Unmarshal(b, &n.Got); err != nil {
		var any2 any
		if err2 := gojson.Unmarshal(b, &any2); err2 != nil {
			return err2
		}
		n.Got = map[string]any{"v": any2}
	}
	if p, err := gojson.CreatePath("$.k"); err == nil {
		parts, _ := p.Extract(b)
		for _, x := range parts {
			n.Path = append(n.Path, string(x))
		}
	}
	return nil
}

// c11CtxU is a context-aware unmarshaler that records what it finds in the context it is handed.
type c11CtxKey struct{}

type c11CtxU struct {
	Seen string
	Err  string
	Raw  string
}

func (u *c11CtxU) UnmarshalJSON(ctx context.Context, b []byte) error {
	u.Raw = string(b)
	if ctx == nil {
		u.Seen = "<nil context>"
		return nil
	}
	u.Seen = fmt.Sprint(ctx.Value(c11CtxKey{}))
	if err := ctx.Err(); err != nil {
		u.Err = err.Error()
	}
	return nil
}

// c11Unm has the plain (context-free) UnmarshalJSON.
type c11Unm struct{ got string }

func (u *c11Unm) UnmarshalJSON(b []byte) error { u.got = string(b); return nil }

type c11Dup struct {
	A int
	B string
	U c11Unm
}

type QNInner struct{ X, Y, Z int }

type QN struct {
	A int
	B QNInner
	P *QNInner
	L []QNInner
}

// r2pick: which of the QN calls go through a pointer (fixed per query key)
func r2pick(qk string) bool { return len(qk)%2 == 1 }

// c11Pool builds the deterministic pool of call descriptors of batch idx.
func c11Pool(seed int64, idx int) []c11Call {
	r := rand.New(rand.NewSource(int64(rt.Mix(uint64(seed), uint64(idx), 0xC11))))
	var pool []c11Call
	add := func(name string, fails bool, f func(h *c11Handles) string) {
		pool = append(pool, c11Call{name, fails, func(h *c11Handles) string { return guardS(func() string { return f(h) }) }})
	}
	scheme, _ := markerScheme()
	// values: generated core types and a few hand-made ones, small and large
	type val struct {
		x    any
		desc string
	}
	var vals []val
	for i := 0; i < 14; i++ {
		t, _ := gen.Type(r, 3, gen.TypeOpts{})
		v := gen.Value(r, t, 3, gen.ValOpts{ValidKeys: true})
		vals = append(vals, val{v.Interface(), t.String()})
	}
	big := strings.Repeat("0123456789abcdef<&>é", 200+r.Intn(6000))
	vals = append(vals, val{big, "big-string"}, val{[]string{big[:len(big)/3], "x"}, "big-slice"}, val{map[string]any{"k": big[:100], "n": []any{1.0, nil}}, "map"},
		val{chainRecB(2 + r.Intn(30)), "rec-chain"}, val{zoo.Tags{Plain: r.Intn(9), Renamed: 2}, "tags"}, val{QT{A: 1, B: "b", C: &QT{A: 2, B: "inner"}, D: []int{1}, E: map[string]int{"z": 1, "a": 2}}, "QT"})
	// byte slices whose base64 text does and does not fit what is left of a pooled buffer
	// (1024 bytes on a cold context, more after a large result)
	bs := func(n int) []byte {
		b := make([]byte, n)
		for i := range b {
			b[i] = byte(i*7 + n)
		}
		return b
	}
	vals = append(vals, val{bs(700 + r.Intn(200)), "bytes-around-1Ki"}, val{bs(3000), "bytes-3000"}, val{struct {
		A string
		B []byte
		C []byte
	}{"pad", bs(500), bs(900)}, "bytes-members"}, val{[][]byte{bs(10), bs(760), bs(770)}, "bytes-elements"}, val{map[string][]byte{"k": bs(2000)}, "bytes-map-value"})
	failing := []val{{c11Holder{A: "x", P: c11Panicker{1}}, "panicking-marshaler"}, {c11Holder{A: big[:50], E: c11Err{3}, M: map[string]int{"a": 1}}, "erroring-marshaler"},
		{math.NaN(), "nan"}, {map[string]any{"f": math.Inf(1)}, "inf-in-map"}, {[]any{1, c11Err{1}}, "error-in-slice"}, {func() {}, "func"}, {make(chan int), "chan"}}
	for _, v := range vals {
		v := v
		add("Marshal:"+v.desc, false, func(h *c11Handles) string { b, err := gojson.Marshal(v.x); return string(b) + "|" + errClassStr(err) })
		switch r.Intn(7) {
		case 0:
			add("MarshalIndent:"+v.desc, false, func(h *c11Handles) string {
				b, err := gojson.MarshalIndent(v.x, ">", "\t")
				return string(b) + "|" + errClassStr(err)
			})
		case 1:
			add("UnorderedMap:"+v.desc, false, func(h *c11Handles) string {
				b, err := gojson.MarshalWithOption(v.x, gojson.UnorderedMap())
				return canonJSON(b) + "|" + errClassStr(err)
			})
		case 2:
			add("Colorize:"+v.desc, false, func(h *c11Handles) string {
				b, err := gojson.MarshalWithOption(v.x, gojson.Colorize(scheme))
				return string(b) + "|" + errClassStr(err)
			})
		case 3:
			add("Debug+DebugWith:"+v.desc, false, func(h *c11Handles) string {
				s := &c11Sink{}
				b, err := gojson.MarshalWithOption(v.x, gojson.Debug(), gojson.DebugWith(s))
				h.sinks, h.sinkLen, h.sinkWho = append(h.sinks, s), append(h.sinkLen, s.buf.Len()), append(h.sinkWho, "Debug+DebugWith")
				return string(b) + "|" + errClassStr(err) + "|sink-nonempty=" + fmt.Sprint(s.buf.Len() > 0)
			})
		case 4:
			add("DebugDOT-without-Debug:"+v.desc, false, func(h *c11Handles) string {
				s := &c11Sink{}
				b, err := gojson.MarshalWithOption(v.x, gojson.DebugDOT(s))
				h.sinks, h.sinkLen, h.sinkWho = append(h.sinks, s), append(h.sinkLen, s.buf.Len()), append(h.sinkWho, "DebugDOT-without-Debug")
				return string(b) + "|" + errClassStr(err) + fmt.Sprintf("|sink=%d closed=%d", s.buf.Len(), s.closed)
			})
		case 5:
			add("MarshalNoEscape:"+v.desc, false, func(h *c11Handles) string {
				b, err := gojson.MarshalNoEscape(v.x)
				return string(b) + "|" + errClassStr(err)
			})
		default:
			add("Encoder(reused):"+v.desc, false, func(h *c11Handles) string {
				h.encBuf.Reset()
				err := h.enc.Encode(v.x)
				return h.encBuf.String() + "|" + errClassStr(err)
			})
		}
	}
	// every remaining encoding entry point, on a few values (they all draw their context from the
	// same pool as the calls above, options included)
	for i, v := range vals {
		if i%4 != 0 {
			continue
		}
		v := v
		add("Encoder(reused).EncodeContext:"+v.desc, false, func(h *c11Handles) string {
			h.encBuf.Reset()
			err := h.enc.EncodeContext(context.Background(), v.x)
			return h.encBuf.String() + "|" + errClassStr(err)
		})
		add("Encoder(reused).EncodeWithOption(Colorize):"+v.desc, false, func(h *c11Handles) string {
			h.encBuf.Reset()
			err := h.enc.EncodeWithOption(v.x, gojson.Colorize(scheme))
			return h.encBuf.String() + "|" + errClassStr(err)
		})
		add("MarshalIndentWithOption(Colorize):"+v.desc, false, func(h *c11Handles) string {
			b, err := gojson.MarshalIndentWithOption(v.x, "", " ", gojson.Colorize(scheme))
			return string(b) + "|" + errClassStr(err)
		})
		add("MarshalContext(no query):"+v.desc, false, func(h *c11Handles) string {
			b, err := gojson.MarshalContext(context.Background(), v.x)
			return string(b) + "|" + errClassStr(err)
		})
		add("Encoder(fresh,SetIndent,SetEscapeHTML(false)):"+v.desc, false, func(h *c11Handles) string {
			var buf bytes.Buffer
			e := gojson.NewEncoder(&buf)
			e.SetIndent(">", " ")
			e.SetEscapeHTML(false)
			err := e.Encode(v.x)
			return buf.String() + "|" + errClassStr(err)
		})
	}
	// a marshaler that encodes with the library itself: two pooled contexts are in use at once
	nested := []any{c11Nested{A: 1, In: map[string]any{"k": []any{1.0, "x"}}}, []c11Nested{{A: 2}, {A: 3, In: "s"}}, map[string]c11Nested{"m": {A: 4, In: []any{nil}}}}
	for i, x := range nested {
		x := x
		add(fmt.Sprintf("Marshal(nested-marshaler):%d", i), false, func(h *c11Handles) string { b, err := gojson.Marshal(x); return string(b) + "|" + errClassStr(err) })
		add(fmt.Sprintf("MarshalIndent(nested-marshaler):%d", i), false, func(h *c11Handles) string {
			b, err := gojson.MarshalIndent(x, "", " ")
			return string(b) + "|" + errClassStr(err)
		})
	}
	for _, v := range failing {
		v := v
		add("MarshalContext(failing):"+v.desc, true, func(h *c11Handles) string {
			b, err := gojson.MarshalContext(context.Background(), v.x)
			return string(b) + "|" + errClassStr(err)
		})
		add("MarshalWithOption(failing):"+v.desc, true, func(h *c11Handles) string {
			b, err := gojson.MarshalWithOption(v.x, gojson.UnorderedMap())
			return canonJSON(b) + "|" + errClassStr(err)
		})
		add("MarshalNoEscape(failing):"+v.desc, true, func(h *c11Handles) string {
			b, err := gojson.MarshalNoEscape(v.x)
			return string(b) + "|" + errClassStr(err)
		})
		add("Encoder(reused).EncodeContext(failing):"+v.desc, true, func(h *c11Handles) string {
			h.encBuf.Reset()
			err := h.enc.EncodeContext(context.Background(), v.x)
			return h.encBuf.String() + "|" + errClassStr(err)
		})
		add("Marshal(failing):"+v.desc, true, func(h *c11Handles) string { b, err := gojson.Marshal(v.x); return string(b) + "|" + errClassStr(err) })
		add("MarshalIndent(failing):"+v.desc, true, func(h *c11Handles) string {
			b, err := gojson.MarshalIndent(v.x, "", " ")
			return string(b) + "|" + errClassStr(err)
		})
		add("Encoder(reused,failing):"+v.desc, true, func(h *c11Handles) string {
			h.encBuf.Reset()
			err := h.enc.Encode(v.x)
			return h.encBuf.String() + "|" + errClassStr(err)
		})
	}
	// field queries, shared along the history
	qt := QT{A: 7, B: "b", C: &QT{A: 8, B: "c"}, D: []int{1, 2}, E: map[string]int{"k": 1}}
	for _, qk := range []string{"AB", "A-C", "DE", "none", "C-A", "C-C", "C"} {
		qk := qk
		add("MarshalContext:query="+qk, false, func(h *c11Handles) string {
			ctx := context.Background()
			if qk != "none" {
				ctx = h.query(qk)
			}
			b, err := gojson.MarshalContext(ctx, qt)
			return string(b) + "|" + errClassStr(err)
		})
	}
	// several different sub-field queries over one non-recursive type: the compiled program of the
	// type is shared by all of them
	qn := QN{A: 1, B: QNInner{X: 2, Y: 3, Z: 4}, P: &QNInner{X: 5, Y: 6, Z: 7}, L: []QNInner{{X: 8, Y: 9, Z: 10}}}
	for _, qk := range []string{"N:B-X", "N:B-YZ", "N:P-Z", "N:all", "N:L-X", "none"} {
		qk := qk
		add("MarshalContext(QN):query="+qk, false, func(h *c11Handles) string {
			ctx := context.Background()
			if qk != "none" {
				ctx = h.query(qk)
			}
			b, err := gojson.MarshalContext(ctx, qn)
			if r2 := r2pick(qk); r2 {
				b, err = gojson.MarshalContext(ctx, &qn)
			}
			return string(b) + "|" + errClassStr(err)
		})
	}
	// decoding: valid, syntax errors, type errors, into typed destinations and interface{}
	for i := 0; i < 12; i++ {
		t, _ := gen.Type(r, 3, gen.TypeOpts{})
		v := gen.Value(r, t, 3, gen.ValOpts{RoundTrip: true})
		base, err := stdjson.Marshal(v.Interface())
		if err != nil {
			continue
		}
		docs := map[string][]byte{"valid": base, "mutated": gen.MutateDoc(r, base, gen.DocMutations[r.Intn(len(gen.DocMutations))])}
		if len(base) > 3 {
			docs["truncated"] = base[:1+r.Intn(len(base)-1)]
		}
		docs["wrong-kind"] = []byte(`"str"`)
		if t.Kind() == reflect.String {
			docs["wrong-kind"] = []byte(`[1]`)
		}
		for _, dn := range []string{"valid", "mutated", "truncated", "wrong-kind"} {
			d, ok := docs[dn]
			if !ok {
				continue
			}
			d, dn, t := d, dn, t
			add("Unmarshal:"+dn+":"+t.String(), dn != "valid", func(h *c11Handles) string {
				dst := reflect.New(t)
				err := gojson.Unmarshal(d, dst.Interface())
				out, _ := stdjson.Marshal(dst.Elem().Interface())
				if err != nil {
					out = nil // the destination after an error is not part of the result
				}
				return string(out) + "|" + errClassStr(err)
			})
			if r.Intn(3) == 0 {
				add("Decoder(FirstWin):"+dn+":"+t.String(), dn != "valid", func(h *c11Handles) string {
					dst := reflect.New(t)
					err := gojson.NewDecoder(&cutReader{append([]byte{}, d...), 7}).DecodeWithOption(dst.Interface(), gojson.DecodeFieldPriorityFirstWin())
					out, _ := stdjson.Marshal(dst.Elem().Interface())
					if err != nil {
						out = nil
					}
					return string(out) + "|" + errClassStr(err)
				})
			}
		}
	}
	// every remaining decoding entry point, on documents whose result depends on the options in
	// force: duplicate members (first-win vs last-win), a member with a plain UnmarshalJSON (the
	// context option must not leak in), unknown members
	dupDocs := []string{`{"A":1,"B":"x","A":2,"B":"y","U":[1],"zz":null}`, `{"B":"only","U":{"k":"v"}}`, `{"A":1,"A":"wrong-kind"}`, `{"A":3,"U":tru}`}
	for di, d := range dupDocs {
		d, fails := []byte(d), di >= 2
		decEntries := []struct {
			name string
			f    func(dst any) error
		}{
			{"Unmarshal", func(dst any) error { return gojson.Unmarshal(d, dst) }},
			{"UnmarshalNoEscape", func(dst any) error { return gojson.UnmarshalNoEscape(d, dst) }},
			{"UnmarshalContext", func(dst any) error { return gojson.UnmarshalContext(context.Background(), d, dst) }},
			{"UnmarshalWithOption(FirstWin)", func(dst any) error { return gojson.UnmarshalWithOption(d, dst, gojson.DecodeFieldPriorityFirstWin()) }},
			{"Decoder.Decode", func(dst any) error { return gojson.NewDecoder(bytes.NewReader(d)).Decode(dst) }},
			{"Decoder.DecodeContext", func(dst any) error {
				return gojson.NewDecoder(bytes.NewReader(d)).DecodeContext(context.Background(), dst)
			}},
			{"Decoder.DecodeWithOption(FirstWin)", func(dst any) error {
				return gojson.NewDecoder(bytes.NewReader(d)).DecodeWithOption(dst, gojson.DecodeFieldPriorityFirstWin())
			}},
			{"Decoder(UseNumber,DisallowUnknownFields)", func(dst any) error {
				dec := gojson.NewDecoder(bytes.NewReader(d))
				dec.UseNumber()
				dec.DisallowUnknownFields()
				return dec.Decode(dst)
			}},
		}
		for _, e := range decEntries {
			e := e
			add(fmt.Sprintf("%s:dup-doc%d", e.name, di), fails, func(h *c11Handles) string {
				var dst c11Dup
				err := e.f(&dst)
				out := fmt.Sprintf("%d|%s|%s", dst.A, dst.B, dst.U.got)
				if err != nil {
					out = ""
				}
				return out + "|" + errClassStr(err)
			})
			add(fmt.Sprintf("%s:dup-doc%d:iface", e.name, di), fails, func(h *c11Handles) string {
				var dst any
				err := e.f(&dst)
				out, _ := stdjson.Marshal(dst)
				if err != nil {
					out = nil
				}
				return string(out) + "|" + errClassStr(err)
			})
		}
	}
	utilDocs := [][]byte{gen.Doc(r, 3), gen.Doc(r, 3), []byte(`{"a":[1,2,{"b":"<x>"}]} `), []byte(`[1,2`), []byte(`{"a":}`), []byte(big[:200]), []byte(`"` + big[:3000] + `"`)}
	for i, d := range utilDocs {
		d := d
		add(fmt.Sprintf("Valid+Compact+Indent+HTMLEscape:%d", i), i >= 3 && i <= 5, func(h *c11Handles) string {
			var a, b, c bytes.Buffer
			e1 := gojson.Compact(&a, d)
			e2 := gojson.Indent(&b, d, "", " ")
			gojson.HTMLEscape(&c, d)
			return fmt.Sprint(gojson.Valid(d), errClassStr(e1), errClassStr(e2), a.String(), b.String(), c.String())
		})
	}
	// an unmarshaler that decodes with the library itself, with members before and behind it
	type nestedDst struct {
		A string       `json:"a"`
		N c11NestedU   `json:"n"`
		L []c11NestedU `json:"l"`
		Z []int        `json:"z"`
	}
	for i, d := range []string{`{"a":"before","n":{"k":[1,2],"x":"inner"},"z":[7,8,9]}`, `{"n":{"k":"v"},"l":[{"k":1},[2],"three",{"k":{"k":4}}],"a":"behind","z":[1]}`,
		`{"l":[{"k":"a long inner document ` + strings.Repeat("i", 300) + `"}],"a":"` + strings.Repeat("o", 200) + `","z":[1,2,3]}`} {
		d := d
		add(fmt.Sprintf("Unmarshal(nested-unmarshaler):%d", i), false, func(h *c11Handles) string {
			var v nestedDst
			err := gojson.Unmarshal([]byte(d), &v)
			return fmt.Sprintf("%+v|%s", v, errClassStr(err))
		})
		add(fmt.Sprintf("Decoder(nested-unmarshaler):%d", i), false, func(h *c11Handles) string {
			var v nestedDst
			err := gojson.NewDecoder(strings.NewReader(d)).Decode(&v)
			return fmt.Sprintf("%+v|%s", v, errClassStr(err))
		})
	}
	// a context-aware unmarshaler: what it sees must be the context of the call it runs in
	// (Background for the context-free entry points), never the context of an earlier call
	type ctxDst struct {
		A int
		U c11CtxU
		L []c11CtxU
		P *c11CtxU
	}
	ctxDoc := []byte(`{"A":1,"U":{"k":1},"L":[1,"two"],"P":[3]}`)
	for i := 0; i < 3; i++ {
		i := i
		add(fmt.Sprintf("UnmarshalContext(value,cancelled=%v):ctx-unmarshaler", i == 1), false, func(h *c11Handles) string {
			ctx := context.WithValue(context.Background(), c11CtxKey{}, fmt.Sprint("request-", i))
			if i == 1 {
				var cancel context.CancelFunc
				ctx, cancel = context.WithCancel(ctx)
				cancel()
			}
			var v ctxDst
			err := gojson.UnmarshalContext(ctx, ctxDoc, &v)
			return fmt.Sprintf("A=%d U=%+v L=%+v P=%+v|%s", v.A, v.U, v.L, v.P, errClassStr(err))
		})
		add(fmt.Sprintf("Decoder.DecodeContext(value):ctx-unmarshaler:%d", i), false, func(h *c11Handles) string {
			ctx := context.WithValue(context.Background(), c11CtxKey{}, fmt.Sprint("stream-", i))
			var v ctxDst
			err := gojson.NewDecoder(bytes.NewReader(ctxDoc)).DecodeContext(ctx, &v)
			return fmt.Sprintf("A=%d U=%+v L=%+v P=%+v|%s", v.A, v.U, v.L, v.P, errClassStr(err))
		})
	}
	for _, e := range []string{"Unmarshal", "UnmarshalNoEscape", "UnmarshalWithOption", "Decoder.Decode", "Path.Unmarshal"} {
		e := e
		add(e+":ctx-unmarshaler", false, func(h *c11Handles) string {
			var v ctxDst
			var err error
			switch e {
			case "Unmarshal":
				err = gojson.Unmarshal(ctxDoc, &v)
			case "UnmarshalNoEscape":
				err = gojson.UnmarshalNoEscape(ctxDoc, &v)
			case "UnmarshalWithOption":
				err = gojson.UnmarshalWithOption(ctxDoc, &v, gojson.DecodeFieldPriorityFirstWin())
			case "Decoder.Decode":
				err = gojson.NewDecoder(bytes.NewReader(ctxDoc)).Decode(&v)
			default:
				if p := h.path("$"); p != nil {
					err = p.Unmarshal(ctxDoc, &v)
				}
			}
			return fmt.Sprintf("A=%d U=%+v L=%+v P=%+v|%s", v.A, v.U, v.L, v.P, errClassStr(err))
		})
	}
	// compiled paths reused along the history, failing documents included
	pdocs := [][]byte{[]byte(`{"a":{"b":[1,{"c":2}]},"k":[1,"two"]}`), []byte(`{"a":1}`), []byte(`[1,2`), []byte(`{"a":{"b":"s"},"k":[]}`), []byte(`{"k":[[1],[2]],"a":{"b":null}}`), []byte(`nope`),
		[]byte(`{"a":{"b":[1,{"c":`), []byte(`{"k":[1,`), []byte(`{"a":{"x":1,"b":tru}}`), []byte(`{"z":0,"k":[{"q":1},{"q":`),
		// complete values followed by a stray byte: the error is found after the evaluation
		[]byte(`{"a":{"b":1},"k":[1]} x`), []byte(`{"a":{"b":[1]},"k":[2]}]`), []byte(`{"a":1}{"a":2}`), []byte(`[1,2] ,`)}
	for _, ps := range []string{"$.a.b", "$.k[0]", "$.k[*]", "$.a", "$..b"} {
		for di, d := range pdocs {
			ps, d := ps, d
			add(fmt.Sprintf("Path(reused).Extract:%s:doc%d", ps, di), di == 2 || di >= 5, func(h *c11Handles) string {
				p := h.path(ps)
				if p == nil {
					return "no-path"
				}
				out, err := p.Extract(d)
				return fmt.Sprint(out) + "|" + errClassStr(err)
			})
			if di%2 == 0 {
				add(fmt.Sprintf("Path(reused).Unmarshal:%s:doc%d", ps, di), di == 2, func(h *c11Handles) string {
					p := h.path(ps)
					if p == nil {
						return "no-path"
					}
					var v any
					err := p.Unmarshal(d, &v)
					return fmt.Sprint(v) + "|" + errClassStr(err)
				})
			}
		}
	}
	return pool
}

var _ = io.EOF

// c11MapLenHistories: the pooled map context (key/value item slice, recorded length) is reused by
// the next map of any type, sorted or not. Every triple of lengths, each step sorted or unordered
// and through a rotating interpreter; the expected text is written out from the map itself.
func c11MapLenHistories(c *rt.Ctx, sub0 int) {
	lens := []int{0, 1, 2, 3, 4, 7, 9}
	mk := func(n, salt int) (any, string) {
		if salt%2 == 0 {
			m := map[string]int{}
			var parts []string
			for i := 0; i < n; i++ {
				m[fmt.Sprintf("k%02d_%d", i, salt)] = i*10 + salt
				parts = append(parts, fmt.Sprintf(`"k%02d_%d":%d`, i, salt, i*10+salt))
			}
			return m, "{" + strings.Join(parts, ",") + "}"
		}
		m := map[int]map[string]string{}
		var parts []string
		for i := 0; i < n; i++ {
			m[10+i] = map[string]string{"a": fmt.Sprintf("v%d%d", i, salt), "b": "w"}
			parts = append(parts, fmt.Sprintf(`"%d":{"a":"v%d%d","b":"w"}`, 10+i, i, salt))
		}
		return m, "{" + strings.Join(parts, ",") + "}"
	}
	scheme := &gojson.ColorScheme{}
	encs := []struct {
		name string
		f    func(x any, unordered bool) ([]byte, error)
	}{
		{"Marshal", func(x any, u bool) ([]byte, error) {
			if u {
				return gojson.MarshalWithOption(x, gojson.UnorderedMap())
			}
			return gojson.Marshal(x)
		}},
		{"MarshalIndent", func(x any, u bool) ([]byte, error) {
			var b []byte
			var err error
			if u {
				b, err = gojson.MarshalIndentWithOption(x, "", " ", gojson.UnorderedMap())
			} else {
				b, err = gojson.MarshalIndent(x, "", " ")
			}
			var cb bytes.Buffer
			if err == nil {
				if e := stdjson.Compact(&cb, b); e != nil {
					return b, nil
				}
			}
			return cb.Bytes(), err
		}},
		{"Colorize", func(x any, u bool) ([]byte, error) {
			if u {
				return gojson.MarshalWithOption(x, gojson.Colorize(scheme), gojson.UnorderedMap())
			}
			return gojson.MarshalWithOption(x, gojson.Colorize(scheme))
		}},
	}
	sub := sub0
	histories := 0
	for _, a := range lens {
		for _, b := range lens {
			for _, cc := range lens {
				for mode := 0; mode < 8; mode++ {
					sub++
					if (a+b+cc+mode)%2 == 1 && a != b && b != cc {
						continue // half of the all-different triples; every triple with a repeated length stays
					}
					if !c.Cur(sub, fmt.Sprintf("shapes=core\nmap lengths %d,%d,%d mode %d", a, b, cc, mode)) {
						continue
					}
					histories++
					for step, n := range []int{a, b, cc} {
						unordered := mode>>uint(step)&1 == 1
						x, want := mk(n, (sub+step)%4)
						e := encs[(sub/8+step)%len(encs)]
						var out []byte
						var err error
						pan, msg, _ := rt.Guard(func() { out, err = e.f(x, unordered) })
						c.Eval(1)
						got, wantC := string(out), want
						if unordered && !pan && err == nil {
							got, wantC = canonJSON(out), canonJSON([]byte(want))
						}
						if pan || err != nil || got != wantC {
							c.Violate(rt.Violation{Monitor: "history", Entry: "map-length-history", Kind: "differs-from-written-out-expectation", Ctx: fmt.Sprintf("step%d:unordered=%v", step, unordered),
								Detail: fmt.Sprintf("maps of %d, %d, %d members (unordered bits %03b): step %d through %s gave %s err=%v panic=%v %s; want %s", a, b, cc, mode, step, e.name, rt.Q(out), err, pan, msg, want), Sub: sub})
							break
						}
					}
				}
			}
		}
	}
	c.Obs("map_length_histories", int64(histories))
	c.NonTrivial("map-length-histories")
}

func init() {
	register(&Prop{
		ID: "C11",
		NumBatches: func(tier string, seed int64) int {
			if tier == "thorough" {
				return 192
			}
			return 32
		},
		// cold oracle: execute descriptor k of batch idx alone, print its result
		Cold: func(c *rt.Ctx, spec string) string {
			var idx, k int
			fmt.Sscanf(spec, "%d.%d", &idx, &k)
			pool := c11Pool(c.Seed, idx)
			if k >= len(pool) {
				return "NO-SUCH-CALL"
			}
			return pool[k].run(newHandles())
		},
		Run: func(c *rt.Ctx) {
			if c.Idx%32 == 5 {
				c11MapLenHistories(c, 100000)
			}
			pool := c11Pool(c.Seed, c.Idx)
			r := c.RNG(1)
			n := 150 + r.Intn(250)
			if !c.Cur(0, fmt.Sprintf("shapes=core\nhistory of %d calls over a pool of %d", n, len(pool))) {
				return
			}
			h := newHandles()
			type entry struct {
				k   int
				res string
			}
			var hist []entry
			used := map[int]bool{}
			for i := 0; i < n; i++ {
				k := r.Intn(len(pool))
				// failing calls are interleaved at every position: every third call is drawn from them
				if i%3 == 1 {
					for try := 0; try < 8 && !pool[k].fails; try++ {
						k = r.Intn(len(pool))
					}
				}
				res := pool[k].run(h)
				c.Eval(1)
				hist = append(hist, entry{k, res})
				used[k] = true
			}
			// sinks handed to earlier calls must not have been written after their call returned
			for i, s := range h.sinks {
				if s.buf.Len() != h.sinkLen[i] {
					c.Violate(rt.Violation{Monitor: "history", Entry: h.sinkWho[i], Kind: "sink-written-by-later-call", Ctx: h.sinkWho[i],
						Detail: fmt.Sprintf("a writer given to call %q held %d bytes when the call returned and %d at the end of the history (closed %d times)", h.sinkWho[i], h.sinkLen[i], s.buf.Len(), s.closed)})
				}
			}
			// cold oracle, one fresh process per distinct descriptor
			cold := map[int]string{}
			for k := range used {
				out, err := exec.Command(os.Args[0], "-prop", "C11", "-tier", c.Tier, "-seed", fmt.Sprint(c.Seed), "-cold", fmt.Sprintf("%d.%d", c.Idx, k)).Output()
				if err != nil {
					cold[k] = "COLD-PROCESS-FAILED:" + err.Error()
					c.Obs("cold_process_failures", 1)
					continue
				}
				cold[k] = string(out)
				c.Obs("cold_processes", 1)
			}
			firstUse := map[int]bool{}
			for i, e := range hist {
				want, ok := cold[e.k]
				if !ok || strings.HasPrefix(want, "COLD-PROCESS-FAILED") {
					continue
				}
				if e.res != want {
					prev := "first call of the history"
					if i > 0 {
						prev = pool[hist[i-1].k].name
					}
					c.Violate(rt.Violation{Monitor: "history", Entry: callClass(pool[e.k].name), Kind: "differs-from-cold-call", Ctx: callClass(pool[e.k].name) + ":first-use=" + fmt.Sprint(!firstUse[e.k]),
						Detail: fmt.Sprintf("call #%d %s (after %s) returned %s; alone in a fresh process it returns %s", i, pool[e.k].name, prev, rt.Q([]byte(e.res)), rt.Q([]byte(want))), Sub: i})
				}
				firstUse[e.k] = true
			}
			c.Obs("history_calls", int64(len(hist)))
			c.Obs("distinct_descriptors_used", int64(len(used)))
			c.NonTrivial(fmt.Sprint(c.Seed, c.Idx, n))
			for k := range used {
				c.NonTrivial("call", pool[k].name)
			}
			c.Sample(map[string]any{"history_length": n, "pool": len(pool), "first_calls": []string{pool[hist[0].k].name, pool[hist[1].k].name, pool[hist[2].k].name}})
		},
	})
}

func callClass(name string) string {
	if i := strings.IndexByte(name, ':'); i > 0 {
		return name[:i]
	}
	return name
}
