package props

import (
	"bytes"
	"context"
	"encoding"
	"encoding/base64"
	stdjson "encoding/json"
	"fmt"
	"math/rand"
	"reflect"
	"strings"
	"unsafe"

	gojson "github.com/goccy/go-json"

	"verif/harness/gen"
	"verif/harness/rt"
)

// C12 — no aliasing between caller data and library buffers.
//
// Monitors:
//   input-intact     Unmarshal/Decode leave the caller's input bytes unchanged
//   pointer-range    no string / []byte / RawMessage / json.Number header in the decoded value, and no
//                    slice handed to UnmarshalJSON/UnmarshalText, points into the caller's input array
//   scribble         after the input is overwritten and a burst of further calls of varying sizes has
//                    recycled the pools, the decoded value still equals its snapshot
//   output-owned     a slice returned by Marshal* is not changed by later library calls, and filling
//                    it (contents and spare capacity) does not change later results
//   stream-stable    values decoded earlier from a Decoder are not altered by later Decode calls

// retaining unmarshalers: they keep the very slice they were given
type c12RetainJSON struct{ got []byte }

func (r *c12RetainJSON) UnmarshalJSON(b []byte) error { r.got = b; return nil }

type c12RetainText struct{ got []byte }

func (r *c12RetainText) UnmarshalText(b []byte) error { r.got = b; return nil }

type c12Target struct {
	S   string
	B   []byte
	R   gojson.RawMessage
	N   gojson.Number
	I   any
	M   map[string]string
	Sl  []string
	P   *string
	UJ  c12RetainJSON
	UT  c12RetainText
	UJs []*c12RetainJSON
	MT  map[string]*c12RetainText
	SR  stdjson.RawMessage
	Arr [2]string
	In  struct {
		S string
		R []gojson.RawMessage
	}
	// slices of slices: the outer decoder keeps scratch element slots between calls
	LL [][]int
	LS [][]string
	LM []map[string][]int
	// ,string members: the decoder runs a second decoder over the string's content
	QS string        `json:"qs,string"`
	QN gojson.Number `json:"qn,string"`
	QI int64         `json:"qi,string"`
	QP *string       `json:"qp,string"`
	// interface-typed members holding retaining unmarshalers (set before decoding): the decoder
	// finds the unmarshaler at run time, on a path of its own
	IJ  gojson.Unmarshaler
	IT  encoding.TextUnmarshaler
	IA  any
	IJs [2]gojson.Unmarshaler
}

func newC12Target() *c12Target {
	return &c12Target{IJ: &c12RetainJSON{}, IT: &c12RetainText{}, IA: &c12RetainJSON{}, IJs: [2]gojson.Unmarshaler{&c12RetainJSON{}, &c12RetainJSON{}}}
}

func inRange(p, base uintptr, capacity int) bool {
	return p != 0 && p >= base && p < base+uintptr(capacity)
}

// aliasWalk returns a description of the first data pointer that points into [base, base+cap).
func aliasWalk(v reflect.Value, base uintptr, capacity int, path string, depth int) string {
	if depth > 30 || !v.IsValid() {
		return ""
	}
	switch v.Kind() {
	case reflect.String:
		s := v.String()
		if len(s) > 0 && inRange(uintptr(unsafe.Pointer(unsafe.StringData(s))), base, capacity) {
			return path + ":" + classOfType(v.Type())
		}
	case reflect.Slice:
		if v.Len() > 0 || v.Cap() > 0 {
			if v.Type().Elem().Kind() == reflect.Uint8 {
				if inRange(v.Pointer(), base, capacity) {
					return path + ":" + classOfType(v.Type())
				}
				return ""
			}
		}
		for i := 0; i < v.Len(); i++ {
			if a := aliasWalk(v.Index(i), base, capacity, path+"[]", depth+1); a != "" {
				return a
			}
		}
	case reflect.Array:
		for i := 0; i < v.Len(); i++ {
			if a := aliasWalk(v.Index(i), base, capacity, path+"[]", depth+1); a != "" {
				return a
			}
		}
	case reflect.Struct:
		for i := 0; i < v.NumField(); i++ {
			f := v.Field(i)
			if !f.CanInterface() {
				// unexported (the retained slices): read through unsafe
				if f.CanAddr() {
					f = reflect.NewAt(f.Type(), unsafe.Pointer(f.UnsafeAddr())).Elem()
				} else {
					continue
				}
			}
			if a := aliasWalk(f, base, capacity, path+"."+v.Type().Field(i).Name, depth+1); a != "" {
				return a
			}
		}
	case reflect.Ptr, reflect.Interface:
		if !v.IsNil() {
			return aliasWalk(v.Elem(), base, capacity, path, depth+1)
		}
	case reflect.Map:
		it := v.MapRange()
		for it.Next() {
			if a := aliasWalk(it.Key(), base, capacity, path+"{key}", depth+1); a != "" {
				return a
			}
			if a := aliasWalk(it.Value(), base, capacity, path+"{}", depth+1); a != "" {
				return a
			}
		}
	}
	return ""
}

func classOfType(t reflect.Type) string {
	switch {
	case t == reflect.TypeOf(gojson.RawMessage(nil)) || t == reflect.TypeOf(stdjson.RawMessage(nil)):
		return "raw"
	case t == reflect.TypeOf(gojson.Number("")):
		return "number"
	case t.Kind() == reflect.String:
		return "string"
	}
	return "bytes"
}

// deepRender renders a value including the slices retained by the recording unmarshalers.
func deepRender(v reflect.Value) string {
	var sb strings.Builder
	var w func(v reflect.Value, d int)
	w = func(v reflect.Value, d int) {
		if d > 30 || !v.IsValid() {
			return
		}
		switch v.Kind() {
		case reflect.String:
			fmt.Fprintf(&sb, "%q,", v.String())
		case reflect.Slice:
			if v.Type().Elem().Kind() == reflect.Uint8 {
				fmt.Fprintf(&sb, "%q,", v.Bytes())
				return
			}
			sb.WriteByte('[')
			for i := 0; i < v.Len(); i++ {
				w(v.Index(i), d+1)
			}
			sb.WriteByte(']')
		case reflect.Array:
			for i := 0; i < v.Len(); i++ {
				w(v.Index(i), d+1)
			}
		case reflect.Struct:
			sb.WriteByte('{')
			for i := 0; i < v.NumField(); i++ {
				f := v.Field(i)
				if !f.CanInterface() && f.CanAddr() {
					f = reflect.NewAt(f.Type(), unsafe.Pointer(f.UnsafeAddr())).Elem()
				}
				w(f, d+1)
			}
			sb.WriteByte('}')
		case reflect.Ptr, reflect.Interface:
			if !v.IsNil() {
				w(v.Elem(), d+1)
			} else {
				sb.WriteString("nil,")
			}
		case reflect.Map:
			keys := v.MapKeys()
			ks := make([]string, len(keys))
			idx := map[string]reflect.Value{}
			for i, k := range keys {
				ks[i] = fmt.Sprint(k.Interface())
				idx[ks[i]] = k
			}
			sortStrings(ks)
			for _, k := range ks {
				sb.WriteString(k + ":")
				w(v.MapIndex(idx[k]), d+1)
			}
		default:
			if v.CanInterface() {
				fmt.Fprintf(&sb, "%v,", v.Interface())
			}
		}
	}
	w(v, 0)
	return sb.String()
}

func sortStrings(s []string) {
	for i := 1; i < len(s); i++ {
		for j := i; j > 0 && s[j] < s[j-1]; j-- {
			s[j], s[j-1] = s[j-1], s[j]
		}
	}
}

// burst recycles the pooled buffers with calls of varying sizes
func burst(r *rand.Rand, n int) {
	for i := 0; i < n; i++ {
		size := []int{1, 10, 100, 2000, 40000}[r.Intn(5)]
		s := strings.Repeat("burst<>&é", size/9+1)
		switch r.Intn(5) {
		case 0:
			gojson.Marshal(map[string]any{"k": s, "n": []int{1, 2, 3}})
		case 1:
			var v any
			gojson.Unmarshal([]byte(`{"a":"`+s+`","b":[1,2,{"c":"`+s[:len(s)/2]+`"}]}`), &v)
		case 2:
			var t c12Target
			gojson.Unmarshal([]byte(`{"S":"`+s+`","B":"QUJD","R":{"x":"`+s+`"},"UJ":["`+s+`"],"UT":"t","LL":[[9,9],[10,11,12]],"LS":[["b"],["u","r"]],"LM":[{"k":[0]},{"k":[0,0,0]}]}`), &t)
		case 3:
			gojson.MarshalIndent([]string{s, s}, "", " ")
		default:
			var b bytes.Buffer
			gojson.NewEncoder(&b).Encode(struct{ A, B string }{s, s})
			var x struct{ A string }
			gojson.NewDecoder(&b).Decode(&x)
			var t c12Target
			gojson.NewDecoder(strings.NewReader(`{"qs":` + quote(`"`+s[:len(s)/3]+`"`) + `,"qi":"77","qn":"1.5e3","qp":` + quote(`"`+s[:len(s)/4]+`"`) + `}`)).Decode(&t)
		}
	}
}

func quote(s string) string {
	b, _ := stdjson.Marshal(s)
	return string(b)
}

func c12Doc(r *rand.Rand) []byte {
	str := func() string {
		return string(gen.StrLit(r))
	}
	raw := func() string { return string(bytes.TrimSpace(gen.Doc(r, 2))) }
	parts := []string{
		`"S":` + str(), `"B":"` + []string{"QUJD", "", "aGVsbG8gd29ybGQ=", "/w=="}[r.Intn(4)] + `"`, `"R":` + raw(), `"N":` + string(gen.NumLit(r)), `"I":` + raw(),
		`"M":{` + str() + `:` + str() + `,"k2":` + str() + `}`, `"Sl":[` + str() + `,` + str() + `]`, `"P":` + str(), `"UJ":` + raw(), `"UT":` + str(),
		`"UJs":[` + raw() + `,` + raw() + `]`, `"MT":{"a":` + str() + `,"b":` + str() + `}`, `"SR":` + raw(), `"Arr":[` + str() + `,` + str() + `]`,
		`"In":{"S":` + str() + `,"R":[` + raw() + `,` + raw() + `]}`,
		fmt.Sprintf(`"LL":[[%d,%d,3,4],[5,6,7,8],[]]`, r.Intn(100), r.Intn(100)), `"LS":[[` + str() + `,` + str() + `],[` + str() + `]]`, fmt.Sprintf(`"LM":[{"k":[%d,2,3]},{"k":[4,5],"l":[6]}]`, r.Intn(100)),
		`"qs":` + quote(str()), `"qn":"` + string(gen.NumLit(r)) + `"`, `"qi":"` + fmt.Sprint(r.Int63()-r.Int63()) + `"`, `"qp":` + quote(str()),
		`"IJ":` + raw(), `"IT":` + str(), `"IA":` + raw(), `"IJs":[` + raw() + `,` + raw() + `]`,
	}
	r.Shuffle(len(parts), func(i, j int) { parts[i], parts[j] = parts[j], parts[i] })
	n := 3 + r.Intn(len(parts)-2)
	return []byte("{" + strings.Join(parts[:n], ", ") + "}")
}

func c12DecodeCase(c *rt.Ctx, sub int, r *rand.Rand, entry string) {
	doc := c12Doc(r)
	// the caller's buffer, with spare capacity behind the document
	in := make([]byte, len(doc), len(doc)+64+r.Intn(64))
	copy(in, doc)
	base := uintptr(unsafe.Pointer(&in[:1][0]))
	var dsts []reflect.Value
	mk := func() reflect.Value {
		switch r.Intn(4) {
		case 0:
			var v any
			return reflect.ValueOf(&v)
		case 1:
			var v map[string]gojson.RawMessage
			return reflect.ValueOf(&v)
		}
		return reflect.ValueOf(newC12Target())
	}
	dst := mk()
	dsts = append(dsts, dst)
	var err error
	pan, msg, _ := rt.Guard(func() {
		switch entry {
		case "Unmarshal":
			err = gojson.Unmarshal(in, dst.Interface())
		case "UnmarshalWithOption":
			err = gojson.UnmarshalWithOption(in, dst.Interface(), gojson.DecodeFieldPriorityFirstWin())
		case "Decoder(bytes.Reader)":
			err = gojson.NewDecoder(bytes.NewReader(in)).Decode(dst.Interface())
		case "Decoder(bytes.Buffer)":
			err = gojson.NewDecoder(bytes.NewBuffer(in)).Decode(dst.Interface())
		case "UnmarshalNoEscape":
			err = gojson.UnmarshalNoEscape(in, dst.Interface())
		case "UnmarshalContext":
			err = gojson.UnmarshalContext(context.Background(), in, dst.Interface())
		case "Decoder.DecodeContext":
			err = gojson.NewDecoder(bytes.NewReader(in)).DecodeContext(context.Background(), dst.Interface())
		case "Decoder.DecodeWithOption":
			err = gojson.NewDecoder(bytes.NewReader(in)).DecodeWithOption(dst.Interface(), gojson.DecodeFieldPriorityFirstWin())
		}
	})
	c.Eval(1)
	input := map[string]any{"doc": string(doc), "entry": entry, "dest": dst.Type().String()}
	if pan {
		c.Obs("panics_seen_judged_by_C06", 1)
		_ = msg
		return
	}
	if !bytes.Equal(in, doc) {
		c.Violate(rt.Violation{Monitor: "input-intact", Entry: entry, Kind: "input-modified", Ctx: diffClass(doc, in), Detail: fmt.Sprintf("input %s became %s", rt.Q(doc), rt.Q(in)), Input: input, Sub: sub})
		return
	}
	if err != nil {
		c.Obs("decode_errors", 1)
		return
	}
	if a := aliasWalk(dst.Elem(), base, cap(in), "", 0); a != "" {
		c.Violate(rt.Violation{Monitor: "pointer-range", Entry: entry, Kind: "aliases-input", Ctx: stripIdx(a), Detail: "a decoded header at " + a + " points into the caller's input array | doc " + rt.Q(doc), Input: input, Sub: sub})
		return
	}
	snap := deepRender(dst.Elem())
	for i := range in[:cap(in)] {
		in[:cap(in)][i] = 0xA5
	}
	burst(r, 12)
	if after := deepRender(dst.Elem()); after != snap {
		c.Violate(rt.Violation{Monitor: "scribble", Entry: entry, Kind: "decoded-value-changed", Ctx: "after-input-overwrite+burst", Detail: "decoded value changed from " + rt.Q([]byte(snap)) + " to " + rt.Q([]byte(after)), Input: input, Sub: sub})
		return
	}
	c.Obs("decode_cases_clean", 1)
	c.NonTrivial("dec", entry, string(doc))
}

// Unmarshalers that write through the slice they are given - over its contents, and by appending
// into its spare capacity. They own those bytes: nothing the library reads later may change.
type c12ScribJSON struct{ seen string }

func c12Scribble(b []byte) string {
	seen := string(b)
	for i := range b {
		b[i] = '#'
	}
	// the spare capacity of the very slice that was handed over, however little it is (an append
	// that does not fit would move to a new array and touch nothing)
	own := b[:cap(b)]
	for i := len(b); i < len(own); i++ {
		own[i] = '@'
	}
	b = append(b, "!!!!!!!!!!!!!!!!!!!!!!!!!!!!!!!!!!!!!!!!!!!!!!!!!!!!!!!!!!!!!!!!"...)
	full := b[:cap(b)]
	for i := range full {
		full[i] = '@'
	}
	return seen
}

func (u *c12ScribJSON) UnmarshalJSON(b []byte) error { u.seen = c12Scribble(b); return nil }

type c12ScribCtx struct{ seen string }

func (u *c12ScribCtx) UnmarshalJSON(ctx context.Context, b []byte) error {
	u.seen = c12Scribble(b)
	return nil
}

type c12ScribText struct{ seen string }

func (u *c12ScribText) UnmarshalText(b []byte) error { u.seen = c12Scribble(b); return nil }

type c12ScribDst struct {
	A  string
	J  c12ScribJSON
	B  []int
	C  c12ScribCtx
	D  map[string]string
	T  c12ScribText
	JL []*c12ScribCtx
	// interface-typed members that hold scribbling unmarshalers (found at run time)
	IJ gojson.Unmarshaler
	IT encoding.TextUnmarshaler
	IC c12CtxUnmarshaler
	Z  string
	N  gojson.Number
}

// c12CtxUnmarshaler: the context flavour of the unmarshaler interface, as a member type.
type c12CtxUnmarshaler interface {
	UnmarshalJSON(context.Context, []byte) error
}

// c12ScribblerCase: members decoded before and behind a scribbling unmarshaler, and the next
// documents of the same stream, must come out as written.
func c12ScribblerCase(c *rt.Ctx, sub int, r *rand.Rand, entry string) {
	pad := strings.Repeat("p", r.Intn(700))
	one := func(i int) string {
		return fmt.Sprintf(`{"A":"before%d%s","J":{"k":[%d,"x"]},"B":[%d,2,3],"C":[%d,{"c":"v"}],"D":{"k":"v%d"},"T":"text%d","JL":[{"a":%d},"s",[%d]],"IJ":{"ij":[%d]},"IT":"itext%d","IC":[%d,{"ic":"w"}],"Z":"after%d","N":%d.5}`, i, pad, i, i, i, i, i, i, i, i, i, i, i, i)
	}
	check := func(v *c12ScribDst, i int) string {
		want := c12ScribDst{A: fmt.Sprintf("before%d%s", i, pad), J: c12ScribJSON{fmt.Sprintf(`{"k":[%d,"x"]}`, i)}, B: []int{i, 2, 3}, C: c12ScribCtx{fmt.Sprintf(`[%d,{"c":"v"}]`, i)},
			D: map[string]string{"k": fmt.Sprintf("v%d", i)}, T: c12ScribText{fmt.Sprintf("text%d", i)}, Z: fmt.Sprintf("after%d", i), N: gojson.Number(fmt.Sprintf("%d.5", i)),
			IJ: &c12ScribJSON{fmt.Sprintf(`{"ij":[%d]}`, i)}, IT: &c12ScribText{fmt.Sprintf("itext%d", i)}, IC: &c12ScribCtx{fmt.Sprintf(`[%d,{"ic":"w"}]`, i)}}
		got := *v
		jl := got.JL
		got.JL = nil
		if !reflect.DeepEqual(got, want) {
			return fmt.Sprintf("document %d decoded to %+v", i, got)
		}
		if len(jl) != 3 || jl[0] == nil || jl[0].seen != fmt.Sprintf(`{"a":%d}`, i) || jl[1].seen != `"s"` || jl[2].seen != fmt.Sprintf(`[%d]`, i) {
			return fmt.Sprintf("document %d: JL decoded wrongly (%d elements)", i, len(jl))
		}
		return ""
	}
	n := 1
	stream := strings.HasPrefix(entry, "Decoder")
	if stream {
		n = 3
	}
	var docs []string
	for i := 0; i < n; i++ {
		docs = append(docs, one(i+1))
	}
	in := []byte(strings.Join(docs, "\n"))
	orig := append([]byte{}, in...)
	var dec *gojson.Decoder
	if stream {
		dec = gojson.NewDecoder(bytes.NewReader(in))
	}
	for i := 0; i < n; i++ {
		v := c12ScribDst{IJ: &c12ScribJSON{}, IT: &c12ScribText{}, IC: &c12ScribCtx{}}
		var err error
		pan, msg, _ := rt.Guard(func() {
			switch entry {
			case "Unmarshal":
				err = gojson.Unmarshal(in, &v)
			case "UnmarshalNoEscape":
				err = gojson.UnmarshalNoEscape(in, &v)
			case "UnmarshalContext":
				err = gojson.UnmarshalContext(context.Background(), in, &v)
			case "Decoder.DecodeContext":
				err = dec.DecodeContext(context.Background(), &v)
			default:
				err = dec.Decode(&v)
			}
		})
		c.Eval(1)
		if pan {
			c.Obs("panics_seen_judged_by_C06", 1)
			_ = msg
			return
		}
		m := ""
		if err != nil {
			m = fmt.Sprintf("document %d: %v", i+1, err)
		} else {
			m = check(&v, i+1)
		}
		if m != "" {
			c.Violate(rt.Violation{Monitor: "scribble", Entry: entry, Kind: "unmarshaler-writes-reach-library-buffer", Ctx: fmt.Sprintf("document-%d-of-%d", i+1, n), Detail: m, Sub: sub})
			return
		}
	}
	if !bytes.Equal(in, orig) {
		c.Violate(rt.Violation{Monitor: "input-intact", Entry: entry, Kind: "input-modified", Ctx: "by-unmarshaler-writes", Detail: "an unmarshaler writing through its argument changed the caller's input", Sub: sub})
		return
	}
	c.Obs("scribbler_cases_clean", 1)
	c.NonTrivial("scrib", entry, fmt.Sprint(len(pad)))
}

func stripIdx(s string) string { return strings.ReplaceAll(s, "[][]", "[]") }

func c12EncodeCase(c *rt.Ctx, sub int, r *rand.Rand) {
	t1, _ := gen.Type(r, 3, gen.TypeOpts{})
	t2, _ := gen.Type(r, 3, gen.TypeOpts{})
	v1 := gen.Value(r, t1, 3, gen.ValOpts{})
	v2 := gen.Value(r, t2, 3, gen.ValOpts{})
	entries := []struct {
		name string
		f    func(x any) ([]byte, error)
	}{
		{"Marshal", func(x any) ([]byte, error) { return gojson.Marshal(x) }},
		{"MarshalIndent", func(x any) ([]byte, error) { return gojson.MarshalIndent(x, "", " ") }},
		{"MarshalNoEscape", func(x any) ([]byte, error) { return gojson.MarshalNoEscape(x) }},
		{"MarshalWithOption(UnorderedMap)", func(x any) ([]byte, error) { return gojson.MarshalWithOption(x, gojson.DisableHTMLEscape()) }},
	}
	e := entries[r.Intn(len(entries))]
	var out1 []byte
	var err error
	if pan, _, _ := rt.Guard(func() { out1, err = e.f(v1.Interface()) }); pan || err != nil {
		c.Obs("encode_base_failed", 1)
		return
	}
	c.Eval(1)
	// what the second call returns when nothing has been scribbled (reference for step 3)
	var want2 []byte
	var err2 error
	if pan, _, _ := rt.Guard(func() { want2, err2 = e.f(v2.Interface()) }); pan {
		return
	}
	want2 = append([]byte{}, want2...)
	snap1 := append([]byte{}, out1...)
	input := map[string]any{"type1": t1.String(), "type2": t2.String(), "entry": e.name}
	// (1) later library calls never change a returned slice
	burst(r, 10)
	rt.Guard(func() { e.f(v2.Interface()) })
	if !bytes.Equal(out1, snap1) {
		c.Violate(rt.Violation{Monitor: "output-owned", Entry: e.name, Kind: "returned-slice-changed-by-later-calls", Ctx: diffClass(snap1, out1), Detail: "was " + rt.Q(snap1) + " now " + rt.Q(out1), Input: input, Sub: sub})
		return
	}
	// (2) changing it (contents and spare capacity) never affects later results
	full := out1[:cap(out1)]
	for i := range full {
		full[i] = 0x5A
	}
	var got2 []byte
	var gerr2 error
	if pan, _, _ := rt.Guard(func() { got2, gerr2 = e.f(v2.Interface()) }); pan {
		return
	}
	c.Eval(2)
	if (gerr2 != nil) == (err2 != nil) && !bytes.Equal(got2, want2) && strings.HasPrefix(differKind(want2, got2), "members-reordered") {
		// two calls on the same map value may order members whose written names coincide
		// differently (C13's KF-C13-06); that is not an effect of the scribbling
		c.Obs("encode_repeat_differs_only_in_member_order_judged_by_C13", 1)
		return
	}
	if (gerr2 != nil) != (err2 != nil) || !bytes.Equal(got2, want2) {
		c.Violate(rt.Violation{Monitor: "output-owned", Entry: e.name, Kind: "later-result-affected-by-scribble", Ctx: diffClass(want2, got2), Detail: "expected " + rt.Q(want2) + " got " + rt.Q(got2), Input: input, Sub: sub})
		return
	}
	c.Obs("encode_cases_clean", 1)
	c.NonTrivial("enc", e.name, t1.String(), string(snap1))
}

// c12OutSizes are output sizes around the sizes at which an encoder may switch how it hands its
// result over (initial pooled buffer, powers of two, 64 KiB, 1 MiB).
var c12OutSizes = []int{1, 100, 1023, 1024, 1025, 4095, 4096, 4097, 16384, 65535, 65536, 65537, 70000, 131072, 300000, 1048576, 1100000}

// c12EncodeSized: the output-owned monitor for results of a chosen size through every Marshal
// entry point: the result is held while later calls of every size recycle the pooled contexts,
// then filled (contents and spare capacity) before the same later calls are made again.
func c12EncodeSized(c *rt.Ctx, sub int, r *rand.Rand, size int) {
	mk := func(n, shape int) any {
		switch shape {
		case 0:
			return strings.Repeat("s", n)
		case 1:
			var l []string
			for left := n; left > 0; left -= 103 {
				l = append(l, strings.Repeat("e", minInt(left, 100)))
			}
			return l
		case 2:
			return map[string]any{"k": strings.Repeat("m", n), "n": []int{1, 2}}
		default:
			return struct {
				A string
				B []int
			}{strings.Repeat("f", n), []int{n}}
		}
	}
	entries := []struct {
		name string
		f    func(x any) ([]byte, error)
	}{
		{"Marshal", func(x any) ([]byte, error) { return gojson.Marshal(x) }},
		{"MarshalIndent", func(x any) ([]byte, error) { return gojson.MarshalIndent(x, "", " ") }},
		{"MarshalNoEscape", func(x any) ([]byte, error) { return gojson.MarshalNoEscape(x) }},
		{"MarshalWithOption", func(x any) ([]byte, error) { return gojson.MarshalWithOption(x, gojson.DisableHTMLEscape()) }},
		{"MarshalIndentWithOption", func(x any) ([]byte, error) {
			return gojson.MarshalIndentWithOption(x, ">", "\t", gojson.DisableNormalizeUTF8())
		}},
		{"MarshalContext", func(x any) ([]byte, error) { return gojson.MarshalContext(context.Background(), x) }},
	}
	later := func() [][]byte {
		var outs [][]byte
		for _, n := range []int{5, size / 2, size, size + size/3 + 7} {
			for i := range entries {
				o, _ := entries[i].f(mk(n, (i+n)%4))
				outs = append(outs, append([]byte{}, o...))
			}
		}
		return outs
	}
	for ei := range entries {
		e := &entries[ei]
		shape := (ei + sub) % 4
		var out1 []byte
		var err error
		if pan, _, _ := rt.Guard(func() { out1, err = e.f(mk(size, shape)) }); pan || err != nil {
			c.Obs("encode_base_failed", 1)
			continue
		}
		c.Eval(1)
		snap1 := append([]byte{}, out1...)
		input := map[string]any{"output_size": len(out1), "shape": shape, "entry": e.name}
		ctx := fmt.Sprintf("size-class:%s", sizeClass(len(out1)))
		want := later()
		if !bytes.Equal(out1, snap1) {
			c.Violate(rt.Violation{Monitor: "output-owned", Entry: e.name, Kind: "returned-slice-changed-by-later-calls", Ctx: ctx, Detail: fmt.Sprintf("a %d-byte result changed at byte %d while later calls ran", len(snap1), firstDiff(snap1, out1)), Input: input, Sub: sub})
			continue
		}
		full := out1[:cap(out1)]
		for i := range full {
			full[i] = 0x5A
		}
		got := later()
		c.Eval(int64(2 * len(want)))
		bad := -1
		for i := range want {
			if !bytes.Equal(want[i], got[i]) {
				bad = i
				break
			}
		}
		if bad >= 0 {
			c.Violate(rt.Violation{Monitor: "output-owned", Entry: e.name, Kind: "later-result-affected-by-scribble", Ctx: ctx, Detail: fmt.Sprintf("after filling a %d-byte result (cap %d), later call %d returned %s", len(snap1), cap(out1), bad, rt.Q(got[bad][:minInt(len(got[bad]), 200)])), Input: input, Sub: sub})
			continue
		}
		c.Obs("encode_sized_cases_clean", 1)
		c.SetAdd("encode_output_size_classes", sizeClass(len(out1)))
		c.NonTrivial("enc-sized", e.name, fmt.Sprint(size, shape))
	}
}

func sizeClass(n int) string {
	switch {
	case n <= 1024:
		return "<=1Ki"
	case n <= 4096:
		return "<=4Ki"
	case n <= 65536:
		return "<=64Ki"
	case n <= 1<<20:
		return "<=1Mi"
	}
	return ">1Mi"
}

func c12StreamCase(c *rt.Ctx, sub int, r *rand.Rand) {
	n := 2 + r.Intn(5)
	var stream bytes.Buffer
	for i := 0; i < n; i++ {
		stream.Write(c12Doc(r))
		stream.WriteString([]string{"\n", " ", ""}[r.Intn(3)])
	}
	data := append([]byte{}, stream.Bytes()...)
	dec := gojson.NewDecoder(&cutReader{data, 1 + r.Intn(300)})
	var dsts []*c12Target
	var snaps []string
	for i := 0; i < n; i++ {
		d := newC12Target()
		var err error
		if pan, _, _ := rt.Guard(func() { err = dec.Decode(d) }); pan || err != nil {
			c.Obs("stream_decode_errors", 1)
			break
		}
		c.Eval(1)
		dsts = append(dsts, d)
		snaps = append(snaps, deepRender(reflect.ValueOf(d).Elem()))
	}
	burst(r, 6)
	for i, d := range dsts {
		if after := deepRender(reflect.ValueOf(d).Elem()); after != snaps[i] {
			c.Violate(rt.Violation{Monitor: "stream-stable", Entry: "Decoder", Kind: "earlier-value-changed-by-later-decode", Ctx: fmt.Sprintf("value-%d-of-%d", i, len(dsts)),
				Detail: "value #" + fmt.Sprint(i) + " changed from " + rt.Q([]byte(snaps[i])) + " to " + rt.Q([]byte(after)), Sub: sub})
			return
		}
	}
	if len(dsts) > 1 {
		c.Obs("stream_cases_clean", 1)
		c.NonTrivial("stream", string(data))
	}
}

// c12ReuseCase: one destination decoded into again and again (Unmarshal, and one Decoder over the
// concatenated documents). A []byte member decoded from a base64 string is a fresh array each time
// (as in encoding/json), so a byte slice the caller took out of the destination after an earlier
// call - or had put there before the first one - keeps its contents.
func c12ReuseCase(c *rt.Ctx, sub int, r *rand.Rand) {
	payload := func() []byte {
		n := []int{0, 1, 3, 8, 24, 40, 64, 100}[r.Intn(8)]
		b := make([]byte, n)
		for i := range b {
			b[i] = byte(0x20 + r.Intn(90))
		}
		return b
	}
	type dstT struct {
		A int
		B []byte
		P *[]byte
		M map[string][]byte
		L [][]byte
		Z string
	}
	n := 3 + r.Intn(4)
	var docs [][]byte
	for i := 0; i < n; i++ {
		e := func() string { return base64.StdEncoding.EncodeToString(payload()) }
		docs = append(docs, []byte(fmt.Sprintf(`{"A":%d,"B":"%s","P":"%s","M":{"k":"%s"},"L":["%s","%s"],"Z":"z%d"}`, i, e(), e(), e(), e(), e(), i)))
	}
	for _, stream := range []bool{false, true} {
		dst := &dstT{}
		mine := []byte("caller-owned-array-0123456789-0123456789-0123456789-0123456789-0123456789-0123456789-0123456789-0123456789")
		mineCopy := append([]byte{}, mine...)
		dst.B = mine[:0] // spare capacity offered by the caller
		var dec *gojson.Decoder
		if stream {
			dec = gojson.NewDecoder(bytes.NewReader(bytes.Join(docs, []byte("\n"))))
		}
		type kept struct {
			h    []byte
			copy []byte
			who  string
		}
		var keep []kept
		entry := "Unmarshal"
		if stream {
			entry = "Decoder"
		}
		for i, doc := range docs {
			var err error
			pan, _, _ := rt.Guard(func() {
				if stream {
					err = dec.Decode(dst)
				} else {
					err = gojson.Unmarshal(doc, dst)
				}
			})
			c.Eval(1)
			if pan || err != nil {
				c.Obs("reuse_decode_errors", 1)
				break
			}
			for _, k := range keep {
				if !bytes.Equal(k.h, k.copy) {
					c.Violate(rt.Violation{Monitor: "stream-stable", Entry: entry, Kind: "byte-slice-kept-from-earlier-decode-changed", Ctx: "same-destination:" + k.who,
						Detail: fmt.Sprintf("after decode #%d into the same destination, the %s slice taken after an earlier decode changed from %s to %s", i, k.who, rt.Q(k.copy), rt.Q(k.h)), Sub: sub})
					return
				}
			}
			if !bytes.Equal(mine, mineCopy) {
				c.Violate(rt.Violation{Monitor: "stream-stable", Entry: entry, Kind: "caller-array-written", Ctx: "same-destination:B",
					Detail: fmt.Sprintf("the array behind the empty slice the caller had put into B was written: %s", rt.Q(mine)), Sub: sub})
				return
			}
			keep = append(keep, kept{dst.B, append([]byte{}, dst.B...), "B"})
			if dst.P != nil {
				keep = append(keep, kept{*dst.P, append([]byte{}, *dst.P...), "P"})
			}
			keep = append(keep, kept{dst.M["k"], append([]byte{}, dst.M["k"]...), "M[k]"})
			for _, l := range dst.L {
				keep = append(keep, kept{l, append([]byte{}, l...), "L[i]"})
			}
		}
		c.Obs("reuse_histories", 1)
	}
	c.NonTrivial("reuse", string(docs[0]))
}

type c12PreIn struct {
	S string
	L []int
}

type c12Pre struct {
	Sl []string
	N  []int
	In []c12PreIn
	B  [][]byte
}

// c12PrepopCase: a history of decodes of one type into destinations whose slices already have
// elements and spare capacity (the decoder may work in place, or in pooled scratch arrays), mixed
// with decodes into empty destinations; every value decoded earlier must keep its contents while
// the later decodes run. Unmarshal and one Decoder over the concatenated documents.
func c12PrepopCase(c *rt.Ctx, sub int, r *rand.Rand) {
	n := 3 + r.Intn(5)
	stream := r.Intn(2) == 0
	mkDoc := func() string {
		var sb strings.Builder
		sb.WriteString(`{"Sl":[`)
		m := []int{0, 1, 2, 3, 4, 7, 9, 17}[r.Intn(8)]
		for i := 0; i < m; i++ {
			if i > 0 {
				sb.WriteByte(',')
			}
			fmt.Fprintf(&sb, `"s%d-%d"`, r.Intn(1000), i)
		}
		sb.WriteString(`],"N":[`)
		m = []int{0, 1, 2, 3, 4, 7, 9, 17}[r.Intn(8)]
		for i := 0; i < m; i++ {
			if i > 0 {
				sb.WriteByte(',')
			}
			fmt.Fprintf(&sb, `%d`, r.Intn(100000))
		}
		sb.WriteString(`],"In":[`)
		m = r.Intn(4)
		for i := 0; i < m; i++ {
			if i > 0 {
				sb.WriteByte(',')
			}
			fmt.Fprintf(&sb, `{"S":"in%d","L":[%d,%d,%d]}`, r.Intn(1000), r.Intn(9), r.Intn(9), r.Intn(9))
		}
		sb.WriteString(`],"B":["QUJD","eHl6"]}`)
		return sb.String()
	}
	mkDst := func() *c12Pre {
		d := &c12Pre{}
		if r.Intn(3) == 0 {
			return d
		}
		l, cp := 1+r.Intn(3), []int{4, 8, 16, 64}[r.Intn(4)]
		d.Sl = make([]string, l, cp)
		for i := range d.Sl {
			d.Sl[i] = "old"
		}
		d.N = make([]int, l, cp)
		d.In = make([]c12PreIn, l, cp)
		for i := range d.In {
			d.In[i] = c12PreIn{"old", make([]int, 2, 8)}
		}
		d.B = make([][]byte, 1, cp)
		d.B[0] = make([]byte, 2, 16)
		return d
	}
	docs := make([]string, n)
	for i := range docs {
		docs[i] = mkDoc()
	}
	var dec *gojson.Decoder
	entry := "Unmarshal"
	if stream {
		entry = "Decoder"
		dec = gojson.NewDecoder(&cutReader{[]byte(strings.Join(docs, "\n")), 1 + r.Intn(200)})
	}
	var dsts []*c12Pre
	var snaps []string
	for i := 0; i < n; i++ {
		d := mkDst()
		var err error
		if pan, _, _ := rt.Guard(func() {
			if stream {
				err = dec.Decode(d)
			} else {
				err = gojson.Unmarshal([]byte(docs[i]), d)
			}
		}); pan || err != nil {
			c.Obs("prepop_decode_errors", 1)
			return
		}
		c.Eval(1)
		for j, e := range dsts {
			if after := deepRender(reflect.ValueOf(e).Elem()); after != snaps[j] {
				c.Violate(rt.Violation{Monitor: "stream-stable", Entry: entry, Kind: "earlier-value-changed-by-later-decode", Ctx: "prepopulated-destinations",
					Detail: fmt.Sprintf("value #%d changed from %s to %s after decode #%d of %s", j, rt.Q([]byte(snaps[j])), rt.Q([]byte(after)), i, docs[i]),
					Input:  map[string]any{"docs": docs, "entry": entry}, Sub: sub})
				return
			}
		}
		dsts = append(dsts, d)
		snaps = append(snaps, deepRender(reflect.ValueOf(d).Elem()))
	}
	burst(r, 4)
	for j, e := range dsts {
		if after := deepRender(reflect.ValueOf(e).Elem()); after != snaps[j] {
			c.Violate(rt.Violation{Monitor: "stream-stable", Entry: entry, Kind: "earlier-value-changed-by-later-decode", Ctx: "prepopulated-destinations:after-burst",
				Detail: fmt.Sprintf("value #%d changed from %s to %s", j, rt.Q([]byte(snaps[j])), rt.Q([]byte(after))), Input: map[string]any{"docs": docs, "entry": entry}, Sub: sub})
			return
		}
	}
	c.Obs("prepop_histories_clean", 1)
	c.NonTrivial("prepop", entry, strings.Join(docs, "|"))
}

func init() {
	register(&Prop{
		ID: "C12",
		NumBatches: func(tier string, seed int64) int {
			if tier == "thorough" {
				return 2048
			}
			return 128
		},
		Run: func(c *rt.Ctx) {
			r := c.RNG(0)
			entries := []string{"Unmarshal", "UnmarshalWithOption", "Decoder(bytes.Reader)", "Decoder(bytes.Buffer)", "UnmarshalNoEscape", "UnmarshalContext", "Decoder.DecodeContext", "Decoder.DecodeWithOption"}
			for k := 0; k < 31; k++ {
				if !c.Cur(k, fmt.Sprintf("shapes=core\naliasing case %d", k)) {
					continue
				}
				switch {
				case k == 29 || k == 30:
					c12ScribblerCase(c, k, r, []string{"Unmarshal", "Decoder(bytes.Reader)", "UnmarshalContext", "Decoder.DecodeContext", "UnmarshalNoEscape"}[(c.Idx*2+k)%5])
					continue
				case k == 28:
					// one output size per batch, cycling through the table
					c12EncodeSized(c, k, r, c12OutSizes[c.Idx%len(c12OutSizes)])
					continue
				case k >= 20:
					c12PrepopCase(c, k, r)
					continue
				}
				switch k % 4 {
				case 0, 1:
					c12DecodeCase(c, k, r, entries[(k/2+c.Idx)%len(entries)])
				case 2:
					c12EncodeCase(c, k, r)
				default:
					c12StreamCase(c, k, r)
					c12ReuseCase(c, k, r)
				}
			}
			c.Sample(map[string]any{"decode_entries": entries, "example_doc": string(c12Doc(c.RNG(9)))})
		},
	})
}
