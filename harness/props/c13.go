package props

import (
	"bytes"
	"context"
	stdjson "encoding/json"
	"fmt"
	"math/rand"
	"reflect"
	"sort"
	"strings"

	gojson "github.com/goccy/go-json"

	"verif/harness/gen"
	"verif/harness/oracle"
	"verif/harness/rt"
	"verif/harness/zoo"
)

// C13 — all encoder variants and options describe the same document (go-json against itself).
//
// Monitor "enc-variants": for one value, each relation of the property statement is checked at
// byte level against the plain Marshal output (the formatter for the indent relation is
// encoding/json.Indent, so C18's defects do not confound).

var c13Indents = [][2]string{{"", " "}, {"", "\t"}, {" ", "  "}, {"→", "→ "}, {"", ""}, {">", ""}, {"\t", ""}}

func markerScheme() (*gojson.ColorScheme, []string) {
	mk := func(tag string) gojson.ColorFormat {
		return gojson.ColorFormat{Header: "\x11" + tag + "<", Footer: ">" + tag + "\x12"}
	}
	s := &gojson.ColorScheme{Int: mk("I"), Uint: mk("U"), Float: mk("F"), Bool: mk("B"), String: mk("S"), Binary: mk("Y"), ObjectKey: mk("K"), Null: mk("N")}
	var marks []string
	for _, t := range []string{"I", "U", "F", "B", "S", "Y", "K", "N"} {
		marks = append(marks, "\x11"+t+"<", ">"+t+"\x12")
	}
	return s, marks
}

func stripMarks(b []byte, marks []string) []byte {
	for _, m := range marks {
		b = bytes.ReplaceAll(b, []byte(m), nil)
	}
	return b
}

// canon sorts object members recursively (multiset comparison for UnorderedMap).
func canon(n *oracle.Node) {
	for _, k := range n.Kids {
		canon(k)
	}
	if n.Kind == 'o' {
		idx := make([]int, len(n.Keys))
		for i := range idx {
			idx[i] = i
		}
		ser := make([]string, len(n.Kids))
		for i, k := range n.Kids {
			ser[i] = serial(k)
		}
		sort.SliceStable(idx, func(a, b int) bool {
			if n.Keys[idx[a]] != n.Keys[idx[b]] {
				return n.Keys[idx[a]] < n.Keys[idx[b]]
			}
			return ser[idx[a]] < ser[idx[b]]
		})
		nk, nd := make([]string, len(idx)), make([]*oracle.Node, len(idx))
		for i, j := range idx {
			nk[i], nd[i] = n.Keys[j], n.Kids[j]
		}
		n.Keys, n.Kids = nk, nd
	}
}

// canonTies sorts, inside every object, each run of adjacent members with the same name by their
// serialised value, and nothing else.
func canonTies(n *oracle.Node) {
	for _, k := range n.Kids {
		canonTies(k)
	}
	if n.Kind != 'o' {
		return
	}
	for i := 0; i < len(n.Keys); {
		j := i
		for j < len(n.Keys) && n.Keys[j] == n.Keys[i] {
			j++
		}
		if j-i > 1 {
			idx := make([]int, j-i)
			ser := make([]string, j-i)
			for k := range idx {
				idx[k], ser[k] = k, serial(n.Kids[i+k])
			}
			sort.SliceStable(idx, func(a, b int) bool { return ser[idx[a]] < ser[idx[b]] })
			kids := make([]*oracle.Node, j-i)
			for k, x := range idx {
				kids[k] = n.Kids[i+x]
			}
			copy(n.Kids[i:j], kids)
		}
		i = j
	}
}

// differKind names a byte difference between two encodings of the same value: a pure reordering
// of object members (and then whether only members with the same name - distinct Go map keys that
// coincide once invalid bytes are replaced - changed places), or the class of the first
// differing byte.
func differKind(want, got []byte) string {
	a, e1 := oracle.Parse(got)
	b, e2 := oracle.Parse(want)
	if e1 != nil || e2 != nil {
		// indented variants carry the harness's line prefix, which is not JSON: the last line of the
		// expected text is the prefix followed by the closing bracket of the top-level value
		prefix := "→"
		if t := bytes.TrimRight(want, "\n"); len(t) > 1 {
			if i := bytes.LastIndexByte(t, '\n'); i >= 0 && len(t)-i-2 > 0 {
				prefix = string(t[i+1 : len(t)-1])
			}
		}
		strip := func(x []byte) []byte {
			if strings.TrimSpace(prefix) != "" {
				x = bytes.ReplaceAll(x, []byte("\n"+prefix), []byte("\n"))
			}
			// (the multi-byte indent unit of the harness, wherever it is left)
			return bytes.ReplaceAll(x, []byte("→"), nil)
		}
		a, e1 = oracle.Parse(strip(got))
		b, e2 = oracle.Parse(strip(want))
	}
	if e1 == nil && e2 == nil && !oracle.Equal(a, b) {
		canonTies(a)
		canonTies(b)
		if oracle.Equal(a, b) {
			return "members-reordered:tied-names"
		}
		canon(a)
		canon(b)
		if oracle.Equal(a, b) {
			return "members-reordered"
		}
	}
	return "bytes-differ:" + diffClass(want, got)
}

func serial(n *oracle.Node) string {
	var sb strings.Builder
	var w func(n *oracle.Node)
	w = func(n *oracle.Node) {
		sb.WriteByte(n.Kind)
		switch n.Kind {
		case 's':
			sb.WriteString(n.Str)
			sb.WriteByte(0)
		case 'n':
			sb.WriteString(n.Lit)
			sb.WriteByte(0)
		case 'o', 'a':
			for i, k := range n.Kids {
				if n.Kind == 'o' {
					sb.WriteString(n.Keys[i])
					sb.WriteByte(1)
				}
				w(k)
			}
			sb.WriteByte(2)
		}
	}
	w(n)
	return sb.String()
}

// lineBag: the lines of an indented text without their trailing commas, sorted.
func lineBag(b []byte) []byte {
	ls := strings.Split(string(b), "\n")
	for i := range ls {
		ls[i] = strings.TrimSuffix(ls[i], ",")
	}
	sort.Strings(ls)
	return []byte(strings.Join(ls, "\n"))
}

type c13Rel struct {
	name string
	// run returns the variant's bytes transformed so that they must equal want(plain)
	run  func(x any, plain []byte, k int) (got []byte, want []byte, err error, skip bool)
	tree bool // compare as canonical trees instead of bytes
}

func c13Relations() []c13Rel {
	scheme, marks := markerScheme()
	return []c13Rel{
		{"MarshalIndent=Indent(Marshal)", func(x any, plain []byte, k int) ([]byte, []byte, error, bool) {
			pi := c13Indents[k%len(c13Indents)]
			got, err := gojson.MarshalIndent(x, pi[0], pi[1])
			var want bytes.Buffer
			if e := stdjson.Indent(&want, plain, pi[0], pi[1]); e != nil {
				return nil, nil, nil, true // plain output not JSON: C03's business
			}
			return got, want.Bytes(), err, false
		}, false},
		{"Colorize(empty)=plain", func(x any, plain []byte, k int) ([]byte, []byte, error, bool) {
			got, err := gojson.MarshalWithOption(x, gojson.Colorize(&gojson.ColorScheme{}))
			return got, plain, err, false
		}, false},
		{"strip(Colorize(markers))=plain", func(x any, plain []byte, k int) ([]byte, []byte, error, bool) {
			got, err := gojson.MarshalWithOption(x, gojson.Colorize(scheme))
			return stripMarks(got, marks), plain, err, false
		}, false},
		{"strip(Colorize(default))=plain", func(x any, plain []byte, k int) ([]byte, []byte, error, bool) {
			got, err := gojson.MarshalWithOption(x, gojson.Colorize(gojson.DefaultColorScheme))
			var dm []string
			for _, a := range []string{"\x1b[95m", "\x1b[93m", "\x1b[92m", "\x1b[91m", "\x1b[96m", "\x1b[34m", "\x1b[0m"} {
				dm = append(dm, a)
			}
			return stripMarks(got, dm), plain, err, false
		}, false},
		{"strip(ColorizeIndent(markers))=MarshalIndent", func(x any, plain []byte, k int) ([]byte, []byte, error, bool) {
			want, e := gojson.MarshalIndent(x, "", " ")
			if e != nil {
				return nil, nil, nil, true
			}
			got, err := gojson.MarshalIndentWithOption(x, "", " ", gojson.Colorize(scheme))
			return stripMarks(got, marks), want, err, false
		}, false},
		{"UnorderedMap~plain", func(x any, plain []byte, k int) ([]byte, []byte, error, bool) {
			got, err := gojson.MarshalWithOption(x, gojson.UnorderedMap())
			return got, plain, err, false
		}, true},
		{"DisableHTMLEscape~plain", func(x any, plain []byte, k int) ([]byte, []byte, error, bool) {
			got, err := gojson.MarshalWithOption(x, gojson.DisableHTMLEscape())
			if err == nil {
				// only the spelling of < > & may differ
				// (in bytes copied from RawMessage / marshaler output the two line separators are
				// escaped together with them, as in encoding/json)
				r := strings.NewReplacer("<", "\\u003c", ">", "\\u003e", "&", "\\u0026", string(rune(0x2028)), "\\u2028", string(rune(0x2029)), "\\u2029")
				got = []byte(r.Replace(string(got)))
			}
			return got, plain, err, false
		}, false},
		{"Encoder=Marshal+LF", func(x any, plain []byte, k int) ([]byte, []byte, error, bool) {
			var b bytes.Buffer
			err := gojson.NewEncoder(&b).Encode(x)
			return b.Bytes(), append(append([]byte{}, plain...), '\n'), err, false
		}, false},
		{"MarshalNoEscape=Marshal", func(x any, plain []byte, k int) ([]byte, []byte, error, bool) {
			got, err := gojson.MarshalNoEscape(x)
			return got, plain, err, false
		}, false},
		{"MarshalContext=Marshal", func(x any, plain []byte, k int) ([]byte, []byte, error, bool) {
			got, err := gojson.MarshalContext(context.Background(), x)
			return got, plain, err, false
		}, false},
		{"Debug=Marshal", func(x any, plain []byte, k int) ([]byte, []byte, error, bool) {
			var sink bytes.Buffer
			got, err := gojson.MarshalWithOption(x, gojson.Debug(), gojson.DebugWith(&sink))
			return got, plain, err, false
		}, false},
		// the Encoder's own indentation switch: off only for SetIndent("", ""), whatever was set before
		{"Encoder(SetIndent(p,i))=Indent(Marshal,p,i)+LF", func(x any, plain []byte, k int) ([]byte, []byte, error, bool) {
			pi := c13Indents[k%len(c13Indents)]
			prev := c13Indents[(k/len(c13Indents))%len(c13Indents)]
			var want bytes.Buffer
			if pi[0] == "" && pi[1] == "" {
				want.Write(plain)
			} else if e := stdjson.Indent(&want, plain, pi[0], pi[1]); e != nil {
				return nil, nil, nil, true
			}
			want.WriteByte('\n')
			var b bytes.Buffer
			enc := gojson.NewEncoder(&b)
			if k%2 == 1 {
				enc.SetIndent(prev[0], prev[1])
			}
			enc.SetIndent(pi[0], pi[1])
			err := enc.Encode(x)
			return b.Bytes(), want.Bytes(), err, false
		}, false},
		// UnorderedMap may only permute members, under indentation too: whole lines move, so the bags
		// of lines (a line's trailing comma depends on its place) must be equal
		{"lines(Indent+UnorderedMap)=lines(MarshalIndent)", func(x any, plain []byte, k int) ([]byte, []byte, error, bool) {
			pi := c13Indents[k%len(c13Indents)]
			if pi[1] == "" && pi[0] == "" {
				pi = c13Indents[0]
			}
			want, e := gojson.MarshalIndent(x, pi[0], pi[1])
			if e != nil {
				return nil, nil, nil, true
			}
			got, err := gojson.MarshalIndentWithOption(x, pi[0], pi[1], gojson.UnorderedMap())
			return lineBag(got), lineBag(want), err, false
		}, false},
		{"lines(ColorizeIndent+UnorderedMap)=lines(ColorizeIndent)", func(x any, plain []byte, k int) ([]byte, []byte, error, bool) {
			want, e := gojson.MarshalIndentWithOption(x, "", "  ", gojson.Colorize(scheme))
			if e != nil {
				return nil, nil, nil, true
			}
			got, err := gojson.MarshalIndentWithOption(x, "", "  ", gojson.Colorize(scheme), gojson.UnorderedMap())
			return lineBag(got), lineBag(want), err, false
		}, false},
		// Debug selects a second dispatch (DebugRun) in front of each of the four interpreters
		{"strip(Debug+Colorize(markers))=plain", func(x any, plain []byte, k int) ([]byte, []byte, error, bool) {
			var sink bytes.Buffer
			got, err := gojson.MarshalWithOption(x, gojson.Debug(), gojson.DebugWith(&sink), gojson.Colorize(scheme))
			return stripMarks(got, marks), plain, err, false
		}, false},
		{"Debug+Indent=MarshalIndent", func(x any, plain []byte, k int) ([]byte, []byte, error, bool) {
			pi := c13Indents[k%len(c13Indents)]
			want, e := gojson.MarshalIndent(x, pi[0], pi[1])
			if e != nil {
				return nil, nil, nil, true
			}
			var sink bytes.Buffer
			got, err := gojson.MarshalIndentWithOption(x, pi[0], pi[1], gojson.Debug(), gojson.DebugWith(&sink))
			return got, want, err, false
		}, false},
		{"strip(Debug+ColorizeIndent(markers))=MarshalIndent", func(x any, plain []byte, k int) ([]byte, []byte, error, bool) {
			want, e := gojson.MarshalIndent(x, "", " ")
			if e != nil {
				return nil, nil, nil, true
			}
			var sink bytes.Buffer
			got, err := gojson.MarshalIndentWithOption(x, "", " ", gojson.Colorize(scheme), gojson.Debug(), gojson.DebugWith(&sink))
			return stripMarks(got, marks), want, err, false
		}, false},
		{"Encoder(SetIndent).EncodeWithOption(Debug)=MarshalIndent+LF", func(x any, plain []byte, k int) ([]byte, []byte, error, bool) {
			want, e := gojson.MarshalIndent(x, "", "\t")
			if e != nil {
				return nil, nil, nil, true
			}
			var b, sink bytes.Buffer
			enc := gojson.NewEncoder(&b)
			enc.SetIndent("", "\t")
			err := enc.EncodeWithOption(x, gojson.Debug(), gojson.DebugWith(&sink))
			return b.Bytes(), append(want, '\n'), err, false
		}, false},
		{"Encoder(SetIndent).EncodeWithOption(Debug,Colorize(empty))=MarshalIndent+LF", func(x any, plain []byte, k int) ([]byte, []byte, error, bool) {
			want, e := gojson.MarshalIndent(x, "", "  ")
			if e != nil {
				return nil, nil, nil, true
			}
			var b, sink bytes.Buffer
			enc := gojson.NewEncoder(&b)
			enc.SetIndent("", "  ")
			err := enc.EncodeWithOption(x, gojson.Colorize(&gojson.ColorScheme{}), gojson.Debug(), gojson.DebugWith(&sink))
			return b.Bytes(), append(want, '\n'), err, false
		}, false},
	}
}

func c13Case(c *rt.Ctx, sub int, rels []c13Rel, v reflect.Value, t reflect.Type, feat string) {
	x := v.Interface()
	var plain []byte
	var perr error
	if pan, _, _ := rt.Guard(func() { plain, perr = gojson.Marshal(x) }); pan || perr != nil {
		c.Obs("base_failed", 1)
		return
	}
	c.Eval(1)
	input := map[string]any{"type": t.String(), "value": stdRender(x)}
	// the relations run in an order drawn per case: every entry point gets every other one as
	// its predecessor on the pooled contexts (option bits, colour scheme, context left behind)
	order := rand.New(rand.NewSource(c.Seed*1000003 + int64(c.Idx)*8191 + int64(sub))).Perm(len(rels))
	for _, i := range order {
		r := &rels[i]
		var got, want []byte
		var err error
		var skip bool
		pan, msg, frame := rt.Guard(func() { got, want, err, skip = r.run(x, plain, sub+i) })
		c.Eval(1)
		if pan {
			c.Violate(rt.Violation{Monitor: "enc-variants", Entry: r.name, Kind: "panic:" + rt.PanicClass(msg), Ctx: shapeCtx(frame, feat),
				Detail: "plain Marshal succeeded with " + rt.Q(plain) + " but the variant panicked: " + msg + " | type " + t.String(), Input: input, Sub: sub})
			continue
		}
		if skip {
			c.Obs("relation_skipped_base_not_json", 1)
			continue
		}
		if err != nil {
			c.Violate(rt.Violation{Monitor: "enc-variants", Entry: r.name, Kind: "variant-error", Ctx: errClass(err) + " @ " + featTag(feat),
				Detail: "plain Marshal succeeded with " + rt.Q(plain) + " but the variant failed: " + err.Error() + " | type " + t.String(), Input: input, Sub: sub})
			continue
		}
		if r.tree {
			a, e1 := oracle.Parse(got)
			b, e2 := oracle.Parse(want)
			if e1 != nil || e2 != nil {
				if e2 != nil {
					c.Obs("relation_skipped_base_not_json", 1)
					continue
				}
				c.Violate(rt.Violation{Monitor: "enc-variants", Entry: r.name, Kind: "variant-not-json", Ctx: featTag(feat), Detail: rt.Q(got) + " vs plain " + rt.Q(want), Input: input, Sub: sub})
				continue
			}
			canon(a)
			canon(b)
			if !oracle.Equal(a, b) {
				c.Violate(rt.Violation{Monitor: "enc-variants", Entry: r.name, Kind: "members-differ", Ctx: featTag(feat), Detail: rt.Q(got) + " vs plain " + rt.Q(want) + " | type " + t.String(), Input: input, Sub: sub})
			}
			continue
		}
		if !bytes.Equal(got, want) {
			kind := differKind(want, got)
			c.Violate(rt.Violation{Monitor: "enc-variants", Entry: r.name, Kind: kind, Ctx: featTag(feat),
				Detail: "variant " + rt.Q(got) + " expected " + rt.Q(want) + " | type " + t.String(), Input: input, Sub: sub})
		}
	}
	// a value encodes identically at top level, behind a pointer and inside interface{} — wherever
	// Go's own rules say so: for a pointer-receiver marshaler reached through an addressable value
	// encoding/json itself encodes v and &v differently, and then nothing is demanded.
	sd, e0 := stdjson.Marshal(x)
	stdSame := func(y any, wrap bool) bool {
		sy, e := stdjson.Marshal(y)
		if e0 != nil || e != nil {
			return false
		}
		if wrap {
			return bytes.Equal(sy, append(append([]byte{'['}, sd...), ']'))
		}
		return bytes.Equal(sy, sd)
	}
	if v.CanAddr() && !stdSame(v.Addr().Interface(), false) {
		c.Obs("ptr_relation_not_demanded_reference_differs", 1)
	} else if v.CanAddr() {
		var pb []byte
		var err error
		pan, msg, frame := rt.Guard(func() { pb, err = gojson.Marshal(v.Addr().Interface()) })
		c.Eval(1)
		switch {
		case pan:
			c.Violate(rt.Violation{Monitor: "enc-variants", Entry: "ptr=direct", Kind: "panic:" + rt.PanicClass(msg), Ctx: shapeCtx(frame, feat), Detail: msg + " | type " + t.String(), Input: input, Sub: sub})
		case err != nil:
			c.Violate(rt.Violation{Monitor: "enc-variants", Entry: "ptr=direct", Kind: "variant-error", Ctx: errClass(err) + " @ " + featTag(feat), Detail: err.Error() + " | type " + t.String(), Input: input, Sub: sub})
		case !bytes.Equal(pb, plain):
			c.Violate(rt.Violation{Monitor: "enc-variants", Entry: "ptr=direct", Kind: differKind(plain, pb), Ctx: kindClass(t) + " @ " + featTag(feat),
				Detail: "Marshal(&v) " + rt.Q(pb) + " Marshal(v) " + rt.Q(plain) + " | type " + t.String(), Input: input, Sub: sub})
		}
	}
	if !stdSame([]any{x}, true) {
		c.Obs("iface_relation_not_demanded_reference_differs", 1)
		return
	}
	var ib []byte
	var err error
	pan, msg, frame := rt.Guard(func() { ib, err = gojson.Marshal([]any{x}) })
	c.Eval(1)
	want := append(append([]byte{'['}, plain...), ']')
	switch {
	case pan:
		c.Violate(rt.Violation{Monitor: "enc-variants", Entry: "iface=direct", Kind: "panic:" + rt.PanicClass(msg), Ctx: shapeCtx(frame, feat), Detail: msg + " | type " + t.String(), Input: input, Sub: sub})
	case err != nil:
		c.Violate(rt.Violation{Monitor: "enc-variants", Entry: "iface=direct", Kind: "variant-error", Ctx: errClass(err) + " @ " + featTag(feat), Detail: err.Error() + " | type " + t.String(), Input: input, Sub: sub})
	case !bytes.Equal(ib, want):
		c.Violate(rt.Violation{Monitor: "enc-variants", Entry: "iface=direct", Kind: differKind(want, ib), Ctx: kindClass(t) + " @ " + featTag(feat),
			Detail: "Marshal([]any{v}) " + rt.Q(ib) + " expected " + rt.Q(want) + " | type " + t.String(), Input: input, Sub: sub})
	}
}

func init() {
	register(&Prop{
		ID: "C13",
		NumBatches: func(tier string, seed int64) int {
			if tier == "thorough" {
				return 16384
			}
			return 512
		},
		Run: func(c *rt.Ctx) {
			rels := c13Relations()
			rv := c.RNG(0)
			if c.Idx%32 == 7 {
				// marshaler output and raw messages with the characters the options treat specially
				// (< > & U+2028 U+2029, escapes, white space) in member names as well as in values, in
				// every position a value can take, plus the fixed families of C01
				const bs = "\\"
				ls := bs + "u2028"
				raws := []string{`{"a<b":1,"x&y":{"<":"v<>&"},"k>":[{"&&":"<"}]}`, `{"` + ls + `":"` + ls + bs + `u2029","t` + bs + `t":1}`, "{ \"sp ace\" : [ 1 , { \"<\" : null } ] }",
					`["<",{"&":">"}]`, `"<&>"`, `{"` + bs + `u003c":"` + bs + `u003e"}`, "{\"\u2028\":\"\u2029<\"}"}
				var vals []any
				for _, raw := range raws {
					rm := stdjson.RawMessage(raw)
					mr := zoo.MRaw{B: []byte(raw)}
					vals = append(vals, rm, mr, &mr, struct {
						A int
						R stdjson.RawMessage
						M zoo.MRaw
						Z string
					}{1, rm, mr, "<z>"}, []any{rm, mr}, map[string]any{"<k>": mr, "r": rm}, []zoo.MRaw{mr, mr}, map[string]stdjson.RawMessage{"&": rm})
				}
				vals = append(vals, c01KeyKindMaps()...)
				vals = append(vals, c01ElemKindContainers()...)
				for i, x := range vals {
					v := reflect.ValueOf(x)
					if !c.Cur(9000+i, fmt.Sprintf("shapes=core\nfixed value %d: %T", i, x)) {
						continue
					}
					c13Case(c, 9000+i, rels, v, v.Type(), "")
					c.NonTrivial("fixed", fmt.Sprintf("%T", x), fmt.Sprint(i))
				}
			}
			for k := 0; k < 32; k++ {
				o := gen.TypeOpts{FeatureProb: 25}
				var t reflect.Type
				var feat string
				if c.Tier == "thorough" && k%2 == 1 {
					t, feat = gen.Type(c.RNG(1000+k), 3, o)
				} else {
					t, feat = gen.Type(rt.FixedRNG("C13type", c.Idx*4096+k), 3, o)
				}
				v := gen.Value(rv, t, 3, gen.ValOpts{NilHeavy: k%3 == 0})
				if !c.Cur(k, curDesc(t, feat, v.Interface(), "")) {
					continue
				}
				heap0 := heapInUse()
				c13Case(c, k, rels, v, t, feat)
				heapGuard(c, k, heap0, "enc-variants", "variants", feat)
				c.NonTrivial(t.String(), stdRender(v.Interface()))
				if k == 0 {
					c.Sample(map[string]any{"type": t.String(), "value": stdRender(v.Interface()), "feature": featTag(feat), "relations": len(rels) + 2})
				}
			}
		},
	})
}
