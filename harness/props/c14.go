package props

import (
	"bytes"
	"context"
	stdjson "encoding/json"
	"fmt"
	"math/rand"
	"reflect"
	"runtime"
	"sort"
	"strings"
	"sync"
	"sync/atomic"
	"unsafe"
	"verif/harness/zoo"
	"verif/harness/zoo/alike"

	gojson "github.com/goccy/go-json"

	"verif/harness/rt"
	"verif/harness/zoo14"
)

// C14 — a value is always processed by the program compiled for its own type.
//
// Monitors:
//   cache-identity  (hooks) every OpcodeSet handed out has Type == requested type; an address-indexed
//                   cache slot (encoder and decoder) is only ever hit by the descriptor that first
//                   populated it; a cached decoder object is handed out for one descriptor only
//   self-ident      every generated type T<i> has field F tagged t<i>: Marshal(T<i>{F:i}) must be
//                   exactly {"t<i>":i,...} and {"t<i>":v} must fill T<i>.F, cold and warm, directly,
//                   behind a pointer, in a slice and in a map, interleaved with run-time types

func typeAddrOf(x any) uintptr { return (*[2]uintptr)(unsafe.Pointer(&x))[0] }

func c14Expected(e zoo14.Entry, v int) string {
	switch e.ID % 3 {
	case 0:
		return fmt.Sprintf(`{"t%d":%d}`, e.ID, v)
	case 1:
		return fmt.Sprintf(`{"t%d":%d}`, e.ID, v)
	}
	return fmt.Sprintf(`{"t%d":%d,"a%d":[0,0]}`, e.ID, v, e.ID)
}

var c14FirstInProcess = true

// c14DecodeFirst runs once per worker process, before the encoder has been used at all: the two
// packages size and index their caches from address information they compute when first used,
// so the order of first use is part of the history. A spread of types is decoded, then the
// encoder is used for the first time, then the same types and their neighbours are decoded again.
func c14DecodeFirst(c *rt.Ctx, sub int) {
	if !c14FirstInProcess {
		return
	}
	c14FirstInProcess = false
	if !c.Cur(sub, "shapes=core\ndecoder used before the encoder's first use") {
		return
	}
	n := len(zoo14.All)
	step := 1
	if n > 600 {
		step = n / 600
	}
	pass := func(phase string) {
		for i := 0; i < n; i += step {
			e := zoo14.All[i]
			v := 5000 + e.ID
			p := e.New()
			var err error
			pan, msg, _ := rt.Guard(func() { err = gojson.Unmarshal([]byte(fmt.Sprintf(`{"t%d":%d}`, e.ID, v)), p) })
			c.Eval(1)
			if pan || err != nil || e.Get(p) != v {
				c.Violate(rt.Violation{Monitor: "self-ident", Entry: "decode-first", Kind: "decoded-by-foreign-program", Ctx: phase,
					Detail: fmt.Sprintf("type T%06d (%s): F=%d want %d err=%v %s", e.ID, phase, e.Get(p), v, err, msg), Input: map[string]any{"type_id": e.ID}, Sub: sub})
				return
			}
		}
	}
	pass("before-first-encode")
	gojson.Marshal(1)
	gojson.MarshalIndent(map[string]int{"a": 1}, "", " ")
	pass("after-first-encode")
	// and the other way round for the encoder: types encoded before and after the decoder's caches grew
	for i := 0; i < n; i += step {
		e := zoo14.All[i]
		v := 6000 + e.ID
		b, err := gojson.Marshal(e.Val(v))
		c.Eval(1)
		if err != nil || string(b) != c14Expected(e, v) {
			c.Violate(rt.Violation{Monitor: "self-ident", Entry: "decode-first", Kind: "encoded-by-foreign-program", Ctx: "after-decodes",
				Detail: fmt.Sprintf("type T%06d: got %s (%v) want %s", e.ID, b, err, c14Expected(e, v)), Input: map[string]any{"type_id": e.ID}, Sub: sub})
			return
		}
	}
	c.Obs("decode_first_processes", 1)
	c14Drain(c, sub)
}

func c14Check(c *rt.Ctx, sub int, e zoo14.Entry, phase string) {
	v := 1000 + e.ID
	val := e.Val(v)
	want := c14Expected(e, v)
	fail := func(kind, ctx, detail string) {
		c.Violate(rt.Violation{Monitor: "self-ident", Entry: phase, Kind: kind, Ctx: ctx, Detail: fmt.Sprintf("type T%06d: %s", e.ID, detail), Input: map[string]any{"type_id": e.ID}, Sub: sub})
	}
	enc := func(how string, x any, wantS string) {
		var b []byte
		var err error
		pan, msg, _ := rt.Guard(func() { b, err = gojson.Marshal(x) })
		c.Eval(1)
		if pan || err != nil {
			fail("encode-failed", how, fmt.Sprint(msg, err))
		} else if string(b) != wantS {
			fail("encoded-by-foreign-program", how, fmt.Sprintf("got %s want %s", b, wantS))
		}
	}
	enc("value", val, want)
	p := e.New()
	pan, msg, _ := rt.Guard(func() {
		if err := gojson.Unmarshal([]byte(fmt.Sprintf(`{"t%d":%d,"t%d":-1,"t%d":-2}`, e.ID, v, e.ID+1, e.ID-1)), p); err != nil {
			fail("decode-failed", "pointer", err.Error())
		} else if got := e.Get(p); got != v {
			fail("decoded-by-foreign-program", "pointer", fmt.Sprintf("F=%d want %d", got, v))
		}
	})
	c.Eval(1)
	if pan {
		fail("decode-panicked", "pointer", msg)
	}
	enc("pointer", p, want)
	// composite types built at run time from the compiled type (descriptors on the heap)
	rvT := reflect.TypeOf(val)
	sl := reflect.MakeSlice(reflect.SliceOf(rvT), 2, 2)
	sl.Index(0).Set(reflect.ValueOf(val))
	sl.Index(1).Set(reflect.ValueOf(e.Val(v + 1)))
	enc("slice", sl.Interface(), "["+want+","+c14Expected(e, v+1)+"]")
	m := reflect.MakeMap(reflect.MapOf(reflect.TypeOf(""), rvT))
	m.SetMapIndex(reflect.ValueOf("k"), reflect.ValueOf(val))
	enc("map", m.Interface(), `{"k":`+want+`}`)
	enc("iface", []any{val}, "["+want+"]")
	// decode through the run-time slice type
	dst := reflect.New(reflect.SliceOf(rvT))
	pan, msg, _ = rt.Guard(func() {
		if err := gojson.Unmarshal([]byte("["+want+"]"), dst.Interface()); err != nil {
			fail("decode-failed", "slice", err.Error())
		} else if dst.Elem().Len() != 1 || dst.Elem().Index(0).FieldByName("F").Int() != int64(v) {
			fail("decoded-by-foreign-program", "slice", fmt.Sprint(dst.Elem().Interface()))
		}
	})
	c.Eval(1)
	if pan {
		fail("decode-panicked", "slice", msg)
	}
}

// run-time struct type number k (heap descriptor → fallback map path)
func c14Runtime(c *rt.Ctx, sub int, k int) {
	t := reflect.StructOf([]reflect.StructField{{Name: "R", Type: reflect.TypeOf(0), Tag: reflect.StructTag(fmt.Sprintf(`json:"r%d"`, k))}})
	v := reflect.New(t).Elem()
	v.Field(0).SetInt(int64(k))
	want := fmt.Sprintf(`{"r%d":%d}`, k, k)
	b, err := gojson.Marshal(v.Interface())
	c.Eval(1)
	if err != nil || string(b) != want {
		c.Violate(rt.Violation{Monitor: "self-ident", Entry: "runtime-type", Kind: "encoded-by-foreign-program", Ctx: "structof", Detail: fmt.Sprintf("run-time type %d: got %s (%v) want %s", k, b, err, want), Sub: sub})
	}
	p := reflect.New(t)
	if err := gojson.Unmarshal([]byte(want), p.Interface()); err != nil || p.Elem().Field(0).Int() != int64(k) {
		c.Violate(rt.Violation{Monitor: "self-ident", Entry: "runtime-type", Kind: "decoded-by-foreign-program", Ctx: "structof", Detail: fmt.Sprintf("run-time type %d: %v %v", k, p.Elem().Interface(), err), Sub: sub})
	}
	c.Eval(1)
}

// c14NameAlikes: types of another package named like the types the library special-cases
// (Number, RawMessage, Time ...), also as members, elements, keys and behind pointers, and run-time
// types derived from them. encoding/json treats them as the ordinary string / []byte / struct
// types they are; so must a library that recognises its special cases by type identity.
func c14NameAlikes(c *rt.Ctx, sub0 int) {
	n := alike.Number("A-17")
	vals := []any{alike.Number("42"), alike.Number("A-17"), alike.Number(""), &n, []alike.Number{"1e5", "x"}, map[alike.Number]int{"12": 1, "k": 2}, map[string]alike.Number{"a": "007"},
		alike.RawMessage("{not json"), alike.RawMessage(nil), []alike.RawMessage{[]byte("ab")}, alike.Time{Sec: 5, Zone: "z"}, alike.Duration(90), alike.Marshaler{V: 3},
		alike.Holder{N: "n-1", R: []byte{1, 2, 255}, T: alike.Time{Sec: 1}, D: 7, M: alike.Marshaler{V: 2}, PN: &n, LN: []alike.Number{"", "0x10"}, MN: map[alike.Number]alike.Number{"k": "v"}},
		[]any{alike.Number("in-iface"), alike.RawMessage("raw")}, struct {
			A alike.Number `json:"a,string"`
			B alike.Number `json:"b,omitempty"`
		}{"s", ""}}
	// run-time types built on them
	vals = append(vals, reflect.MakeSlice(reflect.SliceOf(reflect.TypeOf(alike.Number(""))), 2, 2).Interface(),
		reflect.New(reflect.StructOf([]reflect.StructField{{Name: "N", Type: reflect.TypeOf(alike.Number(""))}, {Name: "R", Type: reflect.TypeOf(alike.RawMessage(nil))}})).Elem().Interface())
	for i, x := range vals {
		sub := sub0 + i
		if !c.Cur(sub, fmt.Sprintf("shapes=core\ntype named like a special-cased one: %T", x)) {
			continue
		}
		want, serr := stdjson.Marshal(x)
		var got []byte
		var gerr error
		pan, msg, _ := rt.Guard(func() { got, gerr = gojson.Marshal(x) })
		c.Eval(1)
		if pan || (gerr != nil) != (serr != nil) || (serr == nil && string(got) != string(want)) {
			c.Violate(rt.Violation{Monitor: "self-ident", Entry: "name-alike", Kind: "encoded-by-foreign-program", Ctx: fmt.Sprintf("%T", x),
				Detail: fmt.Sprintf("%T: go-json %s err=%v panic=%v %s; encoding/json %s err=%v", x, got, gerr, pan, msg, want, serr), Sub: sub})
			continue
		}
		if serr != nil {
			continue
		}
		// decode encoding/json's text back into a fresh value of the same type, both modes
		t := reflect.TypeOf(x)
		for _, stream := range []bool{false, true} {
			g, s := reflect.New(t), reflect.New(t)
			var derr error
			pan, msg, _ = rt.Guard(func() {
				if stream {
					derr = gojson.NewDecoder(bytes.NewReader(want)).Decode(g.Interface())
				} else {
					derr = gojson.Unmarshal(want, g.Interface())
				}
			})
			c.Eval(1)
			sderr := stdjson.Unmarshal(want, s.Interface())
			if pan || (derr != nil) != (sderr != nil) || (sderr == nil && !reflect.DeepEqual(g.Elem().Interface(), s.Elem().Interface())) {
				gb, _ := stdjson.Marshal(g.Elem().Interface())
				c.Violate(rt.Violation{Monitor: "self-ident", Entry: "name-alike", Kind: "decoded-by-foreign-program", Ctx: fmt.Sprintf("%T", x),
					Detail: fmt.Sprintf("%T from %s (stream=%v): go-json %s err=%v panic=%v %s; encoding/json err=%v", x, want, stream, gb, derr, pan, msg, sderr), Sub: sub})
			}
		}
		// a JSON number into the string-kind look-alikes is a type error, as for any string
		if t.Kind() == reflect.String {
			g := reflect.New(t)
			var derr error
			rt.Guard(func() { derr = gojson.Unmarshal([]byte("17"), g.Interface()) })
			if derr == nil {
				c.Violate(rt.Violation{Monitor: "self-ident", Entry: "name-alike", Kind: "decoded-by-foreign-program", Ctx: fmt.Sprintf("%T", x), Detail: fmt.Sprintf("17 decoded into %T without error: %q", x, g.Elem().Interface()), Sub: sub})
			}
		}
		c.NonTrivial("alike", fmt.Sprintf("%T", x), fmt.Sprint(i))
	}
	c.Obs("name_alike_values", int64(len(vals)))
}

// c14RuntimeDerived: the types derived from one run-time struct type (pointer chains, slice, array,
// map, slice of pointers) all have heap descriptors served by the fallback map; they are decoded
// for the first time in an order drawn from k, each from a document only it should produce the
// expected value from, and then once more in the reverse order.
func c14RuntimeDerived(c *rt.Ctx, sub int, k int) {
	t := reflect.StructOf([]reflect.StructField{
		{Name: "R", Type: reflect.TypeOf(0), Tag: reflect.StructTag(fmt.Sprintf(`json:"d%d"`, k))},
		{Name: "S", Type: reflect.TypeOf(""), Tag: reflect.StructTag(fmt.Sprintf(`json:"s%d"`, k))}})
	one := func(n int) string { return fmt.Sprintf(`{"d%d":%d,"s%d":"v%d"}`, k, n, k, n) }
	okT := func(v reflect.Value, n int) bool {
		return v.IsValid() && v.Kind() == reflect.Struct && v.Field(0).Int() == int64(n) && v.Field(1).String() == fmt.Sprint("v", n)
	}
	deref := func(v reflect.Value) reflect.Value {
		for v.IsValid() && v.Kind() == reflect.Ptr {
			if v.IsNil() {
				return reflect.Value{}
			}
			v = v.Elem()
		}
		return v
	}
	type derived struct {
		name  string
		typ   reflect.Type
		doc   func(n int) string
		check func(v reflect.Value, n int) bool
	}
	ds := []derived{
		{"T", t, one, func(v reflect.Value, n int) bool { return okT(v, n) }},
		{"*T", reflect.PointerTo(t), one, func(v reflect.Value, n int) bool { return okT(deref(v), n) }},
		{"**T", reflect.PointerTo(reflect.PointerTo(t)), one, func(v reflect.Value, n int) bool { return okT(deref(v), n) }},
		{"[]T", reflect.SliceOf(t), func(n int) string { return "[" + one(n) + "," + one(n+1) + "]" }, func(v reflect.Value, n int) bool {
			return v.Len() == 2 && okT(v.Index(0), n) && okT(v.Index(1), n+1)
		}},
		{"[]*T", reflect.SliceOf(reflect.PointerTo(t)), func(n int) string { return "[" + one(n) + ",null]" }, func(v reflect.Value, n int) bool {
			return v.Len() == 2 && okT(deref(v.Index(0)), n) && v.Index(1).IsNil()
		}},
		{"[2]T", reflect.ArrayOf(2, t), func(n int) string { return "[" + one(n) + "," + one(n+2) + "]" }, func(v reflect.Value, n int) bool {
			return okT(v.Index(0), n) && okT(v.Index(1), n+2)
		}},
		{"map[string]T", reflect.MapOf(reflect.TypeOf(""), t), func(n int) string { return `{"m":` + one(n) + `}` }, func(v reflect.Value, n int) bool {
			return v.Len() == 1 && okT(v.MapIndex(reflect.ValueOf("m")), n)
		}},
		{"map[string]*T", reflect.MapOf(reflect.TypeOf(""), reflect.PointerTo(t)), func(n int) string { return `{"m":` + one(n) + `}` }, func(v reflect.Value, n int) bool {
			return v.Len() == 1 && okT(deref(v.MapIndex(reflect.ValueOf("m"))), n)
		}},
	}
	order := rand.New(rand.NewSource(int64(k)*7919 + 13)).Perm(len(ds))
	run := func(pass int, idx []int) {
		for pos, di := range idx {
			d := ds[di]
			n := k%1000 + pos + 10*pass
			p := reflect.New(d.typ)
			var err error
			stream := (k+pos+pass)%2 == 1
			pan, msg, _ := rt.Guard(func() {
				if stream {
					err = gojson.NewDecoder(strings.NewReader(d.doc(n))).Decode(p.Interface())
				} else {
					err = gojson.Unmarshal([]byte(d.doc(n)), p.Interface())
				}
			})
			c.Eval(1)
			good := false
			if !pan && err == nil {
				rt.Guard(func() { good = d.check(p.Elem(), n) })
			}
			if !good {
				var before []string
				for _, j := range idx[:pos] {
					before = append(before, ds[j].name)
				}
				c.Violate(rt.Violation{Monitor: "self-ident", Entry: "runtime-type", Kind: "decoded-by-foreign-program", Ctx: "derived:" + d.name,
					Detail: fmt.Sprintf("run-time type %d: %s decoded (pass %d, stream=%v) after %v from %s gave %+v err=%v panic=%v %s", k, d.name, pass, stream, before, d.doc(n), p.Elem().Interface(), err, pan, msg), Sub: sub})
				return
			}
		}
	}
	run(0, order)
	rev := make([]int, len(order))
	for i, x := range order {
		rev[len(order)-1-i] = x
	}
	run(1, rev)
	// the encoder's fallback map: every derived type encoded for the first time in the drawn order,
	// then again in reverse (a later insertion must not disturb what is already there), through
	// the value itself and inside an interface
	enc := func(pass int, idx []int) {
		for pos, di := range idx {
			d := ds[di]
			if d.name == "**T" {
				continue // pointer chains of depth 2 are KF-C01-PTR2's business
			}
			n := k%1000 + pos + 10*pass
			p := reflect.New(d.typ)
			if err := stdjson.Unmarshal([]byte(d.doc(n)), p.Interface()); err != nil {
				continue
			}
			want, _ := stdjson.Marshal(p.Elem().Interface())
			for _, wrapped := range []bool{false, true} {
				var x any = p.Elem().Interface()
				w := string(want)
				if wrapped {
					x, w = []any{x}, "["+string(want)+"]"
				}
				var b []byte
				var err error
				pan, msg, _ := rt.Guard(func() { b, err = gojson.Marshal(x) })
				c.Eval(1)
				if pan || err != nil || string(b) != w {
					var before []string
					for _, j := range idx[:pos] {
						before = append(before, ds[j].name)
					}
					c.Violate(rt.Violation{Monitor: "self-ident", Entry: "runtime-type", Kind: "encoded-by-foreign-program", Ctx: "derived:" + d.name,
						Detail: fmt.Sprintf("run-time type %d: %s encoded (pass %d, in interface=%v) after %v gave %s err=%v panic=%v %s; want %s", k, d.name, pass, wrapped, before, b, err, pan, msg, w), Sub: sub})
					return
				}
			}
		}
	}
	enc(0, order)
	enc(1, rev)
	c.Obs("runtime_derived_type_ladders", 1)
}

// c14HeapWindow: descriptors created at run time live on the Go heap, far above the window of
// compiled-in descriptors that indexes the fast caches - but a cache index computed from fewer
// address bits than the range check uses would fold some of them into the window. The batch runs
// first in a fresh process: it makes run-time struct types (and their pointer types) until the
// heap has grown across every address whose low 32 bits lie inside the window, touches every
// compiled-in type of the population, and drives each "low-bits-in-window" run-time type through
// Marshal and Unmarshal. Self-identifying member names decide the result; the cache hooks report
// any slot or decoder object shared by two descriptors.
func c14HeapWindow(c *rt.Ctx) {
	if !c.Cur(0, "shapes=core\nheap descriptors whose low address bits fall into the cache window") {
		return
	}
	eb, em, _, _ := gojson.VerifEncTypeAddr()
	db, dm, _, _ := gojson.VerifDecTypeAddr()
	lo, hi := eb, em
	if db < lo {
		lo = db
	}
	if dm > hi {
		hi = dm
	}
	inWin := func(a uintptr) bool { l := a & 0xffffffff; return l >= lo && l <= hi }
	for _, e := range zoo14.All {
		rt.Guard(func() { gojson.Unmarshal([]byte(`{}`), e.New()); gojson.Marshal(e.Val(1)) })
	}
	type rtType struct {
		k int
		t reflect.Type
	}
	var win []rtType
	limit := 150000
	if c.Tier == "thorough" {
		limit = 400000
	}
	made := 0
	var maxLow, minLow uintptr = 0, ^uintptr(0)
	for k := 0; k < limit && len(win) < 4000; k++ {
		t := reflect.StructOf([]reflect.StructField{{Name: "R", Type: reflect.TypeOf(0), Tag: reflect.StructTag(fmt.Sprintf(`json:"hw%d"`, k))}})
		pt := reflect.PointerTo(t)
		made++
		a, pa := typeAddrOf(reflect.Zero(t).Interface()), typeAddrOf(reflect.Zero(pt).Interface())
		for _, x := range []uintptr{a, pa} {
			if l := x & 0xffffffff; x>>32 != 0 {
				if l > maxLow {
					maxLow = l
				}
				if l < minLow {
					minLow = l
				}
			}
		}
		if inWin(a) || inWin(pa) {
			win = append(win, rtType{k, t})
		}
	}
	c.Obs("heap_descriptors_created", int64(2*made))
	c.Obs("heap_descriptors_with_low_bits_in_window", int64(len(win)))
	c.SetAdd("heap_window", fmt.Sprintf("window low32 [%#x,%#x]; heap descriptors' low32 span [%#x,%#x]", lo, hi, minLow, maxLow))
	for i, w := range win {
		v := reflect.New(w.t)
		want := fmt.Sprintf(`{"hw%d":%d}`, w.k, w.k+7)
		var err error
		pan, msg, _ := rt.Guard(func() { err = gojson.Unmarshal([]byte(want), v.Interface()) })
		c.Eval(1)
		if pan || err != nil || v.Elem().Field(0).Int() != int64(w.k+7) {
			c.Violate(rt.Violation{Monitor: "self-ident", Entry: "heap-window", Kind: "decoded-by-foreign-program", Ctx: "structof", Detail: fmt.Sprintf("run-time type %d: %v %v %s", w.k, v.Elem().Interface(), err, msg), Sub: i})
		}
		var b []byte
		pan, msg, _ = rt.Guard(func() { b, err = gojson.Marshal(v.Elem().Interface()) })
		if pan || err != nil || string(b) != want {
			c.Violate(rt.Violation{Monitor: "self-ident", Entry: "heap-window", Kind: "encoded-by-foreign-program", Ctx: "structof", Detail: fmt.Sprintf("run-time type %d: got %s (%v %s) want %s", w.k, b, err, msg, want), Sub: i})
		}
		pan, msg, _ = rt.Guard(func() { b, err = gojson.Marshal(v.Interface()) })
		c.Eval(2)
		if pan || err != nil || string(b) != want {
			c.Violate(rt.Violation{Monitor: "self-ident", Entry: "heap-window", Kind: "encoded-by-foreign-program", Ctx: "ptr-structof", Detail: fmt.Sprintf("run-time type %d: got %s (%v %s) want %s", w.k, b, err, msg, want), Sub: i})
		}
	}
	// the compiled-in types again, after the run-time types had their turn
	for i, e := range zoo14.All {
		if i%7 == 0 || len(zoo14.All) < 200 {
			c14Check(c, 100000+i, e, "after-heap-types")
		}
	}
	c14Drain(c, 7)
	c.NonTrivialEnum(int64(len(win)))
	c.Sample(map[string]any{"family": "heap descriptors aliasing the cache window", "created": 2 * made, "low_bits_in_window": len(win)})
}

// c14RecursivePairs: several distinct recursive struct types whose first members have the same Go
// type, linked into one compiled program (one root reaches them all). Each type has its own member
// names, so output produced by another type's sub-program is recognisable; encoding/json is the
// reference.
func c14RecursivePairs(c *rt.Ctx) {
	d1 := &zoo.RecDag{ID: 1, Next: &zoo.RecDag{ID: 2, Tail: &zoo.RecDag{ID: 3}}}
	d2 := &zoo.RecDag2{ID: 4, Title: "t4", Next: &zoo.RecDag2{ID: 5, Title: "t5", Next: &zoo.RecDag2{ID: 6, Title: "t6"}}}
	d3 := &zoo.RecDag3{ID: 7, Flag: true, Kids: []zoo.RecDag3{{ID: 8, Up: &zoo.RecDag3{ID: 9, Flag: true}}, {ID: 10}}}
	vals := []any{zoo.RecRootAB{A: d1, B: d2, C: d3}, &zoo.RecRootAB{A: d1, B: d2, C: d3}, zoo.RecRootBA{C: []zoo.RecDag3{*d3, {ID: 11}}, B: map[string]*zoo.RecDag2{"k": d2}, A: *d1},
		[]any{d2, d1, d3}, []any{d3, d2, d1}, map[string]any{"x": zoo.RecRootBA{A: *d1, B: map[string]*zoo.RecDag2{"k": d2}}, "y": d3},
		struct {
			P *zoo.RecDag2
			Q *zoo.RecDag
			R []*zoo.RecDag3
		}{d2, d1, []*zoo.RecDag3{d3, d3}}}
	for i, x := range vals {
		if !c.Cur(200000+i, fmt.Sprintf("shapes=core\nrecursive types with equal first members: %T", x)) {
			continue
		}
		for _, how := range []string{"Marshal", "MarshalIndent"} {
			var got, want []byte
			var gerr, serr error
			pan, msg, _ := rt.Guard(func() {
				if how == "Marshal" {
					got, gerr = gojson.Marshal(x)
				} else {
					got, gerr = gojson.MarshalIndent(x, "", " ")
				}
			})
			if how == "Marshal" {
				want, serr = stdjson.Marshal(x)
			} else {
				want, serr = stdjson.MarshalIndent(x, "", " ")
			}
			c.Eval(1)
			if serr != nil {
				continue
			}
			if pan || gerr != nil || string(got) != string(want) {
				c.Violate(rt.Violation{Monitor: "self-ident", Entry: "recursive-pair", Kind: "encoded-by-foreign-program", Ctx: how,
					Detail: fmt.Sprintf("%T: got %s (err %v %s) want %s", x, got, gerr, msg, want), Sub: 200000 + i})
			}
		}
		c.NonTrivial("recursive-pair", fmt.Sprintf("%T", x))
	}
	// one field query (one hash) over types that share member names but not layouts, in every order
	// of first use: each must be filtered by a program compiled for itself
	seven := 7
	same := []struct {
		x    any
		want string
	}{{zoo.QSameA{K: 1, S: "a"}, `{"k":1}`}, {zoo.QSameB{S: "b", K: 2}, `{"k":2}`}, {zoo.QSameC{K: &seven, S: []string{"c"}}, `{"k":7}`},
		{&zoo.QSameB{S: "pb", K: 3}, `{"k":3}`}, {[]any{zoo.QSameA{K: 4}, zoo.QSameC{K: &seven}}, `[{"k":4},{"k":7}]`}}
	for round := 0; round < 3; round++ {
		q, _ := gojson.BuildFieldQuery("k", gojson.FieldQueryString(fmt.Sprintf("zz%d_%d", c.Seed, round)))
		ctx := gojson.SetFieldQueryToContext(context.Background(), q)
		for i := range same {
			e := same[(i+round)%len(same)]
			if _, isSlice := e.x.([]any); isSlice {
				continue // sub-queries are not carried into interface elements (C19's finding)
			}
			var got []byte
			var gerr error
			pan, msg, _ := rt.Guard(func() { got, gerr = gojson.MarshalContext(ctx, e.x) })
			c.Eval(1)
			if pan || gerr != nil || string(got) != e.want {
				c.Violate(rt.Violation{Monitor: "self-ident", Entry: "shared-query", Kind: "encoded-by-foreign-program", Ctx: "MarshalContext",
					Detail: fmt.Sprintf("%T under query [k]: got %s (err %v %s) want %s", e.x, got, gerr, msg, e.want), Sub: 200200 + round*10 + i})
			}
		}
	}
	// decode side: one destination type holding all of them
	doc, _ := stdjson.Marshal(vals[0])
	var back, sback zoo.RecRootAB
	var derr error
	pan, msg, _ := rt.Guard(func() { derr = gojson.Unmarshal(doc, &back) })
	stdjson.Unmarshal(doc, &sback)
	c.Eval(1)
	if pan || derr != nil || !reflect.DeepEqual(back, sback) {
		gb, _ := stdjson.Marshal(back)
		c.Violate(rt.Violation{Monitor: "self-ident", Entry: "recursive-pair", Kind: "decoded-by-foreign-program", Ctx: "Unmarshal", Detail: fmt.Sprintf("%s decoded as %s (err %v %s)", doc, gb, derr, msg), Sub: 200100})
	}
}

type c14Err struct {
	Code int
	Msg  string
}

func (e c14Err) Error() string { return e.Msg }

// c14IfaceMembers: values of many dynamic types held in members, elements and map values whose
// static type is an interface with methods (the interpreter has to find the dynamic type behind
// the method table), an empty interface next to them, through all four interpreters and their other
// entry points. Every dynamic type has member names of its own.
func c14IfaceMembers(c *rt.Ctx, sub0 int) {
	type holder struct {
		S  zoo.Shaper            `json:"s"`
		E  error                 `json:"e"`
		I  interface{}           `json:"i"`
		L  []zoo.Shaper          `json:"l"`
		M  map[string]zoo.Shaper `json:"m"`
		A  [2]error              `json:"a"`
		P  *zoo.Shaper           `json:"p"`
		Z  int                   `json:"z"`
		S2 zoo.Shaper            `json:"s2,omitempty"`
	}
	hungry := zoo.SlotHungry{S1: []string{"a"}, I1: []int{1, 2}, M: map[string][]int{"k": {1}}, T: "t"}
	small := zoo.SmallShape{V: 7}
	var sh zoo.Shaper = &small
	vals := []any{
		holder{S: small, E: c14Err{1, "one"}, I: hungry, L: []zoo.Shaper{hungry, small, &small, nil}, M: map[string]zoo.Shaper{"x": small, "y": hungry}, A: [2]error{c14Err{2, "two"}, nil}, P: &sh, Z: 5},
		holder{S: hungry, E: &c14Err{3, "three"}, I: small, Z: 6, S2: &small},
		&holder{S: &small, L: []zoo.Shaper{&small}, M: map[string]zoo.Shaper{"only": &small}, Z: 7},
		[]holder{{S: small, Z: 1}, {E: c14Err{4, "four"}, Z: 2}},
		map[string]any{"h": holder{S: hungry, Z: 8}, "e": error(c14Err{5, "five"})},
		struct {
			X zoo.Shaper
			Y zoo.Shaper
		}{small, hungry},
	}
	scheme := &gojson.ColorScheme{}
	entries := []struct {
		name   string
		indent bool
		f      func(x any) ([]byte, error)
	}{
		{"Marshal", false, func(x any) ([]byte, error) { return gojson.Marshal(x) }},
		{"MarshalIndent", true, func(x any) ([]byte, error) { return gojson.MarshalIndent(x, "", " ") }},
		{"Colorize", false, func(x any) ([]byte, error) { return gojson.MarshalWithOption(x, gojson.Colorize(scheme)) }},
		{"Colorize+Indent", true, func(x any) ([]byte, error) {
			return gojson.MarshalIndentWithOption(x, "", " ", gojson.Colorize(scheme))
		}},
		{"MarshalNoEscape", false, func(x any) ([]byte, error) { return gojson.MarshalNoEscape(x) }},
		{"MarshalContext", false, func(x any) ([]byte, error) { return gojson.MarshalContext(context.Background(), x) }},
		{"Encoder+SetIndent+Colorize", true, func(x any) ([]byte, error) {
			var w bytes.Buffer
			enc := gojson.NewEncoder(&w)
			enc.SetIndent("", " ")
			err := enc.EncodeWithOption(x, gojson.Colorize(scheme))
			return bytes.TrimSuffix(w.Bytes(), []byte("\n")), err
		}},
	}
	for i, x := range vals {
		sub := sub0 + i
		if !c.Cur(sub, fmt.Sprintf("shapes=core\ninterface-typed members: %T", x)) {
			continue
		}
		for _, e := range entries {
			var want []byte
			var serr error
			if e.indent {
				want, serr = stdjson.MarshalIndent(x, "", " ")
			} else {
				want, serr = stdjson.Marshal(x)
			}
			if serr != nil {
				continue
			}
			var got []byte
			var gerr error
			pan, msg, _ := rt.Guard(func() { got, gerr = e.f(x) })
			c.Eval(1)
			if pan || gerr != nil || string(got) != string(want) {
				c.Violate(rt.Violation{Monitor: "self-ident", Entry: "interface-member", Kind: "encoded-by-foreign-program", Ctx: e.name,
					Detail: fmt.Sprintf("%T via %s: got %s (err %v %s) want %s", x, e.name, rt.Q(got), gerr, msg, rt.Q(want)), Sub: sub})
			}
		}
		c.NonTrivial("iface-members", fmt.Sprintf("%T", x))
	}
	c.Obs("interface_member_values", int64(len(vals)))
}

// c14GCHook is the dynamic value of an interface member: while its MarshalJSON runs the
// interpreter is inside a nested program and remembers the enclosing one as a return address only.
// It forces a collection and then takes over whatever was freed in the pointer-carrying size
// classes an opcode program lives in.
type c14GCHook struct{}

var c14SizeClasses = []int{64, 80, 96, 112, 128, 144, 160, 176, 192, 208, 224, 240, 256, 288, 320, 352, 384, 416, 448, 480, 512, 576, 640, 704, 768, 896, 1024, 1152, 1280, 1408, 1536, 1792, 2048}

func (h *c14GCHook) MarshalJSON() ([]byte, error) {
	runtime.GC()
	keep := make([][]*int, 0, len(c14SizeClasses)*64)
	for _, size := range c14SizeClasses {
		for i := 0; i < 64; i++ {
			keep = append(keep, make([]*int, size/8))
		}
	}
	runtime.KeepAlive(keep)
	return []byte(`"hook"`), nil
}

var c14StormSeq int64

// c14Storm: a brand-new run-time type is encoded for the first time by several goroutines at once
// (each compiles its own program, one is published, the others stay private to their call) while
// collections run inside the nested program of an interface member. Every call, through every
// encode entry point, must still process the value with the program of its own type from the first
// to the last member: the member names identify the type.
func c14Storm(c *rt.Ctx, sub, rounds int) {
	const workers = 8
	if n := runtime.GOMAXPROCS(0); n < workers+1 {
		defer runtime.GOMAXPROCS(runtime.GOMAXPROCS(workers + 1))
	}
	entries := []struct {
		name string
		f    func(x any) ([]byte, error)
	}{
		{"Marshal", func(x any) ([]byte, error) { return gojson.Marshal(x) }},
		{"MarshalIndent", func(x any) ([]byte, error) { return gojson.MarshalIndent(x, "", "  ") }},
		{"MarshalNoEscape", func(x any) ([]byte, error) { return gojson.MarshalNoEscape(x) }},
		{"MarshalContext", func(x any) ([]byte, error) { return gojson.MarshalContext(context.Background(), x) }},
		{"Encoder.SetIndent", func(x any) ([]byte, error) {
			var w bytes.Buffer
			enc := gojson.NewEncoder(&w)
			enc.SetIndent("", "\t")
			err := enc.Encode(x)
			return w.Bytes(), err
		}},
		{"MarshalIndentWithOption", func(x any) ([]byte, error) {
			return gojson.MarshalIndentWithOption(x, "", " ", gojson.DisableHTMLEscape())
		}},
		{"Encoder", func(x any) ([]byte, error) {
			var w bytes.Buffer
			err := gojson.NewEncoder(&w).Encode(x)
			return w.Bytes(), err
		}},
	}
	for r := 0; r < rounds; r++ {
		id := atomic.AddInt64(&c14StormSeq, 1)*100000 + int64(c.Idx)
		e := entries[r%len(entries)]
		if !c.Cur(sub, fmt.Sprintf("shapes=core\nfirst-use storm round %d: %s", r, e.name)) {
			return
		}
		typ := reflect.StructOf([]reflect.StructField{
			{Name: fmt.Sprintf("A%d", id), Type: reflect.TypeOf((*interface{})(nil)).Elem()},
			{Name: fmt.Sprintf("B%d", id), Type: reflect.TypeOf("")},
			{Name: fmt.Sprintf("C%d", id), Type: reflect.TypeOf(0)},
		})
		rv := reflect.New(typ).Elem()
		rv.Field(0).Set(reflect.ValueOf(&c14GCHook{}))
		rv.Field(1).SetString("b")
		rv.Field(2).SetInt(id)
		v := rv.Interface()
		if r%2 == 1 {
			v = rv.Addr().Interface()
		}
		want := fmt.Sprintf(`{"A%d":"hook","B%d":"b","C%d":%d}`, id, id, id, id)
		var ready, start int32
		var wg sync.WaitGroup
		var mu sync.Mutex
		var bad []string
		for w := 0; w < workers; w++ {
			wg.Add(1)
			go func() {
				defer wg.Done()
				atomic.AddInt32(&ready, 1)
				for atomic.LoadInt32(&start) == 0 {
					runtime.Gosched()
				}
				var got []byte
				var err error
				pan, msg, _ := rt.Guard(func() { got, err = e.f(v) })
				var cb bytes.Buffer
				if !pan && err == nil {
					if cerr := stdjson.Compact(&cb, got); cerr != nil {
						err = fmt.Errorf("output is not JSON: %v", cerr)
					}
				}
				if pan || err != nil || cb.String() != want {
					mu.Lock()
					bad = append(bad, fmt.Sprintf("panic=%v %s err=%v got=%s", pan, msg, err, rt.Q(got)))
					mu.Unlock()
				}
			}()
		}
		for atomic.LoadInt32(&ready) != int32(workers) {
			runtime.Gosched()
		}
		atomic.StoreInt32(&start, 1)
		wg.Wait()
		c.Eval(workers)
		c.Obs("first_use_storm_encodings", workers)
		if len(bad) > 0 {
			c.Violate(rt.Violation{Monitor: "self-ident", Entry: "first-use-storm", Kind: "not-encoded-by-own-program", Ctx: e.name,
				Detail: fmt.Sprintf("%d of %d concurrent first encodings of %v went wrong; want %s; first: %s", len(bad), workers, typ, want, bad[0]), Sub: sub})
		}
	}
	c.NonTrivial("storm", fmt.Sprint(rounds))
}

func c14Drain(c *rt.Ctx, sub int) {
	es, er := gojson.VerifEncCacheTake()
	ds, dr := gojson.VerifDecCacheTake()
	c.Obs("enc_cache_lookups", int64(es.Lookups))
	c.Obs("enc_fast_path", int64(es.FastPath))
	c.Obs("enc_slow_path", int64(es.SlowPath))
	c.Obs("dec_cache_lookups", int64(ds.Lookups))
	c.Obs("dec_fast_path", int64(ds.FastPath))
	c.Obs("dec_slow_path", int64(ds.SlowPath))
	c.ObsMax("enc_slots_populated", int64(es.Slots))
	c.ObsMax("dec_slots_populated", int64(ds.Slots))
	for _, r := range er {
		c.Violate(rt.Violation{Monitor: "cache-identity", Entry: "encoder", Kind: "cache-" + firstWords(r), Ctx: "encoder", Detail: r, Sub: sub})
	}
	for _, r := range dr {
		c.Violate(rt.Violation{Monitor: "cache-identity", Entry: "decoder", Kind: "cache-" + firstWords(r), Ctx: "decoder", Detail: r, Sub: sub})
	}
}

func firstWords(s string) string {
	switch {
	case strings.Contains(s, "handed out for a different type"):
		return "type-identity"
	case strings.Contains(s, "used by two type descriptors"):
		return "slot-collision"
	case strings.Contains(s, "handed out for two type descriptors"):
		return "decoder-shared"
	case strings.Contains(s, "outside the address window"):
		return "slot-outside-window"
	case strings.Contains(s, "geometry"):
		return "geometry-changed"
	}
	return "other"
}

func init() {
	const per = 48
	register(&Prop{
		ID:    "C14",
		Setup: func(c *rt.Ctx) { gojson.VerifCacheArm(true) },
		NumBatches: func(tier string, seed int64) int {
			return (len(zoo14.All)+per-1)/per + 1
		},
		Run: func(c *rt.Ctx) {
			c14DecodeFirst(c, 400000)
			if c.Idx == 0 {
				// first in its (fresh) worker process
				c14RecursivePairs(c)
				c14HeapWindow(c)
				rounds := 28
				if c.Tier == "thorough" {
					rounds = 140
				}
				c14Storm(c, 9, rounds)
				c14IfaceMembers(c, 300000)
				c14NameAlikes(c, 350000)
				return
			}
			c.Idx--
			defer func() { c.Idx++ }()
			// the order in which types are first used follows the seed
			order := rand.New(rand.NewSource(c.Seed)).Perm(len(zoo14.All))
			lo, hi := c.Idx*per, (c.Idx+1)*per
			if hi > len(order) {
				hi = len(order)
			}
			mine := order[lo:hi]
			for pass, phase := range []string{"cold", "warm"} {
				for i, ti := range mine {
					e := zoo14.All[ti]
					sub := pass*1000 + i
					if !c.Cur(sub, fmt.Sprintf("shapes=core\ntype T%06d %s", e.ID, phase)) {
						continue
					}
					c14Check(c, sub, e, phase)
					if i%5 == 0 {
						c14Runtime(c, sub, c.Idx*1000+i)
						c14RuntimeDerived(c, sub, c.Idx*1000+i)
					}
				}
				c14Drain(c, pass)
			}
			for _, ti := range mine {
				c.NonTrivial(fmt.Sprint(zoo14.Population, zoo14.WithPointers, c.Variant, zoo14.All[ti].ID))
			}
			// layout evidence: inferred window and the closest pair of descriptors in this batch
			eb, em, esh, _ := gojson.VerifEncTypeAddr()
			db, dm, dsh, _ := gojson.VerifDecTypeAddr()
			var addrs []uintptr
			for _, ti := range mine {
				addrs = append(addrs, typeAddrOf(zoo14.All[ti].Val(0)))
			}
			sort.Slice(addrs, func(a, b int) bool { return addrs[a] < addrs[b] })
			inWindow := 0
			for _, a := range addrs {
				if a >= eb && a <= em {
					inWindow++
				}
			}
			c.Obs("descriptors_inside_cache_window", int64(inWindow))
			c.Obs("descriptors_outside_cache_window", int64(len(addrs)-inWindow))
			c.ObsMax("addr_shift_encoder", int64(esh))
			c.ObsMax("addr_shift_decoder", int64(dsh))
			c.SetAdd("layout", fmt.Sprintf("population=%d ptr=%v enc[base=%#x max=%#x shift=%d] dec[base=%#x max=%#x shift=%d]", zoo14.Population, zoo14.WithPointers, eb, em, esh, db, dm, dsh))
			if c.Idx == 0 {
				// global closest pair over the whole population (shared by all shards of this binary)
				var all []uintptr
				for _, e := range zoo14.All {
					all = append(all, typeAddrOf(e.Val(0)))
				}
				sort.Slice(all, func(a, b int) bool { return all[a] < all[b] })
				min := ^uintptr(0)
				for i := 1; i < len(all); i++ {
					if d := all[i] - all[i-1]; d < min {
						min = d
					}
				}
				c.SetAdd("closest_descriptor_pair", fmt.Sprintf("population=%d: min distance %d bytes vs slot width %d", zoo14.Population, min, 1<<esh))
				if min < 1<<esh {
					c.Violate(rt.Violation{Monitor: "cache-identity", Entry: "layout", Kind: "two-descriptors-in-one-slot", Ctx: "encoder", Detail: fmt.Sprintf("min distance %d < slot width %d", min, 1<<esh)})
				}
				c.Sample(map[string]any{"population": zoo14.Population, "with_pointer_types": zoo14.WithPointers, "types_in_batch": len(mine), "first": fmt.Sprintf("T%06d", zoo14.All[mine[0]].ID)})
			}
		},
	})
}
