package props

import (
	"bytes"
	"context"
	stdjson "encoding/json"
	"fmt"
	"math/rand"
	"reflect"
	"strings"
	"unicode/utf16"
	"unicode/utf8"

	gojson "github.com/goccy/go-json"

	"verif/harness/oracle"
	"verif/harness/rt"
	"verif/harness/zoo"
)

// C15 — object keys select struct fields exactly as Go's JSON rules prescribe.
//
// Monitor "field-selection": for a struct shape and a key, the set of fields changed by decoding
// {"key":1} (and duplicate-key variants) equals encoding/json's; buffer and stream mode; raw, partly
// and fully \u-escaped spellings. Monitor "member-names": Marshal emits the same member names in
// the same order as encoding/json.

// "/" is the one character of a valid tag name that has a two-character escape; U+10428 is a
// lower-case letter outside the BMP (its \u spelling is a surrogate pair, its upper case U+10400).
var c15Alphabet = []string{"A", "a", "B", "b", "1", "_", "é", "<", "/", string(rune(0x10428))}

// all strings of length 1..n over the alphabet
func c15Strings(n int) []string {
	var out []string
	var rec func(prefix string, d int)
	rec = func(prefix string, d int) {
		if d > 0 {
			out = append(out, prefix)
		}
		if d == n {
			return
		}
		for _, a := range c15Alphabet {
			rec(prefix+a, d+1)
		}
	}
	rec("", 0)
	return out
}

type c15Shape struct {
	t     reflect.Type
	names []string // JSON names by field index ("" for ignored)
	desc  string
}

// structWithNames builds struct{F0 int `json:"n0"`; F1 int `json:"n1"` ...}; a name starting
// with "@" makes the field untagged with that Go name.
func structWithNames(names []string) (t reflect.Type, ok bool) {
	defer func() {
		if recover() != nil {
			ok = false
		}
	}()
	var fs []reflect.StructField
	used := map[string]bool{}
	for i, n := range names {
		f := reflect.StructField{Name: fmt.Sprintf("F%d", i), Type: reflect.TypeOf(0)}
		if strings.HasPrefix(n, "@") {
			f.Name = n[1:]
			if used[f.Name] {
				return nil, false
			}
		} else {
			if strings.ContainsAny(n, "\",\\`") {
				return nil, false
			}
			f.Tag = reflect.StructTag(`json:"` + n + `"`)
		}
		used[f.Name] = true
		fs = append(fs, f)
	}
	return reflect.StructOf(fs), true
}

func jsonNamesOf(t reflect.Type) []string {
	var out []string
	for i := 0; i < t.NumField(); i++ {
		f := t.Field(i)
		n := f.Name
		if tag := f.Tag.Get("json"); tag != "" {
			n = strings.Split(tag, ",")[0]
			if n == "" {
				n = f.Name
			}
		}
		out = append(out, n)
	}
	return out
}

func c15Shapes(r *rand.Rand, count int) []c15Shape {
	pool := c15Strings(3)
	var shapes []c15Shape
	add := func(names []string, desc string) {
		if t, ok := structWithNames(names); ok {
			shapes = append(shapes, c15Shape{t, jsonNamesOf(t), desc})
		}
	}
	// adversarial fixed shapes
	add([]string{"ab", "Ab", "AB", "aB"}, "case-colliding")
	add([]string{"a", "ab", "abA", "abAB"}, "shared-prefixes")
	add([]string{"@A", "@Ab", "@AB", "@A1", "@A_"}, "untagged")
	add([]string{"Ab"}, "single")
	add([]string{"a", "A"}, "case-pair")
	add([]string{"é", "É", "éa", "<", "<a", "a<"}, "multibyte+html")
	add([]string{strings.Repeat("a", 63), strings.Repeat("a", 64), strings.Repeat("a", 65), strings.Repeat("a", 64) + "B", strings.Repeat("A", 70)}, "long-names")
	add([]string{"k1", "k2", "k3", "k4", "k5", "k6", "k7", "k8", "k9", "k10", "k11", "k12", "k13", "k14", "k15", "k16", "k17", "k18", "k19"}, "19-fields")
	add([]string{"K1", "k2", "K3", "k4", "K5", "k6", "K7", "k8", "K9"}, "9-fields-mixed-case")
	add([]string{"a", "a"}, "duplicate-name")
	add([]string{"a", "b", "a"}, "duplicate-name-3")
	for len(shapes) < count {
		n := 1 + r.Intn(8)
		switch r.Intn(3) {
		case 1:
			n = 9 + r.Intn(8)
		case 2:
			n = 17 + r.Intn(6)
		}
		names := make([]string, 0, n)
		seen := map[string]bool{}
		for len(names) < n {
			s := pool[r.Intn(len(pool))]
			if r.Intn(5) == 0 {
				s += pool[r.Intn(len(pool))]
			}
			if seen[s] && r.Intn(20) != 0 {
				continue
			}
			seen[s] = true
			names = append(names, s)
		}
		add(names, fmt.Sprintf("random-%d-fields", n))
	}
	return shapes
}

// lookupClass predicts which of go-json's three key-lookup implementations a struct gets (the
// conditions of structDecoder.tryOptimize): 8-bit bitmap, 16-bit bitmap, or the map fallback.
func lookupClass(names []string) string {
	lower := map[string]string{}
	for _, n := range names {
		l := strings.ToLower(n)
		if l != n && l != asciiFold(n) {
			return "fallback"
		}
		if prev, ok := lower[l]; ok && prev != n {
			return "fallback"
		}
		lower[l] = n
		if len(n) > 64 {
			return "fallback"
		}
	}
	switch {
	case len(lower) <= 8:
		return "bitmap8"
	case len(lower) <= 16:
		return "bitmap16"
	}
	return "fallback"
}

func keyRelation(key string, names []string) string {
	rel := "unrelated"
	rank := map[string]int{"unrelated": 0, "extension": 1, "prefix": 2, "casefold-unicode": 3, "casefold-ascii": 4, "exact": 5}
	for _, n := range names {
		var cur string
		switch {
		case n == key:
			cur = "exact"
		case asciiFold(n) == asciiFold(key):
			cur = "casefold-ascii"
		case strings.EqualFold(n, key):
			cur = "casefold-unicode"
		case strings.HasPrefix(n, key) && key != "":
			cur = "prefix"
		case strings.HasPrefix(key, n) && n != "":
			cur = "extension"
		default:
			continue
		}
		if rank[cur] > rank[rel] {
			rel = cur
		}
	}
	if strings.HasPrefix(rel, "casefold") {
		n := 0
		for _, nm := range names {
			if strings.EqualFold(nm, key) {
				n++
			}
		}
		if n >= 2 {
			rel += "(ambiguous)"
		}
	}
	if len(key) >= 64 {
		rel += "(long)"
	}
	return rel
}

func asciiFold(s string) string {
	b := []byte(s)
	for i, c := range b {
		if c >= 'A' && c <= 'Z' {
			b[i] = c + 32
		}
	}
	return string(b)
}

func spellKey(key string, mode int) string {
	raw := func(ch rune) string {
		q, _ := stdjson.Marshal(string(ch))
		// encoding/json escapes < as a \u escape: spell it raw
		return strings.NewReplacer(`\`+"u003c", "<").Replace(string(q[1 : len(q)-1]))
	}
	if mode == 0 || !utf8.ValidString(key) {
		q, _ := stdjson.Marshal(key)
		return strings.NewReplacer(`\`+"u003c", "<").Replace(string(q))
	}
	var sb strings.Builder
	sb.WriteByte('"')
	for i, ch := range key {
		switch {
		case mode == 3:
			// the two-character escape where JSON has one
			if ch == '/' {
				sb.WriteString(`\/`)
			} else {
				sb.WriteString(raw(ch))
			}
		case mode == 1 && i%2 == 1:
			sb.WriteString(raw(ch))
		case ch < 0x10000:
			fmt.Fprintf(&sb, "%su%04x", `\`, ch)
		default:
			hi, lo := utf16.EncodeRune(ch)
			fmt.Fprintf(&sb, "%su%04x%su%04X", `\`, hi, `\`, lo)
		}
	}
	sb.WriteByte('"')
	return sb.String()
}

func setFields(v reflect.Value) string {
	var parts []string
	for i := 0; i < v.NumField(); i++ {
		if v.Field(i).Kind() == reflect.Int && v.Field(i).Int() != 0 {
			parts = append(parts, fmt.Sprintf("%d=%d", i, v.Field(i).Int()))
		}
	}
	return strings.Join(parts, ",")
}

func c15Decode(c *rt.Ctx, sub int, sh *c15Shape, doc string, key string, spelled string, stream bool) {
	gd, sd := reflect.New(sh.t), reflect.New(sh.t)
	var gerr error
	pan, msg, _ := rt.Guard(func() {
		// the entry point follows the sub-case number (they share the lookup code but not the option
		// handling); a first-win decode of the same document goes first now and then, so that option
		// state left in a pooled context would show as first-wins behaviour
		if sub%5 == 0 {
			gojson.UnmarshalWithOption([]byte(doc), reflect.New(sh.t).Interface(), gojson.DecodeFieldPriorityFirstWin())
		}
		switch {
		case stream && sub%2 == 0:
			gerr = gojson.NewDecoder(&cutReader{[]byte(doc), 5}).Decode(gd.Interface())
		case stream:
			gerr = gojson.NewDecoder(&cutReader{[]byte(doc), 5}).DecodeContext(context.Background(), gd.Interface())
		case sub%3 == 0:
			gerr = gojson.UnmarshalContext(context.Background(), []byte(doc), gd.Interface())
		case sub%3 == 1:
			gerr = gojson.UnmarshalNoEscape([]byte(doc), gd.Interface())
		default:
			gerr = gojson.Unmarshal([]byte(doc), gd.Interface())
		}
	})
	c.Eval(1)
	if pan {
		c.Obs("panics_seen_judged_by_C06", 1)
		_ = msg
		return
	}
	serr := stdjson.Unmarshal([]byte(doc), sd.Interface())
	mode := "buffer"
	if stream {
		mode = "stream"
	}
	base := lookupClass(sh.names) + ":" + keyRelation(key, sh.names) + ":" + spelled + ":" + mode
	input := map[string]any{"type": sh.t.String(), "doc": doc}
	if (gerr != nil) != (serr != nil) {
		out := "go-error"
		if gerr == nil {
			out = "go-accepts"
		}
		c.Violate(rt.Violation{Monitor: "field-selection", Entry: "decode", Kind: "verdict", Ctx: base + ":" + out,
			Detail: fmt.Sprintf("doc %s: go-json err=%v encoding/json err=%v | type %s", doc, gerr, serr, sh.t), Input: input, Sub: sub})
		return
	}
	if serr != nil {
		return
	}
	g, s := setFields(gd.Elem()), setFields(sd.Elem())
	if g != s {
		out := "wrong-field"
		if g == "" {
			out = "missed"
		} else if s == "" {
			out = "spurious"
		}
		c.Violate(rt.Violation{Monitor: "field-selection", Entry: "decode", Kind: "fields-set-differ", Ctx: base + ":" + out,
			Detail: fmt.Sprintf("doc %s: go-json set fields {%s}, encoding/json {%s} | names %q", doc, g, s, sh.names), Input: input, Sub: sub})
	}
}

func c15Encode(c *rt.Ctx, sub int, t reflect.Type, v reflect.Value, desc string) {
	var gb []byte
	var gerr error
	pan, _, _ := rt.Guard(func() { gb, gerr = gojson.Marshal(v.Interface()) })
	c.Eval(1)
	sb, serr := stdjson.Marshal(v.Interface())
	if pan || (gerr != nil) != (serr != nil) {
		c.Violate(rt.Violation{Monitor: "member-names", Entry: "Marshal", Kind: "verdict", Ctx: desc, Detail: fmt.Sprint(pan, gerr, serr, " | type ", t), Sub: sub})
		return
	}
	if serr != nil {
		return
	}
	a, e1 := oracle.Parse(gb)
	b, _ := oracle.Parse(sb)
	if e1 != nil || b == nil || len(a.Keys) != len(b.Keys) || strings.Join(a.Keys, "\x00") != strings.Join(b.Keys, "\x00") {
		c.Violate(rt.Violation{Monitor: "member-names", Entry: "Marshal", Kind: "members-differ", Ctx: desc,
			Detail: fmt.Sprintf("go-json %s encoding/json %s | type %s", gb, sb, t), Sub: sub})
	}
}

func init() {
	register(&Prop{
		ID: "C15",
		NumBatches: func(tier string, seed int64) int {
			if tier == "thorough" {
				return 640 + 25
			}
			return 64 + 25
		},
		Run: func(c *rt.Ctx) {
			nShapes := 64
			keyLen := 2
			if c.Tier == "thorough" {
				nShapes, keyLen = 640, 3
			}
			if c.Idx >= nShapes {
				// compiled zoo types with embedding (depth <= 3, conflicts, shadowing, pointers)
				k := c.Idx - nShapes
				embs := []any{zoo.EmbVal{}, zoo.EmbPtr{}, zoo.EmbConflict{}, zoo.EmbShadow{}, zoo.EmbTagged{}, zoo.EmbUnexp{}, zoo.EmbPtrUnexp{}, zoo.EmbDeep{}, zoo.Tags{}, zoo.One{},
					zoo.EmbL3{}, zoo.EmbL3Ptr{}, zoo.EmbAmbig{}, zoo.EmbTaggedWins{}, zoo.EmbDepthWins{}, zoo.EmbCase{}, zoo.EmbPtrCase{}, zoo.EmbValCase{},
					zoo.EmbPtrColl{}, zoo.EmbValColl{}, zoo.EmbValPtrColl{}, zoo.EmbTwoPtrColl{},
					zoo.EmbHidVal{}, zoo.EmbHidPtr{}, zoo.EmbHidDeep{}}
				x := embs[k%len(embs)]
				t := reflect.TypeOf(x)
				keys := []string{"A", "a", "B", "b", "C", "c", "D", "d", "E", "e", "F", "f", "Z", "z", "X", "x", "Q", "U", "V", "v", "inner", "Inner", "EmbInner", "embinner", "EmbInner2", "EmbDeep", "L1", "L2", "L3", "l3", "T", "t", "W", "w", "One", "renamed", "Renamed", "omit", "str", "-", "Skip", "Dash", "name", "Name", "NAME", "other", "Other", "Plain", "plain",
					"Ab", "ab", "AB", "aB", "CD", "cd", "Cd", "cD", "q"}
				for ki, key := range keys {
					for _, val := range []string{"7", `"s"`, `{"A":5,"b":"x","E":3,"T":4,"W":6}`, "null"} {
						doc := `{` + spellKey(key, 0) + `:` + val + `}`
						sub := ki*10 + len(val)%10
						if !c.Cur(sub, "shapes=core\ntype: "+t.String()+"\ndoc: "+doc) {
							continue
						}
						for _, stream := range []bool{false, true} {
							gd, sd := reflect.New(t), reflect.New(t)
							var gerr error
							pan, _, _ := rt.Guard(func() {
								if stream {
									gerr = gojson.NewDecoder(bytes.NewReader([]byte(doc))).Decode(gd.Interface())
								} else {
									gerr = gojson.Unmarshal([]byte(doc), gd.Interface())
								}
							})
							c.Eval(1)
							if pan {
								c.Obs("panics_seen_judged_by_C06", 1)
								continue
							}
							serr := stdjson.Unmarshal([]byte(doc), sd.Interface())
							ctx := t.Name() + ":" + keyRelation(key, embNames(t))
							if (gerr != nil) != (serr != nil) {
								c.Violate(rt.Violation{Monitor: "field-selection", Entry: "decode-embedded", Kind: "verdict", Ctx: ctx, Detail: fmt.Sprintf("doc %s: go-json err=%v encoding/json err=%v | type %s", doc, gerr, serr, t), Sub: sub})
							} else if serr == nil {
								if d := diffValues(sd.Elem(), gd.Elem(), nil, 0); d != nil {
									gs, _ := stdjson.Marshal(gd.Elem().Interface())
									ss, _ := stdjson.Marshal(sd.Elem().Interface())
									c.Violate(rt.Violation{Monitor: "field-selection", Entry: "decode-embedded", Kind: "fields-set-differ", Ctx: ctx, Detail: fmt.Sprintf("doc %s: go-json %s encoding/json %s | type %s", doc, gs, ss, t), Sub: sub})
								}
							}
						}
						c.NonTrivial(t.String(), doc)
					}
				}
				// encode side for the embedded types
				v := reflect.New(t).Elem()
				fillInts(v, 1)
				c15Encode(c, 9999, t, v, "embedded:"+t.Name())
				c.Sample(map[string]any{"family": "embedded zoo types", "type": t.String(), "keys": len(keys)})
				return
			}
			shapes := c15Shapes(rt.FixedRNG("C15shapes", 0), nShapes)
			if c.Tier == "thorough" {
				// second half of the thorough shapes follows the seed
				more := c15Shapes(rand.New(rand.NewSource(c.Seed)), nShapes/2)
				copy(shapes[nShapes/2:], more[11:])
			}
			sh := &shapes[c.Idx]
			keys := c15Strings(keyLen)
			// prefixes and one-symbol extensions of every field name
			for _, n := range sh.names {
				for i := 1; i < len(n); i++ {
					if utf8.ValidString(n[:i]) {
						keys = append(keys, n[:i])
					}
				}
				for _, a := range c15Alphabet {
					keys = append(keys, n+a)
				}
				keys = append(keys, n, strings.ToUpper(n), strings.ToLower(n))
			}
			sub := 0
			for _, key := range keys {
				if !c.Cur(sub, "shapes=core\ntype: "+sh.t.String()+"\nkey: "+key) {
					sub++
					continue
				}
				for mode, sp := range []string{"raw", "part-escaped", "full-escaped", "short-escaped"} {
					if mode == 3 && !strings.Contains(key, "/") {
						continue
					}
					doc := `{` + spellKey(key, mode) + `:1}`
					c15Decode(c, sub, sh, doc, key, sp, false)
					if mode != 1 {
						c15Decode(c, sub, sh, doc, key, sp, true)
					}
				}
				// duplicates: the last one wins; a second, different key keeps its own field
				if len(sh.names) > 0 {
					other := sh.names[sub%len(sh.names)]
					doc := `{` + spellKey(key, 0) + `:1,` + spellKey(other, 0) + `:2,` + spellKey(key, 0) + `:3}`
					c15Decode(c, sub, sh, doc, key, "raw+duplicates", false)
				}
				sub++
			}
			c.NonTrivialEnum(int64(len(keys)))
			v := reflect.New(sh.t).Elem()
			fillInts(v, 1)
			c15Encode(c, sub, sh.t, v, sh.desc)
			c.SetAdd("shape_classes", lookupClass(sh.names)+"/"+strings.Split(sh.desc, "-")[0])
			if c.Idx%16 == 0 {
				c.Sample(map[string]any{"family": "run-time struct x keys", "names": sh.names, "keys": len(keys), "spellings": 3, "modes": 2})
			}
		},
	})
}

func fillInts(v reflect.Value, start int) {
	for i := 0; i < v.NumField(); i++ {
		f := v.Field(i)
		if f.Kind() == reflect.Int && f.CanSet() {
			f.SetInt(int64(start + i))
		}
	}
}

func embNames(t reflect.Type) []string {
	var out []string
	for _, f := range jsonFields(t, nil, 0) {
		out = append(out, f.name)
	}
	return out
}
