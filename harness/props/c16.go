package props

import (
	"bytes"
	stdjson "encoding/json"
	"fmt"
	"io"
	"math"
	"math/big"
	"reflect"
	"strconv"
	"strings"
	"testing/iotest"

	gojson "github.com/goccy/go-json"

	"verif/harness/oracle"
	"verif/harness/rt"
)

// C16 — integer text conversion is exact; out-of-range input is an error.
//
// Monitor "int-encode": Marshal of every integer kind prints strconv's decimal text, in plain,
// pointer, map-key, ",string" and interface positions. Monitor "int-decode": a decimal literal is
// stored exactly when it fits; a literal that does not fit or is not a JSON integer is an error.
// Oracle: strconv / math/big.

type intKind struct {
	name   string
	t      reflect.Type
	bits   int
	signed bool
}

var intKinds = []intKind{
	{"int8", reflect.TypeOf(int8(0)), 8, true}, {"int16", reflect.TypeOf(int16(0)), 16, true}, {"int32", reflect.TypeOf(int32(0)), 32, true},
	{"int64", reflect.TypeOf(int64(0)), 64, true}, {"int", reflect.TypeOf(int(0)), 64, true},
	{"uint8", reflect.TypeOf(uint8(0)), 8, false}, {"uint16", reflect.TypeOf(uint16(0)), 16, false}, {"uint32", reflect.TypeOf(uint32(0)), 32, false},
	{"uint64", reflect.TypeOf(uint64(0)), 64, false}, {"uint", reflect.TypeOf(uint(0)), 64, false}, {"uintptr", reflect.TypeOf(uintptr(0)), 64, false},
}

func (k intKind) min() *big.Int {
	if !k.signed {
		return big.NewInt(0)
	}
	return new(big.Int).Neg(new(big.Int).Lsh(big.NewInt(1), uint(k.bits-1)))
}
func (k intKind) max() *big.Int {
	if k.signed {
		return new(big.Int).Sub(new(big.Int).Lsh(big.NewInt(1), uint(k.bits-1)), big.NewInt(1))
	}
	return new(big.Int).Sub(new(big.Int).Lsh(big.NewInt(1), uint(k.bits)), big.NewInt(1))
}

// boundary values: within `radius` of every power of two and power of ten, clipped to the range
func (k intKind) boundaries(radius int64) []*big.Int {
	seen := map[string]bool{}
	var out []*big.Int
	add := func(c *big.Int) {
		for d := -radius; d <= radius; d++ {
			v := new(big.Int).Add(c, big.NewInt(d))
			if v.Cmp(k.min()) < 0 || v.Cmp(k.max()) > 0 || seen[v.String()] {
				continue
			}
			seen[v.String()] = true
			out = append(out, v)
		}
	}
	for p := 0; p <= k.bits; p++ {
		c := new(big.Int).Lsh(big.NewInt(1), uint(p))
		add(c)
		add(new(big.Int).Neg(c))
	}
	ten := big.NewInt(1)
	for p := 0; p < 20; p++ {
		add(ten)
		add(new(big.Int).Neg(ten))
		ten = new(big.Int).Mul(ten, big.NewInt(10))
	}
	add(big.NewInt(0))
	return out
}

func setBig(v reflect.Value, b *big.Int) {
	if v.Kind() >= reflect.Int && v.Kind() <= reflect.Int64 {
		v.SetInt(b.Int64())
	} else {
		v.SetUint(b.Uint64())
	}
}

func intText(v reflect.Value) string {
	if v.Kind() >= reflect.Int && v.Kind() <= reflect.Int64 {
		return strconv.FormatInt(v.Int(), 10)
	}
	return strconv.FormatUint(v.Uint(), 10)
}

// encodeBatch checks Marshal on a slice of values in the five positions.
func c16EncodeBatch(c *rt.Ctx, sub int, k intKind, vals []*big.Int) {
	if len(vals) == 0 || !c.Cur(sub, fmt.Sprintf("encode %s %d values from %s", k.name, len(vals), vals[0])) {
		return
	}
	n := len(vals)
	sl := seqOf(k.t, n)
	psl := reflect.MakeSlice(reflect.SliceOf(reflect.PtrTo(k.t)), n, n)
	isl := make([]any, n)
	strT := reflect.StructOf([]reflect.StructField{{Name: "V", Type: k.t, Tag: `json:"v,string"`}})
	ssl := reflect.MakeSlice(reflect.SliceOf(strT), n, n)
	texts := make([]string, n)
	for i, b := range vals {
		setBig(sl.Index(i), b)
		p := reflect.New(k.t)
		setBig(p.Elem(), b)
		psl.Index(i).Set(p)
		isl[i] = sl.Index(i).Interface()
		setBig(ssl.Index(i).Field(0), b)
		texts[i] = intText(sl.Index(i))
	}
	check := func(pos string, x any, want string, each func(i int) (any, string)) {
		var out []byte
		var err error
		pan, msg, _ := rt.Guard(func() { out, err = gojson.Marshal(x) })
		c.Eval(1)
		if !pan && err == nil && string(out) == want {
			return
		}
		// find the first offending element
		for i := 0; i < n; i++ {
			xi, wi := each(i)
			var o []byte
			var e error
			p2, m2, _ := rt.Guard(func() { o, e = gojson.Marshal(xi) })
			c.Eval(1)
			if p2 || e != nil || string(o) != wi {
				c.Violate(rt.Violation{Monitor: "int-encode", Entry: "Marshal", Kind: "wrong-text", Ctx: k.name + ":" + pos + ":" + magClass(vals[i], k),
					Detail: fmt.Sprintf("%s %s at %s: got %q (err %v, panic %v %s) want %q", k.name, vals[i], pos, o, e, p2, m2, wi), Input: vals[i].String(), Sub: sub})
				return
			}
		}
		c.Violate(rt.Violation{Monitor: "int-encode", Entry: "Marshal", Kind: "wrong-text-in-batch-only", Ctx: k.name + ":" + pos,
			Detail: fmt.Sprintf("batch of %d differs (panic %v %s err %v) but every element alone is right", n, pan, msg, err), Sub: sub})
	}
	joined := "[" + strings.Join(texts, ",") + "]"
	check("plain", sl.Interface(), joined, func(i int) (any, string) { return sl.Index(i).Interface(), texts[i] })
	check("pointer", psl.Interface(), joined, func(i int) (any, string) { return psl.Index(i).Interface(), texts[i] })
	check("interface", isl, joined, func(i int) (any, string) { return []any{isl[i]}, "[" + texts[i] + "]" })
	var sb strings.Builder
	sb.WriteByte('[')
	for i, t := range texts {
		if i > 0 {
			sb.WriteByte(',')
		}
		sb.WriteString(`{"v":"` + t + `"}`)
	}
	sb.WriteByte(']')
	check("string-tag", ssl.Interface(), sb.String(), func(i int) (any, string) { return ssl.Index(i).Interface(), `{"v":"` + texts[i] + `"}` })
	// map key: one-entry maps so that ordering plays no role
	for i := 0; i < n; i += 1 + n/64 {
		m := reflect.MakeMap(reflect.MapOf(k.t, reflect.TypeOf(true)))
		m.SetMapIndex(sl.Index(i), reflect.ValueOf(true))
		var o []byte
		var e error
		pan, _, _ := rt.Guard(func() { o, e = gojson.Marshal(m.Interface()) })
		c.Eval(1)
		want := `{"` + texts[i] + `":true}`
		if pan || e != nil || string(o) != want {
			c.Violate(rt.Violation{Monitor: "int-encode", Entry: "Marshal", Kind: "wrong-text", Ctx: k.name + ":map-key:" + magClass(vals[i], k),
				Detail: fmt.Sprintf("map[%s]bool{%s:true}: got %q (err %v panic %v) want %q", k.name, vals[i], o, e, pan, want), Input: vals[i].String(), Sub: sub})
		}
	}
	c.NonTrivialEnum(int64(n))
	c.Obs("encode_values:"+k.name, int64(n))
}

// c16Interpreters: the five positions once more through the other three interpreters (indent,
// colour with a scheme that adds nothing, colour+indent) - each has its own copy of every integer
// opcode; the texts must be the plain ones once the white space is taken out.
func c16Interpreters(c *rt.Ctx, sub int, k intKind, vals []*big.Int) {
	if len(vals) == 0 || !c.Cur(sub, fmt.Sprintf("interpreters %s %d values", k.name, len(vals))) {
		return
	}
	scheme := &gojson.ColorScheme{}
	interps := []struct {
		name string
		f    func(x any) ([]byte, error)
	}{
		{"MarshalIndent", func(x any) ([]byte, error) { return gojson.MarshalIndent(x, "", " ") }},
		{"Colorize", func(x any) ([]byte, error) { return gojson.MarshalWithOption(x, gojson.Colorize(scheme)) }},
		{"Colorize+Indent", func(x any) ([]byte, error) {
			return gojson.MarshalIndentWithOption(x, "", " ", gojson.Colorize(scheme))
		}},
	}
	strT := reflect.StructOf([]reflect.StructField{{Name: "V", Type: k.t, Tag: `json:"v,string"`}})
	memT := reflect.StructOf([]reflect.StructField{{Name: "A", Type: reflect.TypeOf(""), Tag: `json:"a"`}, {Name: "V", Type: k.t, Tag: `json:"v"`}, {Name: "P", Type: reflect.PtrTo(k.t), Tag: `json:"p"`}})
	for _, b := range vals {
		v := reflect.New(k.t).Elem()
		setBig(v, b)
		txt := intText(v)
		p := reflect.New(k.t)
		setBig(p.Elem(), b)
		sv := reflect.New(strT).Elem()
		setBig(sv.Field(0), b)
		mv := reflect.New(memT).Elem()
		mv.Field(0).SetString("a")
		setBig(mv.Field(1), b)
		mv.Field(2).Set(p)
		m := reflect.MakeMap(reflect.MapOf(k.t, reflect.TypeOf(true)))
		m.SetMapIndex(v, reflect.ValueOf(true))
		sl := seqOf(k.t, 2)
		setBig(sl.Index(0), b)
		setBig(sl.Index(1), b)
		cases := []struct {
			pos  string
			x    any
			want string
		}{
			{"plain", sl.Interface(), "[" + txt + "," + txt + "]"}, {"pointer", p.Interface(), txt}, {"interface", []any{v.Interface()}, "[" + txt + "]"},
			{"string-tag", sv.Interface(), `{"v":"` + txt + `"}`}, {"member", mv.Interface(), `{"a":"a","v":` + txt + `,"p":` + txt + `}`}, {"map-key", m.Interface(), `{"` + txt + `":true}`},
			{"map-key-nested", map[string]any{"m": m.Interface()}, `{"m":{"` + txt + `":true}}`},
		}
		for _, cs := range cases {
			for _, ip := range interps {
				var out []byte
				var err error
				pan, msg, _ := rt.Guard(func() { out, err = ip.f(cs.x) })
				c.Eval(1)
				var cb bytes.Buffer
				if !pan && err == nil {
					if e := stdjson.Compact(&cb, out); e != nil {
						cb.Reset()
						cb.Write(out)
					}
				}
				if pan || err != nil || cb.String() != cs.want {
					c.Violate(rt.Violation{Monitor: "int-encode", Entry: ip.name, Kind: "wrong-text", Ctx: k.name + ":" + cs.pos + ":" + magClass(b, k),
						Detail: fmt.Sprintf("%s %s at %s through %s: got %q (err %v panic %v %s) want %q", k.name, b, cs.pos, ip.name, out, err, pan, msg, cs.want), Input: b.String(), Sub: sub})
				}
			}
		}
	}
	c.Obs("interpreter_position_values:"+k.name, int64(len(vals)))
}

func magClass(v *big.Int, k intKind) string {
	switch {
	case v.Sign() == 0:
		return "zero"
	case v.Cmp(k.min()) == 0:
		return "min"
	case v.Cmp(k.max()) == 0:
		return "max"
	case v.Sign() < 0:
		return "negative"
	}
	return "positive"
}

// decodeBatch: in-range literals, batched.
func c16DecodeBatch(c *rt.Ctx, sub int, k intKind, vals []*big.Int) {
	if len(vals) == 0 || !c.Cur(sub, fmt.Sprintf("decode %s %d values from %s", k.name, len(vals), vals[0])) {
		return
	}
	n := len(vals)
	texts := make([]string, n)
	for i, b := range vals {
		texts[i] = b.String()
	}
	doc := "[" + strings.Join(texts, ",") + "]"
	dst := reflect.New(seqOf(k.t, n).Type())
	var err error
	pan, msg, _ := rt.Guard(func() { err = gojson.Unmarshal([]byte(doc), dst.Interface()) })
	c.Eval(1)
	bad := -1
	if pan || err != nil || dst.Elem().Len() != n {
		bad = 0
	} else {
		for i := 0; i < n; i++ {
			if intText(dst.Elem().Index(i)) != texts[i] {
				bad = i
				break
			}
		}
	}
	if bad >= 0 {
		for i := bad; i < n; i++ {
			c16DecodeOne(c, sub, k, "plain", texts[i], vals[i], true)
		}
		_ = msg
	}
	// other positions on a sample
	step := 1 + n/96
	for i := 0; i < n; i += step {
		for _, pos := range []string{"pointer", "map-key", "string-tag", "stream", "stream-1byte", "map-key-escaped", "string-tag-escaped"} {
			c16DecodeOne(c, sub, k, pos, texts[i], vals[i], true)
		}
	}
	c.Obs("decode_values:"+k.name, int64(n))
}

// c16Prefill puts 7 into an integer destination: a decode that fails must leave it there.
func c16Prefill(v reflect.Value) {
	switch v.Kind() {
	case reflect.Int, reflect.Int8, reflect.Int16, reflect.Int32, reflect.Int64:
		v.SetInt(7)
	default:
		v.SetUint(7)
	}
}

// c16DecodeOne decodes one literal at one position. want==nil/valid=false means an error is required.
func c16DecodeOne(c *rt.Ctx, sub int, k intKind, pos, lit string, want *big.Int, valid bool) {
	var err error
	var got string
	run := func() {
		switch pos {
		case "plain":
			d := reflect.New(k.t)
			if !valid {
				c16Prefill(d.Elem())
			}
			err = gojson.Unmarshal([]byte(lit), d.Interface())
			got = intText(d.Elem())
		case "stream", "stream-1byte":
			d := reflect.New(k.t)
			if !valid {
				c16Prefill(d.Elem())
			}
			var rd io.Reader = strings.NewReader(lit)
			if pos == "stream-1byte" {
				// every byte arrives in a read of its own: the token continues behind each refill
				rd = iotest.OneByteReader(rd)
			}
			err = gojson.NewDecoder(rd).Decode(d.Interface())
			got = intText(d.Elem())
		case "pointer":
			d := reflect.New(reflect.PtrTo(k.t))
			if !valid {
				// an allocated pointee that already holds a number
				pv := reflect.New(k.t)
				c16Prefill(pv.Elem())
				d.Elem().Set(pv)
			}
			err = gojson.Unmarshal([]byte(lit), d.Interface())
			if !d.Elem().IsNil() {
				got = intText(d.Elem().Elem())
			} else if err == nil {
				got = "<nil pointer>"
			}
		case "map-key", "map-key-escaped":
			d := reflect.New(reflect.MapOf(k.t, reflect.TypeOf(true)))
			err = gojson.Unmarshal([]byte(`{"`+c16Spell(lit, pos)+`":true}`), d.Interface())
			if err == nil {
				ks := d.Elem().MapKeys()
				if len(ks) == 1 {
					got = intText(ks[0])
				} else {
					got = fmt.Sprintf("<%d keys>", len(ks))
				}
			}
		case "string-tag", "string-tag-escaped":
			st := reflect.StructOf([]reflect.StructField{{Name: "V", Type: k.t, Tag: `json:"v,string"`}})
			d := reflect.New(st)
			if !valid {
				c16Prefill(d.Elem().Field(0))
			}
			err = gojson.Unmarshal([]byte(`{"v":"`+c16Spell(lit, pos)+`"}`), d.Interface())
			got = intText(d.Elem().Field(0))
		}
	}
	pan, msg, _ := rt.Guard(run)
	c.Eval(1)
	cls := litClass(lit, k)
	switch {
	case pan:
		c.Obs("panics_seen_judged_by_C06", 1)
		_ = msg
	case valid && err != nil:
		c.Violate(rt.Violation{Monitor: "int-decode", Entry: "Unmarshal", Kind: "rejects-fitting-literal", Ctx: k.name + ":" + pos + ":" + cls,
			Detail: fmt.Sprintf("%s literal %s at %s: %v", k.name, lit, pos, err), Input: lit, Sub: sub})
	case valid && got != want.String():
		c.Violate(rt.Violation{Monitor: "int-decode", Entry: "Unmarshal", Kind: "wrong-value", Ctx: k.name + ":" + pos + ":" + cls,
			Detail: fmt.Sprintf("%s literal %s at %s stored %s", k.name, lit, pos, got), Input: lit, Sub: sub})
	case !valid && err != nil && !strings.HasPrefix(pos, "map-key") && got != "7" && got != "":
		// the error is reported, but a number was stored all the same
		c.Violate(rt.Violation{Monitor: "int-decode", Entry: "Unmarshal", Kind: "stores-on-error:" + cls, Ctx: k.name + ":" + pos,
			Detail: fmt.Sprintf("%s literal %q at %s: error %v, but the destination went from 7 to %s", k.name, lit, pos, err, got), Input: lit, Sub: sub})
	case !valid && err == nil && strings.HasPrefix(pos, "stream") && (cls == "leading-zero" || cls == "non-digit"):
		// A Decoder reads one value and leaves what follows in the stream: "01" is the value 0
		// followed by 1, "1-" the value 1 followed by a stray byte, for encoding/json's Decoder
		// as well. The property demands an error from Unmarshal; here only a wrong stored value
		// would count, and the prefix value is the right one.
		c.Obs("stream_prefix_values_not_judged", 1)
	case !valid && err == nil:
		c.Violate(rt.Violation{Monitor: "int-decode", Entry: "Unmarshal", Kind: "accepts:" + cls, Ctx: k.name + ":" + pos,
			Detail: fmt.Sprintf("%s literal %q at %s accepted, stored %s", k.name, lit, pos, got), Input: lit, Sub: sub})
	}
}

// c16Spell spells a literal inside a JSON string: as it is, or (positions "...-escaped") with every
// second ASCII character written as a six-character escape, which makes the string decoder hand
// an unescaped copy, not a window into the input, to the wrapped integer decoder.
func c16Spell(lit, pos string) string {
	if !strings.HasSuffix(pos, "-escaped") {
		return lit
	}
	var sb strings.Builder
	for i := 0; i < len(lit); i++ {
		if lit[i] < 0x80 && i%2 == 0 {
			sb.WriteString("\\" + "u00" + fmt.Sprintf("%02x", lit[i]))
		} else {
			sb.WriteByte(lit[i])
		}
	}
	return sb.String()
}

// litClass names what is wrong (or special) about a literal for kind k.
func litClass(lit string, k intKind) string {
	s := lit
	neg := strings.HasPrefix(s, "-")
	if neg {
		s = s[1:]
	}
	switch {
	case s == "" && neg:
		return "bare-minus"
	case s == "":
		return "empty"
	case strings.HasPrefix(lit, "+"):
		return "plus-sign"
	case strings.ContainsAny(s, ".") && strings.ContainsAny(s, "eE"):
		return "fraction+exponent"
	case strings.ContainsAny(s, "."):
		return "fraction"
	case strings.ContainsAny(s, "eE"):
		return "exponent"
	case len(s) > 1 && s[0] == '0':
		return "leading-zero"
	}
	for _, ch := range s {
		if ch < '0' || ch > '9' {
			return "non-digit"
		}
	}
	b, _ := new(big.Int).SetString(lit, 10)
	switch {
	case neg && !k.signed && b.Sign() != 0:
		return "negative-into-unsigned"
	case b.Cmp(k.max()) > 0 && b.Cmp(new(big.Int).Add(k.max(), big.NewInt(1<<16))) <= 0:
		return "overflow-near"
	case b.Cmp(k.max()) > 0:
		return "overflow-far"
	case b.Cmp(k.min()) < 0 && b.Cmp(new(big.Int).Sub(k.min(), big.NewInt(1<<16))) >= 0:
		return "underflow-near"
	case b.Cmp(k.min()) < 0:
		return "underflow-far"
	case lit == "-0":
		return "minus-zero"
	}
	return "in-range"
}

func c16InvalidLiterals(c *rt.Ctx, sub int, k intKind, r interface{ Intn(int) int }) {
	if !c.Cur(sub, "invalid literals for "+k.name) {
		return
	}
	var lits []string
	one := big.NewInt(1)
	// just beyond the range and far beyond it, 1..25 digits
	for d := int64(1); d <= 70000; d = d*3 + 1 {
		lits = append(lits, new(big.Int).Add(k.max(), big.NewInt(d)).String(), new(big.Int).Sub(k.min(), big.NewInt(d)).String())
	}
	lits = append(lits, new(big.Int).Add(k.max(), one).String(), new(big.Int).Sub(k.min(), one).String())
	for digits := len(k.max().String()); digits <= 25; digits++ {
		lits = append(lits, "1"+strings.Repeat("0", digits), "-1"+strings.Repeat("0", digits), strings.Repeat("9", digits), "-"+strings.Repeat("9", digits))
	}
	for _, m := range []int64{2, 10, 16, 256, 65536} {
		lits = append(lits, new(big.Int).Mul(k.max(), big.NewInt(m)).String(), new(big.Int).Mul(new(big.Int).Add(k.max(), one), big.NewInt(m)).String())
	}
	// digit patterns of the range's own length and up to two digits more: every leading digit
	// followed by zeros, by nines, by one non-zero digit at every position, and by drawn digits
	// (multiplication and addition steps of a hand-written parser overflow, or just do not,
	// independently of each other)
	for digits := len(k.max().String()); digits <= len(k.max().String())+2; digits++ {
		for lead := byte('1'); lead <= '9'; lead++ {
			base := string(lead) + strings.Repeat("0", digits-1)
			lits = append(lits, base, "-"+base, string(lead)+strings.Repeat("9", digits-1))
			for pos := 1; pos < digits; pos++ {
				b := []byte(base)
				b[pos] = byte('1' + (pos+int(lead))%9)
				lits = append(lits, string(b))
			}
			for j := 0; j < 3; j++ {
				b := []byte(base)
				for pos := 1; pos < digits; pos++ {
					b[pos] = byte('0' + r.Intn(10))
				}
				lits = append(lits, string(b), "-"+string(b))
			}
		}
	}
	// not JSON integers
	lits = append(lits, "-", "01", "00", "-01", "007", "+1", "1.0", "1.5", "0.0", "1.", ".5", "1e2", "1E2", "1e0", "1e+2", "2e-1", "1.0e1", "-1.0", "-", "--1", "1-", "0x1", "1_0", "１")
	nt := 0
	for _, lit := range lits {
		cls := litClass(lit, k)
		if cls == "in-range" || cls == "minus-zero" {
			continue
		}
		for _, pos := range []string{"plain", "pointer", "map-key", "string-tag", "stream", "stream-1byte", "map-key-escaped", "string-tag-escaped"} {
			c16DecodeOne(c, sub, k, pos, lit, nil, false)
		}
		nt++
	}
	// -0 is a valid JSON integer with value 0
	for _, pos := range []string{"plain", "pointer", "string-tag", "stream", "stream-1byte", "string-tag-escaped"} {
		if k.signed {
			c16DecodeOne(c, sub, k, pos, "-0", big.NewInt(0), true)
		}
	}
	c.NonTrivialEnum(int64(nt))
	c.Obs("invalid_literals:"+k.name, int64(nt))
}

func init() {
	register(&Prop{
		ID: "C16",
		NumBatches: func(tier string, seed int64) int {
			if tier == "thorough" {
				// 11 boundary batches + 11 invalid + 2*16 exhaustive 32-bit shards (x64 sub-batches) + random
				return 11 + 11 + 512 + 64
			}
			return 11 + 11 + 32
		},
		Run: func(c *rt.Ctx) {
			const chunk = 4096
			runVals := func(k intKind, vals []*big.Int, sub0 int) int {
				sub := sub0
				for i := 0; i < len(vals); i += chunk {
					j := i + chunk
					if j > len(vals) {
						j = len(vals)
					}
					c16EncodeBatch(c, sub, k, vals[i:j])
					c16DecodeBatch(c, sub+1, k, vals[i:j])
					sub += 2
				}
				return sub
			}
			switch {
			case c.Idx < 11:
				k := intKinds[c.Idx]
				var vals []*big.Int
				if k.bits <= 16 {
					for v := new(big.Int).Set(k.min()); v.Cmp(k.max()) <= 0; v = new(big.Int).Add(v, big.NewInt(1)) {
						vals = append(vals, v)
					}
				} else {
					radius := int64(4096)
					if c.Tier == "thorough" {
						radius = 1 << 16
						if k.bits == 32 {
							radius = 1 << 12 // the whole 32-bit range is enumerated by the shard batches
						}
					}
					vals = k.boundaries(radius)
				}
				runVals(k, vals, 0)
				c16Positions(c, 9000, k, k.boundaries(1))
				c16StoreWidth(c, 9050, k)
				c16Interpreters(c, 9060, k, k.boundaries(1))
				c16StreamBoundary(c, 9100, k, []*big.Int{k.max(), k.min(), new(big.Int).Quo(k.max(), big.NewInt(3)), new(big.Int).Quo(k.min(), big.NewInt(7)), big.NewInt(10), big.NewInt(-10), big.NewInt(99)})
				c.Sample(map[string]any{"family": "boundary/exhaustive", "kind": k.name, "values": len(vals), "first": vals[0].String(), "last": vals[len(vals)-1].String()})
			case c.Idx < 22:
				k := intKinds[c.Idx-11]
				c16InvalidLiterals(c, 0, k, c.RNG(0))
				c.Sample(map[string]any{"family": "invalid literals", "kind": k.name})
			default:
				j := c.Idx - 22
				if c.Tier == "thorough" && j < 512 {
					// exhaustive 32-bit: 512 shards of 2^24 values, alternating int32 / uint32 (no big.Int
					// on this path: 2^33 values are encoded and decoded)
					signed := j%2 == 0
					shard := int64(j / 2)
					k := intKinds[2]
					if !signed {
						k = intKinds[7]
					}
					base := shard << 24
					if signed {
						base += math.MinInt32
					}
					const chunk32 = 8192
					i32 := make([]int32, chunk32)
					u32 := make([]uint32, chunk32)
					buf := make([]byte, 0, chunk32*12)
					sub := 0
					for off := int64(0); off < 1<<24; off += chunk32 {
						buf = append(buf[:0], '[')
						for n := int64(0); n < chunk32; n++ {
							v := base + off + n
							if n > 0 {
								buf = append(buf, ',')
							}
							if signed {
								i32[n] = int32(v)
							} else {
								u32[n] = uint32(v)
							}
							buf = strconv.AppendInt(buf, v, 10)
						}
						buf = append(buf, ']')
						if !c.Cur(sub, fmt.Sprintf("exhaustive %s from %d", k.name, base+off)) {
							sub++
							continue
						}
						var out []byte
						var err error
						ok := true
						if signed {
							out, err = gojson.Marshal(i32)
							var back []int32
							err2 := gojson.Unmarshal(buf, &back)
							ok = err == nil && err2 == nil && string(out) == string(buf) && len(back) == chunk32
							for n := 0; ok && n < chunk32; n++ {
								ok = back[n] == i32[n]
							}
						} else {
							out, err = gojson.Marshal(u32)
							var back []uint32
							err2 := gojson.Unmarshal(buf, &back)
							ok = err == nil && err2 == nil && string(out) == string(buf) && len(back) == chunk32
							for n := 0; ok && n < chunk32; n++ {
								ok = back[n] == u32[n]
							}
						}
						c.Eval(2)
						if !ok {
							// fall back to the slow, localising path for this chunk
							vals := make([]*big.Int, 0, chunk32)
							for n := int64(0); n < chunk32; n++ {
								vals = append(vals, big.NewInt(base+off+n))
							}
							c16EncodeBatch(c, sub, k, vals)
							c16DecodeBatch(c, sub, k, vals)
						}
						sub++
					}
					c.NonTrivialEnum(1 << 24)
					c.Obs("exhaustive32_values", 1<<24)
					return
				}
				// PRNG values of the wide kinds
				r := c.RNG(0)
				for ki, k := range intKinds {
					if k.bits < 32 {
						continue
					}
					var vals []*big.Int
					for i := 0; i < 2048; i++ {
						var v *big.Int
						if k.signed {
							x := int64(r.Uint64()) >> uint(r.Intn(64))
							if k.bits == 32 {
								x = int64(int32(x))
							}
							v = big.NewInt(x)
						} else {
							x := r.Uint64() >> uint(r.Intn(64))
							if k.bits == 32 {
								x = uint64(uint32(x))
							}
							v = new(big.Int).SetUint64(x)
						}
						vals = append(vals, v)
					}
					runVals(k, vals, ki*100)
				}
				_ = math.MaxInt8
			}
		},
	})
}

// c16EncodeBatchFast: plain-position encode and decode of a dense batch (thorough exhaustive tier).
// seqOf returns an addressable sequence of n elements: a slice, or an array for uint8 ([]uint8 is
// base64 in JSON, [n]uint8 is an array of numbers).
func seqOf(t reflect.Type, n int) reflect.Value {
	if t.Kind() == reflect.Uint8 {
		return reflect.New(reflect.ArrayOf(n, t)).Elem()
	}
	return reflect.MakeSlice(reflect.SliceOf(t), n, n)
}

func c16EncodeBatchFast(c *rt.Ctx, sub int, k intKind, vals []*big.Int) {
	if !c.Cur(sub, fmt.Sprintf("exhaustive %s from %s", k.name, vals[0])) {
		return
	}
	n := len(vals)
	sl := reflect.MakeSlice(reflect.SliceOf(k.t), n, n)
	var sb strings.Builder
	sb.Grow(n * 12)
	sb.WriteByte('[')
	for i, b := range vals {
		setBig(sl.Index(i), b)
		if i > 0 {
			sb.WriteByte(',')
		}
		sb.WriteString(b.String())
	}
	sb.WriteByte(']')
	want := sb.String()
	out, err := gojson.Marshal(sl.Interface())
	c.Eval(1)
	if err != nil || string(out) != want {
		c16EncodeBatch(c, sub, k, vals)
	}
	dst := reflect.New(reflect.SliceOf(k.t))
	err = gojson.Unmarshal([]byte(want), dst.Interface())
	c.Eval(1)
	if err != nil || !reflect.DeepEqual(dst.Elem().Interface(), sl.Interface()) {
		c16DecodeBatch(c, sub, k, vals)
	}
	c.NonTrivialEnum(int64(n))
}

// c16PositionTypes: one struct type per way an integer member can be compiled - first or later
// member, value or pointer, plain / omitempty / string / both - because the encoder has a separate
// opcode for each combination (in each of its four interpreters).
func c16PositionTypes(k intKind) []reflect.Type {
	pk := reflect.PtrTo(k.t)
	variants := []struct {
		name string
		t    reflect.Type
		tag  string
	}{{"H", k.t, `json:"h"`}, {"S", k.t, `json:"s,string"`}, {"O", k.t, `json:"o,omitempty"`}, {"OS", k.t, `json:"os,omitempty,string"`},
		{"P", pk, `json:"p"`}, {"PS", pk, `json:"ps,string"`}, {"PO", pk, `json:"po,omitempty"`}, {"POS", pk, `json:"pos,omitempty,string"`}}
	var all []reflect.StructField
	for _, v := range variants {
		all = append(all, reflect.StructField{Name: v.name, Type: v.t, Tag: reflect.StructTag(v.tag)})
	}
	all = append(all, reflect.StructField{Name: "T", Type: k.t, Tag: `json:"t,string"`})
	types := []reflect.Type{reflect.StructOf(all)}
	for _, v := range variants {
		f := reflect.StructField{Name: v.name, Type: v.t, Tag: reflect.StructTag(v.tag)}
		ign := reflect.StructField{Name: "Ign", Type: reflect.TypeOf([3]int16{}), Tag: `json:"-"`}
		types = append(types, reflect.StructOf([]reflect.StructField{f}),
			reflect.StructOf([]reflect.StructField{f, {Name: "X", Type: k.t, Tag: `json:"x"`}}),
			// the first encoded member is not at offset 0 (an ignored member precedes it), and a member in last position
			reflect.StructOf([]reflect.StructField{ign, f, {Name: "X", Type: k.t, Tag: `json:"x"`}}),
			reflect.StructOf([]reflect.StructField{ign, f}),
			reflect.StructOf([]reflect.StructField{{Name: "X", Type: k.t, Tag: `json:"x"`}, f}))
	}
	return types
}

func c16Positions(c *rt.Ctx, sub int, k intKind, vals []*big.Int) {
	if !c.Cur(sub, fmt.Sprintf("member positions %s", k.name)) {
		return
	}
	types := c16PositionTypes(k)
	for _, b := range vals {
		for ti, t := range types {
			for _, nilPtrs := range []bool{false, true} {
				if nilPtrs && ti > 0 {
					hasPtr := false
					for i := 0; i < t.NumField(); i++ {
						hasPtr = hasPtr || t.Field(i).Type.Kind() == reflect.Ptr
					}
					if !hasPtr {
						continue
					}
				}
				x := reflect.New(t).Elem()
				for i := 0; i < t.NumField(); i++ {
					f := x.Field(i)
					switch {
					case f.Kind() == reflect.Array:
						for j := 0; j < f.Len(); j++ {
							f.Index(j).SetInt(int64(30600 + j))
						}
					case f.Kind() == reflect.Ptr:
						if !nilPtrs {
							f.Set(reflect.New(k.t))
							setBig(f.Elem(), b)
						}
					default:
						setBig(f, b)
					}
				}
				for _, how := range []string{"value", "pointer", "interface", "indent"} {
					var in any = x.Interface()
					switch how {
					case "pointer":
						in = x.Addr().Interface()
					case "interface":
						in = []any{x.Interface()}
					}
					var got, want []byte
					var gerr, serr error
					pan, msg, _ := rt.Guard(func() {
						if how == "indent" {
							got, gerr = gojson.MarshalIndent(in, "", " ")
						} else {
							got, gerr = gojson.Marshal(in)
						}
					})
					if how == "indent" {
						want, serr = stdjson.MarshalIndent(in, "", " ")
					} else {
						want, serr = stdjson.Marshal(in)
					}
					c.Eval(1)
					if serr != nil {
						continue
					}
					if pan || gerr != nil || string(got) != string(want) {
						where := "?"
						if a, e1 := oracle.Parse(got); e1 == nil {
							if r, e2 := oracle.Parse(want); e2 == nil {
								if how == "interface" && len(a.Kids) == 1 && len(r.Kids) == 1 {
									a, r = a.Kids[0], r.Kids[0]
								}
								for i := range r.Keys {
									if i >= len(a.Keys) || a.Keys[i] != r.Keys[i] || !oracle.Equal(a.Kids[i], r.Kids[i]) {
										where = r.Keys[i]
										break
									}
								}
								if where == "?" && len(a.Keys) > len(r.Keys) {
									where = "extra:" + a.Keys[len(r.Keys)]
								}
							}
						}
						first := "later"
						if t.NumField() <= 2 {
							first = fmt.Sprintf("first-of-%d", t.NumField())
						}
						np := ""
						if nilPtrs {
							np = ":nil"
						}
						c.Violate(rt.Violation{Monitor: "int-encode", Entry: "Marshal", Kind: "wrong-text", Ctx: k.name + ":member[" + where + "]:" + first + ":" + how + np + ":" + magClass(b, k),
							Detail: fmt.Sprintf("%s %s in %s (%s): got %q (err %v panic %v %s) want %q", k.name, b, t, how, got, gerr, pan, msg, want), Input: b.String(), Sub: sub})
						continue
					}
					if how != "value" {
						continue
					}
					back := reflect.New(t)
					var derr error
					pan, msg, _ = rt.Guard(func() { derr = gojson.Unmarshal(want, back.Interface()) })
					c.Eval(1)
					// (the ignored member is not part of the document: it is left out of the comparison)
					exp := reflect.New(t).Elem()
					exp.Set(x)
					for i := 0; i < t.NumField(); i++ {
						if exp.Field(i).Kind() == reflect.Array {
							exp.Field(i).Set(reflect.Zero(exp.Field(i).Type()))
						}
					}
					if pan || derr != nil || !reflect.DeepEqual(back.Elem().Interface(), exp.Interface()) {
						gb, _ := stdjson.Marshal(back.Elem().Interface())
						c.Violate(rt.Violation{Monitor: "int-decode", Entry: "Unmarshal", Kind: "member-wrong-value", Ctx: k.name + ":members:" + magClass(b, k),
							Detail: fmt.Sprintf("%s into %s: got %s (err %v panic %v %s)", want, t, gb, derr, pan, msg), Input: b.String(), Sub: sub})
					}
				}
			}
		}
		c.NonTrivial("positions", k.name, b.String())
	}
	c.Obs("member_position_values:"+k.name, int64(len(vals)))
	c.Obs("member_position_types", int64(len(types)))
}

// c16StoreWidth: the store a decoder makes has the width of the destination kind - the bytes
// directly behind an integer member, element or key belong to someone else. Guard bytes (not part of
// the document) follow the destination in memory; plain and ,string members, array elements, through
// Unmarshal and a Decoder.
func c16StoreWidth(c *rt.Ctx, sub int, k intKind) {
	if !c.Cur(sub, fmt.Sprintf("store width %s", k.name)) {
		return
	}
	guard := reflect.StructField{Name: "G", Type: reflect.TypeOf([9]uint8{}), Tag: `json:"-"`}
	types := []reflect.Type{
		reflect.StructOf([]reflect.StructField{{Name: "V", Type: k.t, Tag: `json:"v"`}, guard}),
		reflect.StructOf([]reflect.StructField{{Name: "V", Type: k.t, Tag: `json:"v,string"`}, guard}),
		reflect.StructOf([]reflect.StructField{{Name: "A", Type: reflect.TypeOf(uint8(0)), Tag: `json:"-"`}, {Name: "V", Type: k.t, Tag: `json:"v"`}, guard}),
		reflect.StructOf([]reflect.StructField{{Name: "V", Type: reflect.ArrayOf(1, k.t), Tag: `json:"v"`}, guard}),
		reflect.StructOf([]reflect.StructField{{Name: "V", Type: reflect.ArrayOf(3, k.t), Tag: `json:"v"`}, guard}),
	}
	vals := []*big.Int{k.min(), k.max(), big.NewInt(1), big.NewInt(0)}
	if k.signed {
		vals = append(vals, big.NewInt(-1))
	}
	for ti, t := range types {
		for _, b := range vals {
			lit := b.String()
			var doc string
			switch ti {
			case 1:
				doc = `{"v":"` + lit + `"}`
			case 3:
				doc = `{"v":[` + lit + `]}`
			case 4:
				doc = `{"v":[0,0,` + lit + `]}`
			default:
				doc = `{"v":` + lit + `}`
			}
			for _, stream := range []bool{false, true} {
				dst := reflect.New(t)
				g := dst.Elem().FieldByName("G")
				for i := 0; i < g.Len(); i++ {
					g.Index(i).SetUint(0xA5)
				}
				if a := dst.Elem().FieldByName("A"); a.IsValid() {
					a.SetUint(0x5A)
				}
				var err error
				pan, msg, _ := rt.Guard(func() {
					if stream {
						err = gojson.NewDecoder(strings.NewReader(doc)).Decode(dst.Interface())
					} else {
						err = gojson.Unmarshal([]byte(doc), dst.Interface())
					}
				})
				c.Eval(1)
				bad := ""
				for i := 0; i < g.Len(); i++ {
					if g.Index(i).Uint() != 0xA5 {
						bad = fmt.Sprintf("guard byte %d behind the destination is %#x", i, g.Index(i).Uint())
						break
					}
				}
				if a := dst.Elem().FieldByName("A"); bad == "" && a.IsValid() && a.Uint() != 0x5A {
					bad = fmt.Sprintf("the byte in front of the destination is %#x", a.Uint())
				}
				v := dst.Elem().FieldByName("V")
				if v.Kind() == reflect.Array {
					v = v.Index(v.Len() - 1)
				}
				if bad == "" && !pan && err == nil && intText(v) != lit {
					bad = "stored " + intText(v)
				}
				if pan || err != nil || bad != "" {
					c.Violate(rt.Violation{Monitor: "int-decode", Entry: "Unmarshal", Kind: "store-width", Ctx: k.name + ":" + []string{"member", "string-member", "member-behind-byte", "array1", "array3"}[ti] + ":" + magClass(b, k),
						Detail: fmt.Sprintf("%s into %s (stream=%v): %s err=%v panic=%v %s", doc, t, stream, bad, err, pan, msg), Input: lit, Sub: sub})
				}
			}
		}
	}
	c.Obs("store_width_decodes:"+k.name, int64(len(types)*len(vals)*2))
}

// c16StreamBoundary: an integer literal that straddles the end of the stream decoder's buffer (511,
// 1023 bytes: the refill reallocates), at every split position of the literal; plain, member and
// element positions. The value must be the literal's, and Decoder must agree with Unmarshal.
func c16StreamBoundary(c *rt.Ctx, sub int, k intKind, vals []*big.Int) {
	if !c.Cur(sub, fmt.Sprintf("stream buffer boundary inside a literal, %s", k.name)) {
		return
	}
	st := reflect.StructOf([]reflect.StructField{{Name: "P", Type: reflect.TypeOf(""), Tag: `json:"p"`}, {Name: "V", Type: k.t, Tag: `json:"v"`}, {Name: "W", Type: reflect.PtrTo(k.t), Tag: `json:"w"`}})
	sl := reflect.SliceOf(k.t)
	n := 0
	for _, b := range vals {
		lit := b.String()
		if len(lit) < 2 || b.Cmp(k.min()) < 0 || b.Cmp(k.max()) > 0 {
			continue
		}
		for _, boundary := range []int{511, 1023} {
			for j := 1; j < len(lit); j++ {
				docs := []struct {
					doc string
					t   reflect.Type
					get func(v reflect.Value) reflect.Value
				}{
					{"[" + strings.Repeat(" ", boundary-1-j) + lit + ",7]", sl, func(v reflect.Value) reflect.Value { return v.Index(0) }},
					{`{"p":"` + strings.Repeat("p", boundary-13-j) + `","v":` + lit + `,"w":3}`, st, func(v reflect.Value) reflect.Value { return v.Field(1) }},
					{`{"p":"` + strings.Repeat("p", boundary-13-j) + `","w":` + lit + `,"v":3}`, st, func(v reflect.Value) reflect.Value { return v.Field(2).Elem() }},
				}
				for di, d := range docs {
					sv, bv := reflect.New(d.t), reflect.New(d.t)
					var serr, berr error
					pan, msg, _ := rt.Guard(func() {
						serr = gojson.NewDecoder(strings.NewReader(d.doc)).Decode(sv.Interface())
						berr = gojson.Unmarshal([]byte(d.doc), bv.Interface())
					})
					c.Eval(2)
					n++
					bad := ""
					switch {
					case pan:
						bad = "panic: " + msg
					case serr != nil || berr != nil:
						bad = fmt.Sprintf("Decoder err=%v Unmarshal err=%v", serr, berr)
					case intText(d.get(sv.Elem())) != lit:
						bad = "Decoder stored " + intText(d.get(sv.Elem()))
					case intText(d.get(bv.Elem())) != lit:
						bad = "Unmarshal stored " + intText(d.get(bv.Elem()))
					}
					if bad != "" {
						c.Violate(rt.Violation{Monitor: "int-decode", Entry: "Decoder", Kind: "literal-across-refill", Ctx: fmt.Sprintf("%s:%s:%s", k.name, []string{"element", "member", "pointer-member"}[di], magClass(b, k)),
							Detail: fmt.Sprintf("%s literal %s split after %d digit(s) at byte %d: %s", k.name, lit, j, boundary, bad), Input: lit, Sub: sub})
					}
				}
			}
		}
	}
	c.Obs("stream_boundary_literal_decodes", int64(n))
}
