package props

import (
	"bytes"
	stdjson "encoding/json"
	"fmt"
	"io"
	"reflect"
	"strconv"
	"strings"
	"sync"
	"unicode"
	"unicode/utf8"

	gojson "github.com/goccy/go-json"

	"verif/harness/oracle"
	"verif/harness/rt"
	"verif/harness/zoo"
)

// C17 — string escaping and unescaping are faithful for every byte sequence.
//
// Monitor "str-encode": the literal emitted for a Go string decodes (reference unescaper) to the
// original with invalid UTF-8 replaced by U+FFFD, has no raw control character, and with HTML
// escaping on no raw < > & U+2028 U+2029; as value and as map key, for the escape-flag combinations.
// Monitor "str-decode": a valid JSON string literal decodes to exactly what encoding/json yields, as
// value, object key, ,string payload and UnmarshalText input, in buffer and stream mode.

func refNormalize(s string) string {
	if utf8.ValidString(s) {
		return s
	}
	var sb strings.Builder
	for i := 0; i < len(s); {
		r, size := utf8.DecodeRuneInString(s[i:])
		if r == utf8.RuneError && size == 1 {
			sb.WriteRune(utf8.RuneError)
		} else {
			sb.WriteString(s[i : i+size])
		}
		i += size
	}
	return sb.String()
}

type strEnc struct {
	name   string
	html   bool
	normal bool
	f      func(x any) ([]byte, error)
}

var strEncs = []strEnc{
	{"Marshal", true, true, func(x any) ([]byte, error) { return gojson.Marshal(x) }},
	{"DisableHTMLEscape", false, true, func(x any) ([]byte, error) { return gojson.MarshalWithOption(x, gojson.DisableHTMLEscape()) }},
	{"DisableNormalizeUTF8", true, false, func(x any) ([]byte, error) { return gojson.MarshalWithOption(x, gojson.DisableNormalizeUTF8()) }},
	{"DisableHTMLEscape+DisableNormalizeUTF8", false, false, func(x any) ([]byte, error) {
		return gojson.MarshalWithOption(x, gojson.DisableHTMLEscape(), gojson.DisableNormalizeUTF8())
	}},
	{"MarshalIndent", true, true, func(x any) ([]byte, error) { return gojson.MarshalIndent(x, "", " ") }},
}

func byteClass(b byte) string {
	switch {
	case b < 0x20:
		return "control"
	case b == '"':
		return "quote"
	case b == '\\':
		return "backslash"
	case b == '<' || b == '>' || b == '&':
		return "html"
	case b == 0x7f:
		return "del"
	case b < 0x80:
		return "ascii"
	case b < 0xc0:
		return "cont"
	case b < 0xe0:
		return "lead2"
	case b < 0xf0:
		return "lead3"
	}
	return "lead4+"
}

func strClass(s string) string {
	set := map[string]bool{}
	for i := 0; i < len(s); i++ {
		set[byteClass(s[i])] = true
	}
	if strings.Contains(s, "\xe2\x80\xa8") || strings.Contains(s, "\xe2\x80\xa9") {
		set["u2028/9"] = true
	}
	var ks []string
	for _, k := range []string{"control", "quote", "backslash", "html", "del", "cont", "lead2", "lead3", "lead4+", "u2028/9"} {
		if set[k] {
			ks = append(ks, k)
		}
	}
	if len(ks) == 0 {
		return "ascii"
	}
	return strings.Join(ks, "+")
}

// literal-level checks on one emitted string literal (with quotes)
func litViolations(lit string, html bool) string {
	inner := lit[1 : len(lit)-1]
	for i := 0; i < len(inner); i++ {
		if inner[i] < 0x20 {
			return "raw-control-character"
		}
	}
	if html {
		if strings.ContainsAny(inner, "<>&") {
			return "raw-html-character"
		}
		if strings.Contains(inner, "\xe2\x80\xa8") || strings.Contains(inner, "\xe2\x80\xa9") {
			return "raw-u2028/9"
		}
	}
	return ""
}

func c17EncodeBatch(c *rt.Ctx, sub int, strs []string) {
	if len(strs) == 0 || !c.Cur(sub, fmt.Sprintf("encode %d strings from %q", len(strs), strs[0])) {
		return
	}
	for ei := range strEncs {
		e := &strEncs[ei]
		var out []byte
		var err error
		pan, msg, _ := rt.Guard(func() { out, err = e.f(strs) })
		c.Eval(1)
		if pan || err != nil {
			c.Violate(rt.Violation{Monitor: "str-encode", Entry: e.name, Kind: "encode-failed", Ctx: "batch", Detail: fmt.Sprint(msg, err), Sub: sub})
			continue
		}
		n, perr := oracle.Parse(out)
		if perr != nil || n.Kind != 'a' || len(n.Kids) != len(strs) {
			// locate the culprit individually
			for _, s := range strs {
				c17EncodeOne(c, sub, e, s)
			}
			continue
		}
		for i, s := range strs {
			kid := n.Kids[i]
			want := refNormalize(s)
			if !e.normal && !utf8.ValidString(s) {
				// normalisation off: invalid bytes pass through raw; the reference unescaper turns
				// them into U+FFFD as well, so the comparison still applies
			}
			lit := string(out[kid.Start:kid.End])
			bad := ""
			if kid.Kind != 's' {
				bad = "not-a-string"
			} else if kid.Str != want {
				bad = "content-differs"
			} else if v := litViolations(lit, e.html); v != "" {
				bad = v
			} else if e.normal && !utf8.ValidString(lit) {
				// "decodes by any conforming parser": a strict parser rejects ill-formed UTF-8, so with
				// normalisation on the literal itself has to be well formed (the lenient reference
				// unescaper above would turn raw invalid bytes into U+FFFD and hide them)
				bad = "ill-formed-utf8-in-literal"
			}
			if bad != "" {
				c.Violate(rt.Violation{Monitor: "str-encode", Entry: e.name, Kind: bad, Ctx: "value:" + strClass(s),
					Detail: fmt.Sprintf("string %q emitted as %s (decodes to %q)", s, lit, kid.Str), Input: s, Sub: sub})
			}
		}
	}
	// as map keys (one-entry maps) on a sample
	step := 1 + len(strs)/128
	for i := 0; i < len(strs); i += step {
		s := strs[i]
		for _, ei := range []int{0, 1} {
			e := &strEncs[ei]
			var out []byte
			var err error
			pan, _, _ := rt.Guard(func() { out, err = e.f(map[string]int{s: 1}) })
			c.Eval(1)
			if pan || err != nil {
				c.Violate(rt.Violation{Monitor: "str-encode", Entry: e.name, Kind: "encode-failed", Ctx: "key:" + strClass(s), Detail: fmt.Sprintf("%q: %v", s, err), Input: s, Sub: sub})
				continue
			}
			n, perr := oracle.Parse(out)
			bad := ""
			if perr != nil || n.Kind != 'o' || len(n.Keys) != 1 {
				bad = "malformed"
			} else if n.Keys[0] != refNormalize(s) {
				bad = "content-differs"
			} else if j := bytes.LastIndexByte(out, ':'); j > 2 {
				if v := litViolations(string(out[1:j]), e.html); v != "" {
					bad = v
				} else if e.normal && !utf8.Valid(out[1:j]) {
					bad = "ill-formed-utf8-in-literal"
				}
			}
			if bad != "" {
				c.Violate(rt.Violation{Monitor: "str-encode", Entry: e.name, Kind: bad, Ctx: "key:" + strClass(s), Detail: fmt.Sprintf("key %q emitted as %s", s, out), Input: s, Sub: sub})
			}
		}
	}
	c.NonTrivialEnum(int64(len(strs)))
	c.Obs("encode_strings", int64(len(strs)))
}

func c17EncodeOne(c *rt.Ctx, sub int, e *strEnc, s string) {
	var out []byte
	var err error
	pan, msg, _ := rt.Guard(func() { out, err = e.f(s) })
	c.Eval(1)
	if pan || err != nil {
		c.Violate(rt.Violation{Monitor: "str-encode", Entry: e.name, Kind: "encode-failed", Ctx: "value:" + strClass(s), Detail: fmt.Sprintf("%q: %v %v", s, msg, err), Input: s, Sub: sub})
		return
	}
	n, perr := oracle.Parse(out)
	switch {
	case perr != nil || n.Kind != 's':
		c.Violate(rt.Violation{Monitor: "str-encode", Entry: e.name, Kind: "malformed-literal", Ctx: "value:" + strClass(s), Detail: fmt.Sprintf("string %q emitted as %q: %v", s, out, perr), Input: s, Sub: sub})
	case n.Str != refNormalize(s):
		c.Violate(rt.Violation{Monitor: "str-encode", Entry: e.name, Kind: "content-differs", Ctx: "value:" + strClass(s), Detail: fmt.Sprintf("string %q emitted as %s", s, out), Input: s, Sub: sub})
	case e.normal && !utf8.Valid(out):
		c.Violate(rt.Violation{Monitor: "str-encode", Entry: e.name, Kind: "ill-formed-utf8-in-literal", Ctx: "value:" + strClass(s), Detail: fmt.Sprintf("string %q emitted as %q", s, out), Input: s, Sub: sub})
	}
}

// ---- decode side

// literal units: plain, each simple escape, \u of each class, raw multi-byte
var litUnits = buildLitUnits()

func uesc(hex string) string { return "\\" + "u" + hex }

func buildLitUnits() []string {
	bs := "\\"
	u := []string{"a", "Z", " ", "/", bs + `"`, bs + bs, bs + "/", bs + "b", bs + "f", bs + "n", bs + "r", bs + "t"}
	for _, h := range []string{"0041", "0000", "001f", "007f", "00e9", "20ac", "2028", "ffff", "fffd", "FFFD", "d83d", "de00", "d800", "dfff", "D83D", "DE00"} {
		u = append(u, uesc(h))
	}
	u = append(u, uesc("d83d")+uesc("de00"), "\u00e9", "\u20ac", "\U0001F600", "\u2028", "<", "&")
	return u
}

type cutReader struct {
	b    []byte
	size int
}

func (r *cutReader) Read(p []byte) (int, error) {
	if len(r.b) == 0 {
		return 0, io.EOF
	}
	n := r.size
	if n > len(r.b) {
		n = len(r.b)
	}
	if n > len(p) {
		n = len(p)
	}
	copy(p, r.b[:n])
	r.b = r.b[n:]
	return n, nil
}

type strPos struct {
	name string
	// build the document around literal L (with quotes) and decode with both libraries
	run func(L string, stream int) (gv string, gerr error, sv string, serr error)
}

func decBoth(doc string, stream int, gdst, sdst any) (error, error) {
	var gerr error
	if stream < 0 {
		// one cut: the first Read delivers -stream bytes, the second the rest
		gerr = gojson.NewDecoder(&chunkReader{data: []byte(doc), cuts: []int{-stream}, failAt: -1}).Decode(gdst)
	} else if stream > 0 {
		gerr = gojson.NewDecoder(&cutReader{[]byte(doc), stream}).Decode(gdst)
	} else {
		gerr = gojson.Unmarshal([]byte(doc), gdst)
	}
	return gerr, stdjson.Unmarshal([]byte(doc), sdst)
}

var strPositions = []strPos{
	{"value", func(L string, st int) (string, error, string, error) {
		var g, s string
		ge, se := decBoth(L, st, &g, &s)
		return g, ge, s, se
	}},
	{"iface", func(L string, st int) (string, error, string, error) {
		var g, s any
		ge, se := decBoth("["+L+"]", st, &g, &s)
		return fmt.Sprint(g), ge, fmt.Sprint(s), se
	}},
	{"key", func(L string, st int) (string, error, string, error) {
		g, s := map[string]int{}, map[string]int{}
		ge, se := decBoth("{"+L+":1}", st, &g, &s)
		return fmt.Sprint(g), ge, fmt.Sprint(s), se
	}},
	{"struct-field", func(L string, st int) (string, error, string, error) {
		var g, s struct {
			A int
			V string `json:"v"`
			B int
		}
		ge, se := decBoth(`{"A":1,"v":`+L+`,"B":2}`, st, &g, &s)
		return fmt.Sprint(g), ge, fmt.Sprint(s), se
	}},
	{"string-tag", func(L string, st int) (string, error, string, error) {
		var g, s struct {
			V string `json:"v,string"`
		}
		// the payload of a ,string string field is a JSON string holding a JSON string literal
		inner, _ := stdjson.Marshal(L)
		ge, se := decBoth(`{"v":`+string(inner)+`}`, st, &g, &s)
		return g.V, ge, s.V, se
	}},
	{"unmarshal-text", func(L string, st int) (string, error, string, error) {
		var g, s zoo.UT
		ge, se := decBoth(L, st, &g, &s)
		return g.Text, ge, s.Text, se
	}},
	{"struct-key", func(L string, st int) (string, error, string, error) {
		// L spells the name of a struct member (when its content can be a tag name); siblings
		// share a prefix with it, so the key lookup has to decode the escapes to tell them apart
		var name string
		if stdjson.Unmarshal([]byte(L), &name) != nil || !validTagName(name) {
			return "", nil, "", nil
		}
		t := structKeyType(name)
		g, s := reflect.New(t), reflect.New(t)
		ge, se := decBoth(`{"A":1,`+L+`:7,"B":2}`, st, g.Interface(), s.Interface())
		return fmt.Sprint(g.Elem().Interface()), ge, fmt.Sprint(s.Elem().Interface()), se
	}},
	{"text-key", func(L string, st int) (string, error, string, error) {
		g, s := map[zoo.UTS]int{}, map[zoo.UTS]int{}
		ge, se := decBoth("{"+L+":1}", st, &g, &s)
		return fmt.Sprint(g), ge, fmt.Sprint(s), se
	}},
}

func validTagName(n string) bool {
	if n == "" || n == "-" || len(n) > 40 {
		return false
	}
	for _, c := range n {
		switch {
		case strings.ContainsRune("!#$%&()*+-./:;<=>?@[]^_{|}~ ", c):
		case c == utf8.RuneError:
			return false
		case !unicode.IsLetter(c) && !unicode.IsDigit(c):
			return false
		}
	}
	return true
}

var structKeyTypes sync.Map

func structKeyType(name string) reflect.Type {
	if t, ok := structKeyTypes.Load(name); ok {
		return t.(reflect.Type)
	}
	tag := func(n string) reflect.StructTag { return reflect.StructTag(`json:` + strconv.Quote(n)) }
	r0, _ := utf8.DecodeRuneInString(name)
	fs := []reflect.StructField{
		{Name: "A", Type: reflect.TypeOf(0)},
		{Name: "P", Type: reflect.TypeOf(0), Tag: tag(string(r0) + "~")},
		{Name: "F", Type: reflect.TypeOf(0), Tag: tag(name)},
		{Name: "X", Type: reflect.TypeOf(0), Tag: tag(name + "x")},
		{Name: "B", Type: reflect.TypeOf(0)},
	}
	t := reflect.StructOf(fs)
	structKeyTypes.Store(name, t)
	return t
}

func litUnitClass(L string) string {
	set := map[string]bool{}
	bs := "\\"
	lower := strings.ToLower(L)
	for i := 0; i+1 < len(lower); i++ {
		if lower[i] != bs[0] {
			continue
		}
		switch lower[i+1] {
		case 'u':
			if i+3 < len(lower) && lower[i+2] == 'd' && lower[i+3] >= '8' && lower[i+3] <= 'b' {
				set["high-surrogate"] = true
			} else if i+3 < len(lower) && lower[i+2] == 'd' && lower[i+3] >= 'c' {
				set["low-surrogate"] = true
			} else {
				set["u-escape"] = true
			}
		default:
			set["simple-escape"] = true
		}
		i++
	}
	if !isASCII([]byte(L)) {
		set["multibyte"] = true
	}
	var ks []string
	for _, k := range []string{"simple-escape", "u-escape", "high-surrogate", "low-surrogate", "multibyte"} {
		if set[k] {
			ks = append(ks, k)
		}
	}
	if len(ks) == 0 {
		return "plain"
	}
	return strings.Join(ks, "+")
}

func c17DecodeLit(c *rt.Ctx, sub int, L string, streams []int) {
	if !c.Cur(sub, "decode literal "+L) {
		return
	}
	for pi := range strPositions {
		p := &strPositions[pi]
		for _, st := range streams {
			var gv, sv string
			var gerr, serr error
			pan, msg, _ := rt.Guard(func() { gv, gerr, sv, serr = p.run(L, st) })
			c.Eval(1)
			mode := "buffer"
			if st != 0 {
				mode = "stream"
			}
			if pan {
				c.Obs("panics_seen_judged_by_C06", 1)
				_ = msg
				continue
			}
			if p.name == "struct-key" && sv != "" {
				c.Obs("struct_key_decodes", 1)
			}
			ctx := p.name + ":" + mode + ":" + litUnitClass(L)
			switch {
			case (gerr != nil) != (serr != nil):
				kind := "rejects-valid-literal"
				if gerr == nil {
					kind = "accepts-where-reference-errors"
				}
				c.Violate(rt.Violation{Monitor: "str-decode", Entry: p.name, Kind: kind, Ctx: ctx, Detail: fmt.Sprintf("literal %s (chunk %d): go-json err=%v, encoding/json err=%v", L, st, gerr, serr), Input: L, Sub: sub})
			case gerr == nil && gv != sv:
				c.Violate(rt.Violation{Monitor: "str-decode", Entry: p.name, Kind: "content-differs", Ctx: ctx, Detail: fmt.Sprintf("literal %s (chunk %d): go-json %q, encoding/json %q", L, st, gv, sv), Input: L, Sub: sub})
			}
		}
	}
}

func init() {
	nu := len(litUnits)
	register(&Prop{
		ID: "C17",
		NumBatches: func(tier string, seed int64) int {
			if tier == "thorough" {
				return 1 + 256 + 256 + 64 + nu*nu
			}
			return 1 + 256 + 32 + nu
		},
		Run: func(c *rt.Ctx) {
			thorough := c.Tier == "thorough"
			encA, encC := 1, 257+32
			if thorough {
				encC = 257 + 256 + 64
			}
			switch {
			case c.Idx == 0:
				// lengths 0 and 1
				strs := []string{""}
				for b := 0; b < 256; b++ {
					strs = append(strs, string([]byte{byte(b)}))
				}
				c17EncodeBatch(c, 0, strs)
				c.Sample(map[string]any{"family": "encode: all byte strings of length 0..1", "strings": len(strs)})
			case c.Idx < 257:
				// length 2 with first byte fixed (and, thorough, length 3 in 256 sub-batches)
				b0 := byte(c.Idx - encA)
				strs := make([]string, 0, 256)
				for b1 := 0; b1 < 256; b1++ {
					strs = append(strs, string([]byte{b0, byte(b1)}))
				}
				c17EncodeBatch(c, 0, strs)
				if thorough {
					for b1 := 0; b1 < 256; b1++ {
						strs = strs[:0]
						for b2 := 0; b2 < 256; b2++ {
							strs = append(strs, string([]byte{b0, byte(b1), byte(b2)}))
						}
						c17EncodeBatch(c, 1+b1, strs)
					}
				}
			case c.Idx < encC:
				// lengths 4..40: every byte class at every offset relative to the 8-byte window
				r := c.RNG(0)
				if c.Idx == 257 {
					// every lead byte E0..FF with second bytes at the edges of the ranges the validator
					// distinguishes (80 8F 90 9F A0 BF and their outer neighbours), continuation bytes at
					// both ends of their range: well-formed and ill-formed three- and four-byte sequences
					var edge []string
					for lead := 0xe0; lead <= 0xff; lead++ {
						for _, b1 := range []byte{0x7f, 0x80, 0x8f, 0x90, 0x9f, 0xa0, 0xbf, 0xc0} {
							for _, b2 := range []byte{0x80, 0xbf} {
								edge = append(edge, string([]byte{byte(lead), b1, b2}), "ab"+string([]byte{byte(lead), b1, b2})+"cdefgh")
								for _, b3 := range []byte{0x80, 0xbf, 0x41} {
									edge = append(edge, string([]byte{byte(lead), b1, b2, b3}), "abcdef"+string([]byte{byte(lead), b1, b2, b3})+"g")
								}
							}
						}
					}
					c17EncodeBatch(c, 1, edge)
				}
				specials := []string{"\x00", "\x1f", "\"", "\\", "<", ">", "&", "\x7f", "\x80", "\xbf", "\xc2", "\xc3\xa9", "\xe2", "\xe2\x80", "\xe2\x80\xa8", "\xe2\x80\xa9", "\xe2\x82\xac", "\xed\xa0\x80",
					"\xf0\x9f\x98\x80", "\xf0\x9f", "\xf8", "\xff", "\n", "\t", "\r", "\b", "\f", "\xef\xbf\xbd", "\xc0\xaf", "\xf4\x90\x80\x80"}
				var strs []string
				k := c.Idx - 257
				for L := 4; L <= 40; L++ {
					for off := 0; off <= L; off++ {
						sp := specials[(k+L+off)%len(specials)]
						if r.Intn(3) == 0 {
							sp = specials[r.Intn(len(specials))]
						}
						base := []byte(strings.Repeat("abcdefgh", 6)[:L])
						s := string(base[:off]) + sp + string(base[off:])
						if r.Intn(4) == 0 {
							sp2 := specials[r.Intn(len(specials))]
							j := r.Intn(len(s) + 1)
							s = s[:j] + sp2 + s[j:]
						}
						strs = append(strs, s)
					}
				}
				c17EncodeBatch(c, 0, strs)
				for _, s := range strs[:8] {
					c.NonTrivial("enc-long", s)
				}
				if k == 0 {
					c.Sample(map[string]any{"family": "encode: specials at every offset of the 8-byte window", "strings": len(strs), "example": strs[17]})
				}
			default:
				// decode: literals over the unit alphabet
				k := c.Idx - encC
				streams := []int{0, 1, 3, 7}
				var lits []string
				if thorough {
					u0, u1 := litUnits[k/nu], litUnits[k%nu]
					lits = append(lits, `"`+u0+u1+`"`)
					for _, u2 := range litUnits {
						lits = append(lits, `"`+u0+u1+u2+`"`)
						for _, u3 := range litUnits {
							lits = append(lits, `"`+u0+u1+u2+u3+`"`)
						}
					}
				} else {
					u0 := litUnits[k]
					lits = append(lits, `"`+u0+`"`)
					if k == 0 {
						lits = append(lits, `""`)
					}
					for _, u1 := range litUnits {
						lits = append(lits, `"`+u0+u1+`"`)
						for _, u2 := range litUnits {
							lits = append(lits, `"`+u0+u1+u2+`"`)
						}
					}
				}
				if k == 1 {
					// every hexadecimal digit character (both cases) in every position of an escape,
					// alone and in both halves of a surrogate pair: the digit tables are hand-written
					const hexd = "0123456789abcdefABCDEF"
					for _, base := range []string{"0041", "00e9", "20ac", "fffd"} {
						for pos := 0; pos < 4; pos++ {
							for _, d := range hexd {
								h := base[:pos] + string(d) + base[pos+1:]
								lits = append(lits, `"x`+uesc(h)+`y"`)
							}
						}
					}
					for pos := 0; pos < 4; pos++ {
						for _, d := range hexd {
							hi := "d83d"[:pos] + string(d) + "d83d"[pos+1:]
							lo := "de00"[:pos] + string(d) + "de00"[pos+1:]
							lits = append(lits, `"`+uesc(hi)+uesc("de00")+`"`, `"`+uesc("d83d")+uesc(lo)+`"`, `"`+uesc(hi)+uesc(lo)+`z"`)
						}
					}
				}
				if k == 2 {
					// raw (unescaped) characters: for every lead byte C2..F4 the first and the last
					// code point that starts with it - the scanners classify lead bytes through
					// hand-written case lists and tables
					seen := map[byte]bool{}
					add := func(cp rune) {
						ch := string(cp)
						lits = append(lits, `"`+ch+`"`, `"ab`+ch+`"`, `"`+ch+`cdefghij"`, `"x`+ch+ch+`y"`)
					}
					var prev rune = -1
					for cp := rune(0x80); cp <= 0x10FFFF; cp++ {
						if cp >= 0xD800 && cp <= 0xDFFF {
							continue
						}
						lead := string(cp)[0]
						if !seen[lead] {
							seen[lead] = true
							if prev >= 0 {
								add(prev) // the last code point of the previous lead byte
							}
							add(cp)
						}
						prev = cp
						if cp >= 0x800 && cp&0x3f == 0 {
							cp += 0x3e // lead bytes change at multiples of 64 at the earliest
						}
					}
					add(0x10FFFF)
				}
				if k == 3 || k == 4 {
					// an escape (or a multi-byte character) at the end of what the stream decoder reads
					// first (511/512 bytes, then 1023/1024): document lengths around the boundary, with
					// nothing or little behind the escape, read in one piece and in pieces that end there
					base := 505
					if k == 4 {
						base = 1017
					}
					var blits []string
					for total := base; total <= base+16; total++ {
						for _, esc := range []string{uesc("d800"), uesc("dc00"), uesc("d83d") + uesc("de00"), uesc("00e9"), "\\n", "\u00e9", "\U0001F600", uesc("d83d") + "x"} {
							for _, tail := range []string{"", "b", "bcdefg"} {
								n := total - 2 - len(esc) - len(tail)
								if n < 0 {
									continue
								}
								blits = append(blits, `"`+strings.Repeat("a", n)+esc+tail+`"`)
							}
						}
					}
					for i, L := range blits {
						if !stdjson.Valid([]byte(L)) || !utf8.ValidString(L) {
							continue
						}
						c17DecodeLit(c, 500000+i, L, []int{0, 1 << 20, 512, 511, 256})
					}
					c.Obs("refill_boundary_literals", int64(len(blits)))
				}
				// longer literals so that escapes straddle the 8-byte window and the stream chunks
				r := c.RNG(1)
				for i := 0; i < 24; i++ {
					var sb strings.Builder
					sb.WriteByte('"')
					sb.WriteString(strings.Repeat("x", r.Intn(20)))
					for j := 0; j < 2+r.Intn(6); j++ {
						sb.WriteString(litUnits[r.Intn(nu)])
						sb.WriteString(strings.Repeat("y", r.Intn(9)))
					}
					sb.WriteByte('"')
					lits = append(lits, sb.String())
				}
				for i, L := range lits {
					if !stdjson.Valid([]byte(L)) {
						c.Inconclusive("generated literal is not valid JSON: " + L)
						continue
					}
					if !utf8.ValidString(L) {
						c.Obs("outside_domain_invalid_utf8_literal", 1)
						continue
					}
					c17DecodeLit(c, i, L, streams)
					// the long literals (the last 24) and every 23rd other one also with one cut at every
					// position of the document: all of the first piece is decoded without a refill
					if i >= len(lits)-24 || i%23 == 0 {
						var cuts []int
						for k := 1; k < len(L)+10; k++ {
							cuts = append(cuts, -k)
						}
						c17DecodeLit(c, i, L, cuts)
					}
				}
				c.NonTrivialEnum(int64(len(lits)))
				c.Obs("decode_literals", int64(len(lits)))
				if k == 3 {
					c.Sample(map[string]any{"family": "decode: literals over 32 units", "first_unit": litUnits[k%nu], "literals": len(lits), "example": lits[len(lits)/2], "positions": len(strPositions), "chunk_sizes": streams})
				}
			}
		},
	})
}
