package props

import (
	"bytes"
	stdjson "encoding/json"
	"fmt"
	"runtime"
	"strings"

	gojson "github.com/goccy/go-json"

	"verif/harness/gen"
	"verif/harness/oracle"
	"verif/harness/rt"
)

// C18 — Compact, Indent, HTMLEscape and Valid match encoding/json.
//
// Monitors:
//   util-bytes     valid text: bytes appended by Compact/Indent equal encoding/json's, for every
//                  prefix/indent and for empty and pre-filled destination buffers
//   util-idem      Compact∘Compact and Indent∘Indent are the identity on their own output
//   util-reject    invalid text: an error is returned and the destination buffer is unchanged
//   util-htmlesc   valid text: HTMLEscape output is token-equivalent and free of raw < > & U+2028/9;
//                  invalid text: the destination buffer is left as it was
//   util-valid     Valid agrees with encoding/json.Valid

var c18Indents = [][2]string{{"", ""}, {"", " "}, {"", "\t"}, {">", " "}, {"→", "→ "}, {" ", ""}}
var c18Pre = []string{"", "PRE"}

// utilRelax: the relaxations that may explain an acceptance by Compact/Indent (buffer scanners).
func utilExplain(b []byte) string {
	type rn = struct {
		Name string
		R    oracle.Relax
	}
	var rx []rn
	for _, r := range oracle.RelaxNames {
		if r.Scope == "buf" || r.Scope == "compact" {
			rx = append(rx, rn{r.Name, r.R})
		}
	}
	for i := range rx {
		if oracle.Recognise(b, rx[i].R) {
			return "relax=" + rx[i].Name
		}
	}
	for i := range rx {
		for k := i + 1; k < len(rx); k++ {
			if oracle.Recognise(b, rx[i].R|rx[k].R) {
				return "relax=" + rx[i].Name + " + relax=" + rx[k].Name
			}
		}
	}
	for i := range rx {
		for k := i + 1; k < len(rx); k++ {
			for m := k + 1; m < len(rx); m++ {
				if oracle.Recognise(b, rx[i].R|rx[k].R|rx[m].R) {
					return "relax=" + rx[i].Name + " + relax=" + rx[k].Name + " + relax=" + rx[m].Name
				}
			}
		}
	}
	return "relax=unexplained"
}

// diffClass describes where two outputs first differ, in terms of the reference output.
func diffClass(ref, act []byte) string {
	i := 0
	for i < len(ref) && i < len(act) && ref[i] == act[i] {
		i++
	}
	switch {
	case i == len(ref) && i < len(act):
		if len(bytes.TrimSpace(act[i:])) == 0 {
			return "extra-trailing-whitespace"
		}
		return "extra-trailing-bytes"
	case i == len(act) && i < len(ref):
		if len(bytes.TrimSpace(ref[i:])) == 0 {
			return "missing-trailing-whitespace"
		}
		return "truncated"
	}
	// inside which token of the reference?
	inStr := false
	esc := false
	for k := 0; k < i; k++ {
		c := ref[k]
		if inStr {
			if esc {
				esc = false
			} else if c == '\\' {
				esc = true
			} else if c == '"' {
				inStr = false
			}
		} else if c == '"' {
			inStr = true
		}
	}
	if inStr {
		return "inside-string"
	}
	c := ref[i]
	switch {
	case c == ' ' || c == '\n' || c == '\t' || c == '\r':
		return "whitespace"
	case c == '-' || (c >= '0' && c <= '9') || c == '.' || c == 'e' || c == 'E' || c == '+':
		return "number"
	case strings.ContainsRune("{}[],:", rune(c)):
		return "punctuation"
	}
	return "other"
}

func c18Check(c *rt.Ctx, sub int, b []byte) {
	if !c.Cur(sub, rt.Q(b)) {
		return
	}
	ref := oracle.Recognise(b, 0)
	stdValid := stdjson.Valid(b)
	overDeep := false // grammatical, but beyond the nesting limit: no lenience of a scanner explains an acceptance
	if stdValid != ref {
		if ref && nestingDepth(b) > 10000 {
			// encoding/json's nesting limit (10000 levels), which go-json shares: such a text is
			// rejected by all four functions there, and must be here
			c.Obs("beyond_depth_limit_judged_as_rejected", 1)
			ref, overDeep = false, true
		} else {
			c.Inconclusive("reference disagreement on " + rt.Q(b))
			return
		}
	}
	// ---- Valid
	var gv bool
	if pan, _, _ := rt.Guard(func() { gv = gojson.Valid(b) }); pan {
		c.Obs("panics_seen_judged_by_C06", 1)
		gv = stdValid
	}
	c.Eval(1)
	if gv != stdValid {
		if gv {
			e := &c05Entry{name: "Valid", stream: true}
			vctx := c05Explain(b, e)
			if overDeep {
				vctx = "beyond-depth-limit"
			}
			c.Violate(rt.Violation{Monitor: "util-valid", Entry: "Valid", Kind: "ok-vs-err", Ctx: vctx, Detail: "Valid(" + rt.Q(b) + ") = true, encoding/json.Valid = false", Input: string(b), Sub: sub})
		} else {
			ctx := "valid-text-rejected:" + docClass(b)
			if hasFloatRangeNumber(b) {
				ctx = "valid-text-rejected:float64-range-number"
			}
			c.Violate(rt.Violation{Monitor: "util-valid", Entry: "Valid", Kind: "err-vs-ok", Ctx: ctx, Detail: "Valid(" + rt.Q(b) + ") = false, encoding/json.Valid = true", Input: string(b), Sub: sub})
		}
	}
	// ---- Compact / Indent
	type op struct {
		name string
		gof  func(*bytes.Buffer, []byte) error
		stdf func(*bytes.Buffer, []byte) error
	}
	ops := []op{{"Compact", func(d *bytes.Buffer, s []byte) error { return gojson.Compact(d, s) }, func(d *bytes.Buffer, s []byte) error { return stdjson.Compact(d, s) }}}
	// the seed picks which indent pairs beyond the first two are used for this input
	pick := int(rt.Mix(uint64(c.Seed), rt.HashStr(string(b))) % uint64(len(c18Indents)))
	deep := nestingDepth(b) > 600
	for k, pi := range c18Indents {
		if k >= 2 && k != pick {
			continue
		}
		if deep && (pi[0] != "" || pi[1] != "") && k != 1 {
			continue // indentation output grows with depth squared
		}
		if deep && k == 1 && nestingDepth(b) > 5000 {
			continue
		}
		pi := pi
		ops = append(ops, op{"Indent[" + pi[0] + "|" + pi[1] + "]",
			func(d *bytes.Buffer, s []byte) error { return gojson.Indent(d, s, pi[0], pi[1]) },
			func(d *bytes.Buffer, s []byte) error { return stdjson.Indent(d, s, pi[0], pi[1]) }})
	}
	for _, o := range ops {
		entry := o.name
		if i := strings.IndexByte(entry, '['); i > 0 {
			entry = entry[:i]
		}
		for _, pre := range c18Pre {
			var gb, sb bytes.Buffer
			gb.WriteString(pre)
			sb.WriteString(pre)
			var gerr error
			pan, msg, frame := rt.Guard(func() { gerr = o.gof(&gb, b) })
			c.Eval(1)
			if pan {
				// neither a result nor an error
				if frame == "" {
					frame = "no-gojson-frame"
				}
				c.Violate(rt.Violation{Monitor: "util-reject", Entry: entry, Kind: "panic:" + rt.PanicClass(msg), Ctx: frame,
					Detail: o.name + " panicked on a " + fmt.Sprint(len(b)) + "-byte text " + rt.Q(b) + ": " + msg, Input: string(b), Sub: sub})
				continue
			}
			serr := o.stdf(&sb, b)
			preTag := "buf=empty"
			if pre != "" {
				preTag = "buf=prefilled"
			}
			if serr != nil {
				// invalid (or over-deep) text for the reference
				if gerr == nil {
					ctx := utilExplain(b)
					if ref || overDeep {
						ctx = "beyond-depth-limit"
					}
					c.Violate(rt.Violation{Monitor: "util-reject", Entry: entry, Kind: "ok-vs-err", Ctx: ctx,
						Detail: o.name + " accepts " + rt.Q(b) + " (encoding/json: " + serr.Error() + ")", Input: string(b), Sub: sub})
				} else if gb.String() != pre {
					c.Violate(rt.Violation{Monitor: "util-reject", Entry: entry, Kind: "buffer-modified-on-error", Ctx: preTag,
						Detail: o.name + " returned an error for " + rt.Q(b) + " but left " + rt.Q(gb.Bytes()) + " in the buffer", Input: string(b), Sub: sub})
				}
				continue
			}
			if gerr != nil {
				ctx := "valid-text-rejected:" + docClass(b)
				if hasFloatRangeNumber(b) {
					ctx = "valid-text-rejected:float64-range-number"
				}
				c.Violate(rt.Violation{Monitor: "util-bytes", Entry: entry, Kind: "err-vs-ok", Ctx: ctx,
					Detail: o.name + " rejects valid " + rt.Q(b) + ": " + gerr.Error(), Input: string(b), Sub: sub})
				continue
			}
			if !bytes.Equal(gb.Bytes(), sb.Bytes()) {
				c.Violate(rt.Violation{Monitor: "util-bytes", Entry: entry, Kind: "bytes-differ:" + diffClass(sb.Bytes(), gb.Bytes()), Ctx: preTag,
					Detail: o.name + " on " + rt.Q(b) + ": go-json " + rt.Q(gb.Bytes()) + " encoding/json " + rt.Q(sb.Bytes()), Input: string(b), Sub: sub})
				continue
			}
			// idempotence on own output (a non-blank line prefix makes the output a non-JSON text,
			// so the statement only applies when the prefix is empty)
			if pre == "" && !strings.Contains(o.name, "[>|") && !strings.Contains(o.name, "[→|") {
				var again bytes.Buffer
				var e2 error
				if pan, _, _ := rt.Guard(func() { e2 = o.gof(&again, gb.Bytes()) }); !pan {
					c.Eval(1)
					if e2 != nil || !bytes.Equal(again.Bytes(), gb.Bytes()) {
						c.Violate(rt.Violation{Monitor: "util-idem", Entry: entry, Kind: "not-idempotent", Ctx: diffClass(gb.Bytes(), again.Bytes()),
							Detail: o.name + " applied to its own output " + rt.Q(gb.Bytes()) + " gives " + rt.Q(again.Bytes()), Input: string(b), Sub: sub})
					}
				}
			}
		}
	}
	// ---- HTMLEscape: it has no error result, so for an invalid text the observable half of the
	// property is that the destination buffer stays as it was
	if !ref {
		for _, pre := range c18Pre {
			var gb bytes.Buffer
			gb.WriteString(pre)
			if pan, _, _ := rt.Guard(func() { gojson.HTMLEscape(&gb, b) }); pan {
				c.Obs("panics_seen_judged_by_C06", 1)
				continue
			}
			c.Eval(1)
			if gb.String() != pre {
				e := &c05Entry{name: "Valid", stream: true}
				hctx := c05Explain(b, e)
				if overDeep {
					hctx = "beyond-depth-limit"
				}
				c.Violate(rt.Violation{Monitor: "util-htmlesc", Entry: "HTMLEscape", Kind: "wrote-on-invalid-text", Ctx: hctx,
					Detail: "HTMLEscape(buf holding " + rt.Q([]byte(pre)) + ", " + rt.Q(b) + ") left " + rt.Q(gb.Bytes()), Input: string(b), Sub: sub})
			}
		}
	}
	if ref {
		for _, pre := range c18Pre {
			var gb bytes.Buffer
			gb.WriteString(pre)
			if pan, _, _ := rt.Guard(func() { gojson.HTMLEscape(&gb, b) }); pan {
				c.Obs("panics_seen_judged_by_C06", 1)
				continue
			}
			c.Eval(1)
			out := gb.Bytes()
			if !bytes.HasPrefix(out, []byte(pre)) {
				c.Violate(rt.Violation{Monitor: "util-htmlesc", Entry: "HTMLEscape", Kind: "buffer-prefix-lost", Ctx: "buf=prefilled", Detail: rt.Q(out), Input: string(b), Sub: sub})
				continue
			}
			out = out[len(pre):]
			if bytes.ContainsAny(out, "<>&") || bytes.Contains(out, []byte(" ")) || bytes.Contains(out, []byte(" ")) {
				c.Violate(rt.Violation{Monitor: "util-htmlesc", Entry: "HTMLEscape", Kind: "raw-html-char", Ctx: docClass(b), Detail: "HTMLEscape(" + rt.Q(b) + ") = " + rt.Q(out), Input: string(b), Sub: sub})
				continue
			}
			in, perr := oracle.Parse(b)
			if perr != nil {
				c.Obs("htmlescape_equivalence_not_judged_too_deep", 1)
				continue
			}
			on, err := oracle.Parse(out)
			if err != nil {
				ctx := "output-not-json"
				if len(out) == 0 {
					ctx = "output-empty"
					if hasFloatRangeNumber(b) {
						ctx = "output-empty:float64-range-number"
					}
				}
				c.Violate(rt.Violation{Monitor: "util-htmlesc", Entry: "HTMLEscape", Kind: "not-equivalent", Ctx: ctx, Detail: "HTMLEscape(" + rt.Q(b) + ") = " + rt.Q(out), Input: string(b), Sub: sub})
				continue
			}
			if !oracle.Equal(in, on) {
				c.Violate(rt.Violation{Monitor: "util-htmlesc", Entry: "HTMLEscape", Kind: "not-equivalent", Ctx: htmlEscDiff(in, on), Detail: "HTMLEscape(" + rt.Q(b) + ") = " + rt.Q(out), Input: string(b), Sub: sub})
			}
		}
	}
}

// htmlEscDiff names the first structural difference between input and output trees.
func htmlEscDiff(a, b *oracle.Node) string {
	if a.Kind != b.Kind {
		return "token-kind"
	}
	switch a.Kind {
	case 's':
		if a.Str != b.Str {
			return "string-content"
		}
	case 'n':
		if oracle.NormNum(a.Lit) != oracle.NormNum(b.Lit) {
			return "number-literal-respelled"
		}
	case 'a':
		if len(a.Kids) != len(b.Kids) {
			return "array-length"
		}
		for i := range a.Kids {
			if d := htmlEscDiff(a.Kids[i], b.Kids[i]); d != "" {
				return d
			}
		}
	case 'o':
		if len(a.Keys) != len(b.Keys) {
			return "object:duplicate-keys-dropped-or-members-lost"
		}
		same := true
		for i := range a.Keys {
			if a.Keys[i] != b.Keys[i] {
				same = false
			}
		}
		if !same {
			// a permutation?
			cnt := map[string]int{}
			for _, k := range a.Keys {
				cnt[k]++
			}
			for _, k := range b.Keys {
				cnt[k]--
			}
			for _, v := range cnt {
				if v != 0 {
					return "object:member-names"
				}
			}
			return "object:members-reordered"
		}
		for i := range a.Kids {
			if d := htmlEscDiff(a.Kids[i], b.Kids[i]); d != "" {
				return d
			}
		}
	}
	return ""
}

func nestingDepth(b []byte) int {
	d, max := 0, 0
	inStr, esc := false, false
	for _, ch := range b {
		if inStr {
			if esc {
				esc = false
			} else if ch == '\\' {
				esc = true
			} else if ch == '"' {
				inStr = false
			}
			continue
		}
		switch ch {
		case '"':
			inStr = true
		case '[', '{':
			d++
			if d > max {
				max = d
			}
		case ']', '}':
			d--
		}
	}
	return max
}

func c18Nested(open, close string, depth int, leaf string) []byte {
	return []byte(strings.Repeat(open, depth) + leaf + strings.Repeat(close, depth))
}

// c18EdgeLens are text lengths around the capacities of the pooled scratch buffer the utilities
// copy their input into (1024 for a fresh context, then whatever append grows it to).
var c18EdgeLens = []int{1019, 1020, 1021, 1022, 1023, 1024, 1025, 2045, 2046, 2047, 2048, 2301, 2302, 2303, 2685, 2686, 2687, 3069, 3070, 3071, 4093, 4094, 4095, 4096}

// c18SizeEdge: texts of exactly L bytes that end inside (or right behind) a token, padded in
// front, with the pools emptied before some of the calls so that both fresh and grown scratch
// buffers are met.
func c18SizeEdge(c *rt.Ctx, L int) {
	const bs = "\\"
	endings := []string{"t", "tr", "tru", "true", "f", "fa", "fal", "fals", "false", "n", "nu", "nul", "null", "-", "1", "1.", "1e", "1e+", `"`, `"a`, `"\\`, `"\\u`, `"\\u00`, `"\\u00e`, `"\\ud83d`, `"\\ud83d\\`, "[", "[1,", "{", `{"a"`, `{"a":`, `{"a":1,`, "]", "}", " "}
	for _, tail := range []string{"", "u", "u0", "u00", "u00e", "ud83d", "n", "ud83d" + bs, "ud83d" + bs + "u", "ud83d" + bs + "ude0"} {
		endings = append(endings, `"`+bs+tail)
	}
	pads := []func(n int) string{
		func(n int) string { return strings.Repeat(" ", n) },
		func(n int) string {
			if n < 1 {
				return ""
			}
			return "[" + strings.Repeat(" ", n-1)
		},
		func(n int) string {
			if n < 4 {
				return strings.Repeat(" ", n)
			}
			return `["` + strings.Repeat("p", n-4) + `",`
		},
		func(n int) string {
			if n < 6 {
				return strings.Repeat(" ", n)
			}
			return `{"k` + strings.Repeat("k", n-6) + `":`
		},
	}
	sub := 0
	for ei, end := range endings {
		for pi, pad := range pads {
			if L < len(end) {
				continue
			}
			text := []byte(pad(L-len(end)) + end)
			if len(text) != L {
				continue
			}
			switch (ei + pi) % 3 {
			case 0:
				// fresh pooled contexts
				runtime.GC()
				runtime.GC()
			case 1:
				// a context grown by a larger text first
				var w bytes.Buffer
				rt.Guard(func() { gojson.Compact(&w, []byte("["+strings.Repeat("1,", L)+"1]")) })
			}
			c18Check(c, sub, text)
			sub++
		}
	}
	if L == 1021 || L == 2047 || L == 4095 {
		// valid texts whose \u escapes (single, surrogate pair) straddle the end of a read of the
		// stream decoder behind Valid and HTMLEscape, after zero to three two-character escapes
		// decoded in the same buffer fill
		const bs = "\\"
		for _, boundary := range []int{511, 1023, 1535} {
			for pre := 0; pre <= 3; pre++ {
				for off := -13; off <= 1; off++ {
					for _, esc := range []string{bs + "u00e9", bs + "ud83d" + bs + "ude00", bs + "u003c"} {
						head := `["` + strings.Repeat(bs+"n", pre)
						padn := boundary + off - len(head)
						if padn < 0 {
							continue
						}
						text := head + strings.Repeat("p", padn) + esc + `tail",{"k":"` + esc + `"}]`
						c18Check(c, sub, []byte(text))
						sub++
					}
				}
			}
		}
	}
	c.NonTrivialEnum(int64(sub))
	c.Obs("size_edge_texts", int64(sub))
	c.SetAdd("size_edge_lengths", fmt.Sprint(L))
	c.Sample(map[string]any{"family": "size-edge", "length": L, "texts": sub})
}

func init() {
	const mutQuick, mutThorough = 40, 600
	register(&Prop{
		ID: "C18",
		NumBatches: func(tier string, seed int64) int {
			n := len(Alphabet28)
			if tier == "thorough" {
				return 1 + n*n + mutThorough + 1 + len(c18EdgeLens)
			}
			return 1 + n*n + mutQuick + 1 + len(c18EdgeLens)
		},
		Run: func(c *rt.Ctx) {
			n := len(Alphabet28)
			sufLen := 2
			nmut := mutQuick
			if c.Tier == "thorough" {
				sufLen = 3
				nmut = mutThorough
			}
			switch {
			case c.Idx == 0:
				sub := 0
				c18Check(c, sub, []byte{})
				for _, a := range Alphabet28 {
					sub++
					c18Check(c, sub, []byte{a})
				}
				c.NonTrivialEnum(int64(n + 1))
			case c.Idx <= n*n:
				k := c.Idx - 1
				buf := []byte{Alphabet28[k/n], Alphabet28[k%n]}
				sub := 0
				var rec func(depth int)
				rec = func(depth int) {
					c18Check(c, sub, append([]byte{}, buf...))
					sub++
					if depth == sufLen {
						return
					}
					for _, a := range Alphabet28 {
						buf = append(buf, a)
						rec(depth + 1)
						buf = buf[:len(buf)-1]
					}
				}
				rec(0)
				c.NonTrivialEnum(int64(sub))
				c.Obs("exhaustive_strings", int64(sub))
				if k == 7 {
					c.Sample(map[string]any{"family": "exhaustive", "prefix": string(buf[:2]), "strings": sub, "max_len": 2 + sufLen})
				}
			case c.Idx <= n*n+nmut:
				r := c.RNG(0)
				doc := gen.Doc(r, 4)
				sub := 0
				c18Check(c, sub, doc)
				c.NonTrivial("doc", string(doc))
				// every prefix and a PRNG sample of single-byte mutants
				for i := 0; i < len(doc); i++ {
					sub++
					c18Check(c, sub, doc[:i])
				}
				for k := 0; k < 3*len(doc); k++ {
					i := r.Intn(len(doc) + 1)
					a := Alphabet28[r.Intn(n)]
					var m []byte
					switch r.Intn(3) {
					case 0:
						if i == len(doc) {
							continue
						}
						m = append(append([]byte{}, doc[:i]...), doc[i+1:]...)
					case 1:
						m = append(append(append([]byte{}, doc[:i]...), a), doc[i:]...)
					default:
						if i == len(doc) {
							continue
						}
						m = append([]byte{}, doc...)
						m[i] = a
					}
					sub++
					c18Check(c, sub, m)
					c.NonTrivial("mut", string(m))
				}
				tms := gen.TokenMutants(doc)
				if len(tms) > 600 {
					tms = tms[:600]
				}
				for _, m := range tms {
					sub++
					c18Check(c, sub, m)
				}
				c.Obs("token_mutants", int64(len(tms)))
				c.Obs("generated_docs", 1)
				c.Sample(map[string]any{"family": "generated+mutants", "base": string(doc), "cases": sub})
			case c.Idx > n*n+nmut+1:
				c18SizeEdge(c, c18EdgeLens[c.Idx-(n*n+nmut+2)])
			default:
				// nesting up to and across encoding/json's depth limit
				sub := 0
				for _, d := range []int{1, 2, 50, 500, 4999, 5000, 5001, 9999, 10000, 10001, 10002} {
					for _, shape := range [][3]string{{"[", "]", "1"}, {`{"a":`, "}", "null"}, {`[{"k":`, "}]", `"x"`}, {`{"a":`, "}", "{}"}, {"[", "]", "[]"}, {"[", "]", "{}"}, {`{"a":`, "}", "[]"}, {`{"k":[`, "]}", "1"}} {
						doc := c18Nested(shape[0], shape[1], d, shape[2])
						c18Check(c, sub, doc)
						c.NonTrivial("nest", shape[0], string(rune(d)))
						sub++
					}
				}
				c.ObsMax("max_nesting_depth", 20004)
			}
		},
	})
}
