package props

import (
	"context"
	stdjson "encoding/json"
	"fmt"
	"math/rand"
	"reflect"
	"sort"
	"strings"
	"sync/atomic"

	gojson "github.com/goccy/go-json"

	"verif/harness/oracle"
	"verif/harness/rt"
	"verif/harness/zoo"
)

// C19 — field queries project exactly the selected fields.
//
// Monitors:
//   projection   MarshalContext with query Q equals the reference projection of Marshal(v) by Q
//                (walks the Go type and the ordered parse of the unfiltered output together; recurses
//                through sub-queries, pointers, slices, arrays, maps, interfaces; context-aware
//                marshalers must see the sub-query of their field)
//   query-isolation  a query never changes encodings made with another query or with none, in any
//                order of use on the same type
//   query-string     Build(QueryString(Q)) is equivalent to Q

type qnode struct {
	name string
	subs []*qnode // nil: whole value
}

func (q *qnode) strings() []gojson.FieldQueryString {
	var out []gojson.FieldQueryString
	for _, s := range q.subs {
		if s.subs == nil {
			out = append(out, gojson.FieldQueryString(s.name))
		} else {
			out = append(out, gojson.BuildSubFieldQuery(s.name).Fields(s.strings()...))
		}
	}
	return out
}

func (q *qnode) String() string {
	if q.subs == nil {
		return q.name
	}
	var parts []string
	for _, s := range q.subs {
		parts = append(parts, s.String())
	}
	return q.name + "[" + strings.Join(parts, ",") + "]"
}

func baseStruct(t reflect.Type) reflect.Type {
	for d := 0; d < 6; d++ {
		switch t.Kind() {
		case reflect.Ptr, reflect.Slice, reflect.Array, reflect.Map:
			t = t.Elem()
		default:
			if t.Kind() == reflect.Struct {
				return t
			}
			return nil
		}
	}
	return nil
}

// genQuery draws a random query over the field tree of struct type t.
// c19TaggedHeads: a query makes its first selected member the head of the filtered program, at
// that member's real offset. Every omitempty member of QTagged is made the first (and only, and
// first of two) selected member, empty while all the others are set and set while all the others
// are empty, at top level, through a pointer and one level down (sub-query through PP).
func c19TaggedHeads(c *rt.Ctx, sub0 int) {
	names := []string{"a", "p", "i", "s", "m", "l", "pi", "pp"}
	mk := func(member string, memberSet bool) *zoo.QTagged {
		q := &zoo.QTagged{N: 3, Z: 1}
		n := 5
		set := func(name string, on bool) {
			if !on {
				return
			}
			switch name {
			case "a":
				q.A = 7
			case "p":
				q.P = &zoo.QLeaf{P: 1, Q: "q"}
			case "i":
				q.I = zoo.QLeaf{P: 2}
			case "s":
				q.S = "s"
			case "m":
				q.M = map[string]int{"k": 1}
			case "l":
				q.L = []int{1, 2}
			case "pi":
				q.PI = &n
			case "pp":
				q.PP = &zoo.QTagged{Z: 2, S: "inner"}
			}
		}
		for _, nm := range names {
			set(nm, (nm == member) == memberSet)
		}
		return q
	}
	sub := sub0
	for _, m := range names {
		for _, memberSet := range []bool{true, false} {
			q := mk(m, memberSet)
			outer := &zoo.QTagged{Z: 9, PP: q, A: 1}
			if !memberSet {
				outer = &zoo.QTagged{Z: 9, PP: q}
			}
			cases := []struct {
				v any
				t reflect.Type
				q *qnode
			}{
				{*q, reflect.TypeOf(*q), &qnode{subs: []*qnode{{name: m}}}},
				{q, reflect.TypeOf(q), &qnode{subs: []*qnode{{name: m}}}},
				{*q, reflect.TypeOf(*q), &qnode{subs: []*qnode{{name: m}, {name: "z"}}}},
				{q, reflect.TypeOf(q), &qnode{subs: []*qnode{{name: m}, {name: "n"}}}},
				{outer, reflect.TypeOf(outer), &qnode{subs: []*qnode{{name: "pp", subs: []*qnode{{name: m}}}}}},
				{*outer, reflect.TypeOf(*outer), &qnode{subs: []*qnode{{name: "pp", subs: []*qnode{{name: m}, {name: "z"}}}, {name: "z"}}}},
			}
			for _, cs := range cases {
				sub++
				if !c.Cur(sub, fmt.Sprintf("shapes=core\nomitempty member %s (set=%v) as head of the filtered program: %s", m, memberSet, cs.q)) {
					continue
				}
				c19Check(c, sub, cs.v, cs.t, cs.q, "first-use")
				c19Check(c, sub, cs.v, cs.t, cs.q, "after-other-queries")
			}
		}
	}
	// the remaining kinds (QTagged2): the member set while the first member is empty, and the reverse
	tr, str := true, "s"
	set2 := map[string]func(q *zoo.QTagged2){
		"b": func(q *zoo.QTagged2) { q.B = true }, "i8": func(q *zoo.QTagged2) { q.I8 = -3 }, "u16": func(q *zoo.QTagged2) { q.U16 = 9 }, "f32": func(q *zoo.QTagged2) { q.F32 = 1.5 },
		"f64": func(q *zoo.QTagged2) { q.F64 = -2.25 }, "by": func(q *zoo.QTagged2) { q.By = []byte{1, 2} }, "ar": func(q *zoo.QTagged2) { q.Ar = [2]int{1, 2} }, "st": func(q *zoo.QTagged2) { q.St = zoo.QLeaf{P: 1, Q: "q"} },
		"bp": func(q *zoo.QTagged2) { q.BP = &tr }, "sp": func(q *zoo.QTagged2) { q.SP = &str }, "u": func(q *zoo.QTagged2) { q.U = 7 },
	}
	for _, m := range []string{"b", "i8", "u16", "f32", "f64", "by", "ar", "st", "bp", "sp", "u"} {
		for _, memberSet := range []bool{true, false} {
			q := &zoo.QTagged2{Z: 1}
			if memberSet {
				set2[m](q)
			} else {
				q.Pad = 77
			}
			for _, cs := range []struct {
				v any
				t reflect.Type
				q *qnode
			}{
				{*q, reflect.TypeOf(*q), &qnode{subs: []*qnode{{name: m}}}},
				{q, reflect.TypeOf(q), &qnode{subs: []*qnode{{name: m}}}},
				{*q, reflect.TypeOf(*q), &qnode{subs: []*qnode{{name: m}, {name: "z"}}}},
				{q, reflect.TypeOf(q), &qnode{subs: []*qnode{{name: "pad"}, {name: m}}}},
			} {
				sub++
				if !c.Cur(sub, fmt.Sprintf("shapes=core\nomitempty member %s of QTagged2 (set=%v) as head of the filtered program: %s", m, memberSet, cs.q)) {
					continue
				}
				c19Check(c, sub, cs.v, cs.t, cs.q, "first-use")
				c19Check(c, sub, cs.v, cs.t, cs.q, "after-other-queries")
			}
		}
	}
	c.Obs("tagged_head_queries", int64(sub-sub0))
	c.NonTrivial("tagged-heads")
}

func genQuery(r *rand.Rand, t reflect.Type, depth int) *qnode {
	q := &qnode{subs: []*qnode{}}
	for _, f := range jsonFields(t, nil, 0) {
		if r.Intn(2) == 0 {
			continue
		}
		n := &qnode{name: f.name}
		if bs := baseStruct(f.typ); bs != nil && depth > 0 && r.Intn(2) == 0 && marshClass(bs) == "" {
			n.subs = genQuery(r, bs, depth-1).subs
			if len(n.subs) == 0 {
				n.subs = nil // a sub-query without fields is the whole value in go-json's representation
			}
		} else if f.typ == reflect.TypeOf(zoo.QCtxM{}) && r.Intn(2) == 0 {
			n.subs = []*qnode{{name: "n"}, {name: "zz"}}[:1+r.Intn(2)]
		} else if f.typ.Kind() == reflect.Interface && r.Intn(2) == 0 {
			n.subs = []*qnode{{name: "P"}, {name: "X"}, {name: "y"}}[:1+r.Intn(3)]
		}
		q.subs = append(q.subs, n)
	}
	if r.Intn(4) == 0 {
		q.subs = append(q.subs, &qnode{name: "does-not-exist"})
	}
	return q
}

func copyNode(n *oracle.Node) *oracle.Node {
	c := *n
	c.Keys = append([]string{}, n.Keys...)
	c.Kids = make([]*oracle.Node, len(n.Kids))
	for i, k := range n.Kids {
		c.Kids[i] = copyNode(k)
	}
	return &c
}

// project applies query q (q.subs != nil) to the JSON tree n of a value of static type t.
func project(n *oracle.Node, t reflect.Type, v reflect.Value, q *qnode) *oracle.Node {
	for t != nil && t.Kind() == reflect.Ptr {
		t = t.Elem()
		if v.IsValid() && v.Kind() == reflect.Ptr {
			if v.IsNil() {
				v = reflect.Value{}
			} else {
				v = v.Elem()
			}
		}
	}
	if n.Kind == 'z' || t == nil {
		return n
	}
	switch t.Kind() {
	case reflect.Interface:
		if v.IsValid() && !v.IsNil() {
			return project(n, v.Elem().Type(), v.Elem(), q)
		}
		return n
	case reflect.Slice, reflect.Array:
		if n.Kind != 'a' {
			return n
		}
		out := &oracle.Node{Kind: 'a'}
		for i, k := range n.Kids {
			var ev reflect.Value
			if v.IsValid() && i < v.Len() {
				ev = v.Index(i)
			}
			out.Kids = append(out.Kids, project(k, t.Elem(), ev, q))
		}
		return out
	case reflect.Map:
		if n.Kind != 'o' {
			return n
		}
		out := &oracle.Node{Kind: 'o'}
		for i, k := range n.Kids {
			var ev reflect.Value
			if v.IsValid() {
				ev = v.MapIndex(reflect.ValueOf(n.Keys[i]))
			}
			out.Keys = append(out.Keys, n.Keys[i])
			out.Kids = append(out.Kids, project(k, t.Elem(), ev, q))
		}
		return out
	case reflect.Struct:
		if t == reflect.TypeOf(zoo.QCtxM{}) {
			// the marshaler reports the names of the query it is handed
			var names []string
			for _, s := range q.subs {
				names = append(names, s.name)
			}
			out := copyNode(n)
			for i, k := range out.Keys {
				if k == "seen" {
					out.Kids[i] = &oracle.Node{Kind: 's', Str: strings.Join(names, ",")}
				}
			}
			return out
		}
		if n.Kind != 'o' || marshClass(t) != "" {
			return n
		}
		sel := map[string]*qnode{}
		for _, s := range q.subs {
			sel[s.name] = s
		}
		out := &oracle.Node{Kind: 'o'}
		for i, k := range n.Keys {
			s, ok := sel[k]
			if !ok {
				continue
			}
			kid := n.Kids[i]
			if s.subs != nil {
				if f := fieldByJSONName(t, k); f != nil {
					var fv reflect.Value
					if v.IsValid() {
						fv = fieldByIndexSafe(v, f.index)
					}
					kid = project(kid, f.typ, fv, s)
				}
			}
			out.Keys = append(out.Keys, k)
			out.Kids = append(out.Kids, kid)
		}
		return out
	}
	return n
}

func render(n *oracle.Node) string {
	var sb strings.Builder
	var w func(n *oracle.Node)
	w = func(n *oracle.Node) {
		switch n.Kind {
		case 'z':
			sb.WriteString("null")
		case 't':
			sb.WriteString("true")
		case 'f':
			sb.WriteString("false")
		case 'n':
			sb.WriteString(n.Lit)
		case 's':
			sb.WriteString(quoteJSON(n.Str))
		case 'a':
			sb.WriteByte('[')
			for i, k := range n.Kids {
				if i > 0 {
					sb.WriteByte(',')
				}
				w(k)
			}
			sb.WriteByte(']')
		case 'o':
			sb.WriteByte('{')
			for i, k := range n.Kids {
				if i > 0 {
					sb.WriteByte(',')
				}
				sb.WriteString(quoteJSON(n.Keys[i]) + ":")
				w(k)
			}
			sb.WriteByte('}')
		}
	}
	w(n)
	return sb.String()
}

func quoteJSON(s string) string {
	b, _ := stdMarshal(s)
	return string(b)
}

// where do expected and actual first differ, in terms of the query position?
func projDiff(exp, act *oracle.Node, t reflect.Type, path string) string {
	for t != nil && (t.Kind() == reflect.Ptr) {
		t = t.Elem()
	}
	if exp.Kind != act.Kind {
		return path + ":token-kind"
	}
	switch exp.Kind {
	case 'o':
		ek, ak := strings.Join(exp.Keys, "\x00"), strings.Join(act.Keys, "\x00")
		if ek != ak {
			extra, missing := 0, 0
			es, as := map[string]bool{}, map[string]bool{}
			for _, k := range exp.Keys {
				es[k] = true
			}
			for _, k := range act.Keys {
				as[k] = true
				if !es[k] {
					extra++
				}
			}
			for _, k := range exp.Keys {
				if !as[k] {
					missing++
				}
			}
			switch {
			case extra > 0 && missing == 0:
				return path + ":extra-members"
			case missing > 0 && extra == 0:
				promoted := t != nil && t.Kind() == reflect.Struct
				for _, k := range exp.Keys {
					if !as[k] {
						if f := fieldByJSONNameT(t, k); f == nil || len(f.index) < 2 {
							promoted = false
						}
					}
				}
				if promoted {
					return path + ":missing-promoted-members"
				}
				return path + ":missing-members"
			case extra > 0:
				return path + ":other-members"
			}
			return path + ":member-order"
		}
		for i, k := range exp.Keys {
			var ft reflect.Type
			seg := "member"
			if t != nil && t.Kind() == reflect.Struct {
				if f := fieldByJSONName(t, k); f != nil {
					ft = f.typ
					seg = containerClass(f.typ)
					if bs := baseStruct(f.typ); bs != nil && bs == t {
						seg = "recursive-" + seg
					}
				}
			} else if t != nil && t.Kind() == reflect.Map {
				ft = t.Elem()
				seg = "map-value"
			} else if t != nil && t.Kind() == reflect.Interface {
				seg = "iface-member"
			}
			if d := projDiff(exp.Kids[i], act.Kids[i], ft, path+">"+seg); d != "" {
				return d
			}
		}
	case 'a':
		if len(exp.Kids) != len(act.Kids) {
			return path + ":array-len"
		}
		var et reflect.Type
		if t != nil && (t.Kind() == reflect.Slice || t.Kind() == reflect.Array) {
			et = t.Elem()
		}
		for i := range exp.Kids {
			if d := projDiff(exp.Kids[i], act.Kids[i], et, path); d != "" {
				return d
			}
		}
	case 's':
		if exp.Str != act.Str {
			return path + ":string"
		}
	case 'n':
		if exp.Lit != act.Lit {
			return path + ":number"
		}
	}
	return ""
}

// viaClass reduces a mismatch path to the first container on it through which go-json is known not
// to carry a sub-query (slice, array, map, interface, recursive member); paths without one keep
// their full form.
func viaClass(d string) string {
	i := strings.LastIndexByte(d, ':')
	path, what := d[:i], d[i+1:]
	segs := strings.Split(path, ">")
	for _, sg := range segs[1:] {
		switch {
		case sg == "slice" || sg == "array" || sg == "map" || sg == "map-value" || sg == "iface" || sg == "iface-member" || strings.HasPrefix(sg, "recursive-"):
			if sg == "map-value" {
				sg = "map"
			}
			return "via:" + sg + ":" + what
		}
	}
	root := segs[0]
	if root == "" {
		// the encoded value itself is a slice/map/pointer of structs
		return "via:top-level-container:" + what
	}
	return "direct:" + root + ">" + strings.Join(segs[1:], ">") + ":" + what
}

func fieldByJSONNameT(t reflect.Type, k string) *fieldInfo {
	if t == nil || t.Kind() != reflect.Struct {
		return nil
	}
	return fieldByJSONName(t, k)
}

func containerClass(t reflect.Type) string {
	switch t.Kind() {
	case reflect.Ptr:
		return "ptr"
	case reflect.Slice:
		return "slice"
	case reflect.Array:
		return "array"
	case reflect.Map:
		return "map"
	case reflect.Interface:
		return "iface"
	case reflect.Struct:
		if t == reflect.TypeOf(zoo.QCtxM{}) {
			return "ctx-marshaler"
		}
		return "struct"
	}
	return "scalar"
}

func qvalue(r *rand.Rand, depth int) *zoo.QOuter {
	leaf := func() zoo.QLeaf { return zoo.QLeaf{P: r.Intn(100), Q: fmt.Sprint("q", r.Intn(10))} }
	inner := func() zoo.QInner {
		in := zoo.QInner{X: r.Intn(100), Y: "y"}
		if r.Intn(2) == 0 {
			l := leaf()
			in.Z = &l
		}
		for i := 0; i < r.Intn(3); i++ {
			in.L = append(in.L, leaf())
		}
		return in
	}
	o := &zoo.QOuter{A: r.Intn(1000), B: "b", In: inner(), Ar: [2]zoo.QLeaf{leaf(), leaf()}, Cm: zoo.QCtxM{N: r.Intn(9)}, QLeaf: leaf()}
	if r.Intn(3) > 0 {
		in := inner()
		o.Pt = &in
	}
	for i := 0; i < r.Intn(3); i++ {
		o.Sl = append(o.Sl, inner())
	}
	if r.Intn(3) > 0 {
		o.Mp = map[string]zoo.QInner{"m1": inner(), "m2": inner()}
	}
	switch r.Intn(5) {
	case 0:
		o.If = leaf()
	case 1:
		in := inner()
		o.If = &in
	case 2:
		o.If = []zoo.QLeaf{leaf()}
	case 3:
		o.If = map[string]interface{}{"P": 1.0, "zz": "s"}
	}
	if depth > 0 && r.Intn(2) == 0 {
		o.Rec = qvalue(r, depth-1)
	}
	return o
}

func runQuery(q *qnode, v any) ([]byte, error, bool) {
	fq, err := gojson.BuildFieldQuery(q.strings()...)
	if err != nil {
		return nil, err, false
	}
	var out []byte
	pan, _, _ := rt.Guard(func() { out, err = gojson.MarshalContext(gojson.SetFieldQueryToContext(context.Background(), fq), v) })
	return out, err, pan
}

// c19CtxPtrRecv: a context-aware marshaler with a pointer receiver, held by value in addressable
// places. There is no encoding/json reference for context-aware marshalers, so the expected texts
// are written out: unfiltered, selected as a whole, and with a sub-query.
func c19CtxPtrRecv(c *rt.Ctx, sub0 int) {
	h := &zoo.QCtxPHolder{A: 1, V: zoo.QCtxMP{N: 2}, L: []zoo.QCtxMP{{N: 3}}, Ar: [2]zoo.QCtxMP{{N: 4}, {N: 5}}, P: &zoo.QCtxMP{N: 6}, Z: "z"}
	m := func(n int, seen string) string { return fmt.Sprintf(`{"n":%d,"seen":"%s"}`, n, seen) }
	full := `{"A":1,"V":` + m(2, "") + `,"L":[` + m(3, "") + `],"Ar":[` + m(4, "") + `,` + m(5, "") + `],"P":` + m(6, "") + `,"Z":"z"}`
	sub := gojson.BuildSubFieldQuery
	q1, _ := gojson.BuildFieldQuery("A", "V")
	q2, _ := gojson.BuildFieldQuery(sub("V").Fields("n", "zz"), "Z")
	q3, _ := gojson.BuildFieldQuery("P", sub("V").Fields("n"))
	cases := []struct {
		name string
		x    any
		q    *gojson.FieldQuery
		want string
	}{
		{"Marshal(&holder)", h, nil, full},
		{"MarshalContext(&holder) no query", h, &gojson.FieldQuery{}, full},
		{"query A,V", h, q1, `{"A":1,"V":` + m(2, "") + `}`},
		{"query V{n,zz},Z", h, q2, `{"V":` + m(2, "n,zz") + `,"Z":"z"}`},
		{"query P,V{n}", h, q3, `{"V":` + m(2, "n") + `,"P":` + m(6, "") + `}`},
		{"Marshal([]holder)", []zoo.QCtxPHolder{*h}, nil, `[` + full + `]`},
		{"Marshal(&[]QCtxMP)", &[]zoo.QCtxMP{{N: 7}, {N: 8}}, nil, `[` + m(7, "") + `,` + m(8, "") + `]`},
		{"Marshal(map[string]*QCtxMP)", map[string]*zoo.QCtxMP{"k": {N: 9}}, nil, `{"k":` + m(9, "") + `}`},
	}
	for i, cs := range cases {
		if !c.Cur(sub0+i, "shapes=core\npointer-receiver context marshaler: "+cs.name) {
			continue
		}
		for rep := 0; rep < 2; rep++ {
			var got []byte
			var err error
			pan, msg, _ := rt.Guard(func() {
				switch {
				case cs.q == nil:
					got, err = gojson.Marshal(cs.x)
				case len(cs.q.Fields) == 0 && cs.q.Name == "":
					got, err = gojson.MarshalContext(context.Background(), cs.x)
				default:
					got, err = gojson.MarshalContext(gojson.SetFieldQueryToContext(context.Background(), cs.q), cs.x)
				}
			})
			c.Eval(1)
			if pan || err != nil || string(got) != cs.want {
				c.Violate(rt.Violation{Monitor: "projection", Entry: "ctx-marshaler-ptr-receiver", Kind: "projection-mismatch", Ctx: cs.name,
					Detail: fmt.Sprintf("%s (call %d): got %s err=%v panic=%v %s; want %s", cs.name, rep+1, rt.Q(got), err, pan, msg, cs.want), Sub: sub0 + i})
				break
			}
		}
		c.NonTrivial("ctxptr", cs.name)
	}
}

func c19Check(c *rt.Ctx, sub int, v any, t reflect.Type, q *qnode, phase string) {
	var base []byte
	var err error
	if pan, _, _ := rt.Guard(func() { base, err = gojson.Marshal(v) }); pan {
		c.Obs("base_panicked_judged_by_C08", 1)
		return
	}
	c.Eval(1)
	if err != nil {
		c.Obs("base_failed", 1)
		return
	}
	bn, perr := oracle.Parse(base)
	if perr != nil {
		c.Obs("base_not_json", 1)
		return
	}
	want := project(bn, t, reflect.ValueOf(v), q)
	got, gerr, pan := runQuery(q, v)
	c.Eval(1)
	input := map[string]any{"type": t.String(), "query": q.String(), "value": string(base)}
	if pan || gerr != nil {
		c.Violate(rt.Violation{Monitor: "projection", Entry: phase, Kind: "query-encode-failed", Ctx: t.Name(), Detail: fmt.Sprint("query ", q, ": ", gerr, " panic=", pan), Input: input, Sub: sub})
		return
	}
	gn, e2 := oracle.Parse(got)
	if e2 != nil {
		c.Violate(rt.Violation{Monitor: "projection", Entry: phase, Kind: "output-not-json", Ctx: t.Name(), Detail: fmt.Sprintf("query %s: %s", q, rt.Q(got)), Input: input, Sub: sub})
		return
	}
	if d := projDiff(want, gn, t, t.Name()); d != "" {
		c.Violate(rt.Violation{Monitor: "projection", Entry: phase, Kind: "projection-mismatch", Ctx: viaClass(d),
			Detail: fmt.Sprintf("query %s on %s: got %s, reference projection %s (unfiltered %s)", q, t.Name(), got, render(want), base), Input: input, Sub: sub})
		return
	}
	c.Obs("projections_equal", 1)
}

var c19ColdSeq int64

// c19Cold: a struct type nobody has encoded before (a fresh run-time type per case) is used with a
// query first, then without one, then with another query, then with the first again. The reference
// for every step comes from encoding/json's unfiltered output, so nothing warms the type's caches
// before the first query does.
func c19Cold(c *rt.Ctx, sub int, r *rand.Rand) {
	id := atomic.AddInt64(&c19ColdSeq, 1)
	var x any
	var t reflect.Type
	if int(id) <= len(c19ColdCompiled) && r.Intn(4) != 0 {
		// a compiled-in type reserved for this purpose (descriptor inside the address-indexed cache
		// window), used at most once per process
		x = c19ColdCompiled[id-1](r.Intn(100))
		t = reflect.TypeOf(x).Elem()
		if r.Intn(2) == 0 {
			x = reflect.ValueOf(x).Elem().Interface()
		}
		c.Obs("cold_compiled_types_used", 1)
	} else {
		// a fresh run-time type (descriptor on the heap: the map-backed cache)
		tag := func(n string) reflect.StructTag {
			return reflect.StructTag(fmt.Sprintf(`json:"%s%d_%d"`, n, c.Idx, id))
		}
		leaf := reflect.StructOf([]reflect.StructField{{Name: "X", Type: reflect.TypeOf(0), Tag: tag("x")}, {Name: "Y", Type: reflect.TypeOf(""), Tag: tag("y")}, {Name: "Z", Type: reflect.TypeOf([]int(nil)), Tag: tag("z")}})
		t = reflect.StructOf([]reflect.StructField{{Name: "A", Type: reflect.TypeOf(0), Tag: tag("a")}, {Name: "B", Type: reflect.TypeOf(""), Tag: tag("b")},
			{Name: "C", Type: leaf, Tag: tag("c")}, {Name: "D", Type: reflect.PtrTo(leaf), Tag: tag("d")}, {Name: "E", Type: reflect.TypeOf(map[string]int(nil)), Tag: tag("e")}})
		v := reflect.New(t).Elem()
		v.Field(0).SetInt(int64(r.Intn(100)))
		v.Field(1).SetString("b")
		v.Field(2).Field(0).SetInt(7)
		v.Field(2).Field(1).SetString("y")
		v.Field(2).Field(2).Set(reflect.ValueOf([]int{1, 2}))
		d := reflect.New(leaf)
		d.Elem().Field(0).SetInt(9)
		v.Field(3).Set(d)
		v.Field(4).Set(reflect.ValueOf(map[string]int{"k": 1}))
		x = v.Interface()
		if r.Intn(2) == 0 {
			x = v.Addr().Interface()
		}
		c.Obs("cold_runtime_types_used", 1)
	}
	base, err := stdjson.Marshal(x)
	if err != nil {
		return
	}
	bn, _ := oracle.Parse(base)
	q1, q2 := genQuery(r, t, 3), genQuery(r, t, 3)
	input := map[string]any{"type": t.String(), "queries": []string{q1.String(), q2.String()}}
	step := func(name string, q *qnode) bool {
		var got []byte
		var gerr error
		var pan bool
		if q == nil {
			pan, _, _ = rt.Guard(func() { got, gerr = gojson.Marshal(x) })
		} else {
			got, gerr, pan = runQuery(q, x)
		}
		c.Eval(1)
		if pan || gerr != nil {
			c.Violate(rt.Violation{Monitor: "query-isolation", Entry: "cold-type", Kind: "encode-failed", Ctx: name, Detail: fmt.Sprint(gerr, " panic=", pan), Input: input, Sub: sub})
			return false
		}
		want := bn
		if q != nil {
			want = project(copyNode(bn), reflect.TypeOf(x), reflect.ValueOf(x), q)
		}
		gn, e := oracle.Parse(got)
		if e != nil || projDiff(want, gn, t, "T") != "" {
			c.Violate(rt.Violation{Monitor: "query-isolation", Entry: "cold-type", Kind: "encoding-depends-on-first-use", Ctx: name,
				Detail: fmt.Sprintf("step %s (q1 %s, q2 %s): got %s want %s", name, q1, q2, got, render(want)), Input: input, Sub: sub})
			return false
		}
		return true
	}
	if step("1:first-query-on-cold-type", q1) && step("2:unfiltered-after-query", nil) && step("3:other-query", q2) && step("4:first-query-again", q1) && step("5:unfiltered-again", nil) {
		c.Obs("cold_type_histories_clean", 1)
	}
	c.NonTrivial("cold", q1.String(), q2.String())
}

func init() {
	register(&Prop{
		ID: "C19",
		NumBatches: func(tier string, seed int64) int {
			if tier == "thorough" {
				return 8192
			}
			return 128
		},
		Run: func(c *rt.Ctx) {
			r := c.RNG(0)
			if c.Idx%16 == 3 {
				c19CtxPtrRecv(c, 9000)
			}
			if c.Idx%16 == 4 {
				c19TaggedHeads(c, 9500)
			}
			types := []reflect.Type{reflect.TypeOf(zoo.QOuter{}), reflect.TypeOf(zoo.QInner{}), reflect.TypeOf(zoo.QLeaf{})}
			for k := 0; k < 24; k++ {
				o := qvalue(r, 2)
				var v any = *o
				t := types[0]
				switch k % 8 {
				case 6:
					q := zoo.QCtxFirst{Cm: zoo.QCtxM{N: r.Intn(9)}, A: 1 + r.Intn(9), B: "b"}
					v, t = q, reflect.TypeOf(q)
					if r.Intn(2) == 0 {
						v, t = &q, reflect.TypeOf(&q)
					}
				case 7:
					q := zoo.QCtxHolder{H: zoo.QCtxFirst{Cm: zoo.QCtxM{N: 1}, A: 2, B: "h"}, O: &zoo.QCtxOnly{Cm: zoo.QCtxM{N: 3}}, Sl: []zoo.QCtxFirst{{Cm: zoo.QCtxM{N: 4}, A: 5}}, X: 6}
					v, t = q, reflect.TypeOf(q)
				case 5:
					// tag options: every nil-able member is nil or empty with probability 1/2
					q := &zoo.QTagged{N: r.Intn(50), In: o.In, Z: 1, Sk: 9}
					if r.Intn(2) == 0 {
						q.A, q.S = 1+r.Intn(9), "s"
						q.P = &zoo.QLeaf{P: 1, Q: "q"}
						q.I = zoo.QLeaf{P: 2}
						q.M, q.L = map[string]int{"k": 1}, []int{1}
						n := 5
						q.PI = &n
					}
					if r.Intn(2) == 0 {
						q.PP = &zoo.QTagged{Z: 2}
					}
					if r.Intn(3) == 0 {
						q.I = (*zoo.QLeaf)(nil)
					}
					v, t = *q, reflect.TypeOf(*q)
					if r.Intn(2) == 0 {
						v, t = q, reflect.TypeOf(q)
					}
				case 1:
					v, t = o, reflect.TypeOf(o)
				case 2:
					v, t = o.In, types[1]
				case 3:
					v, t = []zoo.QOuter{*o, *qvalue(r, 1)}, reflect.TypeOf([]zoo.QOuter{})
				case 4:
					v, t = map[string]*zoo.QOuter{"k": o}, reflect.TypeOf(map[string]*zoo.QOuter{})
				}
				bs := baseStruct(t)
				if !c.Cur(k, fmt.Sprintf("shapes=core\nfield query case on %s", t)) {
					continue
				}
				// (a) projection under several queries, (b) in every order of up to 4 queries + none
				var qs []*qnode
				for i := 0; i < 4; i++ {
					qs = append(qs, genQuery(r, bs, 3))
				}
				order := r.Perm(len(qs))
				for pass := 0; pass < 2; pass++ {
					for _, qi := range order {
						c19Check(c, k, v, t, qs[qi], []string{"first-use", "after-other-queries"}[pass])
						// the unfiltered encoding stays what it was
						b1, e1 := gojson.Marshal(v)
						b2, e2 := gojson.MarshalContext(context.Background(), v)
						c.Eval(2)
						if e1 != nil || e2 != nil || string(b1) != string(b2) {
							c.Violate(rt.Violation{Monitor: "query-isolation", Entry: "unfiltered", Kind: "unfiltered-encoding-changed", Ctx: t.Name(), Detail: fmt.Sprintf("Marshal %s vs MarshalContext(no query) %s after query %s", b1, b2, qs[qi]), Sub: k})
						}
					}
					r.Shuffle(len(order), func(i, j int) { order[i], order[j] = order[j], order[i] })
				}
				// (c) QueryString round trip
				for _, q := range qs[:2] {
					fq, err := gojson.BuildFieldQuery(q.strings()...)
					if err != nil {
						continue
					}
					s, err := fq.QueryString()
					if err != nil {
						c.Violate(rt.Violation{Monitor: "query-string", Entry: "QueryString", Kind: "query-string-failed", Ctx: "QueryString", Detail: err.Error(), Sub: k})
						continue
					}
					fq2, err := s.Build()
					c.Eval(1)
					if err != nil || !sameQuery(fq, fq2) {
						c.Violate(rt.Violation{Monitor: "query-string", Entry: "Build", Kind: "round-trip-differs", Ctx: qShape(q), Detail: fmt.Sprintf("query %s -> %q -> %v (%v)", q, s, dumpQuery(fq2), err), Sub: k})
					}
				}
				c19Cold(c, 100+k, r)
				c.NonTrivial(t.String(), qs[0].String(), qs[1].String())
				if k == 0 {
					c.Sample(map[string]any{"type": t.String(), "queries": []string{qs[0].String(), qs[1].String()}})
				}
			}
		},
	})
}

func qShape(q *qnode) string {
	depth := 0
	var walk func(q *qnode, d int)
	walk = func(q *qnode, d int) {
		if d > depth {
			depth = d
		}
		for _, s := range q.subs {
			walk(s, d+1)
		}
	}
	walk(q, 0)
	return fmt.Sprintf("depth%d", depth)
}

func sameQuery(a, b *gojson.FieldQuery) bool {
	if a == nil || b == nil {
		return a == b
	}
	if a.Name != b.Name || len(a.Fields) != len(b.Fields) {
		return false
	}
	// order of fields is not significant for selection
	as := append([]*gojson.FieldQuery{}, a.Fields...)
	bs := append([]*gojson.FieldQuery{}, b.Fields...)
	sort.Slice(as, func(i, j int) bool { return as[i].Name < as[j].Name })
	sort.Slice(bs, func(i, j int) bool { return bs[i].Name < bs[j].Name })
	for i := range as {
		if !sameQuery(as[i], bs[i]) {
			return false
		}
	}
	return true
}

func dumpQuery(q *gojson.FieldQuery) string {
	if q == nil {
		return "<nil>"
	}
	var parts []string
	for _, f := range q.Fields {
		parts = append(parts, dumpQuery(f))
	}
	if len(parts) == 0 {
		return q.Name
	}
	return q.Name + "[" + strings.Join(parts, ",") + "]"
}
