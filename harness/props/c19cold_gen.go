// Code generated for C19 (cold compiled-in types); DO NOT EDIT.

package props

type ColdIn struct {
	P int
	Q string
	R bool
	S []int
}

type ColdQ000 struct {
	A int
	B string
	C *ColdIn
	D float64
	E ColdIn
	F map[string]int
}

type ColdQ001 struct {
	A int
	B string
	C *ColdIn
	D float64
	E ColdIn
	F map[string]int
}

type ColdQ002 struct {
	A int
	B string
	C *ColdIn
	D float64
	E ColdIn
	F map[string]int
}

type ColdQ003 struct {
	A int
	B string
	C *ColdIn
	D float64
	E ColdIn
	F map[string]int
}

type ColdQ004 struct {
	A int
	B string
	C *ColdIn
	D float64
	E ColdIn
	F map[string]int
}

type ColdQ005 struct {
	A int
	B string
	C *ColdIn
	D float64
	E ColdIn
	F map[string]int
}

type ColdQ006 struct {
	A int
	B string
	C *ColdIn
	D float64
	E ColdIn
	F map[string]int
}

type ColdQ007 struct {
	A int
	B string
	C *ColdIn
	D float64
	E ColdIn
	F map[string]int
}

type ColdQ008 struct {
	A int
	B string
	C *ColdIn
	D float64
	E ColdIn
	F map[string]int
}

type ColdQ009 struct {
	A int
	B string
	C *ColdIn
	D float64
	E ColdIn
	F map[string]int
}

type ColdQ010 struct {
	A int
	B string
	C *ColdIn
	D float64
	E ColdIn
	F map[string]int
}

type ColdQ011 struct {
	A int
	B string
	C *ColdIn
	D float64
	E ColdIn
	F map[string]int
}

type ColdQ012 struct {
	A int
	B string
	C *ColdIn
	D float64
	E ColdIn
	F map[string]int
}

type ColdQ013 struct {
	A int
	B string
	C *ColdIn
	D float64
	E ColdIn
	F map[string]int
}

type ColdQ014 struct {
	A int
	B string
	C *ColdIn
	D float64
	E ColdIn
	F map[string]int
}

type ColdQ015 struct {
	A int
	B string
	C *ColdIn
	D float64
	E ColdIn
	F map[string]int
}

type ColdQ016 struct {
	A int
	B string
	C *ColdIn
	D float64
	E ColdIn
	F map[string]int
}

type ColdQ017 struct {
	A int
	B string
	C *ColdIn
	D float64
	E ColdIn
	F map[string]int
}

type ColdQ018 struct {
	A int
	B string
	C *ColdIn
	D float64
	E ColdIn
	F map[string]int
}

type ColdQ019 struct {
	A int
	B string
	C *ColdIn
	D float64
	E ColdIn
	F map[string]int
}

type ColdQ020 struct {
	A int
	B string
	C *ColdIn
	D float64
	E ColdIn
	F map[string]int
}

type ColdQ021 struct {
	A int
	B string
	C *ColdIn
	D float64
	E ColdIn
	F map[string]int
}

type ColdQ022 struct {
	A int
	B string
	C *ColdIn
	D float64
	E ColdIn
	F map[string]int
}

type ColdQ023 struct {
	A int
	B string
	C *ColdIn
	D float64
	E ColdIn
	F map[string]int
}

type ColdQ024 struct {
	A int
	B string
	C *ColdIn
	D float64
	E ColdIn
	F map[string]int
}

type ColdQ025 struct {
	A int
	B string
	C *ColdIn
	D float64
	E ColdIn
	F map[string]int
}

type ColdQ026 struct {
	A int
	B string
	C *ColdIn
	D float64
	E ColdIn
	F map[string]int
}

type ColdQ027 struct {
	A int
	B string
	C *ColdIn
	D float64
	E ColdIn
	F map[string]int
}

type ColdQ028 struct {
	A int
	B string
	C *ColdIn
	D float64
	E ColdIn
	F map[string]int
}

type ColdQ029 struct {
	A int
	B string
	C *ColdIn
	D float64
	E ColdIn
	F map[string]int
}

type ColdQ030 struct {
	A int
	B string
	C *ColdIn
	D float64
	E ColdIn
	F map[string]int
}

type ColdQ031 struct {
	A int
	B string
	C *ColdIn
	D float64
	E ColdIn
	F map[string]int
}

type ColdQ032 struct {
	A int
	B string
	C *ColdIn
	D float64
	E ColdIn
	F map[string]int
}

type ColdQ033 struct {
	A int
	B string
	C *ColdIn
	D float64
	E ColdIn
	F map[string]int
}

type ColdQ034 struct {
	A int
	B string
	C *ColdIn
	D float64
	E ColdIn
	F map[string]int
}

type ColdQ035 struct {
	A int
	B string
	C *ColdIn
	D float64
	E ColdIn
	F map[string]int
}

type ColdQ036 struct {
	A int
	B string
	C *ColdIn
	D float64
	E ColdIn
	F map[string]int
}

type ColdQ037 struct {
	A int
	B string
	C *ColdIn
	D float64
	E ColdIn
	F map[string]int
}

type ColdQ038 struct {
	A int
	B string
	C *ColdIn
	D float64
	E ColdIn
	F map[string]int
}

type ColdQ039 struct {
	A int
	B string
	C *ColdIn
	D float64
	E ColdIn
	F map[string]int
}

type ColdQ040 struct {
	A int
	B string
	C *ColdIn
	D float64
	E ColdIn
	F map[string]int
}

type ColdQ041 struct {
	A int
	B string
	C *ColdIn
	D float64
	E ColdIn
	F map[string]int
}

type ColdQ042 struct {
	A int
	B string
	C *ColdIn
	D float64
	E ColdIn
	F map[string]int
}

type ColdQ043 struct {
	A int
	B string
	C *ColdIn
	D float64
	E ColdIn
	F map[string]int
}

type ColdQ044 struct {
	A int
	B string
	C *ColdIn
	D float64
	E ColdIn
	F map[string]int
}

type ColdQ045 struct {
	A int
	B string
	C *ColdIn
	D float64
	E ColdIn
	F map[string]int
}

type ColdQ046 struct {
	A int
	B string
	C *ColdIn
	D float64
	E ColdIn
	F map[string]int
}

type ColdQ047 struct {
	A int
	B string
	C *ColdIn
	D float64
	E ColdIn
	F map[string]int
}

type ColdQ048 struct {
	A int
	B string
	C *ColdIn
	D float64
	E ColdIn
	F map[string]int
}

type ColdQ049 struct {
	A int
	B string
	C *ColdIn
	D float64
	E ColdIn
	F map[string]int
}

type ColdQ050 struct {
	A int
	B string
	C *ColdIn
	D float64
	E ColdIn
	F map[string]int
}

type ColdQ051 struct {
	A int
	B string
	C *ColdIn
	D float64
	E ColdIn
	F map[string]int
}

type ColdQ052 struct {
	A int
	B string
	C *ColdIn
	D float64
	E ColdIn
	F map[string]int
}

type ColdQ053 struct {
	A int
	B string
	C *ColdIn
	D float64
	E ColdIn
	F map[string]int
}

type ColdQ054 struct {
	A int
	B string
	C *ColdIn
	D float64
	E ColdIn
	F map[string]int
}

type ColdQ055 struct {
	A int
	B string
	C *ColdIn
	D float64
	E ColdIn
	F map[string]int
}

type ColdQ056 struct {
	A int
	B string
	C *ColdIn
	D float64
	E ColdIn
	F map[string]int
}

type ColdQ057 struct {
	A int
	B string
	C *ColdIn
	D float64
	E ColdIn
	F map[string]int
}

type ColdQ058 struct {
	A int
	B string
	C *ColdIn
	D float64
	E ColdIn
	F map[string]int
}

type ColdQ059 struct {
	A int
	B string
	C *ColdIn
	D float64
	E ColdIn
	F map[string]int
}

type ColdQ060 struct {
	A int
	B string
	C *ColdIn
	D float64
	E ColdIn
	F map[string]int
}

type ColdQ061 struct {
	A int
	B string
	C *ColdIn
	D float64
	E ColdIn
	F map[string]int
}

type ColdQ062 struct {
	A int
	B string
	C *ColdIn
	D float64
	E ColdIn
	F map[string]int
}

type ColdQ063 struct {
	A int
	B string
	C *ColdIn
	D float64
	E ColdIn
	F map[string]int
}

type ColdQ064 struct {
	A int
	B string
	C *ColdIn
	D float64
	E ColdIn
	F map[string]int
}

type ColdQ065 struct {
	A int
	B string
	C *ColdIn
	D float64
	E ColdIn
	F map[string]int
}

type ColdQ066 struct {
	A int
	B string
	C *ColdIn
	D float64
	E ColdIn
	F map[string]int
}

type ColdQ067 struct {
	A int
	B string
	C *ColdIn
	D float64
	E ColdIn
	F map[string]int
}

type ColdQ068 struct {
	A int
	B string
	C *ColdIn
	D float64
	E ColdIn
	F map[string]int
}

type ColdQ069 struct {
	A int
	B string
	C *ColdIn
	D float64
	E ColdIn
	F map[string]int
}

type ColdQ070 struct {
	A int
	B string
	C *ColdIn
	D float64
	E ColdIn
	F map[string]int
}

type ColdQ071 struct {
	A int
	B string
	C *ColdIn
	D float64
	E ColdIn
	F map[string]int
}

type ColdQ072 struct {
	A int
	B string
	C *ColdIn
	D float64
	E ColdIn
	F map[string]int
}

type ColdQ073 struct {
	A int
	B string
	C *ColdIn
	D float64
	E ColdIn
	F map[string]int
}

type ColdQ074 struct {
	A int
	B string
	C *ColdIn
	D float64
	E ColdIn
	F map[string]int
}

type ColdQ075 struct {
	A int
	B string
	C *ColdIn
	D float64
	E ColdIn
	F map[string]int
}

type ColdQ076 struct {
	A int
	B string
	C *ColdIn
	D float64
	E ColdIn
	F map[string]int
}

type ColdQ077 struct {
	A int
	B string
	C *ColdIn
	D float64
	E ColdIn
	F map[string]int
}

type ColdQ078 struct {
	A int
	B string
	C *ColdIn
	D float64
	E ColdIn
	F map[string]int
}

type ColdQ079 struct {
	A int
	B string
	C *ColdIn
	D float64
	E ColdIn
	F map[string]int
}

type ColdQ080 struct {
	A int
	B string
	C *ColdIn
	D float64
	E ColdIn
	F map[string]int
}

type ColdQ081 struct {
	A int
	B string
	C *ColdIn
	D float64
	E ColdIn
	F map[string]int
}

type ColdQ082 struct {
	A int
	B string
	C *ColdIn
	D float64
	E ColdIn
	F map[string]int
}

type ColdQ083 struct {
	A int
	B string
	C *ColdIn
	D float64
	E ColdIn
	F map[string]int
}

type ColdQ084 struct {
	A int
	B string
	C *ColdIn
	D float64
	E ColdIn
	F map[string]int
}

type ColdQ085 struct {
	A int
	B string
	C *ColdIn
	D float64
	E ColdIn
	F map[string]int
}

type ColdQ086 struct {
	A int
	B string
	C *ColdIn
	D float64
	E ColdIn
	F map[string]int
}

type ColdQ087 struct {
	A int
	B string
	C *ColdIn
	D float64
	E ColdIn
	F map[string]int
}

type ColdQ088 struct {
	A int
	B string
	C *ColdIn
	D float64
	E ColdIn
	F map[string]int
}

type ColdQ089 struct {
	A int
	B string
	C *ColdIn
	D float64
	E ColdIn
	F map[string]int
}

type ColdQ090 struct {
	A int
	B string
	C *ColdIn
	D float64
	E ColdIn
	F map[string]int
}

type ColdQ091 struct {
	A int
	B string
	C *ColdIn
	D float64
	E ColdIn
	F map[string]int
}

type ColdQ092 struct {
	A int
	B string
	C *ColdIn
	D float64
	E ColdIn
	F map[string]int
}

type ColdQ093 struct {
	A int
	B string
	C *ColdIn
	D float64
	E ColdIn
	F map[string]int
}

type ColdQ094 struct {
	A int
	B string
	C *ColdIn
	D float64
	E ColdIn
	F map[string]int
}

type ColdQ095 struct {
	A int
	B string
	C *ColdIn
	D float64
	E ColdIn
	F map[string]int
}

type ColdQ096 struct {
	A int
	B string
	C *ColdIn
	D float64
	E ColdIn
	F map[string]int
}

type ColdQ097 struct {
	A int
	B string
	C *ColdIn
	D float64
	E ColdIn
	F map[string]int
}

type ColdQ098 struct {
	A int
	B string
	C *ColdIn
	D float64
	E ColdIn
	F map[string]int
}

type ColdQ099 struct {
	A int
	B string
	C *ColdIn
	D float64
	E ColdIn
	F map[string]int
}

type ColdQ100 struct {
	A int
	B string
	C *ColdIn
	D float64
	E ColdIn
	F map[string]int
}

type ColdQ101 struct {
	A int
	B string
	C *ColdIn
	D float64
	E ColdIn
	F map[string]int
}

type ColdQ102 struct {
	A int
	B string
	C *ColdIn
	D float64
	E ColdIn
	F map[string]int
}

type ColdQ103 struct {
	A int
	B string
	C *ColdIn
	D float64
	E ColdIn
	F map[string]int
}

type ColdQ104 struct {
	A int
	B string
	C *ColdIn
	D float64
	E ColdIn
	F map[string]int
}

type ColdQ105 struct {
	A int
	B string
	C *ColdIn
	D float64
	E ColdIn
	F map[string]int
}

type ColdQ106 struct {
	A int
	B string
	C *ColdIn
	D float64
	E ColdIn
	F map[string]int
}

type ColdQ107 struct {
	A int
	B string
	C *ColdIn
	D float64
	E ColdIn
	F map[string]int
}

type ColdQ108 struct {
	A int
	B string
	C *ColdIn
	D float64
	E ColdIn
	F map[string]int
}

type ColdQ109 struct {
	A int
	B string
	C *ColdIn
	D float64
	E ColdIn
	F map[string]int
}

type ColdQ110 struct {
	A int
	B string
	C *ColdIn
	D float64
	E ColdIn
	F map[string]int
}

type ColdQ111 struct {
	A int
	B string
	C *ColdIn
	D float64
	E ColdIn
	F map[string]int
}

type ColdQ112 struct {
	A int
	B string
	C *ColdIn
	D float64
	E ColdIn
	F map[string]int
}

type ColdQ113 struct {
	A int
	B string
	C *ColdIn
	D float64
	E ColdIn
	F map[string]int
}

type ColdQ114 struct {
	A int
	B string
	C *ColdIn
	D float64
	E ColdIn
	F map[string]int
}

type ColdQ115 struct {
	A int
	B string
	C *ColdIn
	D float64
	E ColdIn
	F map[string]int
}

type ColdQ116 struct {
	A int
	B string
	C *ColdIn
	D float64
	E ColdIn
	F map[string]int
}

type ColdQ117 struct {
	A int
	B string
	C *ColdIn
	D float64
	E ColdIn
	F map[string]int
}

type ColdQ118 struct {
	A int
	B string
	C *ColdIn
	D float64
	E ColdIn
	F map[string]int
}

type ColdQ119 struct {
	A int
	B string
	C *ColdIn
	D float64
	E ColdIn
	F map[string]int
}

type ColdQ120 struct {
	A int
	B string
	C *ColdIn
	D float64
	E ColdIn
	F map[string]int
}

type ColdQ121 struct {
	A int
	B string
	C *ColdIn
	D float64
	E ColdIn
	F map[string]int
}

type ColdQ122 struct {
	A int
	B string
	C *ColdIn
	D float64
	E ColdIn
	F map[string]int
}

type ColdQ123 struct {
	A int
	B string
	C *ColdIn
	D float64
	E ColdIn
	F map[string]int
}

type ColdQ124 struct {
	A int
	B string
	C *ColdIn
	D float64
	E ColdIn
	F map[string]int
}

type ColdQ125 struct {
	A int
	B string
	C *ColdIn
	D float64
	E ColdIn
	F map[string]int
}

type ColdQ126 struct {
	A int
	B string
	C *ColdIn
	D float64
	E ColdIn
	F map[string]int
}

type ColdQ127 struct {
	A int
	B string
	C *ColdIn
	D float64
	E ColdIn
	F map[string]int
}

type ColdQ128 struct {
	A int
	B string
	C *ColdIn
	D float64
	E ColdIn
	F map[string]int
}

type ColdQ129 struct {
	A int
	B string
	C *ColdIn
	D float64
	E ColdIn
	F map[string]int
}

type ColdQ130 struct {
	A int
	B string
	C *ColdIn
	D float64
	E ColdIn
	F map[string]int
}

type ColdQ131 struct {
	A int
	B string
	C *ColdIn
	D float64
	E ColdIn
	F map[string]int
}

type ColdQ132 struct {
	A int
	B string
	C *ColdIn
	D float64
	E ColdIn
	F map[string]int
}

type ColdQ133 struct {
	A int
	B string
	C *ColdIn
	D float64
	E ColdIn
	F map[string]int
}

type ColdQ134 struct {
	A int
	B string
	C *ColdIn
	D float64
	E ColdIn
	F map[string]int
}

type ColdQ135 struct {
	A int
	B string
	C *ColdIn
	D float64
	E ColdIn
	F map[string]int
}

type ColdQ136 struct {
	A int
	B string
	C *ColdIn
	D float64
	E ColdIn
	F map[string]int
}

type ColdQ137 struct {
	A int
	B string
	C *ColdIn
	D float64
	E ColdIn
	F map[string]int
}

type ColdQ138 struct {
	A int
	B string
	C *ColdIn
	D float64
	E ColdIn
	F map[string]int
}

type ColdQ139 struct {
	A int
	B string
	C *ColdIn
	D float64
	E ColdIn
	F map[string]int
}

type ColdQ140 struct {
	A int
	B string
	C *ColdIn
	D float64
	E ColdIn
	F map[string]int
}

type ColdQ141 struct {
	A int
	B string
	C *ColdIn
	D float64
	E ColdIn
	F map[string]int
}

type ColdQ142 struct {
	A int
	B string
	C *ColdIn
	D float64
	E ColdIn
	F map[string]int
}

type ColdQ143 struct {
	A int
	B string
	C *ColdIn
	D float64
	E ColdIn
	F map[string]int
}

type ColdQ144 struct {
	A int
	B string
	C *ColdIn
	D float64
	E ColdIn
	F map[string]int
}

type ColdQ145 struct {
	A int
	B string
	C *ColdIn
	D float64
	E ColdIn
	F map[string]int
}

type ColdQ146 struct {
	A int
	B string
	C *ColdIn
	D float64
	E ColdIn
	F map[string]int
}

type ColdQ147 struct {
	A int
	B string
	C *ColdIn
	D float64
	E ColdIn
	F map[string]int
}

type ColdQ148 struct {
	A int
	B string
	C *ColdIn
	D float64
	E ColdIn
	F map[string]int
}

type ColdQ149 struct {
	A int
	B string
	C *ColdIn
	D float64
	E ColdIn
	F map[string]int
}

type ColdQ150 struct {
	A int
	B string
	C *ColdIn
	D float64
	E ColdIn
	F map[string]int
}

type ColdQ151 struct {
	A int
	B string
	C *ColdIn
	D float64
	E ColdIn
	F map[string]int
}

type ColdQ152 struct {
	A int
	B string
	C *ColdIn
	D float64
	E ColdIn
	F map[string]int
}

type ColdQ153 struct {
	A int
	B string
	C *ColdIn
	D float64
	E ColdIn
	F map[string]int
}

type ColdQ154 struct {
	A int
	B string
	C *ColdIn
	D float64
	E ColdIn
	F map[string]int
}

type ColdQ155 struct {
	A int
	B string
	C *ColdIn
	D float64
	E ColdIn
	F map[string]int
}

type ColdQ156 struct {
	A int
	B string
	C *ColdIn
	D float64
	E ColdIn
	F map[string]int
}

type ColdQ157 struct {
	A int
	B string
	C *ColdIn
	D float64
	E ColdIn
	F map[string]int
}

type ColdQ158 struct {
	A int
	B string
	C *ColdIn
	D float64
	E ColdIn
	F map[string]int
}

type ColdQ159 struct {
	A int
	B string
	C *ColdIn
	D float64
	E ColdIn
	F map[string]int
}

type ColdQ160 struct {
	A int
	B string
	C *ColdIn
	D float64
	E ColdIn
	F map[string]int
}

type ColdQ161 struct {
	A int
	B string
	C *ColdIn
	D float64
	E ColdIn
	F map[string]int
}

type ColdQ162 struct {
	A int
	B string
	C *ColdIn
	D float64
	E ColdIn
	F map[string]int
}

type ColdQ163 struct {
	A int
	B string
	C *ColdIn
	D float64
	E ColdIn
	F map[string]int
}

type ColdQ164 struct {
	A int
	B string
	C *ColdIn
	D float64
	E ColdIn
	F map[string]int
}

type ColdQ165 struct {
	A int
	B string
	C *ColdIn
	D float64
	E ColdIn
	F map[string]int
}

type ColdQ166 struct {
	A int
	B string
	C *ColdIn
	D float64
	E ColdIn
	F map[string]int
}

type ColdQ167 struct {
	A int
	B string
	C *ColdIn
	D float64
	E ColdIn
	F map[string]int
}

type ColdQ168 struct {
	A int
	B string
	C *ColdIn
	D float64
	E ColdIn
	F map[string]int
}

type ColdQ169 struct {
	A int
	B string
	C *ColdIn
	D float64
	E ColdIn
	F map[string]int
}

type ColdQ170 struct {
	A int
	B string
	C *ColdIn
	D float64
	E ColdIn
	F map[string]int
}

type ColdQ171 struct {
	A int
	B string
	C *ColdIn
	D float64
	E ColdIn
	F map[string]int
}

type ColdQ172 struct {
	A int
	B string
	C *ColdIn
	D float64
	E ColdIn
	F map[string]int
}

type ColdQ173 struct {
	A int
	B string
	C *ColdIn
	D float64
	E ColdIn
	F map[string]int
}

type ColdQ174 struct {
	A int
	B string
	C *ColdIn
	D float64
	E ColdIn
	F map[string]int
}

type ColdQ175 struct {
	A int
	B string
	C *ColdIn
	D float64
	E ColdIn
	F map[string]int
}

type ColdQ176 struct {
	A int
	B string
	C *ColdIn
	D float64
	E ColdIn
	F map[string]int
}

type ColdQ177 struct {
	A int
	B string
	C *ColdIn
	D float64
	E ColdIn
	F map[string]int
}

type ColdQ178 struct {
	A int
	B string
	C *ColdIn
	D float64
	E ColdIn
	F map[string]int
}

type ColdQ179 struct {
	A int
	B string
	C *ColdIn
	D float64
	E ColdIn
	F map[string]int
}

type ColdQ180 struct {
	A int
	B string
	C *ColdIn
	D float64
	E ColdIn
	F map[string]int
}

type ColdQ181 struct {
	A int
	B string
	C *ColdIn
	D float64
	E ColdIn
	F map[string]int
}

type ColdQ182 struct {
	A int
	B string
	C *ColdIn
	D float64
	E ColdIn
	F map[string]int
}

type ColdQ183 struct {
	A int
	B string
	C *ColdIn
	D float64
	E ColdIn
	F map[string]int
}

type ColdQ184 struct {
	A int
	B string
	C *ColdIn
	D float64
	E ColdIn
	F map[string]int
}

type ColdQ185 struct {
	A int
	B string
	C *ColdIn
	D float64
	E ColdIn
	F map[string]int
}

type ColdQ186 struct {
	A int
	B string
	C *ColdIn
	D float64
	E ColdIn
	F map[string]int
}

type ColdQ187 struct {
	A int
	B string
	C *ColdIn
	D float64
	E ColdIn
	F map[string]int
}

type ColdQ188 struct {
	A int
	B string
	C *ColdIn
	D float64
	E ColdIn
	F map[string]int
}

type ColdQ189 struct {
	A int
	B string
	C *ColdIn
	D float64
	E ColdIn
	F map[string]int
}

type ColdQ190 struct {
	A int
	B string
	C *ColdIn
	D float64
	E ColdIn
	F map[string]int
}

type ColdQ191 struct {
	A int
	B string
	C *ColdIn
	D float64
	E ColdIn
	F map[string]int
}

type ColdQ192 struct {
	A int
	B string
	C *ColdIn
	D float64
	E ColdIn
	F map[string]int
}

type ColdQ193 struct {
	A int
	B string
	C *ColdIn
	D float64
	E ColdIn
	F map[string]int
}

type ColdQ194 struct {
	A int
	B string
	C *ColdIn
	D float64
	E ColdIn
	F map[string]int
}

type ColdQ195 struct {
	A int
	B string
	C *ColdIn
	D float64
	E ColdIn
	F map[string]int
}

type ColdQ196 struct {
	A int
	B string
	C *ColdIn
	D float64
	E ColdIn
	F map[string]int
}

type ColdQ197 struct {
	A int
	B string
	C *ColdIn
	D float64
	E ColdIn
	F map[string]int
}

type ColdQ198 struct {
	A int
	B string
	C *ColdIn
	D float64
	E ColdIn
	F map[string]int
}

type ColdQ199 struct {
	A int
	B string
	C *ColdIn
	D float64
	E ColdIn
	F map[string]int
}

type ColdQ200 struct {
	A int
	B string
	C *ColdIn
	D float64
	E ColdIn
	F map[string]int
}

type ColdQ201 struct {
	A int
	B string
	C *ColdIn
	D float64
	E ColdIn
	F map[string]int
}

type ColdQ202 struct {
	A int
	B string
	C *ColdIn
	D float64
	E ColdIn
	F map[string]int
}

type ColdQ203 struct {
	A int
	B string
	C *ColdIn
	D float64
	E ColdIn
	F map[string]int
}

type ColdQ204 struct {
	A int
	B string
	C *ColdIn
	D float64
	E ColdIn
	F map[string]int
}

type ColdQ205 struct {
	A int
	B string
	C *ColdIn
	D float64
	E ColdIn
	F map[string]int
}

type ColdQ206 struct {
	A int
	B string
	C *ColdIn
	D float64
	E ColdIn
	F map[string]int
}

type ColdQ207 struct {
	A int
	B string
	C *ColdIn
	D float64
	E ColdIn
	F map[string]int
}

type ColdQ208 struct {
	A int
	B string
	C *ColdIn
	D float64
	E ColdIn
	F map[string]int
}

type ColdQ209 struct {
	A int
	B string
	C *ColdIn
	D float64
	E ColdIn
	F map[string]int
}

type ColdQ210 struct {
	A int
	B string
	C *ColdIn
	D float64
	E ColdIn
	F map[string]int
}

type ColdQ211 struct {
	A int
	B string
	C *ColdIn
	D float64
	E ColdIn
	F map[string]int
}

type ColdQ212 struct {
	A int
	B string
	C *ColdIn
	D float64
	E ColdIn
	F map[string]int
}

type ColdQ213 struct {
	A int
	B string
	C *ColdIn
	D float64
	E ColdIn
	F map[string]int
}

type ColdQ214 struct {
	A int
	B string
	C *ColdIn
	D float64
	E ColdIn
	F map[string]int
}

type ColdQ215 struct {
	A int
	B string
	C *ColdIn
	D float64
	E ColdIn
	F map[string]int
}

type ColdQ216 struct {
	A int
	B string
	C *ColdIn
	D float64
	E ColdIn
	F map[string]int
}

type ColdQ217 struct {
	A int
	B string
	C *ColdIn
	D float64
	E ColdIn
	F map[string]int
}

type ColdQ218 struct {
	A int
	B string
	C *ColdIn
	D float64
	E ColdIn
	F map[string]int
}

type ColdQ219 struct {
	A int
	B string
	C *ColdIn
	D float64
	E ColdIn
	F map[string]int
}

type ColdQ220 struct {
	A int
	B string
	C *ColdIn
	D float64
	E ColdIn
	F map[string]int
}

type ColdQ221 struct {
	A int
	B string
	C *ColdIn
	D float64
	E ColdIn
	F map[string]int
}

type ColdQ222 struct {
	A int
	B string
	C *ColdIn
	D float64
	E ColdIn
	F map[string]int
}

type ColdQ223 struct {
	A int
	B string
	C *ColdIn
	D float64
	E ColdIn
	F map[string]int
}

type ColdQ224 struct {
	A int
	B string
	C *ColdIn
	D float64
	E ColdIn
	F map[string]int
}

type ColdQ225 struct {
	A int
	B string
	C *ColdIn
	D float64
	E ColdIn
	F map[string]int
}

type ColdQ226 struct {
	A int
	B string
	C *ColdIn
	D float64
	E ColdIn
	F map[string]int
}

type ColdQ227 struct {
	A int
	B string
	C *ColdIn
	D float64
	E ColdIn
	F map[string]int
}

type ColdQ228 struct {
	A int
	B string
	C *ColdIn
	D float64
	E ColdIn
	F map[string]int
}

type ColdQ229 struct {
	A int
	B string
	C *ColdIn
	D float64
	E ColdIn
	F map[string]int
}

type ColdQ230 struct {
	A int
	B string
	C *ColdIn
	D float64
	E ColdIn
	F map[string]int
}

type ColdQ231 struct {
	A int
	B string
	C *ColdIn
	D float64
	E ColdIn
	F map[string]int
}

type ColdQ232 struct {
	A int
	B string
	C *ColdIn
	D float64
	E ColdIn
	F map[string]int
}

type ColdQ233 struct {
	A int
	B string
	C *ColdIn
	D float64
	E ColdIn
	F map[string]int
}

type ColdQ234 struct {
	A int
	B string
	C *ColdIn
	D float64
	E ColdIn
	F map[string]int
}

type ColdQ235 struct {
	A int
	B string
	C *ColdIn
	D float64
	E ColdIn
	F map[string]int
}

type ColdQ236 struct {
	A int
	B string
	C *ColdIn
	D float64
	E ColdIn
	F map[string]int
}

type ColdQ237 struct {
	A int
	B string
	C *ColdIn
	D float64
	E ColdIn
	F map[string]int
}

type ColdQ238 struct {
	A int
	B string
	C *ColdIn
	D float64
	E ColdIn
	F map[string]int
}

type ColdQ239 struct {
	A int
	B string
	C *ColdIn
	D float64
	E ColdIn
	F map[string]int
}

type ColdQ240 struct {
	A int
	B string
	C *ColdIn
	D float64
	E ColdIn
	F map[string]int
}

type ColdQ241 struct {
	A int
	B string
	C *ColdIn
	D float64
	E ColdIn
	F map[string]int
}

type ColdQ242 struct {
	A int
	B string
	C *ColdIn
	D float64
	E ColdIn
	F map[string]int
}

type ColdQ243 struct {
	A int
	B string
	C *ColdIn
	D float64
	E ColdIn
	F map[string]int
}

type ColdQ244 struct {
	A int
	B string
	C *ColdIn
	D float64
	E ColdIn
	F map[string]int
}

type ColdQ245 struct {
	A int
	B string
	C *ColdIn
	D float64
	E ColdIn
	F map[string]int
}

type ColdQ246 struct {
	A int
	B string
	C *ColdIn
	D float64
	E ColdIn
	F map[string]int
}

type ColdQ247 struct {
	A int
	B string
	C *ColdIn
	D float64
	E ColdIn
	F map[string]int
}

type ColdQ248 struct {
	A int
	B string
	C *ColdIn
	D float64
	E ColdIn
	F map[string]int
}

type ColdQ249 struct {
	A int
	B string
	C *ColdIn
	D float64
	E ColdIn
	F map[string]int
}

type ColdQ250 struct {
	A int
	B string
	C *ColdIn
	D float64
	E ColdIn
	F map[string]int
}

type ColdQ251 struct {
	A int
	B string
	C *ColdIn
	D float64
	E ColdIn
	F map[string]int
}

type ColdQ252 struct {
	A int
	B string
	C *ColdIn
	D float64
	E ColdIn
	F map[string]int
}

type ColdQ253 struct {
	A int
	B string
	C *ColdIn
	D float64
	E ColdIn
	F map[string]int
}

type ColdQ254 struct {
	A int
	B string
	C *ColdIn
	D float64
	E ColdIn
	F map[string]int
}

type ColdQ255 struct {
	A int
	B string
	C *ColdIn
	D float64
	E ColdIn
	F map[string]int
}

// c19ColdCompiled: one constructor per reserved type; a type is cold only until its first encoding.
var c19ColdCompiled = []func(a int) any{
	func(a int) any {
		return &ColdQ000{A: a, B: "b", C: &ColdIn{P: 2, Q: "q", R: true, S: []int{1}}, D: 1.5, E: ColdIn{P: 3, Q: "e"}, F: map[string]int{"k": 1}}
	},
	func(a int) any {
		return &ColdQ001{A: a, B: "b", C: &ColdIn{P: 2, Q: "q", R: true, S: []int{1}}, D: 1.5, E: ColdIn{P: 3, Q: "e"}, F: map[string]int{"k": 1}}
	},
	func(a int) any {
		return &ColdQ002{A: a, B: "b", C: &ColdIn{P: 2, Q: "q", R: true, S: []int{1}}, D: 1.5, E: ColdIn{P: 3, Q: "e"}, F: map[string]int{"k": 1}}
	},
	func(a int) any {
		return &ColdQ003{A: a, B: "b", C: &ColdIn{P: 2, Q: "q", R: true, S: []int{1}}, D: 1.5, E: ColdIn{P: 3, Q: "e"}, F: map[string]int{"k": 1}}
	},
	func(a int) any {
		return &ColdQ004{A: a, B: "b", C: &ColdIn{P: 2, Q: "q", R: true, S: []int{1}}, D: 1.5, E: ColdIn{P: 3, Q: "e"}, F: map[string]int{"k": 1}}
	},
	func(a int) any {
		return &ColdQ005{A: a, B: "b", C: &ColdIn{P: 2, Q: "q", R: true, S: []int{1}}, D: 1.5, E: ColdIn{P: 3, Q: "e"}, F: map[string]int{"k": 1}}
	},
	func(a int) any {
		return &ColdQ006{A: a, B: "b", C: &ColdIn{P: 2, Q: "q", R: true, S: []int{1}}, D: 1.5, E: ColdIn{P: 3, Q: "e"}, F: map[string]int{"k": 1}}
	},
	func(a int) any {
		return &ColdQ007{A: a, B: "b", C: &ColdIn{P: 2, Q: "q", R: true, S: []int{1}}, D: 1.5, E: ColdIn{P: 3, Q: "e"}, F: map[string]int{"k": 1}}
	},
	func(a int) any {
		return &ColdQ008{A: a, B: "b", C: &ColdIn{P: 2, Q: "q", R: true, S: []int{1}}, D: 1.5, E: ColdIn{P: 3, Q: "e"}, F: map[string]int{"k": 1}}
	},
	func(a int) any {
		return &ColdQ009{A: a, B: "b", C: &ColdIn{P: 2, Q: "q", R: true, S: []int{1}}, D: 1.5, E: ColdIn{P: 3, Q: "e"}, F: map[string]int{"k": 1}}
	},
	func(a int) any {
		return &ColdQ010{A: a, B: "b", C: &ColdIn{P: 2, Q: "q", R: true, S: []int{1}}, D: 1.5, E: ColdIn{P: 3, Q: "e"}, F: map[string]int{"k": 1}}
	},
	func(a int) any {
		return &ColdQ011{A: a, B: "b", C: &ColdIn{P: 2, Q: "q", R: true, S: []int{1}}, D: 1.5, E: ColdIn{P: 3, Q: "e"}, F: map[string]int{"k": 1}}
	},
	func(a int) any {
		return &ColdQ012{A: a, B: "b", C: &ColdIn{P: 2, Q: "q", R: true, S: []int{1}}, D: 1.5, E: ColdIn{P: 3, Q: "e"}, F: map[string]int{"k": 1}}
	},
	func(a int) any {
		return &ColdQ013{A: a, B: "b", C: &ColdIn{P: 2, Q: "q", R: true, S: []int{1}}, D: 1.5, E: ColdIn{P: 3, Q: "e"}, F: map[string]int{"k": 1}}
	},
	func(a int) any {
		return &ColdQ014{A: a, B: "b", C: &ColdIn{P: 2, Q: "q", R: true, S: []int{1}}, D: 1.5, E: ColdIn{P: 3, Q: "e"}, F: map[string]int{"k": 1}}
	},
	func(a int) any {
		return &ColdQ015{A: a, B: "b", C: &ColdIn{P: 2, Q: "q", R: true, S: []int{1}}, D: 1.5, E: ColdIn{P: 3, Q: "e"}, F: map[string]int{"k": 1}}
	},
	func(a int) any {
		return &ColdQ016{A: a, B: "b", C: &ColdIn{P: 2, Q: "q", R: true, S: []int{1}}, D: 1.5, E: ColdIn{P: 3, Q: "e"}, F: map[string]int{"k": 1}}
	},
	func(a int) any {
		return &ColdQ017{A: a, B: "b", C: &ColdIn{P: 2, Q: "q", R: true, S: []int{1}}, D: 1.5, E: ColdIn{P: 3, Q: "e"}, F: map[string]int{"k": 1}}
	},
	func(a int) any {
		return &ColdQ018{A: a, B: "b", C: &ColdIn{P: 2, Q: "q", R: true, S: []int{1}}, D: 1.5, E: ColdIn{P: 3, Q: "e"}, F: map[string]int{"k": 1}}
	},
	func(a int) any {
		return &ColdQ019{A: a, B: "b", C: &ColdIn{P: 2, Q: "q", R: true, S: []int{1}}, D: 1.5, E: ColdIn{P: 3, Q: "e"}, F: map[string]int{"k": 1}}
	},
	func(a int) any {
		return &ColdQ020{A: a, B: "b", C: &ColdIn{P: 2, Q: "q", R: true, S: []int{1}}, D: 1.5, E: ColdIn{P: 3, Q: "e"}, F: map[string]int{"k": 1}}
	},
	func(a int) any {
		return &ColdQ021{A: a, B: "b", C: &ColdIn{P: 2, Q: "q", R: true, S: []int{1}}, D: 1.5, E: ColdIn{P: 3, Q: "e"}, F: map[string]int{"k": 1}}
	},
	func(a int) any {
		return &ColdQ022{A: a, B: "b", C: &ColdIn{P: 2, Q: "q", R: true, S: []int{1}}, D: 1.5, E: ColdIn{P: 3, Q: "e"}, F: map[string]int{"k": 1}}
	},
	func(a int) any {
		return &ColdQ023{A: a, B: "b", C: &ColdIn{P: 2, Q: "q", R: true, S: []int{1}}, D: 1.5, E: ColdIn{P: 3, Q: "e"}, F: map[string]int{"k": 1}}
	},
	func(a int) any {
		return &ColdQ024{A: a, B: "b", C: &ColdIn{P: 2, Q: "q", R: true, S: []int{1}}, D: 1.5, E: ColdIn{P: 3, Q: "e"}, F: map[string]int{"k": 1}}
	},
	func(a int) any {
		return &ColdQ025{A: a, B: "b", C: &ColdIn{P: 2, Q: "q", R: true, S: []int{1}}, D: 1.5, E: ColdIn{P: 3, Q: "e"}, F: map[string]int{"k": 1}}
	},
	func(a int) any {
		return &ColdQ026{A: a, B: "b", C: &ColdIn{P: 2, Q: "q", R: true, S: []int{1}}, D: 1.5, E: ColdIn{P: 3, Q: "e"}, F: map[string]int{"k": 1}}
	},
	func(a int) any {
		return &ColdQ027{A: a, B: "b", C: &ColdIn{P: 2, Q: "q", R: true, S: []int{1}}, D: 1.5, E: ColdIn{P: 3, Q: "e"}, F: map[string]int{"k": 1}}
	},
	func(a int) any {
		return &ColdQ028{A: a, B: "b", C: &ColdIn{P: 2, Q: "q", R: true, S: []int{1}}, D: 1.5, E: ColdIn{P: 3, Q: "e"}, F: map[string]int{"k": 1}}
	},
	func(a int) any {
		return &ColdQ029{A: a, B: "b", C: &ColdIn{P: 2, Q: "q", R: true, S: []int{1}}, D: 1.5, E: ColdIn{P: 3, Q: "e"}, F: map[string]int{"k": 1}}
	},
	func(a int) any {
		return &ColdQ030{A: a, B: "b", C: &ColdIn{P: 2, Q: "q", R: true, S: []int{1}}, D: 1.5, E: ColdIn{P: 3, Q: "e"}, F: map[string]int{"k": 1}}
	},
	func(a int) any {
		return &ColdQ031{A: a, B: "b", C: &ColdIn{P: 2, Q: "q", R: true, S: []int{1}}, D: 1.5, E: ColdIn{P: 3, Q: "e"}, F: map[string]int{"k": 1}}
	},
	func(a int) any {
		return &ColdQ032{A: a, B: "b", C: &ColdIn{P: 2, Q: "q", R: true, S: []int{1}}, D: 1.5, E: ColdIn{P: 3, Q: "e"}, F: map[string]int{"k": 1}}
	},
	func(a int) any {
		return &ColdQ033{A: a, B: "b", C: &ColdIn{P: 2, Q: "q", R: true, S: []int{1}}, D: 1.5, E: ColdIn{P: 3, Q: "e"}, F: map[string]int{"k": 1}}
	},
	func(a int) any {
		return &ColdQ034{A: a, B: "b", C: &ColdIn{P: 2, Q: "q", R: true, S: []int{1}}, D: 1.5, E: ColdIn{P: 3, Q: "e"}, F: map[string]int{"k": 1}}
	},
	func(a int) any {
		return &ColdQ035{A: a, B: "b", C: &ColdIn{P: 2, Q: "q", R: true, S: []int{1}}, D: 1.5, E: ColdIn{P: 3, Q: "e"}, F: map[string]int{"k": 1}}
	},
	func(a int) any {
		return &ColdQ036{A: a, B: "b", C: &ColdIn{P: 2, Q: "q", R: true, S: []int{1}}, D: 1.5, E: ColdIn{P: 3, Q: "e"}, F: map[string]int{"k": 1}}
	},
	func(a int) any {
		return &ColdQ037{A: a, B: "b", C: &ColdIn{P: 2, Q: "q", R: true, S: []int{1}}, D: 1.5, E: ColdIn{P: 3, Q: "e"}, F: map[string]int{"k": 1}}
	},
	func(a int) any {
		return &ColdQ038{A: a, B: "b", C: &ColdIn{P: 2, Q: "q", R: true, S: []int{1}}, D: 1.5, E: ColdIn{P: 3, Q: "e"}, F: map[string]int{"k": 1}}
	},
	func(a int) any {
		return &ColdQ039{A: a, B: "b", C: &ColdIn{P: 2, Q: "q", R: true, S: []int{1}}, D: 1.5, E: ColdIn{P: 3, Q: "e"}, F: map[string]int{"k": 1}}
	},
	func(a int) any {
		return &ColdQ040{A: a, B: "b", C: &ColdIn{P: 2, Q: "q", R: true, S: []int{1}}, D: 1.5, E: ColdIn{P: 3, Q: "e"}, F: map[string]int{"k": 1}}
	},
	func(a int) any {
		return &ColdQ041{A: a, B: "b", C: &ColdIn{P: 2, Q: "q", R: true, S: []int{1}}, D: 1.5, E: ColdIn{P: 3, Q: "e"}, F: map[string]int{"k": 1}}
	},
	func(a int) any {
		return &ColdQ042{A: a, B: "b", C: &ColdIn{P: 2, Q: "q", R: true, S: []int{1}}, D: 1.5, E: ColdIn{P: 3, Q: "e"}, F: map[string]int{"k": 1}}
	},
	func(a int) any {
		return &ColdQ043{A: a, B: "b", C: &ColdIn{P: 2, Q: "q", R: true, S: []int{1}}, D: 1.5, E: ColdIn{P: 3, Q: "e"}, F: map[string]int{"k": 1}}
	},
	func(a int) any {
		return &ColdQ044{A: a, B: "b", C: &ColdIn{P: 2, Q: "q", R: true, S: []int{1}}, D: 1.5, E: ColdIn{P: 3, Q: "e"}, F: map[string]int{"k": 1}}
	},
	func(a int) any {
		return &ColdQ045{A: a, B: "b", C: &ColdIn{P: 2, Q: "q", R: true, S: []int{1}}, D: 1.5, E: ColdIn{P: 3, Q: "e"}, F: map[string]int{"k": 1}}
	},
	func(a int) any {
		return &ColdQ046{A: a, B: "b", C: &ColdIn{P: 2, Q: "q", R: true, S: []int{1}}, D: 1.5, E: ColdIn{P: 3, Q: "e"}, F: map[string]int{"k": 1}}
	},
	func(a int) any {
		return &ColdQ047{A: a, B: "b", C: &ColdIn{P: 2, Q: "q", R: true, S: []int{1}}, D: 1.5, E: ColdIn{P: 3, Q: "e"}, F: map[string]int{"k": 1}}
	},
	func(a int) any {
		return &ColdQ048{A: a, B: "b", C: &ColdIn{P: 2, Q: "q", R: true, S: []int{1}}, D: 1.5, E: ColdIn{P: 3, Q: "e"}, F: map[string]int{"k": 1}}
	},
	func(a int) any {
		return &ColdQ049{A: a, B: "b", C: &ColdIn{P: 2, Q: "q", R: true, S: []int{1}}, D: 1.5, E: ColdIn{P: 3, Q: "e"}, F: map[string]int{"k": 1}}
	},
	func(a int) any {
		return &ColdQ050{A: a, B: "b", C: &ColdIn{P: 2, Q: "q", R: true, S: []int{1}}, D: 1.5, E: ColdIn{P: 3, Q: "e"}, F: map[string]int{"k": 1}}
	},
	func(a int) any {
		return &ColdQ051{A: a, B: "b", C: &ColdIn{P: 2, Q: "q", R: true, S: []int{1}}, D: 1.5, E: ColdIn{P: 3, Q: "e"}, F: map[string]int{"k": 1}}
	},
	func(a int) any {
		return &ColdQ052{A: a, B: "b", C: &ColdIn{P: 2, Q: "q", R: true, S: []int{1}}, D: 1.5, E: ColdIn{P: 3, Q: "e"}, F: map[string]int{"k": 1}}
	},
	func(a int) any {
		return &ColdQ053{A: a, B: "b", C: &ColdIn{P: 2, Q: "q", R: true, S: []int{1}}, D: 1.5, E: ColdIn{P: 3, Q: "e"}, F: map[string]int{"k": 1}}
	},
	func(a int) any {
		return &ColdQ054{A: a, B: "b", C: &ColdIn{P: 2, Q: "q", R: true, S: []int{1}}, D: 1.5, E: ColdIn{P: 3, Q: "e"}, F: map[string]int{"k": 1}}
	},
	func(a int) any {
		return &ColdQ055{A: a, B: "b", C: &ColdIn{P: 2, Q: "q", R: true, S: []int{1}}, D: 1.5, E: ColdIn{P: 3, Q: "e"}, F: map[string]int{"k": 1}}
	},
	func(a int) any {
		return &ColdQ056{A: a, B: "b", C: &ColdIn{P: 2, Q: "q", R: true, S: []int{1}}, D: 1.5, E: ColdIn{P: 3, Q: "e"}, F: map[string]int{"k": 1}}
	},
	func(a int) any {
		return &ColdQ057{A: a, B: "b", C: &ColdIn{P: 2, Q: "q", R: true, S: []int{1}}, D: 1.5, E: ColdIn{P: 3, Q: "e"}, F: map[string]int{"k": 1}}
	},
	func(a int) any {
		return &ColdQ058{A: a, B: "b", C: &ColdIn{P: 2, Q: "q", R: true, S: []int{1}}, D: 1.5, E: ColdIn{P: 3, Q: "e"}, F: map[string]int{"k": 1}}
	},
	func(a int) any {
		return &ColdQ059{A: a, B: "b", C: &ColdIn{P: 2, Q: "q", R: true, S: []int{1}}, D: 1.5, E: ColdIn{P: 3, Q: "e"}, F: map[string]int{"k": 1}}
	},
	func(a int) any {
		return &ColdQ060{A: a, B: "b", C: &ColdIn{P: 2, Q: "q", R: true, S: []int{1}}, D: 1.5, E: ColdIn{P: 3, Q: "e"}, F: map[string]int{"k": 1}}
	},
	func(a int) any {
		return &ColdQ061{A: a, B: "b", C: &ColdIn{P: 2, Q: "q", R: true, S: []int{1}}, D: 1.5, E: ColdIn{P: 3, Q: "e"}, F: map[string]int{"k": 1}}
	},
	func(a int) any {
		return &ColdQ062{A: a, B: "b", C: &ColdIn{P: 2, Q: "q", R: true, S: []int{1}}, D: 1.5, E: ColdIn{P: 3, Q: "e"}, F: map[string]int{"k": 1}}
	},
	func(a int) any {
		return &ColdQ063{A: a, B: "b", C: &ColdIn{P: 2, Q: "q", R: true, S: []int{1}}, D: 1.5, E: ColdIn{P: 3, Q: "e"}, F: map[string]int{"k": 1}}
	},
	func(a int) any {
		return &ColdQ064{A: a, B: "b", C: &ColdIn{P: 2, Q: "q", R: true, S: []int{1}}, D: 1.5, E: ColdIn{P: 3, Q: "e"}, F: map[string]int{"k": 1}}
	},
	func(a int) any {
		return &ColdQ065{A: a, B: "b", C: &ColdIn{P: 2, Q: "q", R: true, S: []int{1}}, D: 1.5, E: ColdIn{P: 3, Q: "e"}, F: map[string]int{"k": 1}}
	},
	func(a int) any {
		return &ColdQ066{A: a, B: "b", C: &ColdIn{P: 2, Q: "q", R: true, S: []int{1}}, D: 1.5, E: ColdIn{P: 3, Q: "e"}, F: map[string]int{"k": 1}}
	},
	func(a int) any {
		return &ColdQ067{A: a, B: "b", C: &ColdIn{P: 2, Q: "q", R: true, S: []int{1}}, D: 1.5, E: ColdIn{P: 3, Q: "e"}, F: map[string]int{"k": 1}}
	},
	func(a int) any {
		return &ColdQ068{A: a, B: "b", C: &ColdIn{P: 2, Q: "q", R: true, S: []int{1}}, D: 1.5, E: ColdIn{P: 3, Q: "e"}, F: map[string]int{"k": 1}}
	},
	func(a int) any {
		return &ColdQ069{A: a, B: "b", C: &ColdIn{P: 2, Q: "q", R: true, S: []int{1}}, D: 1.5, E: ColdIn{P: 3, Q: "e"}, F: map[string]int{"k": 1}}
	},
	func(a int) any {
		return &ColdQ070{A: a, B: "b", C: &ColdIn{P: 2, Q: "q", R: true, S: []int{1}}, D: 1.5, E: ColdIn{P: 3, Q: "e"}, F: map[string]int{"k": 1}}
	},
	func(a int) any {
		return &ColdQ071{A: a, B: "b", C: &ColdIn{P: 2, Q: "q", R: true, S: []int{1}}, D: 1.5, E: ColdIn{P: 3, Q: "e"}, F: map[string]int{"k": 1}}
	},
	func(a int) any {
		return &ColdQ072{A: a, B: "b", C: &ColdIn{P: 2, Q: "q", R: true, S: []int{1}}, D: 1.5, E: ColdIn{P: 3, Q: "e"}, F: map[string]int{"k": 1}}
	},
	func(a int) any {
		return &ColdQ073{A: a, B: "b", C: &ColdIn{P: 2, Q: "q", R: true, S: []int{1}}, D: 1.5, E: ColdIn{P: 3, Q: "e"}, F: map[string]int{"k": 1}}
	},
	func(a int) any {
		return &ColdQ074{A: a, B: "b", C: &ColdIn{P: 2, Q: "q", R: true, S: []int{1}}, D: 1.5, E: ColdIn{P: 3, Q: "e"}, F: map[string]int{"k": 1}}
	},
	func(a int) any {
		return &ColdQ075{A: a, B: "b", C: &ColdIn{P: 2, Q: "q", R: true, S: []int{1}}, D: 1.5, E: ColdIn{P: 3, Q: "e"}, F: map[string]int{"k": 1}}
	},
	func(a int) any {
		return &ColdQ076{A: a, B: "b", C: &ColdIn{P: 2, Q: "q", R: true, S: []int{1}}, D: 1.5, E: ColdIn{P: 3, Q: "e"}, F: map[string]int{"k": 1}}
	},
	func(a int) any {
		return &ColdQ077{A: a, B: "b", C: &ColdIn{P: 2, Q: "q", R: true, S: []int{1}}, D: 1.5, E: ColdIn{P: 3, Q: "e"}, F: map[string]int{"k": 1}}
	},
	func(a int) any {
		return &ColdQ078{A: a, B: "b", C: &ColdIn{P: 2, Q: "q", R: true, S: []int{1}}, D: 1.5, E: ColdIn{P: 3, Q: "e"}, F: map[string]int{"k": 1}}
	},
	func(a int) any {
		return &ColdQ079{A: a, B: "b", C: &ColdIn{P: 2, Q: "q", R: true, S: []int{1}}, D: 1.5, E: ColdIn{P: 3, Q: "e"}, F: map[string]int{"k": 1}}
	},
	func(a int) any {
		return &ColdQ080{A: a, B: "b", C: &ColdIn{P: 2, Q: "q", R: true, S: []int{1}}, D: 1.5, E: ColdIn{P: 3, Q: "e"}, F: map[string]int{"k": 1}}
	},
	func(a int) any {
		return &ColdQ081{A: a, B: "b", C: &ColdIn{P: 2, Q: "q", R: true, S: []int{1}}, D: 1.5, E: ColdIn{P: 3, Q: "e"}, F: map[string]int{"k": 1}}
	},
	func(a int) any {
		return &ColdQ082{A: a, B: "b", C: &ColdIn{P: 2, Q: "q", R: true, S: []int{1}}, D: 1.5, E: ColdIn{P: 3, Q: "e"}, F: map[string]int{"k": 1}}
	},
	func(a int) any {
		return &ColdQ083{A: a, B: "b", C: &ColdIn{P: 2, Q: "q", R: true, S: []int{1}}, D: 1.5, E: ColdIn{P: 3, Q: "e"}, F: map[string]int{"k": 1}}
	},
	func(a int) any {
		return &ColdQ084{A: a, B: "b", C: &ColdIn{P: 2, Q: "q", R: true, S: []int{1}}, D: 1.5, E: ColdIn{P: 3, Q: "e"}, F: map[string]int{"k": 1}}
	},
	func(a int) any {
		return &ColdQ085{A: a, B: "b", C: &ColdIn{P: 2, Q: "q", R: true, S: []int{1}}, D: 1.5, E: ColdIn{P: 3, Q: "e"}, F: map[string]int{"k": 1}}
	},
	func(a int) any {
		return &ColdQ086{A: a, B: "b", C: &ColdIn{P: 2, Q: "q", R: true, S: []int{1}}, D: 1.5, E: ColdIn{P: 3, Q: "e"}, F: map[string]int{"k": 1}}
	},
	func(a int) any {
		return &ColdQ087{A: a, B: "b", C: &ColdIn{P: 2, Q: "q", R: true, S: []int{1}}, D: 1.5, E: ColdIn{P: 3, Q: "e"}, F: map[string]int{"k": 1}}
	},
	func(a int) any {
		return &ColdQ088{A: a, B: "b", C: &ColdIn{P: 2, Q: "q", R: true, S: []int{1}}, D: 1.5, E: ColdIn{P: 3, Q: "e"}, F: map[string]int{"k": 1}}
	},
	func(a int) any {
		return &ColdQ089{A: a, B: "b", C: &ColdIn{P: 2, Q: "q", R: true, S: []int{1}}, D: 1.5, E: ColdIn{P: 3, Q: "e"}, F: map[string]int{"k": 1}}
	},
	func(a int) any {
		return &ColdQ090{A: a, B: "b", C: &ColdIn{P: 2, Q: "q", R: true, S: []int{1}}, D: 1.5, E: ColdIn{P: 3, Q: "e"}, F: map[string]int{"k": 1}}
	},
	func(a int) any {
		return &ColdQ091{A: a, B: "b", C: &ColdIn{P: 2, Q: "q", R: true, S: []int{1}}, D: 1.5, E: ColdIn{P: 3, Q: "e"}, F: map[string]int{"k": 1}}
	},
	func(a int) any {
		return &ColdQ092{A: a, B: "b", C: &ColdIn{P: 2, Q: "q", R: true, S: []int{1}}, D: 1.5, E: ColdIn{P: 3, Q: "e"}, F: map[string]int{"k": 1}}
	},
	func(a int) any {
		return &ColdQ093{A: a, B: "b", C: &ColdIn{P: 2, Q: "q", R: true, S: []int{1}}, D: 1.5, E: ColdIn{P: 3, Q: "e"}, F: map[string]int{"k": 1}}
	},
	func(a int) any {
		return &ColdQ094{A: a, B: "b", C: &ColdIn{P: 2, Q: "q", R: true, S: []int{1}}, D: 1.5, E: ColdIn{P: 3, Q: "e"}, F: map[string]int{"k": 1}}
	},
	func(a int) any {
		return &ColdQ095{A: a, B: "b", C: &ColdIn{P: 2, Q: "q", R: true, S: []int{1}}, D: 1.5, E: ColdIn{P: 3, Q: "e"}, F: map[string]int{"k": 1}}
	},
	func(a int) any {
		return &ColdQ096{A: a, B: "b", C: &ColdIn{P: 2, Q: "q", R: true, S: []int{1}}, D: 1.5, E: ColdIn{P: 3, Q: "e"}, F: map[string]int{"k": 1}}
	},
	func(a int) any {
		return &ColdQ097{A: a, B: "b", C: &ColdIn{P: 2, Q: "q", R: true, S: []int{1}}, D: 1.5, E: ColdIn{P: 3, Q: "e"}, F: map[string]int{"k": 1}}
	},
	func(a int) any {
		return &ColdQ098{A: a, B: "b", C: &ColdIn{P: 2, Q: "q", R: true, S: []int{1}}, D: 1.5, E: ColdIn{P: 3, Q: "e"}, F: map[string]int{"k": 1}}
	},
	func(a int) any {
		return &ColdQ099{A: a, B: "b", C: &ColdIn{P: 2, Q: "q", R: true, S: []int{1}}, D: 1.5, E: ColdIn{P: 3, Q: "e"}, F: map[string]int{"k": 1}}
	},
	func(a int) any {
		return &ColdQ100{A: a, B: "b", C: &ColdIn{P: 2, Q: "q", R: true, S: []int{1}}, D: 1.5, E: ColdIn{P: 3, Q: "e"}, F: map[string]int{"k": 1}}
	},
	func(a int) any {
		return &ColdQ101{A: a, B: "b", C: &ColdIn{P: 2, Q: "q", R: true, S: []int{1}}, D: 1.5, E: ColdIn{P: 3, Q: "e"}, F: map[string]int{"k": 1}}
	},
	func(a int) any {
		return &ColdQ102{A: a, B: "b", C: &ColdIn{P: 2, Q: "q", R: true, S: []int{1}}, D: 1.5, E: ColdIn{P: 3, Q: "e"}, F: map[string]int{"k": 1}}
	},
	func(a int) any {
		return &ColdQ103{A: a, B: "b", C: &ColdIn{P: 2, Q: "q", R: true, S: []int{1}}, D: 1.5, E: ColdIn{P: 3, Q: "e"}, F: map[string]int{"k": 1}}
	},
	func(a int) any {
		return &ColdQ104{A: a, B: "b", C: &ColdIn{P: 2, Q: "q", R: true, S: []int{1}}, D: 1.5, E: ColdIn{P: 3, Q: "e"}, F: map[string]int{"k": 1}}
	},
	func(a int) any {
		return &ColdQ105{A: a, B: "b", C: &ColdIn{P: 2, Q: "q", R: true, S: []int{1}}, D: 1.5, E: ColdIn{P: 3, Q: "e"}, F: map[string]int{"k": 1}}
	},
	func(a int) any {
		return &ColdQ106{A: a, B: "b", C: &ColdIn{P: 2, Q: "q", R: true, S: []int{1}}, D: 1.5, E: ColdIn{P: 3, Q: "e"}, F: map[string]int{"k": 1}}
	},
	func(a int) any {
		return &ColdQ107{A: a, B: "b", C: &ColdIn{P: 2, Q: "q", R: true, S: []int{1}}, D: 1.5, E: ColdIn{P: 3, Q: "e"}, F: map[string]int{"k": 1}}
	},
	func(a int) any {
		return &ColdQ108{A: a, B: "b", C: &ColdIn{P: 2, Q: "q", R: true, S: []int{1}}, D: 1.5, E: ColdIn{P: 3, Q: "e"}, F: map[string]int{"k": 1}}
	},
	func(a int) any {
		return &ColdQ109{A: a, B: "b", C: &ColdIn{P: 2, Q: "q", R: true, S: []int{1}}, D: 1.5, E: ColdIn{P: 3, Q: "e"}, F: map[string]int{"k": 1}}
	},
	func(a int) any {
		return &ColdQ110{A: a, B: "b", C: &ColdIn{P: 2, Q: "q", R: true, S: []int{1}}, D: 1.5, E: ColdIn{P: 3, Q: "e"}, F: map[string]int{"k": 1}}
	},
	func(a int) any {
		return &ColdQ111{A: a, B: "b", C: &ColdIn{P: 2, Q: "q", R: true, S: []int{1}}, D: 1.5, E: ColdIn{P: 3, Q: "e"}, F: map[string]int{"k": 1}}
	},
	func(a int) any {
		return &ColdQ112{A: a, B: "b", C: &ColdIn{P: 2, Q: "q", R: true, S: []int{1}}, D: 1.5, E: ColdIn{P: 3, Q: "e"}, F: map[string]int{"k": 1}}
	},
	func(a int) any {
		return &ColdQ113{A: a, B: "b", C: &ColdIn{P: 2, Q: "q", R: true, S: []int{1}}, D: 1.5, E: ColdIn{P: 3, Q: "e"}, F: map[string]int{"k": 1}}
	},
	func(a int) any {
		return &ColdQ114{A: a, B: "b", C: &ColdIn{P: 2, Q: "q", R: true, S: []int{1}}, D: 1.5, E: ColdIn{P: 3, Q: "e"}, F: map[string]int{"k": 1}}
	},
	func(a int) any {
		return &ColdQ115{A: a, B: "b", C: &ColdIn{P: 2, Q: "q", R: true, S: []int{1}}, D: 1.5, E: ColdIn{P: 3, Q: "e"}, F: map[string]int{"k": 1}}
	},
	func(a int) any {
		return &ColdQ116{A: a, B: "b", C: &ColdIn{P: 2, Q: "q", R: true, S: []int{1}}, D: 1.5, E: ColdIn{P: 3, Q: "e"}, F: map[string]int{"k": 1}}
	},
	func(a int) any {
		return &ColdQ117{A: a, B: "b", C: &ColdIn{P: 2, Q: "q", R: true, S: []int{1}}, D: 1.5, E: ColdIn{P: 3, Q: "e"}, F: map[string]int{"k": 1}}
	},
	func(a int) any {
		return &ColdQ118{A: a, B: "b", C: &ColdIn{P: 2, Q: "q", R: true, S: []int{1}}, D: 1.5, E: ColdIn{P: 3, Q: "e"}, F: map[string]int{"k": 1}}
	},
	func(a int) any {
		return &ColdQ119{A: a, B: "b", C: &ColdIn{P: 2, Q: "q", R: true, S: []int{1}}, D: 1.5, E: ColdIn{P: 3, Q: "e"}, F: map[string]int{"k": 1}}
	},
	func(a int) any {
		return &ColdQ120{A: a, B: "b", C: &ColdIn{P: 2, Q: "q", R: true, S: []int{1}}, D: 1.5, E: ColdIn{P: 3, Q: "e"}, F: map[string]int{"k": 1}}
	},
	func(a int) any {
		return &ColdQ121{A: a, B: "b", C: &ColdIn{P: 2, Q: "q", R: true, S: []int{1}}, D: 1.5, E: ColdIn{P: 3, Q: "e"}, F: map[string]int{"k": 1}}
	},
	func(a int) any {
		return &ColdQ122{A: a, B: "b", C: &ColdIn{P: 2, Q: "q", R: true, S: []int{1}}, D: 1.5, E: ColdIn{P: 3, Q: "e"}, F: map[string]int{"k": 1}}
	},
	func(a int) any {
		return &ColdQ123{A: a, B: "b", C: &ColdIn{P: 2, Q: "q", R: true, S: []int{1}}, D: 1.5, E: ColdIn{P: 3, Q: "e"}, F: map[string]int{"k": 1}}
	},
	func(a int) any {
		return &ColdQ124{A: a, B: "b", C: &ColdIn{P: 2, Q: "q", R: true, S: []int{1}}, D: 1.5, E: ColdIn{P: 3, Q: "e"}, F: map[string]int{"k": 1}}
	},
	func(a int) any {
		return &ColdQ125{A: a, B: "b", C: &ColdIn{P: 2, Q: "q", R: true, S: []int{1}}, D: 1.5, E: ColdIn{P: 3, Q: "e"}, F: map[string]int{"k": 1}}
	},
	func(a int) any {
		return &ColdQ126{A: a, B: "b", C: &ColdIn{P: 2, Q: "q", R: true, S: []int{1}}, D: 1.5, E: ColdIn{P: 3, Q: "e"}, F: map[string]int{"k": 1}}
	},
	func(a int) any {
		return &ColdQ127{A: a, B: "b", C: &ColdIn{P: 2, Q: "q", R: true, S: []int{1}}, D: 1.5, E: ColdIn{P: 3, Q: "e"}, F: map[string]int{"k": 1}}
	},
	func(a int) any {
		return &ColdQ128{A: a, B: "b", C: &ColdIn{P: 2, Q: "q", R: true, S: []int{1}}, D: 1.5, E: ColdIn{P: 3, Q: "e"}, F: map[string]int{"k": 1}}
	},
	func(a int) any {
		return &ColdQ129{A: a, B: "b", C: &ColdIn{P: 2, Q: "q", R: true, S: []int{1}}, D: 1.5, E: ColdIn{P: 3, Q: "e"}, F: map[string]int{"k": 1}}
	},
	func(a int) any {
		return &ColdQ130{A: a, B: "b", C: &ColdIn{P: 2, Q: "q", R: true, S: []int{1}}, D: 1.5, E: ColdIn{P: 3, Q: "e"}, F: map[string]int{"k": 1}}
	},
	func(a int) any {
		return &ColdQ131{A: a, B: "b", C: &ColdIn{P: 2, Q: "q", R: true, S: []int{1}}, D: 1.5, E: ColdIn{P: 3, Q: "e"}, F: map[string]int{"k": 1}}
	},
	func(a int) any {
		return &ColdQ132{A: a, B: "b", C: &ColdIn{P: 2, Q: "q", R: true, S: []int{1}}, D: 1.5, E: ColdIn{P: 3, Q: "e"}, F: map[string]int{"k": 1}}
	},
	func(a int) any {
		return &ColdQ133{A: a, B: "b", C: &ColdIn{P: 2, Q: "q", R: true, S: []int{1}}, D: 1.5, E: ColdIn{P: 3, Q: "e"}, F: map[string]int{"k": 1}}
	},
	func(a int) any {
		return &ColdQ134{A: a, B: "b", C: &ColdIn{P: 2, Q: "q", R: true, S: []int{1}}, D: 1.5, E: ColdIn{P: 3, Q: "e"}, F: map[string]int{"k": 1}}
	},
	func(a int) any {
		return &ColdQ135{A: a, B: "b", C: &ColdIn{P: 2, Q: "q", R: true, S: []int{1}}, D: 1.5, E: ColdIn{P: 3, Q: "e"}, F: map[string]int{"k": 1}}
	},
	func(a int) any {
		return &ColdQ136{A: a, B: "b", C: &ColdIn{P: 2, Q: "q", R: true, S: []int{1}}, D: 1.5, E: ColdIn{P: 3, Q: "e"}, F: map[string]int{"k": 1}}
	},
	func(a int) any {
		return &ColdQ137{A: a, B: "b", C: &ColdIn{P: 2, Q: "q", R: true, S: []int{1}}, D: 1.5, E: ColdIn{P: 3, Q: "e"}, F: map[string]int{"k": 1}}
	},
	func(a int) any {
		return &ColdQ138{A: a, B: "b", C: &ColdIn{P: 2, Q: "q", R: true, S: []int{1}}, D: 1.5, E: ColdIn{P: 3, Q: "e"}, F: map[string]int{"k": 1}}
	},
	func(a int) any {
		return &ColdQ139{A: a, B: "b", C: &ColdIn{P: 2, Q: "q", R: true, S: []int{1}}, D: 1.5, E: ColdIn{P: 3, Q: "e"}, F: map[string]int{"k": 1}}
	},
	func(a int) any {
		return &ColdQ140{A: a, B: "b", C: &ColdIn{P: 2, Q: "q", R: true, S: []int{1}}, D: 1.5, E: ColdIn{P: 3, Q: "e"}, F: map[string]int{"k": 1}}
	},
	func(a int) any {
		return &ColdQ141{A: a, B: "b", C: &ColdIn{P: 2, Q: "q", R: true, S: []int{1}}, D: 1.5, E: ColdIn{P: 3, Q: "e"}, F: map[string]int{"k": 1}}
	},
	func(a int) any {
		return &ColdQ142{A: a, B: "b", C: &ColdIn{P: 2, Q: "q", R: true, S: []int{1}}, D: 1.5, E: ColdIn{P: 3, Q: "e"}, F: map[string]int{"k": 1}}
	},
	func(a int) any {
		return &ColdQ143{A: a, B: "b", C: &ColdIn{P: 2, Q: "q", R: true, S: []int{1}}, D: 1.5, E: ColdIn{P: 3, Q: "e"}, F: map[string]int{"k": 1}}
	},
	func(a int) any {
		return &ColdQ144{A: a, B: "b", C: &ColdIn{P: 2, Q: "q", R: true, S: []int{1}}, D: 1.5, E: ColdIn{P: 3, Q: "e"}, F: map[string]int{"k": 1}}
	},
	func(a int) any {
		return &ColdQ145{A: a, B: "b", C: &ColdIn{P: 2, Q: "q", R: true, S: []int{1}}, D: 1.5, E: ColdIn{P: 3, Q: "e"}, F: map[string]int{"k": 1}}
	},
	func(a int) any {
		return &ColdQ146{A: a, B: "b", C: &ColdIn{P: 2, Q: "q", R: true, S: []int{1}}, D: 1.5, E: ColdIn{P: 3, Q: "e"}, F: map[string]int{"k": 1}}
	},
	func(a int) any {
		return &ColdQ147{A: a, B: "b", C: &ColdIn{P: 2, Q: "q", R: true, S: []int{1}}, D: 1.5, E: ColdIn{P: 3, Q: "e"}, F: map[string]int{"k": 1}}
	},
	func(a int) any {
		return &ColdQ148{A: a, B: "b", C: &ColdIn{P: 2, Q: "q", R: true, S: []int{1}}, D: 1.5, E: ColdIn{P: 3, Q: "e"}, F: map[string]int{"k": 1}}
	},
	func(a int) any {
		return &ColdQ149{A: a, B: "b", C: &ColdIn{P: 2, Q: "q", R: true, S: []int{1}}, D: 1.5, E: ColdIn{P: 3, Q: "e"}, F: map[string]int{"k": 1}}
	},
	func(a int) any {
		return &ColdQ150{A: a, B: "b", C: &ColdIn{P: 2, Q: "q", R: true, S: []int{1}}, D: 1.5, E: ColdIn{P: 3, Q: "e"}, F: map[string]int{"k": 1}}
	},
	func(a int) any {
		return &ColdQ151{A: a, B: "b", C: &ColdIn{P: 2, Q: "q", R: true, S: []int{1}}, D: 1.5, E: ColdIn{P: 3, Q: "e"}, F: map[string]int{"k": 1}}
	},
	func(a int) any {
		return &ColdQ152{A: a, B: "b", C: &ColdIn{P: 2, Q: "q", R: true, S: []int{1}}, D: 1.5, E: ColdIn{P: 3, Q: "e"}, F: map[string]int{"k": 1}}
	},
	func(a int) any {
		return &ColdQ153{A: a, B: "b", C: &ColdIn{P: 2, Q: "q", R: true, S: []int{1}}, D: 1.5, E: ColdIn{P: 3, Q: "e"}, F: map[string]int{"k": 1}}
	},
	func(a int) any {
		return &ColdQ154{A: a, B: "b", C: &ColdIn{P: 2, Q: "q", R: true, S: []int{1}}, D: 1.5, E: ColdIn{P: 3, Q: "e"}, F: map[string]int{"k": 1}}
	},
	func(a int) any {
		return &ColdQ155{A: a, B: "b", C: &ColdIn{P: 2, Q: "q", R: true, S: []int{1}}, D: 1.5, E: ColdIn{P: 3, Q: "e"}, F: map[string]int{"k": 1}}
	},
	func(a int) any {
		return &ColdQ156{A: a, B: "b", C: &ColdIn{P: 2, Q: "q", R: true, S: []int{1}}, D: 1.5, E: ColdIn{P: 3, Q: "e"}, F: map[string]int{"k": 1}}
	},
	func(a int) any {
		return &ColdQ157{A: a, B: "b", C: &ColdIn{P: 2, Q: "q", R: true, S: []int{1}}, D: 1.5, E: ColdIn{P: 3, Q: "e"}, F: map[string]int{"k": 1}}
	},
	func(a int) any {
		return &ColdQ158{A: a, B: "b", C: &ColdIn{P: 2, Q: "q", R: true, S: []int{1}}, D: 1.5, E: ColdIn{P: 3, Q: "e"}, F: map[string]int{"k": 1}}
	},
	func(a int) any {
		return &ColdQ159{A: a, B: "b", C: &ColdIn{P: 2, Q: "q", R: true, S: []int{1}}, D: 1.5, E: ColdIn{P: 3, Q: "e"}, F: map[string]int{"k": 1}}
	},
	func(a int) any {
		return &ColdQ160{A: a, B: "b", C: &ColdIn{P: 2, Q: "q", R: true, S: []int{1}}, D: 1.5, E: ColdIn{P: 3, Q: "e"}, F: map[string]int{"k": 1}}
	},
	func(a int) any {
		return &ColdQ161{A: a, B: "b", C: &ColdIn{P: 2, Q: "q", R: true, S: []int{1}}, D: 1.5, E: ColdIn{P: 3, Q: "e"}, F: map[string]int{"k": 1}}
	},
	func(a int) any {
		return &ColdQ162{A: a, B: "b", C: &ColdIn{P: 2, Q: "q", R: true, S: []int{1}}, D: 1.5, E: ColdIn{P: 3, Q: "e"}, F: map[string]int{"k": 1}}
	},
	func(a int) any {
		return &ColdQ163{A: a, B: "b", C: &ColdIn{P: 2, Q: "q", R: true, S: []int{1}}, D: 1.5, E: ColdIn{P: 3, Q: "e"}, F: map[string]int{"k": 1}}
	},
	func(a int) any {
		return &ColdQ164{A: a, B: "b", C: &ColdIn{P: 2, Q: "q", R: true, S: []int{1}}, D: 1.5, E: ColdIn{P: 3, Q: "e"}, F: map[string]int{"k": 1}}
	},
	func(a int) any {
		return &ColdQ165{A: a, B: "b", C: &ColdIn{P: 2, Q: "q", R: true, S: []int{1}}, D: 1.5, E: ColdIn{P: 3, Q: "e"}, F: map[string]int{"k": 1}}
	},
	func(a int) any {
		return &ColdQ166{A: a, B: "b", C: &ColdIn{P: 2, Q: "q", R: true, S: []int{1}}, D: 1.5, E: ColdIn{P: 3, Q: "e"}, F: map[string]int{"k": 1}}
	},
	func(a int) any {
		return &ColdQ167{A: a, B: "b", C: &ColdIn{P: 2, Q: "q", R: true, S: []int{1}}, D: 1.5, E: ColdIn{P: 3, Q: "e"}, F: map[string]int{"k": 1}}
	},
	func(a int) any {
		return &ColdQ168{A: a, B: "b", C: &ColdIn{P: 2, Q: "q", R: true, S: []int{1}}, D: 1.5, E: ColdIn{P: 3, Q: "e"}, F: map[string]int{"k": 1}}
	},
	func(a int) any {
		return &ColdQ169{A: a, B: "b", C: &ColdIn{P: 2, Q: "q", R: true, S: []int{1}}, D: 1.5, E: ColdIn{P: 3, Q: "e"}, F: map[string]int{"k": 1}}
	},
	func(a int) any {
		return &ColdQ170{A: a, B: "b", C: &ColdIn{P: 2, Q: "q", R: true, S: []int{1}}, D: 1.5, E: ColdIn{P: 3, Q: "e"}, F: map[string]int{"k": 1}}
	},
	func(a int) any {
		return &ColdQ171{A: a, B: "b", C: &ColdIn{P: 2, Q: "q", R: true, S: []int{1}}, D: 1.5, E: ColdIn{P: 3, Q: "e"}, F: map[string]int{"k": 1}}
	},
	func(a int) any {
		return &ColdQ172{A: a, B: "b", C: &ColdIn{P: 2, Q: "q", R: true, S: []int{1}}, D: 1.5, E: ColdIn{P: 3, Q: "e"}, F: map[string]int{"k": 1}}
	},
	func(a int) any {
		return &ColdQ173{A: a, B: "b", C: &ColdIn{P: 2, Q: "q", R: true, S: []int{1}}, D: 1.5, E: ColdIn{P: 3, Q: "e"}, F: map[string]int{"k": 1}}
	},
	func(a int) any {
		return &ColdQ174{A: a, B: "b", C: &ColdIn{P: 2, Q: "q", R: true, S: []int{1}}, D: 1.5, E: ColdIn{P: 3, Q: "e"}, F: map[string]int{"k": 1}}
	},
	func(a int) any {
		return &ColdQ175{A: a, B: "b", C: &ColdIn{P: 2, Q: "q", R: true, S: []int{1}}, D: 1.5, E: ColdIn{P: 3, Q: "e"}, F: map[string]int{"k": 1}}
	},
	func(a int) any {
		return &ColdQ176{A: a, B: "b", C: &ColdIn{P: 2, Q: "q", R: true, S: []int{1}}, D: 1.5, E: ColdIn{P: 3, Q: "e"}, F: map[string]int{"k": 1}}
	},
	func(a int) any {
		return &ColdQ177{A: a, B: "b", C: &ColdIn{P: 2, Q: "q", R: true, S: []int{1}}, D: 1.5, E: ColdIn{P: 3, Q: "e"}, F: map[string]int{"k": 1}}
	},
	func(a int) any {
		return &ColdQ178{A: a, B: "b", C: &ColdIn{P: 2, Q: "q", R: true, S: []int{1}}, D: 1.5, E: ColdIn{P: 3, Q: "e"}, F: map[string]int{"k": 1}}
	},
	func(a int) any {
		return &ColdQ179{A: a, B: "b", C: &ColdIn{P: 2, Q: "q", R: true, S: []int{1}}, D: 1.5, E: ColdIn{P: 3, Q: "e"}, F: map[string]int{"k": 1}}
	},
	func(a int) any {
		return &ColdQ180{A: a, B: "b", C: &ColdIn{P: 2, Q: "q", R: true, S: []int{1}}, D: 1.5, E: ColdIn{P: 3, Q: "e"}, F: map[string]int{"k": 1}}
	},
	func(a int) any {
		return &ColdQ181{A: a, B: "b", C: &ColdIn{P: 2, Q: "q", R: true, S: []int{1}}, D: 1.5, E: ColdIn{P: 3, Q: "e"}, F: map[string]int{"k": 1}}
	},
	func(a int) any {
		return &ColdQ182{A: a, B: "b", C: &ColdIn{P: 2, Q: "q", R: true, S: []int{1}}, D: 1.5, E: ColdIn{P: 3, Q: "e"}, F: map[string]int{"k": 1}}
	},
	func(a int) any {
		return &ColdQ183{A: a, B: "b", C: &ColdIn{P: 2, Q: "q", R: true, S: []int{1}}, D: 1.5, E: ColdIn{P: 3, Q: "e"}, F: map[string]int{"k": 1}}
	},
	func(a int) any {
		return &ColdQ184{A: a, B: "b", C: &ColdIn{P: 2, Q: "q", R: true, S: []int{1}}, D: 1.5, E: ColdIn{P: 3, Q: "e"}, F: map[string]int{"k": 1}}
	},
	func(a int) any {
		return &ColdQ185{A: a, B: "b", C: &ColdIn{P: 2, Q: "q", R: true, S: []int{1}}, D: 1.5, E: ColdIn{P: 3, Q: "e"}, F: map[string]int{"k": 1}}
	},
	func(a int) any {
		return &ColdQ186{A: a, B: "b", C: &ColdIn{P: 2, Q: "q", R: true, S: []int{1}}, D: 1.5, E: ColdIn{P: 3, Q: "e"}, F: map[string]int{"k": 1}}
	},
	func(a int) any {
		return &ColdQ187{A: a, B: "b", C: &ColdIn{P: 2, Q: "q", R: true, S: []int{1}}, D: 1.5, E: ColdIn{P: 3, Q: "e"}, F: map[string]int{"k": 1}}
	},
	func(a int) any {
		return &ColdQ188{A: a, B: "b", C: &ColdIn{P: 2, Q: "q", R: true, S: []int{1}}, D: 1.5, E: ColdIn{P: 3, Q: "e"}, F: map[string]int{"k": 1}}
	},
	func(a int) any {
		return &ColdQ189{A: a, B: "b", C: &ColdIn{P: 2, Q: "q", R: true, S: []int{1}}, D: 1.5, E: ColdIn{P: 3, Q: "e"}, F: map[string]int{"k": 1}}
	},
	func(a int) any {
		return &ColdQ190{A: a, B: "b", C: &ColdIn{P: 2, Q: "q", R: true, S: []int{1}}, D: 1.5, E: ColdIn{P: 3, Q: "e"}, F: map[string]int{"k": 1}}
	},
	func(a int) any {
		return &ColdQ191{A: a, B: "b", C: &ColdIn{P: 2, Q: "q", R: true, S: []int{1}}, D: 1.5, E: ColdIn{P: 3, Q: "e"}, F: map[string]int{"k": 1}}
	},
	func(a int) any {
		return &ColdQ192{A: a, B: "b", C: &ColdIn{P: 2, Q: "q", R: true, S: []int{1}}, D: 1.5, E: ColdIn{P: 3, Q: "e"}, F: map[string]int{"k": 1}}
	},
	func(a int) any {
		return &ColdQ193{A: a, B: "b", C: &ColdIn{P: 2, Q: "q", R: true, S: []int{1}}, D: 1.5, E: ColdIn{P: 3, Q: "e"}, F: map[string]int{"k": 1}}
	},
	func(a int) any {
		return &ColdQ194{A: a, B: "b", C: &ColdIn{P: 2, Q: "q", R: true, S: []int{1}}, D: 1.5, E: ColdIn{P: 3, Q: "e"}, F: map[string]int{"k": 1}}
	},
	func(a int) any {
		return &ColdQ195{A: a, B: "b", C: &ColdIn{P: 2, Q: "q", R: true, S: []int{1}}, D: 1.5, E: ColdIn{P: 3, Q: "e"}, F: map[string]int{"k": 1}}
	},
	func(a int) any {
		return &ColdQ196{A: a, B: "b", C: &ColdIn{P: 2, Q: "q", R: true, S: []int{1}}, D: 1.5, E: ColdIn{P: 3, Q: "e"}, F: map[string]int{"k": 1}}
	},
	func(a int) any {
		return &ColdQ197{A: a, B: "b", C: &ColdIn{P: 2, Q: "q", R: true, S: []int{1}}, D: 1.5, E: ColdIn{P: 3, Q: "e"}, F: map[string]int{"k": 1}}
	},
	func(a int) any {
		return &ColdQ198{A: a, B: "b", C: &ColdIn{P: 2, Q: "q", R: true, S: []int{1}}, D: 1.5, E: ColdIn{P: 3, Q: "e"}, F: map[string]int{"k": 1}}
	},
	func(a int) any {
		return &ColdQ199{A: a, B: "b", C: &ColdIn{P: 2, Q: "q", R: true, S: []int{1}}, D: 1.5, E: ColdIn{P: 3, Q: "e"}, F: map[string]int{"k": 1}}
	},
	func(a int) any {
		return &ColdQ200{A: a, B: "b", C: &ColdIn{P: 2, Q: "q", R: true, S: []int{1}}, D: 1.5, E: ColdIn{P: 3, Q: "e"}, F: map[string]int{"k": 1}}
	},
	func(a int) any {
		return &ColdQ201{A: a, B: "b", C: &ColdIn{P: 2, Q: "q", R: true, S: []int{1}}, D: 1.5, E: ColdIn{P: 3, Q: "e"}, F: map[string]int{"k": 1}}
	},
	func(a int) any {
		return &ColdQ202{A: a, B: "b", C: &ColdIn{P: 2, Q: "q", R: true, S: []int{1}}, D: 1.5, E: ColdIn{P: 3, Q: "e"}, F: map[string]int{"k": 1}}
	},
	func(a int) any {
		return &ColdQ203{A: a, B: "b", C: &ColdIn{P: 2, Q: "q", R: true, S: []int{1}}, D: 1.5, E: ColdIn{P: 3, Q: "e"}, F: map[string]int{"k": 1}}
	},
	func(a int) any {
		return &ColdQ204{A: a, B: "b", C: &ColdIn{P: 2, Q: "q", R: true, S: []int{1}}, D: 1.5, E: ColdIn{P: 3, Q: "e"}, F: map[string]int{"k": 1}}
	},
	func(a int) any {
		return &ColdQ205{A: a, B: "b", C: &ColdIn{P: 2, Q: "q", R: true, S: []int{1}}, D: 1.5, E: ColdIn{P: 3, Q: "e"}, F: map[string]int{"k": 1}}
	},
	func(a int) any {
		return &ColdQ206{A: a, B: "b", C: &ColdIn{P: 2, Q: "q", R: true, S: []int{1}}, D: 1.5, E: ColdIn{P: 3, Q: "e"}, F: map[string]int{"k": 1}}
	},
	func(a int) any {
		return &ColdQ207{A: a, B: "b", C: &ColdIn{P: 2, Q: "q", R: true, S: []int{1}}, D: 1.5, E: ColdIn{P: 3, Q: "e"}, F: map[string]int{"k": 1}}
	},
	func(a int) any {
		return &ColdQ208{A: a, B: "b", C: &ColdIn{P: 2, Q: "q", R: true, S: []int{1}}, D: 1.5, E: ColdIn{P: 3, Q: "e"}, F: map[string]int{"k": 1}}
	},
	func(a int) any {
		return &ColdQ209{A: a, B: "b", C: &ColdIn{P: 2, Q: "q", R: true, S: []int{1}}, D: 1.5, E: ColdIn{P: 3, Q: "e"}, F: map[string]int{"k": 1}}
	},
	func(a int) any {
		return &ColdQ210{A: a, B: "b", C: &ColdIn{P: 2, Q: "q", R: true, S: []int{1}}, D: 1.5, E: ColdIn{P: 3, Q: "e"}, F: map[string]int{"k": 1}}
	},
	func(a int) any {
		return &ColdQ211{A: a, B: "b", C: &ColdIn{P: 2, Q: "q", R: true, S: []int{1}}, D: 1.5, E: ColdIn{P: 3, Q: "e"}, F: map[string]int{"k": 1}}
	},
	func(a int) any {
		return &ColdQ212{A: a, B: "b", C: &ColdIn{P: 2, Q: "q", R: true, S: []int{1}}, D: 1.5, E: ColdIn{P: 3, Q: "e"}, F: map[string]int{"k": 1}}
	},
	func(a int) any {
		return &ColdQ213{A: a, B: "b", C: &ColdIn{P: 2, Q: "q", R: true, S: []int{1}}, D: 1.5, E: ColdIn{P: 3, Q: "e"}, F: map[string]int{"k": 1}}
	},
	func(a int) any {
		return &ColdQ214{A: a, B: "b", C: &ColdIn{P: 2, Q: "q", R: true, S: []int{1}}, D: 1.5, E: ColdIn{P: 3, Q: "e"}, F: map[string]int{"k": 1}}
	},
	func(a int) any {
		return &ColdQ215{A: a, B: "b", C: &ColdIn{P: 2, Q: "q", R: true, S: []int{1}}, D: 1.5, E: ColdIn{P: 3, Q: "e"}, F: map[string]int{"k": 1}}
	},
	func(a int) any {
		return &ColdQ216{A: a, B: "b", C: &ColdIn{P: 2, Q: "q", R: true, S: []int{1}}, D: 1.5, E: ColdIn{P: 3, Q: "e"}, F: map[string]int{"k": 1}}
	},
	func(a int) any {
		return &ColdQ217{A: a, B: "b", C: &ColdIn{P: 2, Q: "q", R: true, S: []int{1}}, D: 1.5, E: ColdIn{P: 3, Q: "e"}, F: map[string]int{"k": 1}}
	},
	func(a int) any {
		return &ColdQ218{A: a, B: "b", C: &ColdIn{P: 2, Q: "q", R: true, S: []int{1}}, D: 1.5, E: ColdIn{P: 3, Q: "e"}, F: map[string]int{"k": 1}}
	},
	func(a int) any {
		return &ColdQ219{A: a, B: "b", C: &ColdIn{P: 2, Q: "q", R: true, S: []int{1}}, D: 1.5, E: ColdIn{P: 3, Q: "e"}, F: map[string]int{"k": 1}}
	},
	func(a int) any {
		return &ColdQ220{A: a, B: "b", C: &ColdIn{P: 2, Q: "q", R: true, S: []int{1}}, D: 1.5, E: ColdIn{P: 3, Q: "e"}, F: map[string]int{"k": 1}}
	},
	func(a int) any {
		return &ColdQ221{A: a, B: "b", C: &ColdIn{P: 2, Q: "q", R: true, S: []int{1}}, D: 1.5, E: ColdIn{P: 3, Q: "e"}, F: map[string]int{"k": 1}}
	},
	func(a int) any {
		return &ColdQ222{A: a, B: "b", C: &ColdIn{P: 2, Q: "q", R: true, S: []int{1}}, D: 1.5, E: ColdIn{P: 3, Q: "e"}, F: map[string]int{"k": 1}}
	},
	func(a int) any {
		return &ColdQ223{A: a, B: "b", C: &ColdIn{P: 2, Q: "q", R: true, S: []int{1}}, D: 1.5, E: ColdIn{P: 3, Q: "e"}, F: map[string]int{"k": 1}}
	},
	func(a int) any {
		return &ColdQ224{A: a, B: "b", C: &ColdIn{P: 2, Q: "q", R: true, S: []int{1}}, D: 1.5, E: ColdIn{P: 3, Q: "e"}, F: map[string]int{"k": 1}}
	},
	func(a int) any {
		return &ColdQ225{A: a, B: "b", C: &ColdIn{P: 2, Q: "q", R: true, S: []int{1}}, D: 1.5, E: ColdIn{P: 3, Q: "e"}, F: map[string]int{"k": 1}}
	},
	func(a int) any {
		return &ColdQ226{A: a, B: "b", C: &ColdIn{P: 2, Q: "q", R: true, S: []int{1}}, D: 1.5, E: ColdIn{P: 3, Q: "e"}, F: map[string]int{"k": 1}}
	},
	func(a int) any {
		return &ColdQ227{A: a, B: "b", C: &ColdIn{P: 2, Q: "q", R: true, S: []int{1}}, D: 1.5, E: ColdIn{P: 3, Q: "e"}, F: map[string]int{"k": 1}}
	},
	func(a int) any {
		return &ColdQ228{A: a, B: "b", C: &ColdIn{P: 2, Q: "q", R: true, S: []int{1}}, D: 1.5, E: ColdIn{P: 3, Q: "e"}, F: map[string]int{"k": 1}}
	},
	func(a int) any {
		return &ColdQ229{A: a, B: "b", C: &ColdIn{P: 2, Q: "q", R: true, S: []int{1}}, D: 1.5, E: ColdIn{P: 3, Q: "e"}, F: map[string]int{"k": 1}}
	},
	func(a int) any {
		return &ColdQ230{A: a, B: "b", C: &ColdIn{P: 2, Q: "q", R: true, S: []int{1}}, D: 1.5, E: ColdIn{P: 3, Q: "e"}, F: map[string]int{"k": 1}}
	},
	func(a int) any {
		return &ColdQ231{A: a, B: "b", C: &ColdIn{P: 2, Q: "q", R: true, S: []int{1}}, D: 1.5, E: ColdIn{P: 3, Q: "e"}, F: map[string]int{"k": 1}}
	},
	func(a int) any {
		return &ColdQ232{A: a, B: "b", C: &ColdIn{P: 2, Q: "q", R: true, S: []int{1}}, D: 1.5, E: ColdIn{P: 3, Q: "e"}, F: map[string]int{"k": 1}}
	},
	func(a int) any {
		return &ColdQ233{A: a, B: "b", C: &ColdIn{P: 2, Q: "q", R: true, S: []int{1}}, D: 1.5, E: ColdIn{P: 3, Q: "e"}, F: map[string]int{"k": 1}}
	},
	func(a int) any {
		return &ColdQ234{A: a, B: "b", C: &ColdIn{P: 2, Q: "q", R: true, S: []int{1}}, D: 1.5, E: ColdIn{P: 3, Q: "e"}, F: map[string]int{"k": 1}}
	},
	func(a int) any {
		return &ColdQ235{A: a, B: "b", C: &ColdIn{P: 2, Q: "q", R: true, S: []int{1}}, D: 1.5, E: ColdIn{P: 3, Q: "e"}, F: map[string]int{"k": 1}}
	},
	func(a int) any {
		return &ColdQ236{A: a, B: "b", C: &ColdIn{P: 2, Q: "q", R: true, S: []int{1}}, D: 1.5, E: ColdIn{P: 3, Q: "e"}, F: map[string]int{"k": 1}}
	},
	func(a int) any {
		return &ColdQ237{A: a, B: "b", C: &ColdIn{P: 2, Q: "q", R: true, S: []int{1}}, D: 1.5, E: ColdIn{P: 3, Q: "e"}, F: map[string]int{"k": 1}}
	},
	func(a int) any {
		return &ColdQ238{A: a, B: "b", C: &ColdIn{P: 2, Q: "q", R: true, S: []int{1}}, D: 1.5, E: ColdIn{P: 3, Q: "e"}, F: map[string]int{"k": 1}}
	},
	func(a int) any {
		return &ColdQ239{A: a, B: "b", C: &ColdIn{P: 2, Q: "q", R: true, S: []int{1}}, D: 1.5, E: ColdIn{P: 3, Q: "e"}, F: map[string]int{"k": 1}}
	},
	func(a int) any {
		return &ColdQ240{A: a, B: "b", C: &ColdIn{P: 2, Q: "q", R: true, S: []int{1}}, D: 1.5, E: ColdIn{P: 3, Q: "e"}, F: map[string]int{"k": 1}}
	},
	func(a int) any {
		return &ColdQ241{A: a, B: "b", C: &ColdIn{P: 2, Q: "q", R: true, S: []int{1}}, D: 1.5, E: ColdIn{P: 3, Q: "e"}, F: map[string]int{"k": 1}}
	},
	func(a int) any {
		return &ColdQ242{A: a, B: "b", C: &ColdIn{P: 2, Q: "q", R: true, S: []int{1}}, D: 1.5, E: ColdIn{P: 3, Q: "e"}, F: map[string]int{"k": 1}}
	},
	func(a int) any {
		return &ColdQ243{A: a, B: "b", C: &ColdIn{P: 2, Q: "q", R: true, S: []int{1}}, D: 1.5, E: ColdIn{P: 3, Q: "e"}, F: map[string]int{"k": 1}}
	},
	func(a int) any {
		return &ColdQ244{A: a, B: "b", C: &ColdIn{P: 2, Q: "q", R: true, S: []int{1}}, D: 1.5, E: ColdIn{P: 3, Q: "e"}, F: map[string]int{"k": 1}}
	},
	func(a int) any {
		return &ColdQ245{A: a, B: "b", C: &ColdIn{P: 2, Q: "q", R: true, S: []int{1}}, D: 1.5, E: ColdIn{P: 3, Q: "e"}, F: map[string]int{"k": 1}}
	},
	func(a int) any {
		return &ColdQ246{A: a, B: "b", C: &ColdIn{P: 2, Q: "q", R: true, S: []int{1}}, D: 1.5, E: ColdIn{P: 3, Q: "e"}, F: map[string]int{"k": 1}}
	},
	func(a int) any {
		return &ColdQ247{A: a, B: "b", C: &ColdIn{P: 2, Q: "q", R: true, S: []int{1}}, D: 1.5, E: ColdIn{P: 3, Q: "e"}, F: map[string]int{"k": 1}}
	},
	func(a int) any {
		return &ColdQ248{A: a, B: "b", C: &ColdIn{P: 2, Q: "q", R: true, S: []int{1}}, D: 1.5, E: ColdIn{P: 3, Q: "e"}, F: map[string]int{"k": 1}}
	},
	func(a int) any {
		return &ColdQ249{A: a, B: "b", C: &ColdIn{P: 2, Q: "q", R: true, S: []int{1}}, D: 1.5, E: ColdIn{P: 3, Q: "e"}, F: map[string]int{"k": 1}}
	},
	func(a int) any {
		return &ColdQ250{A: a, B: "b", C: &ColdIn{P: 2, Q: "q", R: true, S: []int{1}}, D: 1.5, E: ColdIn{P: 3, Q: "e"}, F: map[string]int{"k": 1}}
	},
	func(a int) any {
		return &ColdQ251{A: a, B: "b", C: &ColdIn{P: 2, Q: "q", R: true, S: []int{1}}, D: 1.5, E: ColdIn{P: 3, Q: "e"}, F: map[string]int{"k": 1}}
	},
	func(a int) any {
		return &ColdQ252{A: a, B: "b", C: &ColdIn{P: 2, Q: "q", R: true, S: []int{1}}, D: 1.5, E: ColdIn{P: 3, Q: "e"}, F: map[string]int{"k": 1}}
	},
	func(a int) any {
		return &ColdQ253{A: a, B: "b", C: &ColdIn{P: 2, Q: "q", R: true, S: []int{1}}, D: 1.5, E: ColdIn{P: 3, Q: "e"}, F: map[string]int{"k": 1}}
	},
	func(a int) any {
		return &ColdQ254{A: a, B: "b", C: &ColdIn{P: 2, Q: "q", R: true, S: []int{1}}, D: 1.5, E: ColdIn{P: 3, Q: "e"}, F: map[string]int{"k": 1}}
	},
	func(a int) any {
		return &ColdQ255{A: a, B: "b", C: &ColdIn{P: 2, Q: "q", R: true, S: []int{1}}, D: 1.5, E: ColdIn{P: 3, Q: "e"}, F: map[string]int{"k": 1}}
	},
}
