package props

import (
	stdjson "encoding/json"
	"fmt"
	"math/rand"
	"reflect"
	"runtime"
	"strings"
	"sync"

	gojson "github.com/goccy/go-json"

	"verif/harness/gen"
	"verif/harness/oracle"
	"verif/harness/rt"
)

// C20 — JSON Path extraction is a pure, correct function of path and document.
//
// Monitors:
//   path-parse    CreatePath never panics; text the documentation declares invalid is rejected;
//                 paths generated from the documented grammar are accepted
//   path-select   Extract returns exactly the sub-documents the reference evaluator selects (child,
//                 index, wildcard, recursive descent, quoted names), in document order, token-equal;
//                 Path.Unmarshal decodes those same parts
//   path-reuse    one Path reused after failing documents, and shared by goroutines, behaves like a
//                 fresh Path (verifYield hooks at the path-node window are armed)

type pstep struct {
	kind byte // c child, r recursive, i index, a all
	name string
	idx  int
}

var pathKeys = []string{"a", "b", "ab", "k", "id", "name", "x", "a.b", "key with space", "é", "0", "c"}

func genPath(r *rand.Rand, maxSteps int) (string, []pstep) {
	var sb strings.Builder
	sb.WriteByte('$')
	var steps []pstep
	n := 1 + r.Intn(maxSteps)
	for i := 0; i < n; i++ {
		switch r.Intn(8) {
		case 0, 1, 2:
			k := pathKeys[r.Intn(7)]
			steps = append(steps, pstep{kind: 'c', name: k})
			sb.WriteString("." + k)
		case 3:
			k := pathKeys[r.Intn(len(pathKeys))]
			steps = append(steps, pstep{kind: 'c', name: k})
			sb.WriteString("['" + k + "']")
		case 4:
			k := pathKeys[r.Intn(len(pathKeys))]
			steps = append(steps, pstep{kind: 'c', name: k})
			sb.WriteString(`."` + k + `"`)
		case 5:
			idx := r.Intn(3)
			steps = append(steps, pstep{kind: 'i', idx: idx})
			fmt.Fprintf(&sb, "[%d]", idx)
		case 6:
			steps = append(steps, pstep{kind: 'a'})
			sb.WriteString("[*]")
		default:
			k := pathKeys[r.Intn(7)]
			steps = append(steps, pstep{kind: 'r', name: k})
			sb.WriteString(".." + k)
		}
	}
	return sb.String(), steps
}

func genPathDoc(r *rand.Rand, depth int) string {
	if depth <= 0 || r.Intn(4) == 0 {
		return []string{"1", `"s"`, "null", "true", "2.5", `"x y"`, "[]", "{}", "[ ]", "{ }", "[\n]", " 3 "}[r.Intn(12)]
	}
	if r.Intn(3) == 0 {
		n := r.Intn(4)
		parts := make([]string, n)
		for i := range parts {
			parts[i] = genPathDoc(r, depth-1)
		}
		return "[" + strings.Join(parts, []string{",", " , "}[r.Intn(2)]) + "]"
	}
	n := 1 + r.Intn(4)
	parts := make([]string, 0, n)
	used := map[string]bool{}
	for i := 0; i < n; i++ {
		k := pathKeys[r.Intn(len(pathKeys))]
		if used[k] {
			continue
		}
		used[k] = true
		q, _ := stdjson.Marshal(k)
		parts = append(parts, string(q)+[]string{":", " : "}[r.Intn(2)]+genPathDoc(r, depth-1))
	}
	return "{" + strings.Join(parts, ",") + "}"
}

// refSelect evaluates steps on the tree; wrongKind reports that some selector met a node of a
// kind it does not apply to (the documentation leaves that outcome open).
var lastWrongScalars []*oracle.Node

func refSelect(n *oracle.Node, steps []pstep) (out []*oracle.Node, wrongKind bool) {
	lastWrongScalars = nil
	cur := []*oracle.Node{n}
	for _, st := range steps {
		var next []*oracle.Node
		for _, c := range cur {
			switch st.kind {
			case 'c':
				if c.Kind != 'o' {
					wrongKind = true
					noteWrong(c)
					continue
				}
				for i, k := range c.Keys {
					if k == st.name {
						next = append(next, c.Kids[i])
					}
				}
			case 'i':
				if c.Kind != 'a' {
					wrongKind = true
					noteWrong(c)
					continue
				}
				if st.idx < len(c.Kids) {
					next = append(next, c.Kids[st.idx])
				}
			case 'a':
				if c.Kind != 'a' {
					wrongKind = true
					noteWrong(c)
					continue
				}
				next = append(next, c.Kids...)
			case 'r':
				var walk func(x *oracle.Node)
				walk = func(x *oracle.Node) {
					if x.Kind == 'o' {
						for i, k := range x.Keys {
							if k == st.name {
								next = append(next, x.Kids[i])
							}
							walk(x.Kids[i])
						}
					} else if x.Kind == 'a' {
						for _, k := range x.Kids {
							walk(k)
						}
					}
				}
				walk(c)
			}
		}
		cur = next
	}
	return cur, wrongKind
}

func noteWrong(n *oracle.Node) {
	if n.Kind != 'o' && n.Kind != 'a' {
		lastWrongScalars = append(lastWrongScalars, n)
	}
}

func rawScalar(n *oracle.Node) string {
	switch n.Kind {
	case 's':
		return n.Str // go-json hands back the unquoted contents
	case 'n':
		return n.Lit
	case 't':
		return "true"
	case 'f':
		return "false"
	}
	return "null"
}

func pathShape(steps []pstep) string {
	var sb strings.Builder
	for _, s := range steps {
		sb.WriteByte(s.kind)
	}
	s := sb.String()
	switch {
	case strings.Contains(s, "r"):
		return "recursive-descent"
	case strings.Contains(s, "a") && strings.Count(s, "a") > 1:
		return "multi-wildcard"
	case strings.Contains(s, "a"):
		return "wildcard"
	case strings.Contains(s, "i"):
		return "index"
	}
	return "child-only"
}

// expectedPathString renders the steps the way PathString renders a node chain; ok is false for
// names PathString does not render unambiguously (anything but letters, digits and '_').
func expectedPathString(steps []pstep) (string, bool) {
	var sb strings.Builder
	for si, st := range steps {
		switch st.kind {
		case 'c', 'r':
			for _, ch := range st.name {
				if !(ch == '_' || ch >= '0' && ch <= '9' || ch >= 'a' && ch <= 'z' || ch >= 'A' && ch <= 'Z') {
					return "", false
				}
			}
			if st.name == "" {
				return "", false
			}
			if st.kind == 'r' {
				sb.WriteString("..")
			} else {
				sb.WriteString(".")
			}
			sb.WriteString(st.name)
			if st.kind == 'r' && si == len(steps)-1 {
				// a recursive node always carries a member selector for its name as continuation;
				// when nothing follows, that selector is rendered as well
				sb.WriteString("." + st.name)
			}
		case 'i':
			fmt.Fprintf(&sb, "[%d]", st.idx)
		case 'a':
			sb.WriteString("[*]")
		}
	}
	return sb.String(), sb.Len() > 0
}

func extractClass(parts [][]byte, err error) string {
	if err != nil {
		return "error"
	}
	return fmt.Sprintf("%d-parts", len(parts))
}

// compareSelection judges one Extract result against the reference selection.
func compareSelection(doc string, tree *oracle.Node, steps []pstep, parts [][]byte, err error) string {
	want, wrongKind := refSelect(tree, steps)
	open := len(want) == 0 || wrongKind // "selects nothing" and PathError are both acceptable then
	if err != nil {
		if open {
			return ""
		}
		return "error-where-reference-selects"
	}
	if len(parts) == 0 {
		if open {
			return ""
		}
		return "fewer-parts"
	}
	same := len(parts) == len(want)
	if same {
		for i := range want {
			pn, perr := oracle.Parse(parts[i])
			if perr != nil || !oracle.Equal(pn, want[i]) {
				same = false
				break
			}
		}
	}
	if same {
		return ""
	}
	if wrongKind && len(lastWrongScalars) > 0 && len(parts) == len(want)+len(lastWrongScalars) {
		// explanatory predicate: the parts are the reference selection plus, for every scalar a
		// remaining selector was applied to, that scalar's raw token
		left := map[string]int{}
		for _, p := range parts {
			left[string(p)]++
		}
		all := true
		for _, w := range lastWrongScalars {
			if left[rawScalar(w)] == 0 {
				all = false
				break
			}
			left[rawScalar(w)]--
		}
		remaining := 0
		for _, n := range left {
			remaining += n
		}
		if all && remaining == len(want) {
			return "scalar-returned-for-selector"
		}
	}
	for _, p := range parts {
		if _, perr := oracle.Parse(p); perr != nil {
			return "part-not-json"
		}
	}
	switch {
	case wrongKind:
		return "parts-from-a-node-the-selector-does-not-apply-to"
	case len(want) == 0:
		return "selects-where-reference-selects-nothing"
	case len(parts) < len(want):
		return "fewer-parts"
	case len(parts) > len(want):
		return "more-parts"
	}
	return "part-differs-or-out-of-order"
}

func init() {
	const pathAlphabet = "$.[]*'\"01ab"
	register(&Prop{
		ID: "C20",
		NumBatches: func(tier string, seed int64) int {
			n := len(pathAlphabet)
			if tier == "thorough" {
				return n*n + 4096
			}
			return n + 96
		},
		Run: func(c *rt.Ctx) {
			n := len(pathAlphabet)
			exh := n
			sufLen := 4
			if c.Tier == "thorough" {
				exh, sufLen = n*n, 5
			}
			if c.Idx < exh {
				// every path string with this prefix up to the length bound: no panic, documented rejections
				var prefix []byte
				if c.Tier == "thorough" {
					prefix = []byte{pathAlphabet[c.Idx/n], pathAlphabet[c.Idx%n]}
				} else {
					prefix = []byte{pathAlphabet[c.Idx]}
				}
				buf := append([]byte{}, prefix...)
				cnt, accepted := 0, 0
				var rec func(d int)
				rec = func(d int) {
					s := string(buf)
					if c.Cur(cnt, "shapes=core\npath: "+s) {
						var p *gojson.Path
						var err error
						pan, msg, frame := rt.Guard(func() {
							p, err = gojson.CreatePath(s)
							if err == nil && p != nil {
								_ = p.PathString()
								p.Extract([]byte(`{"a":{"b":[1,{"a":2}],"0":[0]},"b":[[1],[2]],"1":"x"}`))
							}
						})
						c.Eval(1)
						switch {
						case pan:
							c.Violate(rt.Violation{Monitor: "path-parse", Entry: "CreatePath", Kind: "panic:" + rt.PanicClass(msg), Ctx: frame, Detail: "path " + rt.Q([]byte(s)) + ": " + msg, Input: s, Sub: cnt})
						case err == nil && (len(s) == 0 || s[0] != '$' || strings.HasSuffix(s, ".") || strings.HasSuffix(s, "[")):
							c.Violate(rt.Violation{Monitor: "path-parse", Entry: "CreatePath", Kind: "accepts-documented-invalid", Ctx: pathBadClass(s), Detail: "path " + rt.Q([]byte(s)) + " accepted", Input: s, Sub: cnt})
						case err == nil:
							accepted++
						}
					}
					cnt++
					if d == sufLen {
						return
					}
					for i := 0; i < n; i++ {
						buf = append(buf, pathAlphabet[i])
						rec(d + 1)
						buf = buf[:len(buf)-1]
					}
				}
				rec(0)
				c.NonTrivialEnum(int64(cnt))
				c.Obs("path_strings", int64(cnt))
				c.Obs("path_strings_accepted", int64(accepted))
				if c.Idx == 0 {
					c.Sample(map[string]any{"family": "exhaustive path strings", "prefix": string(prefix), "strings": cnt, "accepted": accepted})
				}
				return
			}
			// generated paths x generated documents; reuse after errors; concurrent sharing
			r := c.RNG(0)
			if c.Idx%16 == 3 {
				c20IndexForms(c, 900)
			}
			if c.Idx%16 == 5 {
				c20WideSiblings(c, 950)
			}
			// two paths per batch come from a fixed list of array-only paths (they get array documents
			// with empty arrays spelled with and without interior whitespace)
			arrayPaths := []struct {
				ps    string
				steps []pstep
			}{
				{"$[*]", []pstep{{kind: 'a'}}}, {"$[1]", []pstep{{kind: 'i', idx: 1}}}, {"$[*][0]", []pstep{{kind: 'a'}, {kind: 'i', idx: 0}}},
				{"$[*][*]", []pstep{{kind: 'a'}, {kind: 'a'}}}, {"$[1][*]", []pstep{{kind: 'i', idx: 1}, {kind: 'a'}}}, {"$[2][1][*]", []pstep{{kind: 'i', idx: 2}, {kind: 'i', idx: 1}, {kind: 'a'}}},
				{"$[*][*][*]", []pstep{{kind: 'a'}, {kind: 'a'}, {kind: 'a'}}}, {"$[0][0]", []pstep{{kind: 'i', idx: 0}, {kind: 'i', idx: 0}}},
			}
			for k := 0; k < 12; k++ {
				ps, steps := genPath(r, 4)
				arrayOnly := false
				if k >= 10 {
					ap := arrayPaths[(c.Idx*2+k)%len(arrayPaths)]
					ps, steps, arrayOnly = ap.ps, ap.steps, true
				}
				if !c.Cur(k, "shapes=core\npath: "+ps) {
					continue
				}
				p, err := gojson.CreatePath(ps)
				c.Eval(1)
				if err != nil || p == nil {
					c.Violate(rt.Violation{Monitor: "path-parse", Entry: "CreatePath", Kind: "rejects-grammar-path", Ctx: pathShape(steps), Detail: "path " + ps + ": " + fmt.Sprint(err), Input: ps, Sub: k})
					continue
				}
				shape := pathShape(steps)
				// the compiled path has one node per step, in order (PathString renders the node
				// chain): a step lost or re-linked by the builder shows here whatever the evaluators do
				if want, ok := expectedPathString(steps); ok {
					if got := p.PathString(); got != want {
						c.Violate(rt.Violation{Monitor: "path-parse", Entry: "CreatePath", Kind: "compiled-structure-differs", Ctx: shape,
							Detail: fmt.Sprintf("path %s compiles to %q, its steps are %q", ps, got, want), Input: ps, Sub: k})
					}
				}
				// every character of the path text counts: the text with one more character behind it,
				// or with one character put in front of a quoted name, is another path or malformed -
				// it cannot compile to the same node chain (index digits aside: 00 and -0 are 0)
				base := p.PathString()
				for _, x := range []string{"a", ".", "[", "]", "'", `"`, "0", "*", "$", " ", "x", "\\", ",", "-"} {
					muts := []string{ps + x}
					for i := 1; i < len(ps); i++ {
						if ps[i] == '"' || ps[i] == '\'' {
							muts = append(muts, ps[:i]+x+ps[i:])
						}
					}
					for _, m := range muts {
						var mp *gojson.Path
						var merr error
						pan, msg, _ := rt.Guard(func() { mp, merr = gojson.CreatePath(m) })
						c.Eval(1)
						if pan {
							c.Violate(rt.Violation{Monitor: "path-parse", Entry: "CreatePath", Kind: "panic:" + rt.PanicClass(msg), Ctx: "mutated-grammar-path", Detail: "path " + rt.Q([]byte(m)) + ": " + msg, Input: m, Sub: k})
						} else if merr == nil && mp != nil && mp.PathString() == base {
							c.Violate(rt.Violation{Monitor: "path-parse", Entry: "CreatePath", Kind: "path-text-ignored", Ctx: shape,
								Detail: fmt.Sprintf("path %q and path %q both compile to %q", ps, m, base), Input: m, Sub: k})
						}
					}
				}
				var docs []string
				for i := 0; i < 10; i++ {
					docs = append(docs, genPathDoc(r, 4))
				}
				// a document tailored to the path so that deep selections happen
				docs = append(docs, tailoredDoc(r, steps, 0), tailoredDoc(r, steps, 1))
				// the same texts with whitespace at every position the grammar allows (inside empty
				// containers too), and the tailored ones with empty containers among the elements
				docs = append(docs, string(gen.MutateDoc(r, []byte(docs[10]), "whitespace")), string(gen.MutateDoc(r, []byte(docs[11]), "whitespace")),
					string(gen.MutateDoc(r, []byte(docs[0]), "whitespace")), string(gen.MutateDoc(r, []byte(docs[1]), "whitespace")),
					strings.NewReplacer(`"pad"`, "[ ]", `"zz":0`, `"zz":{ }`, ",7]", ",[\n],{\t}]").Replace(docs[11]))
				for j := 0; j <= len(steps); j++ {
					ws := []string{" ", "\n", "\t", "\r\n ", ""}[(j+k+c.Idx)%5]
					docs = append(docs, emptyAtDepth(steps, j, "{", ws, "}"), emptyAtDepth(steps, j, "[", ws, "]"))
				}
				docs = append(docs, tailoredDoc(r, steps, 2), tailoredDoc(r, steps, 3))
				if arrayOnly {
					docs = append(docs, `[[1],[ ],[2,[\n],[ 3 ]]]`, `[ ]`, `[[ ]]`, `[[],[ ]]`, `[[[]],[[ ]],[[\t],[4]]]`, ` [ [ 1 , 2 ] , [ ] , [ [ ] , [ 5 ] ] ] `, `[[1,2],[],[[],[5]]]`)
				}
				fresh := map[string]string{}
				for di, d := range docs {
					tree, perr := oracle.Parse([]byte(d))
					if perr != nil {
						continue
					}
					fp, _ := gojson.CreatePath(ps)
					var parts [][]byte
					var eerr error
					pan, msg, frame := rt.Guard(func() { parts, eerr = fp.Extract([]byte(d)) })
					c.Eval(1)
					if pan {
						c.Violate(rt.Violation{Monitor: "path-select", Entry: "Extract", Kind: "panic:" + rt.PanicClass(msg), Ctx: frame, Detail: ps + " on " + d + ": " + msg, Sub: k})
						continue
					}
					fresh[d] = fmt.Sprint(parts, eerr != nil)
					bad := compareSelection(d, tree, steps, parts, eerr)
					if bad != "" {
						want, _ := refSelect(tree, steps)
						c.Violate(rt.Violation{Monitor: "path-select", Entry: "Extract", Kind: "selection-mismatch:" + bad, Ctx: shape,
							Detail: fmt.Sprintf("path %s on %s: Extract = %q (err %v); reference selects %d part(s) %s", ps, d, parts, eerr, len(want), renderNodes(want)), Input: map[string]any{"path": ps, "doc": d}, Sub: k*100 + di})
					} else {
						c.Obs("selections_agree", 1)
					}
					// Path.Unmarshal decodes those same parts
					if eerr == nil && len(parts) > 0 && bad == "" {
						var got any
						var uerr error
						if pan, _, _ := rt.Guard(func() { uerr = fp.Unmarshal([]byte(d), &got) }); !pan {
							c.Eval(1)
							var wantVals []any
							for _, pt := range parts {
								var x any
								stdjson.Unmarshal(pt, &x)
								wantVals = append(wantVals, x)
							}
							if uerr != nil || !(reflect.DeepEqual(got, any(wantVals)) || (len(wantVals) == 1 && reflect.DeepEqual(got, wantVals[0]))) {
								c.Violate(rt.Violation{Monitor: "path-select", Entry: "Path.Unmarshal", Kind: "unmarshal-differs-from-extract", Ctx: shape,
									Detail: fmt.Sprintf("path %s on %s: Unmarshal = %v (err %v), Extract parts decode to %v", ps, d, got, uerr, wantVals), Sub: k*100 + di})
							}
						}
					}
				}
				// reuse: one Path over the documents with failing ones interleaved
				bad := []string{`{"a":{"b":[1,{"c":`, `[1,2`, `{"a":{"x":1,"b":tru}}`, `{"k":[{"a":1},{"a":`, ``}
				seq := append([]string{}, docs...)
				for i := 0; i < len(docs); i += 2 {
					seq = append(seq[:i+1], append([]string{bad[r.Intn(len(bad))]}, seq[i+1:]...)...)
				}
				for _, d := range seq {
					var parts [][]byte
					var eerr error
					if pan, _, _ := rt.Guard(func() { parts, eerr = p.Extract([]byte(d)) }); pan {
						continue
					}
					c.Eval(1)
					if w, ok := fresh[d]; ok && w != fmt.Sprint(parts, eerr != nil) {
						c.Violate(rt.Violation{Monitor: "path-reuse", Entry: "Extract", Kind: "reused-path-differs-from-fresh", Ctx: shape + ":after-error",
							Detail: fmt.Sprintf("path %s on %s: reused Path gives %s, a fresh Path %s", ps, d, fmt.Sprint(parts, eerr != nil), w), Sub: k})
						break
					}
				}
				// sharing: goroutines use the same Path at once
				var wg sync.WaitGroup
				var mu sync.Mutex
				var diffs []string
				seed := uint64(r.Int63())
				gojson.VerifSetYield(func(point string) {
					if point == "dec-path:node-advanced" {
						runtime.Gosched()
					}
				})
				for g := 0; g < 6; g++ {
					wg.Add(1)
					go func(g int) {
						defer wg.Done()
						rr := rand.New(rand.NewSource(int64(rt.Mix(seed, uint64(g)))))
						for i := 0; i < 30; i++ {
							d := seq[rr.Intn(len(seq))]
							var parts [][]byte
							var eerr error
							if pan, _, _ := rt.Guard(func() { parts, eerr = p.Extract([]byte(d)) }); pan {
								continue
							}
							if w, ok := fresh[d]; ok && w != fmt.Sprint(parts, eerr != nil) {
								mu.Lock()
								diffs = append(diffs, fmt.Sprintf("on %s: %s vs fresh %s", d, fmt.Sprint(parts, eerr != nil), w))
								mu.Unlock()
							}
						}
					}(g)
				}
				wg.Wait()
				gojson.VerifSetYield(nil)
				c.Eval(180)
				if len(diffs) > 0 {
					c.Violate(rt.Violation{Monitor: "path-reuse", Entry: "Extract", Kind: "shared-path-differs-from-fresh", Ctx: shape + ":6-goroutines", Detail: fmt.Sprintf("path %s: %d differing calls, first %s", ps, len(diffs), diffs[0]), Sub: k})
				}
				c.NonTrivial(ps, docs[0], docs[1])
				c.SetAdd("path_shapes", shape)
				if k == 0 {
					c.Sample(map[string]any{"family": "grammar paths x documents", "path": ps, "docs": len(docs), "example_doc": docs[len(docs)-1]})
				}
			}
		},
	})
}

func pathBadClass(s string) string {
	switch {
	case len(s) == 0:
		return "empty"
	case s[0] != '$':
		return "no-leading-dollar"
	case strings.HasSuffix(s, "."):
		return "ends-with-dot"
	}
	return "ends-with-bracket"
}

func renderNodes(ns []*oracle.Node) string {
	var parts []string
	for _, n := range ns {
		parts = append(parts, render(n))
	}
	return "[" + strings.Join(parts, " ") + "]"
}

// tailoredDoc builds a document in which the path selects something (variant 1 adds siblings,
// repeated names at several depths and non-matching branches).
// c20IndexForms: index texts over the property's alphabet (digits, letters, dot) of every spelling a
// lenient integer parser would take (leading zeros, base prefixes, underscores, exponents) against a
// 12-element array. The reference
// reads a run of decimal digits as a decimal number and rejects everything else.
// c20WideSiblings: the parts a path does not select are stepped over by scanners that count brackets.
// Members and elements that hold more containers side by side than the nesting limit allows in
// depth (12000 arrays or objects, 3 levels deep) before, behind and as the selected part; the
// expected parts are written out.
func c20WideSiblings(c *rt.Ctx, sub0 int) {
	rep := func(unit string, n int) string { return strings.TrimSuffix(strings.Repeat(unit+",", n), ",") }
	wide := map[string]string{
		"arrays-in-object":  `{"points":[` + rep("[0,1]", 12000) + `],"name":"n"}`,
		"objects-in-object": `{"items":[` + rep(`{"k":[]}`, 12000) + `]}`,
		"arrays-in-array":   `[` + rep("[[]]", 12000) + `]`,
		"objects-in-array":  `[` + rep(`{"a":{}}`, 12000) + `]`,
		"members-of-arrays": `{` + rep(`"m":[[1]]`, 12000) + `}`,
	}
	names := []string{"arrays-in-object", "objects-in-object", "arrays-in-array", "objects-in-array", "members-of-arrays"}
	sub := sub0
	for _, wn := range names {
		w := wide[wn]
		cases := []struct{ path, doc, want string }{
			{"$.b", `{"big":` + w + `,"b":7}`, "7"},
			{"$.b", `{"b":7,"big":` + w + `}`, "7"},
			{"$.a.b", `{"a":{"x":` + w + `,"b":"s"},"z":` + w + `}`, `"s"`},
			{"$[1]", `[` + w + `,8,` + w + `]`, "8"},
			{"$[*].k", `[{"k":1,"w":` + w + `},{"w":` + w + `,"k":2}]`, "1 2"},
			{"$.big", `{"a":1,"big":` + w + `}`, w},
		}
		for _, cs := range cases {
			sub++
			if !c.Cur(sub, "shapes=core\nwide sibling ("+wn+"), path "+cs.path) {
				continue
			}
			p, err := gojson.CreatePath(cs.path)
			if err != nil {
				continue
			}
			var parts [][]byte
			var eerr error
			pan, msg, _ := rt.Guard(func() { parts, eerr = p.Extract([]byte(cs.doc)) })
			c.Eval(1)
			var got []string
			for _, pt := range parts {
				got = append(got, string(pt))
			}
			if pan || eerr != nil || strings.Join(got, " ") != cs.want {
				show := strings.Join(got, " ")
				if len(show) > 80 {
					show = show[:80] + "…"
				}
				c.Violate(rt.Violation{Monitor: "path-select", Entry: "Extract", Kind: "selection-mismatch:wide-sibling", Ctx: wn,
					Detail: fmt.Sprintf("path %s on a %d-byte document with a wide sibling (%s): got %q err=%v panic=%v %s", cs.path, len(cs.doc), wn, show, eerr, pan, msg), Sub: sub})
			}
			// the typed route as well
			var v any
			pan, msg, _ = rt.Guard(func() { eerr = p.Unmarshal([]byte(cs.doc), &v) })
			c.Eval(1)
			if pan || eerr != nil {
				c.Violate(rt.Violation{Monitor: "path-select", Entry: "Path.Unmarshal", Kind: "selection-mismatch:wide-sibling", Ctx: wn,
					Detail: fmt.Sprintf("path %s (wide sibling %s): err=%v panic=%v %s", cs.path, wn, eerr, pan, msg), Sub: sub})
			}
		}
		c.NonTrivial("wide", wn)
	}
	c.Obs("wide_sibling_documents", int64(sub-sub0))
}

func c20IndexForms(c *rt.Ctx, sub0 int) {
	doc := `[100,101,102,103,104,105,106,107,108,109,110,111]`
	texts := []string{"0", "1", "7", "8", "9", "10", "11", "12", "00", "01", "07", "08", "09", "010", "011", "0010", "0x1", "0X1", "0b1", "0o7", "1_0", "1_1", "1e1", "1.0", "", "0x", "1a", "a1", "0e0", "123456789012345678"}
	for ti, txt := range texts {
		ps := "$[" + txt + "]"
		if !c.Cur(sub0+ti, "shapes=core\npath: "+ps) {
			continue
		}
		digits := txt != ""
		for _, ch := range txt {
			if ch < '0' || ch > '9' {
				digits = false
			}
		}
		p, err := gojson.CreatePath(ps)
		c.Eval(1)
		if digits != (err == nil) {
			kind := "accepts-malformed-index"
			if err != nil {
				kind = "rejects-decimal-index"
			}
			c.Violate(rt.Violation{Monitor: "path-parse", Entry: "CreatePath", Kind: kind, Ctx: "index-text", Detail: fmt.Sprintf("CreatePath(%q): %v", ps, err), Input: ps, Sub: sub0 + ti})
			continue
		}
		if err != nil {
			continue
		}
		var parts [][]byte
		var eerr error
		pan, msg, _ := rt.Guard(func() { parts, eerr = p.Extract([]byte(doc)) })
		c.Eval(1)
		idx := -1
		if len(txt) < 10 {
			fmt.Sscanf(strings.TrimLeft(txt, "0")+"", "%d", &idx)
			if strings.TrimLeft(txt, "0") == "" {
				idx = 0
			}
		}
		want := ""
		if idx >= 0 && idx < 12 {
			want = fmt.Sprint(100 + idx)
		}
		got := ""
		if len(parts) == 1 {
			got = string(parts[0])
		}
		if pan || (want != "" && (eerr != nil || got != want)) || (want == "" && eerr == nil && len(parts) > 0) {
			c.Violate(rt.Violation{Monitor: "path-select", Entry: "Extract", Kind: "selection-mismatch:index-text", Ctx: "index-text",
				Detail: fmt.Sprintf("path %s on %s: Extract = %q (err %v %s); the decimal index selects %q", ps, doc, parts, eerr, msg, want), Input: map[string]any{"path": ps, "doc": doc}, Sub: sub0 + ti})
		}
		c.NonTrivial("index-form", txt)
	}
}

// emptyAtDepth builds the document that follows the first j steps of a path and then holds an
// empty container (spelled with the given interior white space) where step j would descend: the
// walker has to recognise the empty container while traversing, not while skipping.
func emptyAtDepth(steps []pstep, j int, open, ws, close string) string {
	cur := open + ws + close
	for i := j - 1; i >= 0; i-- {
		st := steps[i]
		switch st.kind {
		case 'c', 'r':
			q, _ := stdjson.Marshal(st.name)
			cur = "{" + string(q) + ":" + cur + "}"
		case 'i':
			elems := make([]string, st.idx+1)
			for k := range elems {
				elems[k] = open + ws + close
			}
			elems[st.idx] = cur
			cur = "[" + strings.Join(elems, ",") + "]"
		case 'a':
			cur = "[" + cur + "," + open + ws + close + "]"
		}
	}
	return cur
}

func tailoredDoc(r *rand.Rand, steps []pstep, variant int) string {
	leaf := []string{`1`, `"v"`, `{"a":1,"b":[2]}`, `[1,2,3]`, `null`}[r.Intn(5)]
	cur := leaf
	for i := len(steps) - 1; i >= 0; i-- {
		st := steps[i]
		switch st.kind {
		case 'c', 'r':
			q, _ := stdjson.Marshal(st.name)
			inner := string(q) + ":" + cur
			if variant == 1 {
				inner = `"zz":0,` + inner + `,"x":{` + string(q) + `:"deeper"}`
			}
			if variant == 2 {
				// decoys whose names equal the selector only under case folding, before and behind it
				up, lo := strings.ToUpper(st.name), strings.ToLower(st.name)
				for _, d := range []string{up, lo} {
					if d != st.name {
						dq, _ := stdjson.Marshal(d)
						inner = string(dq) + `:"decoy",` + inner + `,` + string(dq) + `:{"decoy":2}`
						break
					}
				}
			}
			cur = "{" + inner + "}"
			if st.kind == 'r' && variant == 1 {
				cur = `{"w":[` + cur + `,{"w2":` + cur + `}]}`
			}
			if st.kind == 'r' && variant == 3 {
				// the name occurs once, two object levels below where the descent starts
				cur = `{"u0":1,"w0":{"w1":` + cur + `,"u1":"s"}}`
			}
		case 'i':
			elems := make([]string, st.idx+1+variant)
			for j := range elems {
				elems[j] = `"pad"`
			}
			elems[st.idx] = cur
			cur = "[" + strings.Join(elems, ",") + "]"
		case 'a':
			if variant == 1 {
				cur = "[" + cur + "," + cur + `,7]`
			} else {
				cur = "[" + cur + "]"
			}
		}
	}
	return cur
}
