package props

import (
	"fmt"
	"math"
	"reflect"
	"strings"
	"time"
	"unsafe"
)

// valueDiff walks two values of the same type in lockstep and describes the first node where they
// differ: (what, chain of kind classes innermost first). Unexported and json:"-" fields are
// included on purpose (stray writes land there). Floats are compared by bit pattern.
type valueDiff struct {
	what  string
	chain []string
}

func (d *valueDiff) ctx() string { return ctxOf(d.chain) }

var timeT = reflect.TypeOf(time.Time{})

func diffValues(a, b reflect.Value, chain []string, depth int) *valueDiff {
	if depth > 64 {
		return nil
	}
	if !a.IsValid() || !b.IsValid() {
		if a.IsValid() != b.IsValid() {
			return &valueDiff{"validity", chain}
		}
		return nil
	}
	if a.Type() != b.Type() {
		return &valueDiff{fmt.Sprintf("dynamic-type:%s->%s", kindClass(a.Type()), kindClass(b.Type())), chain}
	}
	t := a.Type()
	chain = append(chain, kindClass(t))
	switch t.Kind() {
	case reflect.Bool:
		if a.Bool() != b.Bool() {
			return &valueDiff{"value", chain}
		}
	case reflect.Int, reflect.Int8, reflect.Int16, reflect.Int32, reflect.Int64:
		if a.Int() != b.Int() {
			return &valueDiff{"value", chain}
		}
	case reflect.Uint, reflect.Uint8, reflect.Uint16, reflect.Uint32, reflect.Uint64, reflect.Uintptr:
		if a.Uint() != b.Uint() {
			return &valueDiff{"value", chain}
		}
	case reflect.Float32, reflect.Float64:
		if math.Float64bits(a.Float()) != math.Float64bits(b.Float()) {
			return &valueDiff{"value", chain}
		}
	case reflect.String:
		if a.String() != b.String() {
			return &valueDiff{"value", chain}
		}
	case reflect.Ptr:
		if a.IsNil() != b.IsNil() {
			return &valueDiff{nilWhat(a.IsNil()), chain}
		}
		if !a.IsNil() {
			return diffValues(a.Elem(), b.Elem(), chain[:len(chain)-1], depth+1)
		}
	case reflect.Interface:
		if a.IsNil() != b.IsNil() {
			return &valueDiff{nilWhat(a.IsNil()), chain}
		}
		if !a.IsNil() {
			return diffValues(a.Elem(), b.Elem(), chain, depth+1)
		}
	case reflect.Slice:
		if a.IsNil() != b.IsNil() {
			return &valueDiff{nilWhat(a.IsNil()), chain}
		}
		if a.Len() != b.Len() {
			return &valueDiff{"len", chain}
		}
		for i := 0; i < a.Len(); i++ {
			if d := diffValues(a.Index(i), b.Index(i), chain, depth+1); d != nil {
				return d
			}
		}
	case reflect.Array:
		for i := 0; i < a.Len(); i++ {
			if d := diffValues(a.Index(i), b.Index(i), chain, depth+1); d != nil {
				return d
			}
		}
	case reflect.Map:
		if a.IsNil() != b.IsNil() {
			return &valueDiff{nilWhat(a.IsNil()), chain}
		}
		if a.Len() != b.Len() {
			return &valueDiff{"len", chain}
		}
		for _, k := range a.MapKeys() {
			bv := b.MapIndex(k)
			if !bv.IsValid() {
				return &valueDiff{"map-key-missing", chain}
			}
			if d := diffValues(a.MapIndex(k), bv, chain, depth+1); d != nil {
				return d
			}
		}
	case reflect.Struct:
		if t == timeT {
			// two time.Time values are the same instant with the same offset; their internal
			// representation (wall/ext encoding, *Location identity) is not part of the value
			ta, tb := a.Interface().(time.Time), b.Interface().(time.Time)
			_, oa := ta.Zone()
			_, ob := tb.Zone()
			if !ta.Equal(tb) || oa != ob {
				return &valueDiff{"value", chain}
			}
			return nil
		}
		for i := 0; i < t.NumField(); i++ {
			f := t.Field(i)
			tag := f.Tag.Get("json")
			opts := ""
			if j := strings.IndexByte(tag, ','); j >= 0 {
				opts = tag[j+1:]
			}
			desc := "field[" + opts + "]"
			if tag == "-" {
				desc = "field[-]"
			} else if f.PkgPath != "" && !f.Anonymous {
				desc = "field[unexported]"
			}
			fa, fb := a.Field(i), b.Field(i)
			if f.PkgPath != "" {
				// unexported: read through unsafe so that they can be compared
				if !fa.CanAddr() || !fb.CanAddr() {
					continue
				}
				fa = reflect.NewAt(f.Type, unsafe.Pointer(fa.UnsafeAddr())).Elem()
				fb = reflect.NewAt(f.Type, unsafe.Pointer(fb.UnsafeAddr())).Elem()
			}
			if d := diffValues(fa, fb, append(append([]string{}, chain...), desc), depth+1); d != nil {
				return d
			}
		}
	}
	return nil
}

func nilWhat(refNil bool) string {
	if refNil {
		return "nil->non-nil"
	}
	return "non-nil->nil"
}
