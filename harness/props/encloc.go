package props

import (
	"encoding"
	stdjson "encoding/json"
	"fmt"
	"reflect"
	"sort"
	"strings"
	"unicode/utf8"

	"verif/harness/gen"
	"verif/harness/oracle"
)

var (
	marshalerT     = reflect.TypeOf((*stdjson.Marshaler)(nil)).Elem()
	textMarshalerT = reflect.TypeOf((*encoding.TextMarshaler)(nil)).Elem()
	unmarshalerT   = reflect.TypeOf((*stdjson.Unmarshaler)(nil)).Elem()
	textUnmarshT   = reflect.TypeOf((*encoding.TextUnmarshaler)(nil)).Elem()
)

func marshClass(t reflect.Type) string {
	if t.Kind() == reflect.Ptr || t.Kind() == reflect.Interface {
		return ""
	}
	switch {
	case t.Implements(marshalerT):
		return "marshalerV"
	case reflect.PtrTo(t).Implements(marshalerT):
		return "marshalerP"
	case t.Implements(textMarshalerT):
		return "textmarshalerV"
	case reflect.PtrTo(t).Implements(textMarshalerT):
		return "textmarshalerP"
	}
	return ""
}

// ptrShaped: the value is represented by a single pointer word (go-json special-cases these).
func ptrShaped(t reflect.Type) bool {
	switch t.Kind() {
	case reflect.Ptr, reflect.Map, reflect.Chan, reflect.Func, reflect.UnsafePointer:
		return true
	case reflect.Struct:
		return t.NumField() == 1 && ptrShaped(t.Field(0).Type)
	case reflect.Array:
		return t.Len() == 1 && ptrShaped(t.Elem())
	}
	return false
}

// kindClass maps a type to the small vocabulary used in signatures.
func kindClass(t reflect.Type) string {
	if t == nil {
		return "dyn"
	}
	switch t {
	case gen.TNumber:
		return "number"
	case gen.TRaw:
		return "raw"
	case gen.TTime:
		return "time"
	}
	if t.Kind() == reflect.Ptr {
		n := 0
		for t.Kind() == reflect.Ptr {
			t = t.Elem()
			n++
		}
		return fmt.Sprintf("ptr%d>%s", n, kindClass(t))
	}
	if mc := marshClass(t); mc != "" {
		k := t.Kind().String()
		if t.Kind() == reflect.Struct {
			return mc
		}
		return mc + "(" + k + ")"
	}
	switch t.Kind() {
	case reflect.Slice:
		if t.Elem().Kind() == reflect.Uint8 {
			return "bytes"
		}
		return "slice"
	case reflect.Array:
		s := "arrayN"
		switch t.Len() {
		case 0:
			s = "array0"
		case 1:
			s = "array1"
		}
		if ptrShaped(t) {
			s += "(ptr-shaped)"
		}
		return s
	case reflect.Map:
		k := t.Key()
		switch {
		case k.Implements(textMarshalerT) || reflect.PtrTo(k).Implements(textMarshalerT):
			return "map[text]"
		case k.Kind() == reflect.String:
			return "map[str]"
		}
		return "map[int]"
	case reflect.Interface:
		if t.NumMethod() > 0 {
			return "iface(nonempty)"
		}
		return "iface"
	case reflect.Struct:
		if ptrShaped(t) {
			return "struct(ptr-shaped)"
		}
		return "struct"
	}
	return t.Kind().String()
}

type fieldInfo struct {
	name  string
	opts  string
	typ   reflect.Type
	index []int
}

// jsonFields lists the visible fields the way encoding/json names them (single level; embedded
// structs are flattened without conflict resolution — enough to describe a node in a signature).
func jsonFields(t reflect.Type, prefix []int, depth int) []fieldInfo {
	var out []fieldInfo
	if depth > 3 {
		return out
	}
	for i := 0; i < t.NumField(); i++ {
		f := t.Field(i)
		tag := f.Tag.Get("json")
		if tag == "-" {
			continue
		}
		name, opts := f.Name, ""
		if tag != "" {
			parts := strings.Split(tag, ",")
			if parts[0] != "" {
				name = parts[0]
			}
			opts = strings.Join(parts[1:], ",")
		}
		idx := append(append([]int{}, prefix...), i)
		if f.Anonymous && (tag == "" || strings.HasPrefix(tag, ",")) {
			ft := f.Type
			if ft.Kind() == reflect.Ptr {
				ft = ft.Elem()
			}
			if ft.Kind() == reflect.Struct {
				out = append(out, jsonFields(ft, idx, depth+1)...)
				continue
			}
		}
		if f.PkgPath != "" {
			continue
		}
		out = append(out, fieldInfo{name, opts, f.Type, idx})
	}
	return out
}

func fieldByJSONName(t reflect.Type, k string) *fieldInfo {
	fs := jsonFields(t, nil, 0)
	for i := range fs {
		if fs[i].name == k {
			return &fs[i]
		}
	}
	return nil
}

func fieldByIndexSafe(v reflect.Value, idx []int) reflect.Value {
	for _, i := range idx {
		for v.Kind() == reflect.Ptr {
			if v.IsNil() {
				return reflect.Value{}
			}
			v = v.Elem()
		}
		v = v.Field(i)
	}
	return v
}

func ctxOf(chain []string) string {
	var out []string
	for i := len(chain) - 1; i >= 0 && len(out) < 3; i-- {
		out = append(out, chain[i])
	}
	return strings.Join(out, " < ")
}

type locRes struct{ kind, ctx string }

// escapedForm renders a key the way go-json writes it (the form its map encoder sorts by):
// invalid UTF-8 and U+2028/9 as \uXXXX escapes, control characters escaped, HTML characters
// escaped when html is set.
func escapedForm(k string, html bool) string {
	var sb strings.Builder
	sb.WriteByte('"')
	for i := 0; i < len(k); {
		c := k[i]
		if c < utf8.RuneSelf {
			switch {
			case c == '"' || c == '\\':
				sb.WriteByte('\\')
				sb.WriteByte(c)
			case c == '\n':
				sb.WriteString(`\n`)
			case c == '\r':
				sb.WriteString(`\r`)
			case c == '\t':
				sb.WriteString(`\t`)
			case c < 0x20 || (html && (c == '<' || c == '>' || c == '&')):
				fmt.Fprintf(&sb, `\u%04x`, c)
			default:
				sb.WriteByte(c)
			}
			i++
			continue
		}
		r, size := utf8.DecodeRuneInString(k[i:])
		switch {
		case r == utf8.RuneError && size == 1:
			sb.WriteString(`\ufffd`)
		case r == 0x2028 || r == 0x2029:
			fmt.Fprintf(&sb, `\u%04x`, r)
		default:
			sb.WriteString(k[i : i+size])
		}
		i += size
	}
	sb.WriteByte('"')
	return sb.String()
}

// locateEnc walks the Go type, the value, the reference tree and go-json's tree in lockstep and
// describes the first node where they differ.
func locateEnc(t reflect.Type, v reflect.Value, ref, act *oracle.Node, chain []string) *locRes {
	chain = append(chain, kindClass(t))
	if ref.Kind != act.Kind {
		return &locRes{fmt.Sprintf("token:%c->%c", ref.Kind, act.Kind), ctxOf(chain)}
	}
	switch ref.Kind {
	case 's':
		if act.IllFormed && !ref.IllFormed {
			// raw ill-formed bytes where the reference wrote an escape: not a spelling of the same token
			return &locRes{"token:ill-formed-utf8", ctxOf(chain)}
		}
		if ref.Str != act.Str {
			// a float under the ",string" option is a quoted number: the zero-padded-exponent
			// spelling (e-07 vs e-7) is tolerated there as it is for bare number tokens
			if t != nil && oracle.NormNum(ref.Str) == oracle.NormNum(act.Str) {
				bt := t
				for bt.Kind() == reflect.Ptr {
					bt = bt.Elem()
				}
				if bt.Kind() == reflect.Float32 || bt.Kind() == reflect.Float64 {
					return nil
				}
			}
			// a string under the ",string" option is a quoted JSON string: both contents are
			// string literals themselves, and two spellings of one string (\b vs \u0008, which the
			// reference's own versions differ on) are the same token there
			if t != nil {
				bt := t
				for bt.Kind() == reflect.Ptr {
					bt = bt.Elem()
				}
				if bt.Kind() == reflect.String {
					var a, b string
					if stdjson.Unmarshal([]byte(ref.Str), &a) == nil && stdjson.Unmarshal([]byte(act.Str), &b) == nil && a == b && oracle.Recognise([]byte(act.Str), 0) {
						return nil
					}
				}
			}
			return &locRes{"token:string-content", ctxOf(chain)}
		}
		return nil
	case 'n':
		if oracle.NormNum(ref.Lit) != oracle.NormNum(act.Lit) {
			return &locRes{"token:number-literal", ctxOf(chain)}
		}
		return nil
	case 't', 'f', 'z':
		return nil
	}
	for v.IsValid() && (v.Kind() == reflect.Ptr || v.Kind() == reflect.Interface) {
		if v.IsNil() {
			break
		}
		v = v.Elem()
	}
	var vt reflect.Type
	if v.IsValid() {
		vt = v.Type()
	} else if t != nil {
		// the value could not be followed (e.g. a map key that only matches after UTF-8
		// normalisation): keep describing nodes by the static type
		vt = t
		for vt.Kind() == reflect.Ptr {
			vt = vt.Elem()
		}
		if vt.Kind() == reflect.Interface {
			vt = nil
		}
	}
	if vt != nil && vt != t && (t == nil || t.Kind() == reflect.Interface || t.Kind() == reflect.Ptr) {
		// descended through an interface or pointer: describe the dynamic type too
		if t != nil && t.Kind() == reflect.Interface {
			chain = append(chain, kindClass(vt))
		}
	}
	if vt != nil && marshClass(vt) != "" {
		// output produced by a user method: the tree below is not described by the Go type
		if !oracle.Equal(ref, act) {
			return &locRes{"marshaler-output-differs", ctxOf(chain)}
		}
		return nil
	}
	if ref.Kind == 'a' {
		if len(ref.Kids) != len(act.Kids) {
			return &locRes{"array-len", ctxOf(chain)}
		}
		for i := range ref.Kids {
			var ev reflect.Value
			var et reflect.Type
			if vt != nil && (vt.Kind() == reflect.Slice || vt.Kind() == reflect.Array) {
				et = vt.Elem()
				if v.IsValid() && i < v.Len() {
					ev = v.Index(i)
				}
			}
			if r := locateEnc(et, ev, ref.Kids[i], act.Kids[i], chain); r != nil {
				return r
			}
		}
		return nil
	}
	// objects
	rs, as := map[string]int{}, map[string]int{}
	for _, k := range ref.Keys {
		rs[k]++
	}
	for _, k := range act.Keys {
		as[k]++
	}
	for _, k := range act.Keys {
		if as[k] > rs[k] {
			kind := "extra-member"
			if vt != nil && vt.Kind() == reflect.Struct {
				if f := fieldByJSONName(vt, k); f != nil {
					if strings.Contains(f.opts, "omitempty") && f.typ.Kind() == reflect.Array && f.typ.Len() == 0 {
						kind = "extra-member:omitempty-array0"
					}
					return &locRes{kind, ctxOf(append(chain, "field["+f.opts+"]:"+kindClass(f.typ)))}
				}
			}
			return &locRes{kind, ctxOf(append(chain, "member"))}
		}
	}
	for _, k := range ref.Keys {
		if rs[k] > as[k] {
			if vt != nil && vt.Kind() == reflect.Struct {
				if f := fieldByJSONName(vt, k); f != nil {
					return &locRes{"missing-member", ctxOf(append(chain, "field["+f.opts+"]:"+kindClass(f.typ)))}
				}
			}
			return &locRes{"missing-member", ctxOf(append(chain, "member"))}
		}
	}
	// Same multiset of names. Pair the members up: by position when the name sequences agree and
	// no name repeats; otherwise (a name repeats - distinct Go keys that become equal once invalid
	// bytes are replaced by U+FFFD) by name and then by equal subtree, so that a mere reordering
	// of members is reported as what it is and not as a difference between unrelated values.
	reordered := false
	for i := range ref.Keys {
		if ref.Keys[i] != act.Keys[i] {
			reordered = true
			break
		}
	}
	dup := false
	for _, n := range rs {
		if n > 1 {
			dup = true
		}
	}
	if dup && !reordered {
		used := make([]bool, len(act.Kids))
		perm := make([]int, len(ref.Kids))
		ok := true
		for i := range ref.Kids {
			perm[i] = -1
			for j := range act.Kids {
				if !used[j] && act.Keys[j] == ref.Keys[i] && oracle.Equal(ref.Kids[i], act.Kids[j]) {
					used[j], perm[i] = true, j
					break
				}
			}
			if perm[i] < 0 {
				ok = false
				break
			}
			if perm[i] != i {
				reordered = true
			}
		}
		if !ok {
			reordered = false // some member really differs: fall through to the positional walk
		}
	}
	if reordered {
		// go-json's order is explained when its members are sorted by their names as written,
		// i.e. escapes and closing quote included (names written alike in any order)
		kind := "order:by-escaped-key"
		for j := 1; j < len(act.RawKeys); j++ {
			// (the closing quote takes part: go-json compares the written bytes, so "a b" sorts
			// before "a")
			if act.RawKeys[j-1]+`"` > act.RawKeys[j]+`"` {
				kind = "order:other"
				break
			}
		}
		if len(act.RawKeys) != len(act.Keys) {
			kind = "order:other"
		}
		return &locRes{kind, ctxOf(chain)}
	}
	for i, k := range ref.Keys {
		if i < len(act.RawKeys) && i < len(ref.RawKeys) && !utf8.ValidString(act.RawKeys[i]) && utf8.ValidString(ref.RawKeys[i]) {
			return &locRes{"token:ill-formed-utf8", ctxOf(append(append([]string{}, chain...), "member-name"))}
		}
		var ev reflect.Value
		var et reflect.Type
		sub := chain
		if vt != nil && vt.Kind() == reflect.Map {
			et = vt.Elem()
			for _, mk := range mapKeysSafe(v) {
				if mapKeyText(mk) == k {
					ev = v.MapIndex(mk)
				}
			}
		} else if vt != nil && vt.Kind() == reflect.Struct {
			if f := fieldByJSONName(vt, k); f != nil {
				et = f.typ
				if v.IsValid() {
					ev = fieldByIndexSafe(v, f.index)
				}
				sub = append(append([]string{}, chain...), "field["+f.opts+"]")
			}
		}
		if r := locateEnc(et, ev, ref.Kids[i], act.Kids[i], sub); r != nil {
			return r
		}
	}
	return nil
}

func mapKeysSafe(v reflect.Value) []reflect.Value {
	if !v.IsValid() || v.Kind() != reflect.Map {
		return nil
	}
	return v.MapKeys()
}

func mapKeyText(k reflect.Value) string {
	if k.Kind() == reflect.String && !k.Type().Implements(textMarshalerT) {
		return k.String()
	}
	if tm, ok := k.Interface().(encoding.TextMarshaler); ok {
		if k.Kind() == reflect.Ptr && k.IsNil() {
			return ""
		}
		b, _ := tm.MarshalText()
		return string(b)
	}
	return fmt.Sprint(k.Interface())
}

// riskShapes lists the shape features of a type that known crash root causes depend on. A
// process death or panic is localised by (innermost go-json frame @ shape).
func riskShapes(t reflect.Type) []string {
	set := map[string]bool{}
	seen := map[reflect.Type]bool{}
	var walk func(t reflect.Type, depth int)
	walk = func(t reflect.Type, depth int) {
		if t == nil || seen[t] || depth > 12 {
			return
		}
		seen[t] = true
		switch t.Kind() {
		case reflect.Ptr:
			n, e := 0, t
			for e.Kind() == reflect.Ptr {
				e = e.Elem()
				n++
			}
			if n >= 2 {
				set["ptr2+>"+baseClass(e)] = true
			}
			walk(e, depth+1)
		case reflect.Array:
			if t.Len() == 1 && ptrShaped(t.Elem()) {
				set["array1(ptr-shaped elem)"] = true
			}
			if t.Len() == 0 {
				set["array0"] = true
			}
			walk(t.Elem(), depth+1)
		case reflect.Slice:
			walk(t.Elem(), depth+1)
		case reflect.Map:
			if t.Key().Kind() == reflect.Ptr || t.Key().Kind() == reflect.Struct {
				set["map-key:"+kindClass(t.Key())] = true
			}
			walk(t.Key(), depth+1)
			walk(t.Elem(), depth+1)
		case reflect.Struct:
			if marshClass(t) != "" {
				return
			}
			if ptrShaped(t) {
				set["struct(ptr-shaped)"] = true
			}
			for i := 0; i < t.NumField(); i++ {
				walk(t.Field(i).Type, depth+1)
			}
		}
	}
	walk(t, 0)
	var out []string
	for k := range set {
		out = append(out, k)
	}
	sort.Strings(out)
	return out
}

func baseClass(t reflect.Type) string {
	c := kindClass(t)
	if i := strings.IndexByte(c, '('); i > 0 && !strings.HasPrefix(c, "struct") && !strings.HasPrefix(c, "array") {
		c = c[:i]
	}
	switch t.Kind() {
	case reflect.Int, reflect.Int8, reflect.Int16, reflect.Int32, reflect.Int64, reflect.Uint, reflect.Uint8, reflect.Uint16, reflect.Uint32, reflect.Uint64, reflect.Uintptr,
		reflect.Float32, reflect.Float64, reflect.Bool:
		if marshClass(t) == "" {
			return "scalar"
		}
	}
	return c
}
