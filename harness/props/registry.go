// Package props holds one workload+monitor per property. Each property is a list of batches
// (NumBatches is a pure function of tier and seed); a batch runs many sub-cases against the
// real library and reports violations, observations and fingerprints through rt.Ctx.
package props

import "verif/harness/rt"

type Prop struct {
	ID         string
	NumBatches func(tier string, seed int64) int
	Run        func(c *rt.Ctx)
	// Setup runs once per worker process before any batch (arming hooks etc.).
	Setup func(c *rt.Ctx)
	// Cold executes one call descriptor alone (cold oracle of the history properties); the worker
	// re-executes itself with -cold <spec> and prints the result.
	Cold func(c *rt.Ctx, spec string) string
}

var Registry = map[string]*Prop{}

func register(p *Prop) { Registry[p.ID] = p }
