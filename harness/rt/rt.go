// Package rt is the worker-side runtime of the verification harness: deterministic PRNG
// derivation, the journal every case is written to before the library is touched, the
// mmap'ed "current sub-case" cell that survives a process-fatal error, and the records
// (violations, observations, fingerprints) a batch hands back to the driver.
package rt

import (
	"encoding/json"
	"fmt"
	"hash/fnv"
	"math/rand"
	"os"
	"runtime/debug"
	"strings"
	"syscall"
)

// Violation is one refutation of a property observed on a real execution.
// (Monitor, Entry, Kind, Ctx) form the signature matched against known_findings.json.
type Violation struct {
	Monitor string `json:"monitor"`
	Entry   string `json:"entry"`
	Kind    string `json:"kind"`
	Ctx     string `json:"ctx"`
	Detail  string `json:"detail,omitempty"`
	Input   any    `json:"input,omitempty"`
	Sub     int    `json:"sub"`
	// MatchAny: the ctx components are alternative localisations (a crash cannot be pinned to one
	// shape of the type); the violation is known if any component matches an entry.
	MatchAny bool `json:"match_any,omitempty"`
}

// Result is what one batch reports.
type Result struct {
	Idx     int                 `json:"e"`
	Evals   int64               `json:"n"`
	NT      []uint64            `json:"fp,omitempty"` // fingerprints of non-trivial cases (union-ed by the driver)
	NTEnum  int64               `json:"nt_enum,omitempty"`
	Viol    []Violation         `json:"v,omitempty"`
	Obs     map[string]int64    `json:"obs,omitempty"`
	ObsMax  map[string]int64    `json:"obsmax,omitempty"`
	Sets    map[string][]string `json:"sets,omitempty"` // small sets of distinct observed things (union-ed)
	Samples []any               `json:"samples,omitempty"`
	Inconcl []string            `json:"inconclusive,omitempty"`
}

type Ctx struct {
	Prop     string
	Tier     string
	Seed     int64
	Variant  string
	Idx      int
	Res      *Result
	skip     map[string]bool
	only     string // "idx.sub" or ""
	cur      []byte
	violSeen map[string]int
	ntSeen   map[uint64]bool
	// Respawn asks the worker to exit (code 75) once the current batch has been journalled: a
	// library call was abandoned on its goroutine after a deadline and keeps running
	Respawn bool
}

const curSize = 1 << 16

// OpenCur maps the current-sub-case cell.
func OpenCur(path string) ([]byte, error) {
	f, err := os.OpenFile(path, os.O_RDWR|os.O_CREATE, 0o644)
	if err != nil {
		return nil, err
	}
	defer f.Close()
	if err := f.Truncate(curSize); err != nil {
		return nil, err
	}
	return syscall.Mmap(int(f.Fd()), 0, curSize, syscall.PROT_READ|syscall.PROT_WRITE, syscall.MAP_SHARED)
}

func NewCtx(prop, tier string, seed int64, variant string, cur []byte, skip []string, only string) *Ctx {
	c := &Ctx{Prop: prop, Tier: tier, Seed: seed, Variant: variant, cur: cur, skip: map[string]bool{}, only: only,
		violSeen: map[string]int{}, ntSeen: map[uint64]bool{}}
	for _, s := range skip {
		if s != "" {
			c.skip[s] = true
		}
	}
	return c
}

func (c *Ctx) Begin(idx int) {
	c.Idx = idx
	c.Res = &Result{Idx: idx, Obs: map[string]int64{}, ObsMax: map[string]int64{}, Sets: map[string][]string{}}
}

// Cur records the sub-case about to be executed in the shared cell; it returns false when the
// sub-case must be skipped (it killed an earlier incarnation of this worker, or an -only run
// asks for another one).
func (c *Ctx) Cur(sub int, desc string) bool {
	key := fmt.Sprintf("%d.%d", c.Idx, sub)
	if c.only != "" && c.only != key {
		return false
	}
	if c.skip[key] {
		c.Res.Obs["skipped_after_crash"]++
		return false
	}
	if c.cur != nil {
		s := key + "\n" + desc
		if len(s) > curSize-8 {
			s = s[:curSize-8]
		}
		n := len(s)
		// length last, so a torn write is detectable
		copy(c.cur[8:], s)
		c.cur[0], c.cur[1], c.cur[2], c.cur[3] = byte(n), byte(n>>8), byte(n>>16), byte(n>>24)
	}
	return true
}

// ClearCur marks that no library call is in flight.
func (c *Ctx) ClearCur() {
	if c.cur != nil {
		c.cur[0], c.cur[1], c.cur[2], c.cur[3] = 0, 0, 0, 0
	}
}

func (c *Ctx) Violate(v Violation) {
	sig := v.Monitor + "|" + v.Entry + "|" + v.Kind + "|" + v.Ctx
	c.violSeen[sig]++
	c.Res.Obs["violations_raw"]++
	// keep at most 3 exemplars per signature per worker; the count is still reported
	if c.violSeen[sig] > 3 {
		c.Res.Obs["violations_elided"]++
		return
	}
	if len(v.Detail) > 600 {
		v.Detail = v.Detail[:600] + "…"
	}
	c.Res.Viol = append(c.Res.Viol, v)
}

func (c *Ctx) Obs(name string, n int64) { c.Res.Obs[name] += n }
func (c *Ctx) ObsMax(name string, n int64) {
	if n > c.Res.ObsMax[name] {
		c.Res.ObsMax[name] = n
	}
}
func (c *Ctx) SetAdd(name, elem string) {
	for _, e := range c.Res.Sets[name] {
		if e == elem {
			return
		}
	}
	if len(c.Res.Sets[name]) < 256 {
		c.Res.Sets[name] = append(c.Res.Sets[name], elem)
	}
}
func (c *Ctx) Eval(n int64) { c.Res.Evals += n }

// NonTrivial records the fingerprint of a non-trivial case (deduplicated per worker; the driver
// unions across workers).
func (c *Ctx) NonTrivial(parts ...string) {
	h := fnv.New64a()
	for _, p := range parts {
		h.Write([]byte(p))
		h.Write([]byte{0})
	}
	f := h.Sum64()
	if !c.ntSeen[f] {
		c.ntSeen[f] = true
		c.Res.NT = append(c.Res.NT, f)
	}
}
func (c *Ctx) NonTrivialEnum(n int64) { c.Res.NTEnum += n }
func (c *Ctx) Sample(s any) {
	if len(c.Res.Samples) < 2 {
		c.Res.Samples = append(c.Res.Samples, s)
	}
}
func (c *Ctx) Inconclusive(why string) { c.Res.Inconcl = append(c.Res.Inconcl, why) }

// RNG returns the PRNG of batch idx, stream k: a pure function of (seed, property, idx, k).
func (c *Ctx) RNG(k int) *rand.Rand {
	return rand.New(rand.NewSource(int64(Mix(uint64(c.Seed), HashStr(c.Prop), uint64(c.Idx), uint64(k)))))
}

// FixedRNG is independent of VERIF_SEED (used for committed, seed-independent case lists).
func FixedRNG(tag string, k int) *rand.Rand {
	return rand.New(rand.NewSource(int64(Mix(0x5eed, HashStr(tag), uint64(k)))))
}

func HashStr(s string) uint64 {
	h := fnv.New64a()
	h.Write([]byte(s))
	return h.Sum64()
}

func Mix(xs ...uint64) uint64 {
	z := uint64(0x9e3779b97f4a7c15)
	for _, x := range xs {
		z ^= x + 0x9e3779b97f4a7c15 + (z << 6) + (z >> 2)
		z ^= z >> 30
		z *= 0xbf58476d1ce4e5b9
		z ^= z >> 27
		z *= 0x94d049bb133111eb
		z ^= z >> 31
	}
	return z
}

// Guard runs f and converts a panic into (panicked, message, innermost go-json frame).
func Guard(f func()) (panicked bool, msg string, frame string) {
	defer func() {
		if r := recover(); r != nil {
			panicked = true
			msg = fmt.Sprint(r)
			if len(msg) > 200 {
				msg = msg[:200]
			}
			frame = InnermostFrame(string(debug.Stack()))
		}
	}()
	f()
	return
}

// InnermostFrame returns the innermost function of go-json on a stack dump (line numbers and
// argument values stripped), or "" if there is none.
func InnermostFrame(stack string) string {
	lines := strings.Split(stack, "\n")
	start := 0
	for i, l := range lines {
		if strings.HasPrefix(l, "panic(") {
			start = i + 1
		}
	}
	for _, l := range lines[start:] {
		if strings.HasPrefix(l, "github.com/goccy/go-json") {
			if i := strings.LastIndex(l, "("); i > 0 {
				l = l[:i]
			}
			return strings.TrimPrefix(l, "github.com/goccy/go-json")
		}
	}
	return ""
}

// PanicClass reduces a panic message to a small vocabulary.
func PanicClass(msg string) string {
	switch {
	case strings.Contains(msg, "nil pointer dereference"):
		return "nil-deref"
	case strings.Contains(msg, "index out of range"):
		return "index-out-of-range"
	case strings.Contains(msg, "slice bounds out of range"):
		return "slice-bounds"
	case strings.Contains(msg, "reflect:"), strings.Contains(msg, "reflect."):
		return "reflect"
	case strings.Contains(msg, "makeslice"):
		return "makeslice"
	case strings.Contains(msg, "unexpected fault address"), strings.Contains(msg, "invalid memory address"):
		return "fault"
	case strings.Contains(msg, "interface conversion"):
		return "iface-conv"
	case strings.Contains(msg, "divide"):
		return "divide"
	}
	return "other"
}

// Journal is an append-only JSONL file.
type Journal struct{ f *os.File }

func OpenJournal(path string) (*Journal, error) {
	f, err := os.OpenFile(path, os.O_WRONLY|os.O_CREATE|os.O_APPEND, 0o644)
	if err != nil {
		return nil, err
	}
	return &Journal{f}, nil
}

func (j *Journal) Write(v any) {
	b, err := json.Marshal(v)
	if err != nil {
		b, _ = json.Marshal(map[string]string{"journal_error": err.Error()})
	}
	b = append(b, '\n')
	j.f.Write(b)
}
func (j *Journal) Close() { j.f.Close() }

// Q renders bytes for signatures/details in a stable printable form.
func Q(b []byte) string {
	if len(b) > 160 {
		return fmt.Sprintf("%q…(+%d bytes)", b[:160], len(b)-160)
	}
	return fmt.Sprintf("%q", b)
}
