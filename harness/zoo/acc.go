package zoo

import "fmt"

// Unmarshalers that do NOT overwrite their whole receiver: what they produce depends on the value
// they are handed, so a decoder that reuses a key holder, an element or a scratch value instead of
// a fresh zero value is visible in the result.

// AccFlags turns on the flags named in the text.
type AccFlags struct{ R, W, X bool }

func (a *AccFlags) UnmarshalText(b []byte) error {
	for _, ch := range string(b) {
		switch ch {
		case 'r':
			a.R = true
		case 'w':
			a.W = true
		case 'x':
			a.X = true
		default:
			return fmt.Errorf("AccFlags: bad flag %q", ch)
		}
	}
	return nil
}

// AccDigits appends the digits of the text to the number it already holds.
type AccDigits uint64

func (d *AccDigits) UnmarshalText(b []byte) error {
	for _, ch := range b {
		if ch < '0' || ch > '9' {
			return fmt.Errorf("AccDigits: bad digit %q", ch)
		}
		*d = *d*10 + AccDigits(ch-'0')
	}
	return nil
}

// AccJSON appends every raw value it is given.
type AccJSON struct {
	Seen  []string
	Calls int
}

func (a *AccJSON) UnmarshalJSON(b []byte) error {
	a.Seen = append(a.Seen, string(b))
	a.Calls++
	return nil
}

// AccStr is a string kind whose UnmarshalText appends.
type AccStr string

func (s *AccStr) UnmarshalText(b []byte) error {
	*s += AccStr(b) + "|"
	return nil
}

// Types that implement both json.Marshaler and encoding.TextMarshaler with different results:
// MarshalJSON always wins. Pointer receivers (like math/big.Int) and value receivers.
type BothP struct{ N int }

func (b *BothP) MarshalJSON() ([]byte, error) { return []byte(fmt.Sprintf(`{"json":%d}`, b.N)), nil }
func (b *BothP) MarshalText() ([]byte, error) { return []byte(fmt.Sprintf("text-%d", b.N)), nil }

type BothV struct{ N int }

func (b BothV) MarshalJSON() ([]byte, error) { return []byte(fmt.Sprintf(`[%d]`, b.N)), nil }
func (b BothV) MarshalText() ([]byte, error) { return []byte(fmt.Sprintf("text-%d", b.N)), nil }

// BothMixed: MarshalJSON on the value, MarshalText on the pointer, and the other way round.
type BothJV struct{ N int }

func (b BothJV) MarshalJSON() ([]byte, error)  { return []byte(fmt.Sprintf(`%d`, b.N)), nil }
func (b *BothJV) MarshalText() ([]byte, error) { return []byte("text"), nil }

type BothTV struct{ N int }

func (b *BothTV) MarshalJSON() ([]byte, error) { return []byte(fmt.Sprintf(`%d`, b.N)), nil }
func (b BothTV) MarshalText() ([]byte, error)  { return []byte("text"), nil }
