package zoo

import "fmt"

// Unmarshalers that do NOT overwrite their whole receiver: what they produce depends on the value
// they are handed, so a decoder that reuses a key holder, an element or a scratch value instead of
// a fresh zero value is visible in the result.

// AccFlags turns on the flags named in the text.
type AccFlags struct{ R, W, X bool }

func (a *AccFlags) UnmarshalText(b []byte) error {
	for _, ch := range string(b) {
		switch ch {
		case 'r':
			a.R = true
		case 'w':
			a.W = true
		case 'x':
			a.X = true
		default:
			return fmt.Errorf("AccFlags: bad flag %q", ch)
		}
	}
	return nil
}

// AccDigits appends the digits of the text to the number it already holds.
type AccDigits uint64

func (d *AccDigits) UnmarshalText(b []byte) error {
	for _, ch := range b {
		if ch < '0' || ch > '9' {
			return fmt.Errorf("AccDigits: bad digit %q", ch)
		}
		*d = *d*10 + AccDigits(ch-'0')
	}
	return nil
}

// AccJSON appends every raw value it is given.
type AccJSON struct {
	Seen  []string
	Calls int
}

func (a *AccJSON) UnmarshalJSON(b []byte) error {
	a.Seen = append(a.Seen, string(b))
	a.Calls++
	return nil
}

// AccStr is a string kind whose UnmarshalText appends.
type AccStr string

func (s *AccStr) UnmarshalText(b []byte) error {
	*s += AccStr(b) + "|"
	return nil
}
