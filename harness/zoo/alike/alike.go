// Package alike declares types whose names are those of types the library treats specially
// (json.Number, json.RawMessage, time.Time ...). They are ordinary types: a special case must be
// recognised by the identity of the type, never by its name.
package alike

type Number string

type RawMessage []byte

type Time struct {
	Sec  int
	Zone string
}

type Duration int64

type Marshaler struct{ V int }

type Unmarshaler interface{ Nothing() }

type Holder struct {
	N  Number
	R  RawMessage
	T  Time
	D  Duration
	M  Marshaler
	PN *Number
	LN []Number
	MN map[Number]Number
}
