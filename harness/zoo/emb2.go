package zoo

// Embedding to depth 3 and the dominance rules of encoding/json.

type L3 struct {
	L3 int
	A  int // depth 3
}
type L2 struct {
	L3
	L2 int
	B  string `json:"b"`
}
type L1 struct {
	L2
	L1 int
}
type EmbL3 struct {
	L1
	T int
}
type EmbL3Ptr struct {
	*L1
	T int
}

// two fields named X at the same depth, neither tagged: both dropped
type AmbX1 struct{ X int }
type AmbX2 struct{ X int }
type EmbAmbig struct {
	AmbX1
	AmbX2
	W int
}

// tagged beats untagged at the same depth
type TagW1 struct {
	V int `json:"W"`
}
type TagW2 struct{ W int }
type EmbTaggedWins struct {
	TagW1
	TagW2
	T int
}

// shallower beats deeper even if the deeper one is tagged
type DeepE struct {
	E int `json:"E"`
}
type MidE struct{ DeepE }
type EmbDepthWins struct {
	MidE
	E int
}

// names differing only by case across embedding levels
type CaseInner struct {
	Ab int
	AB int `json:"aB"`
}
type EmbCase struct {
	CaseInner
	AbX int `json:"ab"`
}

// Embedded by pointer / by value, the promoted members tagged with an upper-case letter, the outer
// struct with members tagged with exactly the lower-cased spellings.
type PtrCaseInner struct {
	Name  int `json:"Name"`
	Other int `json:"Other"`
	Plain int
}
type EmbPtrCase struct {
	*PtrCaseInner
	Lower int `json:"name"`
	X     int `json:"other"`
}
type EmbValCase struct {
	PtrCaseInner
	Lower int `json:"name"`
	X     int `json:"other"`
}

// Embedded pointers to structs that are larger than, or laid out differently from, the struct
// that embeds them: the decoder allocates the embedded object when a promoted member arrives.
type EPBig struct {
	B1, B2, B3, B4, B5, B6, B7, B8 int64
	S                              string
	P                              *int64
	L                              []int32
}

type EPOutSmall struct{ *EPBig }

type EPInnerP struct {
	PS *string
	Q  int64
	R  *[]int
}

// same size as EPInnerP, scalars where it has pointers
type EPOutScalar struct {
	N int64
	*EPInnerP
	M int64
}

type EPOutMix struct {
	K0 [16]byte `json:"-"`
	*EPBig
	K1 [16]byte `json:"-"`
	A  int8
	*EPInnerP
}

type EPDeep struct {
	*EPOutSmall
	Z int8
}

// Member names that differ only in case, promoted through an embedded pointer, an embedded value
// and a pointer inside an embedded value (all promoted members of one embedded pointer share the
// pointer's offset in the outer struct).
type CollInner struct {
	Ab int    `json:"Ab"`
	Lo int    `json:"ab"`
	Cd string `json:"CD"`
	Ce string `json:"cd"`
	Q  int
}
type CollMid struct{ *CollInner }
type EmbPtrColl struct {
	*CollInner
	Z int
}
type EmbValColl struct {
	CollInner
	Z int
}
type EmbValPtrColl struct {
	CollMid
	Z int
}
type EmbTwoPtrColl struct {
	*CollInner
	*PtrCaseInner
	Z int
}

// Shadowing across embedding depths, none of the members tagged: the shallowest X wins and the
// deeper ones are hidden; Y and W are reachable at depth 2 and 3.
type ShDeep3 struct{ X, W int }
type ShDeep struct {
	X, Y int
	ShDeep3
}
type ShMid struct {
	ShDeep
	Z int
}
type ShTop struct {
	X string
	ShMid
}
type ShMidP struct {
	*ShDeep
	Z int
}
type ShTopP struct {
	X string
	*ShMidP
}

// the shadowing member sits at depth 1, the shadowed ones at depth 2 and 3
type ShTop1 struct {
	ShMid1
	K int
}
type ShMid1 struct {
	W string
	ShDeep
}

// Outer members that encoding/json ignores (unexported, json:"-") and that carry the names of
// promoted members: they must not hide them.
type HidInner struct {
	X int `json:"x"`
	Y int `json:"Skip"`
	Z int
	w int
}
type EmbHidVal struct {
	x    string
	Skip string `json:"-"`
	Z    bool   `json:"-"`
	HidInner
	V int
}
type EmbHidPtr struct {
	x    int
	Skip []int `json:"-"`
	*HidInner
	V int
}
type EmbHidDeep struct {
	x int
	EmbHidVal
	W int
}

// Embedded pointers to structs whose first member is a string / a slice / a small scalar (a stray
// pointer-sized store at the embedded struct's address lands on the header, or runs past a struct
// smaller than a pointer).
type EPStrFirst struct {
	Name string
	Age  int
	Tags []string
}
type EPSliceFirst struct {
	Tags []string
	Age  int
}
type EPTiny struct{ Flag int8 }
type EPOutStr struct {
	*EPStrFirst
	Z int
}
type EPOutSlice struct {
	A int
	*EPSliceFirst
}
type EPOutTiny struct {
	*EPTiny
	G [15]byte `json:"-"`
}
