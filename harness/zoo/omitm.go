package zoo

import "fmt"

// One type per kind the encoder tests for emptiness before it calls a value-receiver MarshalJSON
// of an omitempty member (the test is a switch over kinds).

type OMBool bool
type OMString string
type OMInt int
type OMInt8 int8
type OMInt16 int16
type OMInt32 int32
type OMInt64 int64
type OMUint uint
type OMUint8 uint8
type OMUint16 uint16
type OMUint32 uint32
type OMUint64 uint64
type OMUintptr uintptr
type OMFloat32 float32
type OMFloat64 float64
type OMSlice []int
type OMMap map[string]int
type OMArray [2]int
type OMArray0 [0]int
type OMStruct struct{ A int }

func om(v any) ([]byte, error) { return []byte(fmt.Sprintf(`"#%v"`, v)), nil }

func (v OMBool) MarshalJSON() ([]byte, error)    { return om(bool(v)) }
func (v OMString) MarshalJSON() ([]byte, error)  { return om(len(v)) }
func (v OMInt) MarshalJSON() ([]byte, error)     { return om(int(v)) }
func (v OMInt8) MarshalJSON() ([]byte, error)    { return om(int8(v)) }
func (v OMInt16) MarshalJSON() ([]byte, error)   { return om(int16(v)) }
func (v OMInt32) MarshalJSON() ([]byte, error)   { return om(int32(v)) }
func (v OMInt64) MarshalJSON() ([]byte, error)   { return om(int64(v)) }
func (v OMUint) MarshalJSON() ([]byte, error)    { return om(uint(v)) }
func (v OMUint8) MarshalJSON() ([]byte, error)   { return om(uint8(v)) }
func (v OMUint16) MarshalJSON() ([]byte, error)  { return om(uint16(v)) }
func (v OMUint32) MarshalJSON() ([]byte, error)  { return om(uint32(v)) }
func (v OMUint64) MarshalJSON() ([]byte, error)  { return om(uint64(v)) }
func (v OMUintptr) MarshalJSON() ([]byte, error) { return om(uintptr(v)) }
func (v OMFloat32) MarshalJSON() ([]byte, error) { return om(float32(v)) }
func (v OMFloat64) MarshalJSON() ([]byte, error) { return om(float64(v)) }
func (v OMSlice) MarshalJSON() ([]byte, error)   { return om(len(v)) }
func (v OMMap) MarshalJSON() ([]byte, error)     { return om(len(v)) }
func (v OMArray) MarshalJSON() ([]byte, error)   { return om(v[0]) }
func (v OMArray0) MarshalJSON() ([]byte, error)  { return om(0) }
func (v OMStruct) MarshalJSON() ([]byte, error)  { return om(v.A) }

// OMValues: for every type its empty value(s) and a non-empty one.
func OMValues() []any {
	return []any{OMBool(false), OMBool(true), OMString(""), OMString("s"), OMInt(0), OMInt(5), OMInt8(0), OMInt8(-1), OMInt16(0), OMInt16(9), OMInt32(0), OMInt32(-7), OMInt64(0), OMInt64(1 << 40),
		OMUint(0), OMUint(3), OMUint8(0), OMUint8(200), OMUint16(0), OMUint16(7), OMUint32(0), OMUint32(8), OMUint64(0), OMUint64(1 << 63), OMUintptr(0), OMUintptr(4),
		OMFloat32(0), OMFloat32(1.5), OMFloat64(0), OMFloat64(-2.5), OMSlice(nil), OMSlice{}, OMSlice{1}, OMMap(nil), OMMap{}, OMMap{"k": 1}, OMArray{}, OMArray{1, 2}, OMArray0{}, OMStruct{}, OMStruct{A: 1}}
}
