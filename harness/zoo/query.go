package zoo

import (
	"context"
	"strconv"

	gojson "github.com/goccy/go-json"
)

// Types for the field-query property: nested structs behind every container kind, a recursive
// member and a context-aware marshaler that reports the query it is given.

type QLeaf struct {
	P int
	Q string `json:"q"`
}

type QInner struct {
	X int
	Y string `json:"y"`
	Z *QLeaf
	L []QLeaf
}

type QCtxM struct{ N int }

// MarshalJSON (context-aware): renders the names of the query found in its context.
func (m QCtxM) MarshalJSON(ctx context.Context) ([]byte, error) {
	var q *gojson.FieldQuery
	if ctx != nil { // Marshal (without a context) hands a nil context to context-aware marshalers
		q = gojson.FieldQueryFromContext(ctx)
	}
	names := ""
	if q != nil {
		for i, f := range q.Fields {
			if i > 0 {
				names += ","
			}
			names += f.Name
		}
	}
	return []byte(`{"n":` + strconv.Itoa(m.N) + `,"seen":"` + names + `"}`), nil
}

type QOuter struct {
	A   int
	B   string `json:"b"`
	In  QInner
	Pt  *QInner
	Sl  []QInner
	Ar  [2]QLeaf
	Mp  map[string]QInner
	If  interface{}
	Rec *QOuter
	Cm  QCtxM
	QLeaf
}

// QTagged: members with tag options, so that a query meets omitempty on nil pointers, interfaces,
// maps and slices, the string option and an ignored member.
type QTagged struct {
	A  int            `json:"a,omitempty"`
	P  *QLeaf         `json:"p,omitempty"`
	I  interface{}    `json:"i,omitempty"`
	S  string         `json:"s,omitempty"`
	N  int            `json:"n,string"`
	Sk int            `json:"-"`
	M  map[string]int `json:"m,omitempty"`
	L  []int          `json:"l,omitempty"`
	In QInner         `json:"in"`
	PI *int           `json:"pi,omitempty"`
	PP *QTagged       `json:"pp,omitempty"`
	Z  int            `json:"z"`
}

// QCtxFirst: the context-aware marshaler is the first member (a struct head opcode fused with the
// marshaler call), alone, followed by others, and nested.
type QCtxFirst struct {
	Cm QCtxM
	A  int
	B  string `json:"b"`
}

type QCtxOnly struct {
	Cm QCtxM
}

type QCtxHolder struct {
	H  QCtxFirst
	O  *QCtxOnly
	Sl []QCtxFirst
	X  int
}

// Types that share member names but not layouts: one query (one hash) is used on all of them.
type QSameA struct {
	K int    `json:"k"`
	S string `json:"s"`
}

type QSameB struct {
	S string `json:"s"`
	K int    `json:"k"`
}

type QSameC struct {
	Pad [3]int64 `json:"pad"`
	K   *int     `json:"k"`
	S   []string `json:"s"`
}

// QCtxMP: the context-aware MarshalJSON has a pointer receiver; held by value in addressable
// places (members of a struct reached through a pointer, slice and array elements) and by pointer.
type QCtxMP struct{ N int }

func (m *QCtxMP) MarshalJSON(ctx context.Context) ([]byte, error) {
	var q *gojson.FieldQuery
	if ctx != nil {
		q = gojson.FieldQueryFromContext(ctx)
	}
	names := ""
	if q != nil {
		for i, f := range q.Fields {
			if i > 0 {
				names += ","
			}
			names += f.Name
		}
	}
	return []byte(`{"n":` + strconv.Itoa(m.N) + `,"seen":"` + names + `"}`), nil
}

type QCtxPHolder struct {
	A  int
	V  QCtxMP
	L  []QCtxMP
	Ar [2]QCtxMP
	P  *QCtxMP
	Z  string
}

// QTagged2: omitempty members of the remaining kinds (each has its own head opcode), behind a
// first member whose emptiness is independent of theirs.
type QTagged2 struct {
	Pad int64   `json:"pad,omitempty"`
	B   bool    `json:"b,omitempty"`
	I8  int8    `json:"i8,omitempty"`
	U16 uint16  `json:"u16,omitempty"`
	F32 float32 `json:"f32,omitempty"`
	F64 float64 `json:"f64,omitempty"`
	By  []byte  `json:"by,omitempty"`
	Ar  [2]int  `json:"ar,omitempty"`
	St  QLeaf   `json:"st,omitempty"`
	BP  *bool   `json:"bp,omitempty"`
	SP  *string `json:"sp,omitempty"`
	U   uint    `json:"u,omitempty"`
	Z   int     `json:"z"`
}
