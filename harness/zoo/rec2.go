package zoo

import (
	"runtime"
	"strconv"
)

// More recursive shapes: every field kind before and after the recursive / interface member.

type RecA struct {
	I8  int8
	R   *RecA
	S   string
	I   interface{}
	F   float64
	Sl  []RecA
	B   []byte
	M   map[string]*RecA
	Bo  bool
	Arr [2]*RecA
	U64 uint64
}

type RecB struct {
	I    interface{}
	R    *RecB
	Next *RecB
	V    uint16
}

type RecC struct {
	M map[string]interface{}
	S []interface{}
	R *RecC `json:"r,omitempty"`
	N int   `json:"n,string"`
}

type RecD struct {
	Inner struct {
		X int
		I interface{}
		R *RecD
	}
	P **RecD
	E EmbRec
}

type EmbRec struct {
	Q int
	D *RecD
}

type RecE struct {
	A, B, C, D, E, F, G, H int
	I                      interface{}
	R                      *RecE
	Z                      int
}

type RecF struct {
	K  string
	Mp map[int]RecF
	Ip *interface{}
	Sp *[]RecF
}

type RecG struct {
	T  MV
	R  *RecG
	Tx TV
	I  interface{}
	Mp *MP
}

// GCMarshaler stresses the traversal from inside a callback: allocation, forced GC, stack growth.
type GCMarshaler struct {
	N    int
	Mode int
}

var gcSink [][]byte

func growStack(n int) int {
	var pad [128]byte
	if n == 0 {
		return int(pad[0])
	}
	pad[n%128] = byte(n)
	return growStack(n-1) + int(pad[n%128])
}

func (g GCMarshaler) stress() {
	switch g.Mode % 4 {
	case 0:
		for i := 0; i < 4; i++ {
			gcSink = append(gcSink, make([]byte, 1<<20))
		}
		if len(gcSink) > 16 {
			gcSink = nil
		}
	case 1:
		runtime.GC()
	case 2:
		growStack(20000)
	default:
		gcSink = append(gcSink, make([]byte, 1<<18))
		runtime.GC()
		growStack(5000)
		gcSink = nil
	}
}

func (g GCMarshaler) MarshalJSON() ([]byte, error) {
	g.stress()
	return []byte(`{"gc":` + strconv.Itoa(g.N) + `}`), nil
}

type GCText struct {
	N    int
	Mode int
}

func (g GCText) MarshalText() ([]byte, error) {
	GCMarshaler{g.N, g.Mode}.stress()
	return []byte("gct" + strconv.Itoa(g.N)), nil
}

type GCHolder struct {
	A  string
	G1 GCMarshaler
	B  []int
	G2 *GCMarshaler
	M  map[string]GCText
	I  interface{}
	S  []GCMarshaler
	P  *string
	R  *GCHolder
}

// RecDag: a chain through Next with two side pointers that may alias other nodes of the same
// (acyclic) graph; Side is encoded before Next, Tail after it.
type RecDag struct {
	ID   int     `json:"id"`
	Side *RecDag `json:"side,omitempty"`
	Next *RecDag `json:"next,omitempty"`
	Tail *RecDag `json:"tail,omitempty"`
}

// RecDagI: shared (not cyclic) nodes whose interface members hold nil pointers and nil interfaces,
// and RecIfaceFirst / RecIfaceFirstV: the interface is the first member, so its address is the
// address of the struct (by pointer and by value inside a slice).
type RecDagI struct {
	ID   int         `json:"id"`
	V    interface{} `json:"v"`
	Side *RecDagI    `json:"side,omitempty"`
	W    interface{} `json:"w,omitempty"`
	Next *RecDagI    `json:"next,omitempty"`
}

type RecIfaceFirst struct {
	V    interface{}
	Next *RecIfaceFirst
}

type RecIfaceFirstV struct {
	V    Shaper
	Kids []RecIfaceFirstV
	N    int
}

// Distinct recursive types whose first members have the same Go type, reachable from one root.
type RecDag2 struct {
	ID    int      `json:"id"`
	Title string   `json:"title"`
	Next  *RecDag2 `json:"next,omitempty"`
}

type RecDag3 struct {
	ID   int       `json:"id"`
	Flag bool      `json:"flag"`
	Kids []RecDag3 `json:"kids,omitempty"`
	Up   *RecDag3  `json:"up,omitempty"`
}

type RecRootAB struct {
	A *RecDag
	B *RecDag2
	C *RecDag3
}

type RecRootBA struct {
	C []RecDag3
	B map[string]*RecDag2
	A RecDag
}

// Shaper is a non-empty interface: a *Shaper member compiles to the pointer-to-interface op as
// *interface{} does.
type Shaper interface{ Shape() string }

// SlotHungry is a dynamic value whose program uses many working slots (three per slice, map
// iteration state, a nested struct).
type SlotHungry struct {
	S1, S2, S3 []string
	I1, I2     []int
	M          map[string][]int
	N          struct{ A, B []float64 }
	T          string
}

func (SlotHungry) Shape() string { return "hungry" }

type SmallShape struct{ V int }

func (SmallShape) Shape() string { return "small" }

// RecIP: pointer-to-interface members before and after the recursive member.
type RecIP struct {
	A   int
	Ip  *interface{}
	R   *RecIP
	Z   string
	Sp  *Shaper
	Kid []*RecIP     `json:"kid,omitempty"`
	Ip2 *interface{} `json:"ip2,omitempty"`
}

// GCChurn forces a collection from inside a MarshalText callback and then allocates small objects
// of many size classes: whatever the collection freed is taken over (and overwritten) before the
// traversal continues.
type GCChurn struct{ N int }

var churnSink [][]uintptr

func (g GCChurn) MarshalText() ([]byte, error) {
	runtime.GC()
	keep := make([][]uintptr, 0, 600)
	for _, n := range []int{1, 2, 3, 4, 6, 8, 10, 12, 14, 16, 20, 24, 28, 32, 40, 48, 56, 64} {
		for i := 0; i < 30; i++ {
			s := make([]uintptr, n)
			for j := range s {
				s[j] = 0x5a5a5a5a5a5a5a5a
			}
			keep = append(keep, s)
		}
	}
	churnSink = keep
	return []byte("churn-" + strconv.Itoa(g.N)), nil
}

// Recursive structs reached (only) as embedded members: an embedded struct is flattened into its
// parent, so the recursive jump of Next has no program of the embedded type to go to unless the
// compiler makes one.
type RecEmbInner struct {
	X    int
	I    interface{}
	Next *RecEmbInner
	Kids []RecEmbInner
	M    map[string]*RecEmbInner
}
type RecEmbVal struct {
	RecEmbInner
	Y int
}
type RecEmbPtr struct {
	S string
	*RecEmbInner
	Y int
}
type RecEmbDeep struct {
	RecEmbVal
	Z string
}
type RecEmbTwo struct {
	Q int
	RecEmbPtr
	T *RecEmbTwo
}
