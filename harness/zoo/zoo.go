// Package zoo holds the compiled (named, method-bearing) types of the workloads: marshaler and
// unmarshaler implementers of every receiver kind, recursive and mutually recursive structs,
// embedding with conflicts, and every tag combination. Run-time (reflect) types built around
// them come from package gen.
package zoo

import (
	"bytes"
	"encoding/json"
	"errors"
	"fmt"
	"reflect"
	"strconv"
	"strings"
	"time"
)

// ---- MarshalJSON / MarshalText implementers ---------------------------------------------

// MV: struct kind, value receiver MarshalJSON.
type MV struct{ N int }

func (m MV) MarshalJSON() ([]byte, error) { return []byte(fmt.Sprintf(`{"mv":%d}`, m.N)), nil }

// MP: struct kind, pointer receiver MarshalJSON.
type MP struct{ N int }

func (m *MP) MarshalJSON() ([]byte, error) {
	if m == nil {
		return []byte(`"mp-nil"`), nil
	}
	return []byte(fmt.Sprintf(`[ "mp", %d ]`, m.N)), nil
}

// TV: struct kind, value receiver MarshalText.
type TV struct{ S string }

func (t TV) MarshalText() ([]byte, error) { return []byte("tv:" + t.S), nil }

// TP: struct kind, pointer receiver MarshalText.
type TP struct{ S string }

func (t *TP) MarshalText() ([]byte, error) {
	if t == nil {
		return []byte("tp-nil"), nil
	}
	return []byte("tp<" + t.S + ">"), nil
}

// MVS: string kind with value-receiver MarshalJSON.
type MVS string

func (m MVS) MarshalJSON() ([]byte, error) {
	return json.Marshal("mvs:" + strings.ToUpper(string(m)))
}

// TVS: string kind with value-receiver MarshalText (also usable as map key).
type TVS string

func (t TVS) MarshalText() ([]byte, error) { return []byte("tvs(" + string(t) + ")"), nil }

// TVI: int kind with value-receiver MarshalText (map key).
type TVI int

func (t TVI) MarshalText() ([]byte, error) { return []byte("k" + strconv.Itoa(int(t))), nil }

// MVM: map kind with value-receiver MarshalJSON.
type MVM map[string]int

func (m MVM) MarshalJSON() ([]byte, error) { return []byte(fmt.Sprintf(`{"len":%d}`, len(m))), nil }

// MVSl: slice kind with value-receiver MarshalJSON.
type MVSl []int

func (m MVSl) MarshalJSON() ([]byte, error) { return []byte(fmt.Sprintf(`"sl%d"`, len(m))), nil }

// MErr: marshaler that fails for odd N.
type MErr struct{ N int }

func (m MErr) MarshalJSON() ([]byte, error) {
	if m.N%2 != 0 {
		return nil, errors.New("merr: odd")
	}
	return []byte(`true`), nil
}

// MRaw returns its bytes verbatim (used to feed arbitrary marshaler output).
type MRaw struct{ B []byte }

func (m MRaw) MarshalJSON() ([]byte, error) { return m.B, nil }

// TRaw returns its bytes verbatim as text.
type TRaw struct{ B []byte }

func (t TRaw) MarshalText() ([]byte, error) { return t.B, nil }

// MBoth implements both; MarshalJSON wins.
type MBoth struct{ N int }

func (m MBoth) MarshalJSON() ([]byte, error) { return []byte(`{"both":"json"}`), nil }
func (m MBoth) MarshalText() ([]byte, error) { return []byte("both-text"), nil }

// ---- Unmarshalers ------------------------------------------------------------------------

type UP struct {
	Raw string
	N   int
}

func (u *UP) UnmarshalJSON(b []byte) error {
	u.Raw = string(b)
	u.N++
	if bytes.HasPrefix(bytes.TrimSpace(b), []byte(`"fail`)) {
		return errors.New("up: fail")
	}
	return nil
}

type UT struct {
	Text string
	N    int
}

func (u *UT) UnmarshalText(b []byte) error {
	u.Text = string(b)
	u.N++
	if string(b) == "fail" {
		return errors.New("ut: fail")
	}
	return nil
}

// UTS: string kind TextUnmarshaler (map key and value).
type UTS string

func (u *UTS) UnmarshalText(b []byte) error { *u = UTS("uts:" + string(b)); return nil }
func (u UTS) MarshalText() ([]byte, error)  { return []byte(strings.TrimPrefix(string(u), "uts:")), nil }

// UTI: int kind TextUnmarshaler usable as map key.
type UTI int

func (u *UTI) UnmarshalText(b []byte) error {
	n, err := strconv.Atoi(strings.TrimPrefix(string(b), "k"))
	*u = UTI(n)
	return err
}
func (u UTI) MarshalText() ([]byte, error) { return []byte("k" + strconv.Itoa(int(u))), nil }

// ---- named plain types -------------------------------------------------------------------

type MyInt int
type MyInt8 int8
type MyUint16 uint16
type MyStr string
type MyBool bool
type MyFloat float64
type MyBytes []byte
type MySlice []int
type MyMap map[string]int
type MyArr [2]int
type MyPtr *int
type MyIface interface{}

// Stringer is a non-empty interface.
type Stringer interface{ String() string }
type StrImpl struct{ V string }

func (s StrImpl) String() string { return s.V }

// ---- recursive types ---------------------------------------------------------------------

type Rec struct {
	A, B, C, D int
	M          map[string]interface{}
	R          *Rec
}

type RecSlice struct {
	Name string               `json:"name"`
	Kids []RecSlice           `json:"kids,omitempty"`
	I    interface{}          `json:"i"`
	P    *RecSlice            `json:"p,omitempty"`
	MK   map[string]*RecSlice `json:"mk,omitempty"`
}

type MutA struct {
	X int
	B *MutB
	I interface{}
}
type MutB struct {
	Y  string
	A  *MutA
	As []MutA
}

type RecIface struct {
	F float64
	S string
	I interface{}
	N *RecIface
	T []interface{}
}

type RecMap struct {
	V int8
	M map[string]RecMap
	P **RecMap
}

// ---- embedding ---------------------------------------------------------------------------

type EmbInner struct {
	A int
	B string `json:"b"`
	C int    `json:"c,omitempty"`
}
type EmbInner2 struct {
	A int    // conflicts with EmbInner.A at the same depth: both dropped
	D string `json:"b"` // tagged conflict with EmbInner.B: both dropped
	E int
}
type EmbDeep struct {
	EmbInner
	F int
}
type EmbVal struct {
	EmbInner
	Z int
}
type EmbPtr struct {
	*EmbInner
	Z int
}
type EmbConflict struct {
	EmbInner
	EmbInner2
	Z int
}
type EmbShadow struct {
	EmbDeep        // A at depth 2
	A       string // shadows at depth 0
	*EmbInner2
}
type EmbTagged struct {
	EmbInner `json:"inner"`
	X        int
}
type embUnexported struct{ U int }
type EmbUnexp struct {
	embUnexported
	V int
}
type EmbPtrUnexp struct {
	*embUnexported
	V int
}

// ---- tags --------------------------------------------------------------------------------

type Tags struct {
	Plain      int
	Renamed    int            `json:"renamed"`
	Omit       int            `json:"omit,omitempty"`
	OmitS      string         `json:",omitempty"`
	OmitP      *int           `json:"omitp,omitempty"`
	OmitSl     []int          `json:"omitsl,omitempty"`
	OmitM      map[string]int `json:"omitm,omitempty"`
	OmitI      interface{}    `json:"omiti,omitempty"`
	OmitA      [2]int         `json:"omita,omitempty"`
	OmitSt     struct{}       `json:"omitst,omitempty"`
	OmitF      float64        `json:"omitf,omitempty"`
	OmitB      bool           `json:"omitb,omitempty"`
	Str        int            `json:"str,string"`
	StrF       float64        `json:"strf,string"`
	StrB       bool           `json:"strb,string"`
	StrS       string         `json:"strs,string"`
	StrP       *int           `json:"strp,string"`
	StrOmit    uint8          `json:"stromit,omitempty,string"`
	Skip       int            `json:"-"`
	Dash       int            `json:"-,"`
	HTML       int            `json:"<a&b>"`
	Uni        int            `json:"é日本"`
	Space      int            `json:"with space"`
	Empty      int            `json:""`
	unexported int
	Bad        int `json:"bad\tname"`
	Comma      int `json:"a,b"`
}

type TagsMarsh struct {
	A MV         `json:"a,omitempty"`
	B *MP        `json:"b,omitempty"`
	C TV         `json:"c,omitempty"`
	D *TP        `json:"d,omitempty"`
	E MVS        `json:"e,omitempty"`
	F TVS        `json:"f,omitempty"`
	G MVM        `json:"g,omitempty"`
	H MP         `json:"h"`
	I TP         `json:"i"`
	J TVS        `json:"j,string"`
	K time.Time  `json:"k"`
	L *time.Time `json:"l,omitempty"`
}

// PtrShaped is a struct that is represented as a single pointer word.
type PtrShaped struct{ P *int }
type PtrShapedM struct{ M map[string]int }
type One struct{ V int }

// All lists one zero value of every zoo type a workload may draw from.
var All = []reflect.Type{
	reflect.TypeOf(MV{}), reflect.TypeOf(MP{}), reflect.TypeOf(TV{}), reflect.TypeOf(TP{}), reflect.TypeOf(MVS("")), reflect.TypeOf(TVS("")),
	reflect.TypeOf(TVI(0)), reflect.TypeOf(MVM{}), reflect.TypeOf(MVSl{}), reflect.TypeOf(MErr{}), reflect.TypeOf(MBoth{}),
	reflect.TypeOf(MyInt(0)), reflect.TypeOf(MyInt8(0)), reflect.TypeOf(MyUint16(0)), reflect.TypeOf(MyStr("")), reflect.TypeOf(MyBool(false)),
	reflect.TypeOf(MyFloat(0)), reflect.TypeOf(MyBytes{}), reflect.TypeOf(MySlice{}), reflect.TypeOf(MyMap{}), reflect.TypeOf(MyArr{}),
	reflect.TypeOf(Rec{}), reflect.TypeOf(RecSlice{}), reflect.TypeOf(MutA{}), reflect.TypeOf(MutB{}), reflect.TypeOf(RecIface{}), reflect.TypeOf(RecMap{}),
	reflect.TypeOf(EmbVal{}), reflect.TypeOf(EmbPtr{}), reflect.TypeOf(EmbConflict{}), reflect.TypeOf(EmbShadow{}), reflect.TypeOf(EmbTagged{}),
	reflect.TypeOf(EmbUnexp{}), reflect.TypeOf(EmbPtrUnexp{}), reflect.TypeOf(EmbDeep{}),
	reflect.TypeOf(Tags{}), reflect.TypeOf(TagsMarsh{}), reflect.TypeOf(PtrShaped{}), reflect.TypeOf(PtrShapedM{}), reflect.TypeOf(One{}),
	reflect.TypeOf(time.Time{}), reflect.TypeOf(UP{}), reflect.TypeOf(UT{}), reflect.TypeOf(UTS("")), reflect.TypeOf(UTI(0)),
	reflect.TypeOf((*Stringer)(nil)).Elem(), reflect.TypeOf(StrImpl{}),
}

// KeyTypes are usable as map keys.
var KeyTypes = []reflect.Type{
	reflect.TypeOf(""), reflect.TypeOf(int(0)), reflect.TypeOf(int8(0)), reflect.TypeOf(int64(0)), reflect.TypeOf(uint(0)), reflect.TypeOf(uint8(0)),
	reflect.TypeOf(uint32(0)), reflect.TypeOf(uintptr(0)), reflect.TypeOf(MyStr("")), reflect.TypeOf(MyInt(0)), reflect.TypeOf(TVS("")), reflect.TypeOf(TVI(0)),
	reflect.TypeOf(UTS("")), reflect.TypeOf(UTI(0)), reflect.TypeOf(TV{}), reflect.TypeOf((*TP)(nil)),
}

// Marshalers of kind uint8: a slice of them is not a base64 byte string.
// TPB: pointer receiver MarshalText; MPB: pointer receiver MarshalJSON; TVB: value receiver MarshalText.
type TPB uint8

func (t *TPB) MarshalText() ([]byte, error) { return []byte("PT:" + strconv.Itoa(int(*t))), nil }

type MPB uint8

func (t *MPB) MarshalJSON() ([]byte, error) {
	return []byte(`{"mpb":` + strconv.Itoa(int(*t)) + `}`), nil
}

type TVB uint8

func (t TVB) MarshalText() ([]byte, error) { return []byte("VT:" + strconv.Itoa(int(t))), nil }

// Unmarshalers narrower than a word.
type UT8 int8

func (u *UT8) UnmarshalText(b []byte) error { *u = UT8(len(b)); return nil }

type UJ8 uint8

func (u *UJ8) UnmarshalJSON(b []byte) error { *u = UJ8(len(b)); return nil }

type UT16 struct{ A, B uint8 }

func (u *UT16) UnmarshalText(b []byte) error { u.A, u.B = uint8(len(b)), 1; return nil }

// Text / JSON unmarshalers of every kind a null has to reset differently: slice, map, string,
// array, []byte kind (pointer receivers).
type UTSl []string

func (u *UTSl) UnmarshalText(b []byte) error { *u = append((*u)[:0:0], string(b)); return nil }

type UTMp map[string]int

func (u *UTMp) UnmarshalText(b []byte) error { *u = UTMp{string(b): len(b)}; return nil }

type UTBy []byte

func (u *UTBy) UnmarshalText(b []byte) error { *u = append((*u)[:0:0], b...); return nil }

type UTStr string

func (u *UTStr) UnmarshalText(b []byte) error { *u = UTStr(b); return nil }

type UTArr [3]uint8

func (u *UTArr) UnmarshalText(b []byte) error { u[0] = uint8(len(b)); return nil }

type UJSl []int

func (u *UJSl) UnmarshalJSON(b []byte) error { *u = UJSl{len(b)}; return nil }

type UJMp map[string]bool

func (u *UJMp) UnmarshalJSON(b []byte) error { *u = UJMp{string(b): true}; return nil }
