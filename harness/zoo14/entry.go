// Package zoo14 holds the generated type population of C14 (types_gen.go is replaced through
// `go build -overlay` by the driver; the committed file is a small default population).
package zoo14

type Entry struct {
	ID  int
	New func() any      // pointer to a zero value
	Val func(v int) any // value with F = v
	Get func(x any) int // F of a pointer returned by New
}
