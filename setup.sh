#!/bin/bash
# setup_cmd: offline; warms the Go build cache for the worker variants the quick tier uses.
cd "$(dirname "$0")" || exit 1
export GOFLAGS=-mod=mod GOPROXY=off GOSUMDB=off GOTOOLCHAIN=local
T=$(mktemp -d /tmp/verif-setup.XXXXXX)
trap 'rm -rf "$T"' EXIT
cd harness || exit 1
go build -tags verif -o "$T/w-plain" ./cmd/vworker || exit 1
go build -tags verif -race -o "$T/w-race" ./cmd/vworker || exit 1
go build -tags verif -gcflags=all=-d=checkptr -o "$T/w-checkptr" ./cmd/vworker || exit 1
echo "setup ok"
