#!/bin/bash
# Runs go-json's pinned suite with the verif build tag OFF and compares the set of passing tests
# with /root/.vp/BASELINE.json (stable_pass). Exit 0 iff every stable_pass test passed and nothing failed.
export GOFLAGS=-mod=mod GOPROXY=off GOSUMDB=off GOTOOLCHAIN=local
OUT=$(mktemp /tmp/verif-baseline.XXXXXX.json)
trap 'rm -f "$OUT"' EXIT
(cd /repo && go test -mod=mod -json -vet=off -count=1 -timeout 25m ${VERIF_BASELINE_FLAGS:-} ./... ) > "$OUT" 2>&1
python3 - "$OUT" <<'PY'
import json,sys
passed=set(); failed=set()
for l in open(sys.argv[1]):
    try: e=json.loads(l)
    except Exception: continue
    t=e.get('Test')
    if not t: continue
    k=e['Package']+'::'+t
    if e.get('Action')=='pass': passed.add(k)
    if e.get('Action')=='fail': failed.add(k)
try:
    base=set(json.load(open('/root/.vp/BASELINE.json'))['stable_pass'])
except Exception:
    base=set()
missing=sorted(base-passed)
print(f"passed={len(passed)} failed={len(failed)} baseline={len(base)} missing_from_baseline={len(missing)}")
for m in missing[:20]: print(" MISSING",m)
for m in sorted(failed)[:20]: print(" FAILED",m)
sys.exit(0 if not missing and not failed and passed else 1)
PY
