#!/bin/bash
# confirm_mutant.sh <src-dir-with-MUTANT> <id>
# Confirms a seeded change in a scratch worktree of /repo (never in /repo itself): it applies, builds, the
# pinned suite passes with it, the demonstration fails with it and passes without it.
# On success copies patch.diff, the demonstration and NOTES.md to /verif/seeded/<id>/.
export GOFLAGS=-mod=mod GOPROXY=off GOSUMDB=off GOTOOLCHAIN=local
SRC=$1; ID=$2; W=/tmp/confirm-$ID; DEST=${3:-$ID}
git -C /repo worktree remove --force $W 2>/dev/null
git -C /repo worktree add -q --detach $W HEAD || exit 2
trap 'git -C /repo worktree remove --force $W 2>/dev/null' EXIT
cd $W || exit 2
git apply $SRC/MUTANT/patch.diff || { echo "RESULT $ID: patch does not apply"; exit 1; }
go build ./... || { echo "RESULT $ID: does not build"; exit 1; }
go test -vet=off -count=1 ./... > /tmp/confirm-$ID.suite 2>&1; SUITE=$?
cp $SRC/MUTANT/verif_demo_test.go $W/verif_demo_test.go
go test -vet=off -count=1 -run 'TestVerifDemo$' . > /tmp/confirm-$ID.with 2>&1; WITH=$?
git apply -R $SRC/MUTANT/patch.diff
go test -vet=off -count=1 -run 'TestVerifDemo$' . > /tmp/confirm-$ID.without 2>&1; WITHOUT=$?
echo "RESULT $ID: suite_with_change=$SUITE demo_with_change=$WITH demo_without_change=$WITHOUT"
if [ $SUITE -eq 0 ] && [ $WITH -ne 0 ] && [ $WITHOUT -eq 0 ]; then
  mkdir -p /verif/seeded/$DEST
  cp $SRC/MUTANT/patch.diff $SRC/MUTANT/verif_demo_test.go /verif/seeded/$DEST/
  cp $SRC/MUTANT/NOTES.md /verif/seeded/$DEST/NOTES.md 2>/dev/null
  echo "CONFIRMED $ID"
else
  tail -5 /tmp/confirm-$ID.suite /tmp/confirm-$ID.with /tmp/confirm-$ID.without
fi
