#!/bin/bash
# coverage.sh [PROP...]  — development aid: run the quick checks with coverage-instrumented workers and
# report which statements of go-json no check executed (blind spots of the monitors). Evidence goes to
# a scratch directory; nothing under /verif/evidence is touched. Output: /tmp/verif-cover/uncovered.txt
export GOFLAGS=-mod=mod GOPROXY=off GOSUMDB=off GOTOOLCHAIN=local
D=/tmp/verif-cover; rm -rf $D; mkdir -p $D/data $D/ev
export VERIF_COVER=1 GOCOVERDIR=$D/data VERIF_EVIDENCE_DIR=$D/ev
for P in ${@:-C01 C02 C03 C04 C05 C06 C07 C08 C09 C10 C11 C12 C13 C14 C15 C16 C17 C18 C19 C20}; do
  /verif/check.sh $P quick > $D/$P.out 2>&1; echo "$P rc=$? $(tail -1 $D/$P.out | cut -c1-120)"
done
# one binary per build variant: counter modes differ (race builds count atomically), so the data
# directories are split by meta-data hash and the text profiles concatenated
cd /verif/harness; : > $D/cover.txt
for M in $D/data/covmeta.*; do
  H=${M##*covmeta.}; mkdir -p $D/g-$H; ln -sf $M $D/g-$H/; for F in $D/data/covcounters.$H.*; do ln -sf $F $D/g-$H/; done
  go tool covdata textfmt -i=$D/g-$H -o $D/g-$H.txt 2>>$D/covdata.err && grep -v '^mode:' $D/g-$H.txt >> $D/cover.txt
done
python3 - $D/cover.txt > $D/uncovered.txt <<'PY'
import sys,collections
cov=collections.defaultdict(int); stm={}
for l in open(sys.argv[1]):
    if l.startswith('mode:') or 'github.com/goccy/go-json' not in l or '/verif_' in l: continue
    loc,n,c=l.rsplit(' ',2)
    cov[loc]+=int(c); stm[loc]=int(n)
byfile=collections.defaultdict(lambda:[0,0,[]])
for loc,c in cov.items():
    f,rng=loc.split(':')
    byfile[f][0]+=stm[loc]
    if c==0:
        byfile[f][1]+=stm[loc]; byfile[f][2].append(rng)
tot=sum(v[0] for v in byfile.values()); unc=sum(v[1] for v in byfile.values())
print("statements %d uncovered %d (%.1f%% covered)"%(tot,unc,100.0*(tot-unc)/max(tot,1)))
for f,(t,u,r) in sorted(byfile.items(), key=lambda kv:-kv[1][1]):
    if u: print("%6d/%6d uncovered  %s"%(u,t,f))
print()
for f,(t,u,r) in sorted(byfile.items()):
    if u:
        print(f)
        for x in sorted(r,key=lambda s:int(s.split('.')[0])): print("   ",x)
PY
head -40 $D/uncovered.txt
