#!/usr/bin/env python3
"""Source of /verif/known_findings.json (run by hand after triage; never at check time).

Each entry is one ROOT CAUSE. `match` holds full-match regular expressions over the fields of a
violation signature (monitor, entry, kind, ctx); kind and ctx are mandatory. A violation whose ctx
has several ' + '-separated components is known only if every component matches some entry.
status: "known" (suppresses, prints KNOWN-FINDING) or "fixed" (suppresses nothing; bookkeeping).
"""
import json, os, re

F = []

def known(id, prop, monitor, entry, kind, ctx, witness, where, masks, why):
    F.append({"id": id, "property": prop, "status": "known",
              "match": {"monitor": monitor, "entry": entry, "kind": kind, "ctx": ctx},
              "witness": witness, "where": where, "masks": masks, "why_not_fixed": why})

def fixed(id, prop, commit, what):
    F.append({"id": id, "property": prop, "status": "fixed", "commit": commit,
              "line": "fixed: property=%s %s %s" % (prop, commit, what)})

def alt(*xs):
    return "(" + "|".join(re.escape(x) for x in xs) + ")"

# ------------------------------------------------------------------ fixed (see git log of /repo)
fixed("FX-C07-01", "C07", "6f804e4", "short JSON array: tail zero-fill wrote a pointer-sized word per element ({\"A\":[1]} into [3]uint8 between canaries; [3]string left with nil data and stale len)")
fixed("FX-C16-01", "C16", "d4dc62a", "9223372036854775808 / -9223372036854775809 / 18446744073709551616 wrapped silently into int64/uint64")
fixed("FX-C02-01", "C02", "d4dc62a", "same 64-bit wrap seen through the encoding/json differential")
fixed("FX-C14-01", "C14", "52d0f82", "decoder cache fast path had no lower bound on the type address (index underflow for descriptors below the typelinks base)")
fixed("FX-C11-01", "C11", "c1a4ff3", "Path.node advanced in the shared Path and not restored when Extract failed: a later Extract on a good document returned []")
fixed("FX-C20-01", "C20", "c1a4ff3", "same Path corruption seen as reuse-after-error and as cross-goroutine interference")
fixed("FX-C10-01", "C10", "c1a4ff3", "shared Path mutated by concurrent Extract calls")
fixed("FX-C18-01", "C18", "1a5e726", "Compact into a non-empty bytes.Buffer duplicated the existing contents (PRE -> PREPRE{...})")
fixed("FX-C06-01", "C06", "ddedbc1", "Path.Get on a struct panicked (reflect: Len of non-array type)")
fixed("FX-C10-02", "C10", "224a224", "race build: nested setsMu.RLock through FieldQuery.Hash -> Marshal deadlocked with a queued writer")
fixed("FX-C08-01", "C08", "fae98e2", "Interface op inside recursive code had Length 0: callee frame overlapped the caller's return slots (struct{A,B,C,D int; M map[string]interface{}; R *Self})")
fixed("FX-C01-01", "C01", "fae98e2", "same frame overlap seen as a crash/garbled output in the encoding/json differential")

fixed("FX-C13-01", "C13", "fdd90a3", "MarshalIndent of struct{A int; N *Self} nested 4 deep emitted 165 KB of indentation (saved BaseIndent slot of the recursive frame overlapped the callee's slot 0; slot monitor rule R2)")
fixed("FX-C08-02", "C08", "fdd90a3", "same overlap seen by the slot-ownership monitor: R2 frame read slot last written by a later frame in vm_indent")

fixed("FX-C17-01", "C17", "a291d9d", "Decoder fed one byte at a time decodes \"a\u00e9\u20acb\" (raw UTF-8) to a + five U+FFFD + b: a multi-byte character split across reads was replaced")
fixed("FX-C09-01", "C09", "a291d9d", "same split multi-byte character defect seen as stream != buffer for chunk sizes 1..3")

fixed("FX-C09-02", "C09", "8324c23", "a non-EOF reader error was dropped by Stream.read: reader failing after 1 of 123 -> value 1, nil error; every other reader error came back as a syntax error")
fixed("FX-C09-03", "C09", "6f2d462", "a reader returning (0, nil) made Decoder fail with syntax errors on valid input")
fixed("FX-C06-02", "C06", "3dc028a", "Path.Get / Path.Unmarshal panicked (reflect: call of reflect.Value.Type on zero Value) when the selected or traversed value is null")
fixed("FX-C06-03", "C06", "9c62834", "Unmarshal({\"\\.b\":1}, &struct{}{}) panicked with index out of range in decodeKeyByBitmapUint8 (invalid escape in a key kept all lookup candidates)")
fixed("FX-C05-01", "C05", "9c62834", "an invalid escape sequence in an object key of a struct destination was accepted")
fixed("FX-C09-04", "C09", "57be1d1", "an escaped object key straddling a read boundary made Decoder fail (invalid character u as escaped char / expected colon after object key) or drop the member")
fixed("FX-C09-07", "C09", "9207e74", "a number that is the value of an unknown struct member with whitespace before it and a refill boundary inside it made Decoder fail with 'expected comma after object element' (was KF-C09-07): {\"p\":\"xx..x\",\"unknown\":  256} at 511 bytes")
fixed("FX-C09-02", "C09", "57be1d1", "refill inside an escaped struct key lost the scanner state (was KF-C09-02; completed by b177bea and 17431c1)")
fixed("FX-C02-04", "C02", "3851b65", "null into a non-nil []byte left the old bytes: Unmarshal({\"q\":\"\",\"q\":null}) kept q = []byte{} (encoding/json: nil), also for pre-populated destinations and in stream mode")
fixed("FX-C07-03", "C07", "3851b65", "null into a pre-populated []byte field kept the old bytes (was KF-C07-01 / KF-C02-05)")
fixed("FX-C04-01", "C04", "57be1d1", "own output > 512 bytes with an escaped struct key decoded with Unmarshal but not with Decoder (was KF-C04-STREAM / KF-C02-07 / KF-C02-07b; completed by b177bea, 17431c1, 9207e74)")
fixed("FX-C06-06", "C06", "32c4673", "Decoder.Decode({\"f\":\"{\\\"A\\\":1}\"}) into struct{F *In `json:\"f,string\"`} panicked (nil pointer dereference in structDecoder.Decode: wrappedStringDecoder.DecodeStream built a RuntimeContext without Option)")
fixed("FX-C02-05", "C02", "291bc67", "Unmarshal(\"[1e39]\", &[]float32) = nil, [+Inf] (encoding/json: UnmarshalTypeError); was KF-C02-03; literals near a float32 rounding midpoint were rounded twice")
fixed("FX-C05-02", "C05", "d42b152", "Valid(\"tru\"), Valid(\"nul\") were true and a Decoder fed byte by byte accepted txxx for true: stream literal scanners did not compare the byte delivered by a refill and took the end of input inside a literal for success (was KF-C05-06, KF-C05-07, KF-C18-V06/V07, KF-C09-R02/R03)")
fixed("FX-C07-04", "C07", "987fef6", "unescapeString formed unsafeAdd(src, 11) beyond the input copy for a high surrogate escape near the end of a document whose copy fills its allocation size class: checkptr 'pointer arithmetic result points to invalid allocation', GC 'invalid pointer' (found by the thorough checkptr runs of C09/C02/C17 after the escape generators were repaired; C07 now enumerates allocation-edge documents in the quick tier)")
fixed("FX-C05-03", "C05", "a71d371", "UnmarshalWithOption({\"a\":1 x}, &struct{A int}{}, DecodeFieldPriorityFirstWin()) = nil, also {\"a\":1,,,}, {\"a\":1]}, {\"a\":1 \"b\" 2}: first-win mode left through the bracket-matching skipObject once every field had been seen (noticed through seeded change C05b)")
fixed("FX-C06-07", "C06", "e35cc2f", "Decoder.Decode of \"\\xff\\u0041\" (ill-formed UTF-8 followed by a \\u escape) fed in pieces into a string destination panicked (slice bounds out of range in decodeUnicode): the stream length was over-counted by one per replaced byte")
fixed("FX-C09-08", "C09", "e35cc2f", "a >500-byte document with ill-formed UTF-8 in strings, cut at 510, made Decoder fail with io.ErrNoProgress (zero-length Read: no room left in a buffer that was not flagged full); Unmarshal decodes it")
fixed("FX-C05-04", "C05", "13c8293", "a Decoder fed 3 bytes at a time accepted {\"A\":\"\",\" \\\"  :  2933322023 } (unterminated key): refill right behind a backslash in an unknown struct key resumed on the escaped byte (found by the chunked stream entries added to C05 for seeded change C05c)")
fixed("FX-C10-04", "C10", "4f16a78", "32 goroutines encoding []T of a recursive T (or a struct with an interface member) for the first time under GC pressure: the programs of the goroutines that lost the cache publication were collected while running a nested program (return address held as uintptr only): 'encoder: opcode  has not been implemented', wrong output, 'found bad pointer in Go heap', SIGSEGV in vm.Run; present in the original tree")
fixed("FX-C05-05", "C05", "189c5fc", "Valid(\"\\\"\\\\uZZZZ\\\"\") was true: the stream string decoder did not check the hex digits of \\u escapes (was KF-C05-08, KF-C18-V08, KF-C09-R04)")
fixed("FX-C07-05", "C07", "8eeaac1", "{\"A\":null} into struct{A level; B [7]byte} (level: int8 with UnmarshalText) zeroed B: the TextUnmarshaler decoder stored a pointer-sized nil on null whatever the destination type (noticed by the seeded-change agent for C07, wave 4)")
fixed("FX-C10-05", "C10", "facc6a6", "MarshalNoEscape(&v) with v unused afterwards, 2..64 goroutines under GC pressure: the value was collected and its memory reused during encoding (race detector: read in vm.Run / AppendInt vs allocation write; 'found pointer to free object'; encodeNoEscape did not pin its argument); present in the original tree")
fixed("FX-C05-06", "C05", "89981db", "Valid(\",0\"), Valid(\":0\") and Valid(\"{ }]\") were true: Valid inherited the Decoder's skipping of one leading separator and asked More(), which is false for closing brackets, about trailing bytes (was the Valid half of KF-C05-09/-11, KF-C18-V09/V11)")
fixed("FX-C05-07", "C05", "9277c67", "float, json.Number, interface{} and Token decoding and Compact/Indent accepted 01, 00, -01, 1., -.5, 1.e1, 0. (any [0-9.eE+-] run strconv.ParseFloat takes); -01 into an int was -1; Unmarshal(\"1e400\", &json.Number) and null into json.Number failed in ParseFloat; Compact(\"1e999\") failed (was KF-C05-01 for decoding entry points, KF-C18-01, KF-C18-05, KF-C18-V01, KF-C02-01, KF-C02-02, KF-C16-02 map-key/string positions)")
fixed("FX-C05-08", "C05", "f9dff7d", "Valid(\"6e5535\") was false: Valid decoded numbers into float64 (was KF-C05-12, KF-C18-V12)")
fixed("FX-C06-08", "C06", "b22aaf9", "json.UnmarshalContext(ctx, data, &v) with v implementing only UnmarshalJSON([]byte) panicked (interface conversion: not decoder.unmarshalerContext), and Unmarshal into a context-only unmarshaler likewise: the buffer decoder asserted the interface matching the entry point (reported by the seeded-change agent for C06, wave 5; C06 now drives the context entry points with plain, context-only and mixed unmarshaler destinations)")
fixed("FX-C07-07", "C07", "7ff4b49", "{\"1\":\"a\"} into map[*int]string stored the key (*int)(0x1); map[*string]int got a key pointing into the middle of the input copy: compileMapKey ran the pointer's element decoder on the key slot (reported by the seeded-change agent for C07, wave 5; C07 now decodes into maps of every key kind reflect can build and reads/writes through pointer keys)")
fixed("FX-C05-09", "C05", "a00fc3c", "Valid(\"{null:1}\") was true and Unmarshal({null:1}) into interface{}, map[string]T, map[int]T succeeded: the key decoders accept the literal null (found by the token-level mutants added for seeded change C03e)")
fixed("FX-C16-05", "C16", "fcf0257", "Unmarshal(\"01\", &v) / (\"1-\", &v) with v == 7 reported the stray byte but left v == 0 / 1 (the digit prefix was stored before the error was found); ,string members and pre-allocated pointees likewise (found by C16's new stores-on-error rule, prompted by seeded change C16f)")
fixed("FX-C03-01", "C03", "1540e8d", "Marshal(map[*int]int{&three: 1}) = {3:1} and a nil *string key gave {null:1}: pointer key types were encoded through their element's value code (reported by the seeded-change agent for C03, wave 6)")
fixed("FX-C01-02", "C01", "20f8860", "a type with MarshalJSON on the value and MarshalText on the pointer was encoded through MarshalText as a by-value member of an addressable struct and as a pointer member ({\"J\":\"text\"} instead of {\"J\":4}) (found by C01's both-marshalers family added for seeded change C01f)")
fixed("FX-C06-09", "C06", "5f8250a", "Path.Get(src, &dst) panicked in reflect.Value.Set for dst of type **int, a named type, an interface with methods, func, chan, [2]int from []int, structs with other/unexported/promoted members, and for a nil or non-pointer dst (found when the statement-coverage aid showed internal/decoder/assign.go was never executed and C06's Path.Get entry got destinations of every kind)")
fixed("FX-C06-10", "C06", "08a78cb", "CreatePath(\"$[-1]\") then Path.Get on a slice panicked (reflect: slice index out of range) (reported by the seeded-change agent for C06, wave 7; C06's compiled paths now include negative and huge indexes)")
fixed("FX-C07-06", "C07", "92cf9c1", "newArrayDecoder read 8 bytes from a fresh zero value of the element type: out of bounds for [N]uint8 and other elements smaller than a pointer (-asan: use-after-poison in decoder.newArrayDecoder on the first decode into such an array; found by the thorough tier's asan variant)")
fixed("FX-C16-02", "C16", "722e84b", "\"16.0\", \"1e2\", \"0.5\" into an integer stored the digit prefix: NewDecoder(\"16.0\").Decode(&uint8) = nil, 16; {\"1.5\":true} into map[int]bool stored key 1; {\"v\":\"1e2\"} with ,string stored 1; Unmarshal reported a syntax error at the leftover (was KF-C16-03 fraction/exponent classes, KF-C09-01, KF-C02-04, KF-C02-04b)")
fixed("FX-C16-03", "C16", "26b55f9", "Unmarshal(\"-\", &int64) = nil, value 0 (was KF-C16-01)")
fixed("FX-C16-04", "C16", "c9503d0", "{\"v\":\"1-\"} / {\"v\":\" -1\"} with ,string and map keys \"1-\", \" 1\" were accepted with the prefix value: the wrapped decoder ignored where the value decoder stopped (was KF-C16-03 map-key/string-tag non-digit class, KF-C02-08)")
fixed("FX-C15-01", "C15", "57be1d1", "Decoder fed 5-byte chunks failed on fully \\u-escaped keys")

fixed("FX-C06-04", "C06", "0243e9f", "Compact/Indent of a 100000-deep tower: fatal out of memory / stack overflow (no nesting limit)")
fixed("FX-C18-02", "C18", "0243e9f", "Compact/Indent accepted texts nested deeper than 10000 that encoding/json rejects")
fixed("FX-C06-05", "C06", "3f05f4c", "Path.Unmarshal into a struct/slice/map panicked in castStruct & co. on null elements")

fixed("FX-C10-03", "C10", "a395240", "data race on FieldQuery.hash (W/W and R/W in (*FieldQuery).Hash) when one query is shared through contexts")

fixed("FX-C11-02", "C11", "10c1296", "a DebugDOT(w) writer given without Debug() was written to (206 bytes) and closed by a later unrelated Debug() call: Option.DebugDOTOut/DebugOut survived in the pooled context")

fixed("FX-C07-02", "C07", "b177bea", "stream struct-key lookup read through the stale data pointer of the previous buffer after a refill inside an escaped key (checkptr: pointer arithmetic result points to invalid allocation in decoder.char)")
fixed("FX-C15-01", "C15", "e5ea2d2", "an escaped key that is only a prefix of a field name selected the field ({\"\\u0061\":5} set Abcde; was KF-C15-03): the early-match test compared the escaped byte length of the key")
fixed("FX-C15-02", "C15", "17431c1", "two-character escapes in struct keys skipped the following byte ({\"x\\/y\":1} missed the field x/y and set x/; {\"x\\/\":1} failed with 'unexpected end of JSON input'), in buffer and stream mode")
fixed("FX-C05-01", "C05", "17431c1", "\\u in a struct key accepted any four bytes as hex digits: Unmarshal({\"\\u\"061b\":1}, &struct{A int}{}) = nil")
fixed("FX-C02-03", "C02", "17431c1", "Decoder.Decode({\"\\ud83dx\":5,\"A\":1}) into a struct failed with 'expected colon after object key' (lone high surrogate in a key moved the cursor too far); two high halves in a row became one U+FFFD")

# ------------------------------------------------------------------ C05
ALL15 = r"(Valid|Unmarshal(NoEscape|Context|WithOption\(FirstWin\))?:.+|Decode(Context|WithOption\(FirstWin\)|\(\d-byte reads\)|\(UseNumber[A-Za-z,]*\))?:.+)"
STREAM = r"(Valid|Decode(Context|WithOption\(FirstWin\)|\(\d-byte reads\)|\(UseNumber[A-Za-z,]*\))?:.+)"
SKIPPERS = r"(Valid|Decode(Context|WithOption\(FirstWin\)|\(\d-byte reads\)|\(UseNumber[A-Za-z,]*\))?:.+|Unmarshal(Context|WithOption\(FirstWin\)):struct\{A\}|Unmarshal:(struct\{\}|struct17|struct\{A\}(\(after-options\))?|struct\{N Number\}|\[0\]int|\[1\]iface|RawMessage|Unmarshaler|\[\]RawMessage|map\[string\]Unmarshaler))"
DECODER = r"(Decode(Context|WithOption\(FirstWin\)|\(\d-byte reads\)|\(UseNumber[A-Za-z,]*\))?:.+)"
M = "accept-language"
known("KF-C05-01", "C05", M, SKIPPERS, "ok-vs-err", r"relax=num:parsefloat-grammar",
      'Unmarshal("062.999e-4", &RawMessage), Unmarshal("[00]", &[0]int{}) and {"unknown":01} into struct{} succeed',
      "internal/decoder/context.go skipValue, stream.go skipValue: a skipped number is any run of [0-9.eE+-]; decoded numbers are checked against the grammar since 9277c67",
      "another malformed number inside a skipped value (entry points whose destination skips: RawMessage, Unmarshaler, unknown members, [0]T)",
      "part of the unvalidated skip scanners (KF-C05-04): they match brackets and quotes only")
known("KF-C05-02", "C05", M, ALL15, "ok-vs-err", r"relax=str:raw-ctl",
      'Unmarshal("\\"a\\nb\\"") with a raw LF / 0x01 inside the string succeeds',
      "internal/decoder/string.go: the string scanners only look for quote, backslash and NUL",
      "another unescaped-control-character acceptance inside strings",
      "needs a control-character test in every string scanner (buffer, stream, skip); behavioural change")
known("KF-C05-03", "C05", M, ALL15, "ok-vs-err", r"relax=nul-terminates",
      'Unmarshal("1\\x00garbage") = nil, v = 1',
      "decode.go validateEndBuf / internal/decoder: the first NUL byte is taken for the sentinel appended to the private copy",
      "any other over-acceptance that needs an embedded NUL byte to end the text",
      "the NUL sentinel is the end-of-input convention of every scanner in the decoder")
known("KF-C05-04", "C05", M, SKIPPERS, "ok-vs-err", r"relax=skip:unvalidated",
      'Unmarshal("{\\"x\\":0-2}", &struct{}{}), Unmarshal("[E0]", &[0]int{}), Unmarshal("-", &RawMessage{}) succeed',
      "internal/decoder/context.go skipValue/skipObject/skipArray and Stream.skip*: skipped values are only bracket-matched; numbers are a run of [0-9.eE+-], strings are not validated",
      "any malformed content inside a part of the document that the destination skips",
      "validating skipped values needs a full validating scanner in both decoders")
known("KF-C05-05", "C05", M, STREAM, "ok-vs-err", r"relax=stream:nul-skipped",
      'Valid("[1\\x00]") / NewDecoder("1\\x00").Decode: an embedded NUL is taken for the end of the buffer and dropped when the reader can still be asked for data',
      "internal/decoder/stream.go: every scanner treats NUL as 'refill and retry'",
      "stream-mode acceptances that need an embedded NUL",
      "same sentinel design as KF-C05-03")
known("KF-C05-05b", "C05", M, STREAM, "ok-vs-err", r"relax=stream:nul-skipped-unmodelled",
      'a Decoder fed 2 bytes at a time accepts "\\x00}{": NUL bytes met while the reader can still deliver data are stepped over, here in positions the recogniser\'s nul-skipped relaxation does not model',
      "see KF-C05-05", "other stream-only acceptances of texts with an embedded NUL", "same sentinel design as KF-C05-03")
known("KF-C05-09", "C05", M, DECODER, "ok-vs-err", r"relax=stream:leading-comma-or-colon-skipped",
      'NewDecoder(",0").Decode(&v) and NewDecoder(":0").Decode(&v) succeed',
      "internal/decoder/stream.go PrepareForDecode skips one ',' or ':' before every value (used for Token-driven streaming)",
      "stream acceptances that start with one separator", "PrepareForDecode is also what makes Decode work after Token(); needs state to tell the cases apart")
known("KF-C05-10", "C05", M, STREAM, "ok-vs-err", r"relax=stream:skip-ignores-junk-before-value",
      'NewDecoder("x1").Decode(&RawMessage) = "x1", nil',
      "internal/decoder/stream.go skipValue: bytes that cannot start a value are stepped over",
      "stream acceptances with junk before a skipped value", "part of the unvalidated skip scanner (KF-C05-04)")
known("KF-C05-11", "C05", M, DECODER, "ok-vs-err", r"relax=stream:trailing-after-top",
      'NewDecoder("{ }]") : Decode succeeds and the following More() is false / Decode reports EOF, so the harness\'s one-complete-text protocol takes the text as accepted',
      "internal/decoder/stream.go More() is false for ']' and '}'; a Decoder leaves trailing bytes to the next Decode (Valid, which had the same answer, was repaired in 89981db)",
      "other trailing-garbage acceptances by a drained Decoder", "More() answers the question of the Token-driven loop; the Decoder keeps no container state")

# ------------------------------------------------------------------ C18
C18_VALID = [("02", r"relax=str:raw-ctl", "KF-C05-02"), ("03", r"relax=nul-terminates", "KF-C05-03"),
             ("04", r"relax=skip:unvalidated", "KF-C05-04"), ("05", r"relax=stream:nul-skipped", "KF-C05-05"), ("10", r"relax=stream:skip-ignores-junk-before-value", "KF-C05-10")]
for n, ctx, same in C18_VALID:
    known("KF-C18-V" + n, "C18", "util-valid", "Valid", "ok-vs-err", ctx,
          "Valid accepts a text encoding/json.Valid rejects (%s); same root cause as %s" % (ctx, same),
          "json.go Valid is the stream decoder into interface{}; see " + same, "see " + same, "see " + same)
CI = r"(Compact|Indent)"
known("KF-C18-02", "C18", "util-reject", CI, "ok-vs-err", r"relax=str:raw-ctl",
      'Compact/Indent accept a string with a raw LF', "internal/encoder/compact.go compactString: only quote, backslash, NUL and HTML characters are looked at",
      "another raw control character inside strings", "behavioural change of the shared scanner design")
known("KF-C18-03", "C18", "util-reject", CI, "ok-vs-err", r"relax=nul-terminates",
      'Compact(dst, "1\x00x") succeeds', "internal/encoder/compact.go validateEndBuf: NUL sentinel", "acceptances needing an embedded NUL", "sentinel design")
known("KF-C18-04", "C18", "util-reject", CI, "ok-vs-err", r"relax=compact:str-any-escape",
      'Compact accepts "\"\\[\"" and "\"\\u\""', "internal/encoder/compact.go compactString: a backslash protects the next byte, whatever it is; \\u digits unchecked",
      "another invalid escape sequence", "behavioural change of the shared scanner design")
fixed("FX-C05-10", "C05", "1d3f4fb", "Unmarshal/Decode of {null:1} and {\"F1\":2,null:1} into a struct with more than 16 members succeeded: the fallback key lookup goes through the string decoder, which takes the literal null (a00fc3c had repaired maps and interface{} only; remarked by the wave-9 seeded-change agent for C05; C05 had no destination using the fallback lookup, and its skip:unvalidated relaxation explained any malformed top-level object for struct destinations - now only member values and the rest of unknown member names)")
fixed("FX-C13-02", "C13", "861231e", "MarshalIndentWithOption(v, p, i, UnorderedMap()) wrote every map key one indent level too shallow (at the level of the closing brace), also with Colorize: UnorderedMap changed more than the order of members (remarked by the wave-9 seeded-change agent for C13; C13 compared UnorderedMap output as a tree and only without indentation)")
fixed("FX-C08-06", "C08", "dd32f11", "Marshal(A{}) with type B struct{ X int; Next *B }; type A struct{ B; Y int } panicked (nil pointer dereference in copyOpcode via linkRecursiveCode): an embedded struct is flattened into its parent, so the recursive jump of Next had no program of B to go to; also by embedded pointer, two levels deep and inside containers (remarked by the wave-10 seeded-change agent for C14; neither the generated types nor the zoo embedded a recursive struct)")
fixed("FX-C09-09", "C09", "951fed3", "Decoder.Decode into struct{ IT encoding.TextUnmarshaler } (IT holding a pointer to a TextUnmarshaler) handed UnmarshalText the raw JSON string with its quotes and escapes; Unmarshal and encoding/json hand over the decoded text (found by the interface-held scribbling unmarshalers added to C12 for seeded change C12j)")
fixed("FX-C12-01", "C12", "a43e565", "Unmarshal into struct{ A string; IT encoding.TextUnmarshaler; Z string } whose UnmarshalText appends to its argument failed with 'expected comma after object element': the text was a window into the buffer still being decoded (found by the interface-held scribbling unmarshalers added to C12 for seeded change C12j)")
fixed("FX-C12-02", "C12", "2d620d1", "Unmarshal into struct{ T textUnmarshaler; ...64 or more bytes of further members } whose UnmarshalText appends to its argument failed with 'expected comma after object element': the argument was a window into the buffer still being decoded with the rest of the document as spare capacity (concrete member types; the check had such a member all along, but fewer than 64 bytes of document behind it, so the scribbler's append reallocated)")
fixed("FX-C20-03", "C20", "df6e84d", "CreatePath(`$.x\"a\".\"b\"`) succeeded and compiled to $.a.b: characters between the dot and a double-quoted name were dropped (found while building the path-text mutation monitor for seeded change C20j: one character put in front of a quoted name of a grammar path must not leave the compiled node chain unchanged)")
fixed("FX-C01-03", "C01", "1493752", "struct{ V T `json:\"v,omitempty\"` } with T a map type / zero-length array type / float type that has a value-receiver MarshalJSON: an empty non-nil map, [0]int{} and -0.0 were written ({\"v\":\"#0\"}) where encoding/json omits the member (found by the per-kind omitempty-marshaler family built for seeded change C01k; the known class KF-C01-OMITM was narrowed to the value-receiver TextMarshaler kinds it describes)")
fixed("FX-C19-01", "C19", "8147abb", "json.BuildFieldQuery() without any field panicked (index out of range); it now returns an empty query")
fixed("FX-C08-04", "C08", "1b3c852", "an acyclic chain deeper than 1000 levels that reaches one finished node twice (shared, not cyclic), where that node holds a nil pointer in an interface member: Marshal reported 'encountered a cycle via T' - OpInterface pushed the interface's address before the nil check and nothing popped it, so later pops removed the wrong entries (found while checking a remark of the wave-8 seeded-change agent for C08)")
fixed("FX-C08-05", "C08", "d8997e6", "Marshal of an acyclic list of 1002 or more struct{ V interface{}; Next *T } nodes failed with 'encountered a cycle via interface {}': the interface is the first member, so its address equals the struct address recorded by OpRecursive on the same list (reported by the wave-8 seeded-change agent for C08; C08 compared the verdict with encoding/json only up to depth 200 for this type)")
fixed("FX-C18-04", "C18", "3c2a02f", "Indent(dst, \"[1]   \", \"\", \" \") dropped the trailing blanks that encoding/json.Indent (and the function's own doc comment) keep (was KF-C18-06)")
for n, ctx, same in C18_VALID:
    known("KF-C18-H" + n, "C18", "util-htmlesc", "HTMLEscape", "wrote-on-invalid-text", ctx,
          "HTMLEscape appends the escaped text although encoding/json.Valid rejects it (%s): it writes whatever Valid accepts; same root cause as %s" % (ctx, same),
          "json.go HTMLEscape asks Valid, the stream decoder into interface{}; see " + same, "see " + same, "see " + same)
fixed("FX-C18-03", "C18", "dc2373c", "HTMLEscape(dst, `{\"b\":1,\"ab\":2}`) = `{\"ab\":2,\"b\":1}`, duplicate keys were dropped, and HTMLEscape(dst, \"1e999\") wrote nothing: the text was decoded into interface{} and re-marshalled (was KF-C18-07, KF-C18-08)")

# ------------------------------------------------------------------ C01 (encoder differential)
WILD = r"(token:.+|panic:.+|fatal:.+|checkptr:.+|asan:.+|array-len|missing-member|extra-member|ok-vs-err|err-vs-ok|marshaler-output-differs|excessive-allocation|malformed-output|order:other)"
def enc_features(prop, monitor, pfx):
    E = None
    known(pfx + "-ORDER", prop, monitor, E, r"order:by-escaped-key", r".*",
          'map keys "\u2028x" and "true": go-json emits "\u2028x" first', "internal/encoder/vm*/vm.go OpMapEnd: members are sorted by the already written key bytes - escapes and closing quote included, so a backslash sorts before letters, \"a b\" sorts before \"a\" (space < quote), and distinct Go keys written alike (invalid bytes -> \\ufffd) are tied and keep the random map iteration order",
          "another mis-ordering that is exactly the order of the escaped keys", "sorting happens after key encoding in all four interpreters")
    known(pfx + "-PTR2", prop, r"(%s|process)" % monitor, E, WILD, r".* @ feature:ptr2\+",
          'Marshal(&&map[uint8]int16{..}) reads a garbage map header (fatal out of memory); ***RawMessage, **T behind fields give null/garbage',
          "internal/encoder/compiler.go: pointer chains of depth >= 2 are flattened with a wrong indirection count for map/marshaler/bytes/string/int bases",
          "any other defect that only shows on types containing a pointer of depth >= 2", "needs a redesign of ptr-head opcodes across the four generated interpreters")
    known(pfx + "-ARR1", prop, r"(%s|process)" % monitor, E, WILD, r".* @ feature:array1-ptr-shaped-elem",
          '[1]*uintptr{&x} SIGSEGV; [1]*uintptr{nil} -> null instead of [null]', "internal/encoder/compiler.go: one-element arrays of pointer-shaped elements are treated as indirect values",
          "any other defect that only shows on [1]ptr-shaped arrays", "same opcode redesign")
    known(pfx + "-PSTRUCT", prop, r"(%s|process)" % monitor, E, WILD, r".* @ feature:struct-ptr-shaped",
          'struct{P *int} in element/field position: nil dereference or null instead of {"P":null}', "internal/encoder/compiler.go: single-pointer-field structs are represented by the pointer itself and mis-indirected in some positions",
          "any other defect that only shows on pointer-shaped structs", "same opcode redesign")
    known(pfx + "-MAPKEY", prop, r"(%s|process)" % monitor, E, WILD, r".* @ feature:mapkey-marshaler",
          'map[*TP]int: key text built from a wrong address (tp<garbage>) or fatal OOM; map[TVS]int uses MarshalText where encoding/json uses the string', "internal/encoder/compiler.go mapKeyCode / vm OpMapKey: TextMarshaler keys",
          "any other defect on maps whose key type implements TextMarshaler", "needs key encoding through reflect like encoding/json")
    known(pfx + "-A0OMIT", prop, monitor, E, r"extra-member:omitempty-array0", r"field\[omitempty.*\]:array0.*",
          'struct{D [0]float64 `json:"q,omitempty"`} -> {"q":[]}', "internal/encoder/compiler.go: omitempty emptiness test for arrays ignores len 0", "nothing else (predicate is exact)", "low value")
    known(pfx + "-EMB", prop, r"(%s|process)" % monitor, E, r"(missing-member|extra-member|panic:nil-deref|token:.+)", r".* @ feature:embedded-(conflicts|structof)",
          'EmbShadow{EmbDeep; A string; *EmbInner2}: member F of the embedded EmbDeep is dropped', "internal/encoder/compiler.go filterDuplicatedFields / anonymous struct handling differs from encoding/json dominance rules; nil embedded pointer dereferenced",
          "other member-set differences on structs with embedded fields", "field dominance logic is spread over compiler and decoder")
    known(pfx + "-MPVAL", prop, monitor, E, r"(token:o->[as]|marshaler-output-differs)", r".* @ feature:(marshalerP-by-value|tags-zoo)",
          '[3]MP{...} (pointer-receiver MarshalJSON, unaddressable elements): go-json calls the method, encoding/json encodes the struct', "internal/encoder/compiler.go: pointer-receiver marshalers are used on values that encoding/json treats as unaddressable",
          "other o->a / o->s token differences on by-value pointer-receiver marshalers", "addressability is not tracked by the opcode compiler")
    known(pfx + "-MPNIL", prop, r"(%s|process)" % monitor, E, r"(panic:nil-deref|fatal:out-of-memory|fatal:segv|token:z->o)", r"(/internal/encoder\.AppendMarshal(JSON|Text)(Indent)?|ptr\d>struct|struct) @ feature:marshalerP-by-value",
          'Marshal((*struct{Y MP})(nil)) where MP has a pointer-receiver MarshalJSON panics (nil pointer dereference in reflect.Value.Set from AppendMarshalJSON); with MarshalText it reads a garbage length (fatal out of memory); through **T it prints the zero struct instead of null',
          "internal/encoder/vm*/vm.go OpStructHead(OmitEmpty)Marshal(JSON|Text): for a nil struct pointer that is not flagged indirect the nil test is skipped and the marshaler is called on address 0 (16 opcode bodies in the four interpreters)",
          "other crashes in AppendMarshalJSON/Text on types whose first member is a by-value pointer-receiver marshaler", "the nil test would have to be changed in 16 generated opcode bodies; not a small patch")
    known(pfx + "-NILMV", prop, monitor, E, r"(token:o->z|panic:nil-deref)", r".* @ feature:nilable-marshalerV",
          'nil MVM (map kind, value-receiver MarshalJSON) -> null instead of calling the method', "internal/encoder/vm: nil check precedes the marshaler call for map/slice kinds", "same symptom on nilable value-receiver marshalers", "behavioural difference kept upstream")
    known(pfx + "-OMITM", prop, monitor, E, r"extra-member", r"field\[omitempty.*\]:textmarshalerV\((string|int)\).* @ feature:(omitempty-marshaler|tags-zoo)",
          'struct{OM TVI `json:"om,omitempty"`}{0} -> {"om":"k0"}', "internal/encoder/compiler.go: omitempty is not applied by kind to string- and int-kind fields whose type implements MarshalText with a value receiver (MarshalJSON types and the other kinds are tested by kind: IsNilForMarshaler)",
          "other kept-although-empty value-receiver TextMarshaler fields of string or int kind", "would need kind-based emptiness test before the marshaler opcode")
    known(pfx + "-PTRM", prop, monitor, E, r"(token:z->[sao]|token:[sao]->z|panic:.+)", r".* @ feature:ptr-to-marshaler",
          '[2]*TVI{nil,...} -> "" instead of null; nil *TP at top level -> empty output', "internal/encoder/vm AppendMarshalText/JSON call sites: nil pointers to marshaler types",
          "other nil-pointer-to-marshaler differences", "nil handling differs per opcode family")
    known(pfx + "-STRS", prop, monitor, E, r"token:string-content", r".* @ feature:(string-opt-float-or-string|tags-zoo)",
          'struct{S string `json:",string"`}: quoting of the quoted string differs', "internal/encoder string-tag handling of string fields", "other content differences of ,string string fields", "rare option")
    known(pfx + "-TAGS", prop, monitor, E, r"(extra-member|missing-member)", r".* @ feature:tags-zoo",
          'zoo.TagsMarsh: omitempty on marshaler-typed fields (see OMITM)', "see OMITM", "member-set differences on the Tags zoo types", "see OMITM")
    known(pfx + "-BADNUM", prop, monitor, E, r"ok-vs-err", r"ref-error:invalid-number @ feature:val:bad-number",
          'json.Number(".5"), "-", "01", "1e" are emitted verbatim', "internal/encoder AppendNumber checks characters, not grammar", "other ill-formed json.Number accepted", "shares the lenient scanner")
    known(pfx + "-BADRAW", prop, monitor, E, r"ok-vs-err", r"ref-error:marshaler @ feature:val:bad-raw",
          'RawMessage("01") is emitted', "internal/encoder compact (used to validate RawMessage/Marshaler output) is lenient (see KF-C18-01..04)", "other ill-formed RawMessage accepted", "see KF-C18-01")
    known(pfx + "-NONFIN", prop, monitor, E, r"ok-vs-err", r"ref-error:unsupported-value @ feature:val:nonfinite",
          'float32(NaN) -> NaN, +Inf', "internal/encoder/vm OpFloat32*: no IsNaN/IsInf check (OpFloat64* have it)", "other non-finite float32 emitted", "4 interpreters x many opcodes")
known("KF-C01-OMITMAPPTR", "C01", "enc-diff", None, r"missing-member", r"field\[omitempty\]:ptr1>map\[str\] < .*",
      'struct{X int; M *map[string]int `json:"m,omitempty"`} with M pointing to a nil map: go-json omits m, encoding/json writes "m":null (a non-nil pointer is not empty)',
      "internal/encoder/vm*/vm.go OpStruct(Head|Field)OmitEmptyMapPtr: the emptiness test looks through the pointer at the map (8 opcode bodies in the four interpreters, generated code)",
      "nothing else: the member must be a pointer to a map tagged omitempty and point to a nil map", "eight generated opcode bodies; rare shape; left as a finding")
enc_features("C01", "enc-diff", "KF-C01")

# ------------------------------------------------------------------ process deaths on the wild-read features (shared by the encode-side properties)
def enc_deaths(prop, pfx):
    for tag, feat, same in (("PTR2", r"ptr2\+", "KF-C01-PTR2"), ("ARR1", "array1-ptr-shaped-elem", "KF-C01-ARR1"), ("PSTRUCT", "struct-ptr-shaped", "KF-C01-PSTRUCT"), ("MAPKEY", "mapkey-marshaler", "KF-C01-MAPKEY")):
        known(pfx + "-DEATH-" + tag, prop, "process", None, r"(fatal:.+|checkptr:.+|asan:.+)", r".* @ feature:" + feat,
              "worker process dies while encoding a type with this shape; same root cause as " + same, "see " + same, "see " + same, "see " + same)
    known(pfx + "-DEATH-MPNIL", prop, "process", None, r"(fatal:out-of-memory|fatal:segv)", r"/internal/encoder\.AppendMarshal(JSON|Text)(Indent)? @ feature:marshalerP-by-value",
          "worker process dies in AppendMarshalText/JSON on a pointer (nil *T, or **T) to a struct whose first member is a by-value pointer-receiver marshaler: the marshaler is called on a wrong address (garbage string length: fatal out of memory); same root cause as KF-C01-MPNIL", "see KF-C01-MPNIL", "see KF-C01-MPNIL", "see KF-C01-MPNIL")

# ------------------------------------------------------------------ C03
enc_deaths("C03", "KF-C03")
W = "enc-wellformed"
known("KF-C03-01", "C03", W, None, r"malformed-output:nonfinite", r"(non-finite:float32 @ )?feature:val:nonfinite",
      'Marshal(float32(NaN)) = NaN, nil; struct{F float32}{+Inf} -> {"F":+Inf}', "internal/encoder/vm*/vm.go OpFloat32 family has no IsNaN/IsInf test (OpFloat64 has)",
      "other non-finite float32 output", "many opcodes x 4 interpreters")
known("KF-C03-02", "C03", "enc-reject", None, r"unrepresentable-accepted", r"non-finite:float32 @ feature:val:nonfinite",
      'as KF-C03-01 (the same executions seen by the must-reject monitor when the output happens to parse)', "see KF-C03-01", "see KF-C03-01", "see KF-C03-01")
known("KF-C03-03", "C03", W, None, r"malformed-output:(other|empty)", r"(json\.Number:number:[a-z-]+ @ )?feature:val:(bad-number|json\.Number)",
      'Marshal(json.Number("1e")) = 1e; "01", "-", "+1", ".5" likewise', "internal/encoder/encoder.go AppendNumber: checks the character class only",
      "other ill-formed json.Number output", "shares lenient scanner")
known("KF-C03-04", "C03", "enc-reject", None, r"unrepresentable-accepted", r"json\.Number:number:.* @ feature:val:json\.Number",
      'json.Number("x") accepted', "see KF-C03-03", "see KF-C03-03", "see KF-C03-03")
PASS_RX = r"(str:raw-ctl|nul-terminates|compact:str-any-escape)"
known("KF-C03-05", "C03", W, None, r"malformed-output:passthrough", r"relax=" + PASS_RX + r" @ feature:val:(bad-raw|marshaler-output)",
      'MarshalJSON returning "a<LF>b" (raw control character) or "\\[" (any byte after a backslash) is copied to the output',
      "internal/encoder/compact.go compactString: lenient validation of strings in marshaler output (KF-C18-02..04); the number grammar part was repaired in 9277c67",
      "another ill-formed marshaler/RawMessage output that one of these three string/NUL leniences explains (anything else is reported as relax=unexplained)", "see KF-C18-02")
known("KF-C03-06", "C03", "enc-reject", None, r"unrepresentable-accepted", r"marshaler-output:nul-terminates @ feature:val:marshaler-output",
      'MarshalJSON returning "1\\x00x" is emitted as 1', "compact.go NUL sentinel", "other NUL-truncated marshaler output", "sentinel design")

# ------------------------------------------------------------------ C13
enc_deaths("C13", "KF-C13")
V = "enc-variants"
known("KF-C13-01", "C13", V, r"DisableHTMLEscape~plain", r"members-reordered", r".*",
      'map[string]T with keys "<x" and "a": member order differs between Marshal and DisableHTMLEscape', "same root cause as KF-C01-ORDER (members sorted by escaped key bytes, and the escaping depends on the option)",
      "other pure re-orderings of members under DisableHTMLEscape", "see KF-C01-ORDER")
known("KF-C13-02", "C13", V, r"strip\((Debug\+)?Colorize.*", r"members-reordered", r".*",
      'map[uint]uint32{1:..,18446744071562067968:..}: Colorize(scheme) emits the members in another order', "internal/encoder/vm_color*/ map encoding sorts the coloured key bytes (markers included)",
      "other pure re-orderings of members under Colorize", "sorting happens after key encoding")
known("KF-C13-03", "C13", V, r"(strip\((Debug\+)?Colorize.*|DisableHTMLEscape~plain)", r"bytes-differ:inside-string", r"feature:(string-opt-float-or-string|tags-zoo)",
      'struct{Y string `json:",string"`} with Colorize: the markers are JSON-escaped inside the outer quotes; Tags key "<a&b>" under DisableHTMLEscape', "vm_color string-tag opcodes colour the inner value before quoting; struct keys are escaped at compile time",
      "other differences inside ,string-quoted strings / HTML-special struct keys", "rare options")
known("KF-C13-04", "C13", V, None, r"(bytes-differ:.+|panic:.+|variant-error|members-differ|members-reordered|variant-not-json|excessive-allocation)", r"(.* @ )?feature:(ptr-to-marshaler|array1-ptr-shaped-elem|nilable-marshalerV|marshalerP-by-value|tags-zoo|ptr2\+|struct-ptr-shaped|mapkey-marshaler|embedded-structof|embedded-conflicts)",
      'MarshalIndent([2]*MP{nil,..}) gives "mp-nil" where Marshal gives null; Marshal([]any{(*TVS)(nil)}) = [null] but Marshal((*TVS)(nil)) = ""', "the four interpreters and the top-level/interface entry differ in nil and addressability handling of marshaler types and pointer-shaped values (KF-C01-PTRM, -MPVAL, -NILMV, -ARR1, -PTR2, -PSTRUCT, -MAPKEY, -EMB)",
      "any other inconsistency between variants on types carrying one of these features", "see the C01 entries")
known("KF-C13-05", "C13", V, None, r"(bytes-differ:.+|panic:.+|variant-error)", r"(/internal/encoder\.AppendMarshalJSONIndent|.*) @ feature:(ptr-to-marshaler|array1-ptr-shaped-elem)",
      'MarshalIndent([]*json.RawMessage{nil}) panics (AppendMarshalJSONIndent lacks the nil check AppendMarshalJSON has)', "internal/encoder/encoder.go AppendMarshalJSONIndent", "see KF-C13-04", "see KF-C13-04")

known("KF-C13-06", "C13", V, None, r"members-reordered:tied-names", r".*",
      'map[string]int{"\\xc2":1,"\\xdf":2}: both names are written as "\\ufffd"; which member comes first follows Go\'s map iteration order, so Marshal(v), Marshal(&v) and Marshal([]any{v}) (and two calls of the same entry point) can differ',
      "same root cause as KF-C01-ORDER: internal/encoder/vm*/ sort map members by the already-escaped name bytes; distinct Go keys whose escaped spellings coincide are tied and keep the order of the (randomised) map iteration",
      "other re-orderings restricted to members whose written names are equal", "sorting by the raw key would remove the ties")
# ------------------------------------------------------------------ C04
FEATURE_ROOT = {
 "ptr2\\+": ("KF-C01-PTR2", "pointer chains of depth >= 2 are mis-indirected by the encoder"),
 "array1-ptr-shaped-elem": ("KF-C01-ARR1", "one-element arrays of pointer-shaped elements are mis-indirected by the encoder"),
 "struct-ptr-shaped": ("KF-C01-PSTRUCT", "single-pointer-field structs are mis-indirected by the encoder"),
 "mapkey-marshaler": ("KF-C01-MAPKEY", "TextMarshaler map keys are encoded from a wrong address / with other rules than encoding/json"),
 "embedded-conflicts": ("KF-C01-EMB", "embedded-field dominance differs from encoding/json"),
 "embedded-structof": ("KF-C01-EMB", "embedded-field dominance differs; nil embedded pointer dereferenced"),
 "marshalerP-by-value": ("KF-C01-MPVAL", "pointer-receiver marshalers used on unaddressable values"),
 "nilable-marshalerV": ("KF-C01-NILMV", "nil map/slice-kind value-receiver marshalers encoded as null"),
 "omitempty-marshaler": ("KF-C01-OMITM", "omitempty ignored for marshaler-typed fields"),
 "ptr-to-marshaler": ("KF-C01-PTRM", "nil pointers to marshaler types are not encoded as null"),
 "string-opt-nonscalar": ("KF-C02-STRNS", "the ,string option is honoured for non-scalar fields (encoding/json ignores it there)"),
 "string-opt-float-or-string": ("KF-C01-STRS", ",string on string/float fields"),
 "name-collisions": ("KF-C15-COLL", "decoder field lookup does not implement encoding/json's tagged-wins / ambiguity rules for colliding names"),
 "tags-zoo": ("KF-C01-TAGS", "the Tags zoo types combine several of the above"),
 "array0-omitempty": ("KF-C01-A0OMIT", "omitempty on [0]T"),
}
def feature_entries(prop, monitor, pfx, kinds, feats):
    for f in feats:
        same, what = FEATURE_ROOT[f]
        known("%s-F-%s" % (pfx, f.replace("\\", "").replace("+", "plus")), prop, r"(%s|process)" % monitor, None, kinds, r"(.* @ )?feature:" + f + r"( @ .*)?",
              "a value of a type with feature '%s' does not satisfy the property; root cause %s: %s" % (f.replace("\\", ""), same, what),
              "see " + same, "any other defect that only shows on types carrying this feature", "see " + same)
RT = r"(encode-error|decode-error|not-equal:.+|panic:.+|fatal:.+|checkptr:.+|ill-formed-destination|excessive-allocation)"
feature_entries("C04", "roundtrip", "KF-C04", RT, ["ptr2\\+", "array1-ptr-shaped-elem", "struct-ptr-shaped", "mapkey-marshaler", "embedded-conflicts", "embedded-structof",
                "marshalerP-by-value", "nilable-marshalerV", "omitempty-marshaler", "ptr-to-marshaler", "string-opt-nonscalar", "string-opt-float-or-string", "name-collisions", "tags-zoo"])


# ------------------------------------------------------------------ C08
SAFE = r"(panic:.+|fatal:.+|checkptr:.+|asan:.+|excessive-allocation|slot-clobber:.+)"
feature_entries("C08", "(enc-safety|slot-owner)", "KF-C08", SAFE, ["ptr2\\+", "array1-ptr-shaped-elem", "struct-ptr-shaped", "mapkey-marshaler", "nilable-marshalerV", "ptr-to-marshaler", "embedded-structof", "tags-zoo"])

known("KF-C08-MPNIL", "C08", r"(enc-safety|process)", None, r"(panic:nil-deref|fatal:out-of-memory|fatal:segv)", r"/internal/encoder\.AppendMarshal(JSON|Text)(Indent)? @ feature:marshalerP-by-value",
      'Marshal((*struct{Y MP})(nil)) panics; see KF-C01-MPNIL', "see KF-C01-MPNIL", "see KF-C01-MPNIL", "see KF-C01-MPNIL")

known("KF-C08-SELFREF", "C08", r"(enc-safety|process)", None, r"(fatal:stack-overflow|fatal:.*|selfref-container-type)", r".* @ selfref-container-type",
      'type T []T (or map[string]T): json.Marshal(T{T{}}) ends in "fatal error: stack overflow" while compiling the type',
      "internal/encoder/compiler.go typeToCode: recursion is only broken at struct types (structTypeToCode); a slice, array, map or pointer type that contains itself without a struct in between is followed for ever",
      "any other failure on the self-referential container types of this sub-case (its own shape tag; every other value is not covered)",
      "needs a recursion marker and a jump target for non-struct types in the encoder's compiler and in all four interpreters (OpRecursive is tied to struct programs)")
known("KF-C06-SELFREF", "C06", r"(no-panic|process)", None, r"(fatal:stack-overflow|fatal:.*)", r".* @ selfref-container-type",
      'type T []T; var v T; json.Unmarshal([]byte("[]"), &v) ends in "fatal error: stack overflow" while compiling the decoder (also map[string]T and []*T)',
      "internal/decoder/compile.go compile/compileSlice/compileMap/compilePtr: recursion is only broken at struct types (structTypeToDecoder)",
      "any other failure on the self-referential container types of this sub-case (its own shape tag)",
      "every container decoder is built from its finished element decoder; breaking the cycle needs a placeholder decoder resolved after compilation, for slices, arrays, maps and pointers")
known("KF-C08-NOESC", "C08", r"(gc-callback|process)", None, r"(fatal:.+|panic:.+|error|abandoned-stack-copy-encoded|stale-or-foreign-data-encoded)", r"(.* @ noescape-stack-resident|MarshalNoEscape\(&local\))",
      'var d T (a local); json.MarshalNoEscape(&d) where a member\'s MarshalText recurses deep enough to grow the goroutine stack: SIGSEGV in encoder.AppendInt / appendNormalizedHTMLString, or the abandoned stack copy is encoded',
      "encode.go encodeNoEscape: the argument is deliberately kept from escaping, so it may live on the caller's stack; the interpreter holds its address as uintptr, which is not adjusted when a MarshalJSON/MarshalText callback grows (moves) the stack",
      "any other failure of MarshalNoEscape on a stack-resident value with a stack-growing callback (the sub-case is localised by its own shape tag; heap values and every other entry point are not covered by this entry)",
      "inherent in the entry point's contract ('doesn't escape v'): the only repair is to pin the value as Marshal does, which removes what the function is for; the heap-value half of the same defect was fixed in facc6a6")

COMPILE_W = r"W:/internal/(encoder|decoder)\.(copyOpcode|copyToInterfaceOpcode|\(\*Compiler\)\.[A-Za-z]+|compileToGetCodeSet(SlowPath)?|CompileToGetDecoder|compileToGetDecoderSlowPath|compile[A-Za-z0-9]*|new[A-Za-z0-9]+|set[A-Za-z0-9]+|convert[A-Za-z0-9]+|\(\*[A-Za-z]+(Code|Decoder)\)\.[A-Za-z]+|\(\*Opcode\)\.[A-Za-z]+|\(\*structDecoder\)\.tryOptimize)"
known("KF-C10-PROD", "C10", "race-detector", r"raceprod", r"race", r"(R|W):\S+ / " + COMPILE_W,
      'race detector over the production cache code (variant raceprod): compileToGetCodeSet / CompileToGetDecoder store the freshly compiled program into cachedOpcodeSets[index] / cachedDecoder[index] with a plain store; another goroutine loads the slot and runs the program (reads in vm.Run, appendStructKey, structDecoder.Decode ...) with no happens-before edge to the writes that built it (copyOpcode, codeToOpcodeSet, newStructDecoder, tryOptimize); two goroutines also store the same slot concurrently',
      "internal/encoder/compiler_norace.go, internal/decoder/compile_norace.go: the !race build publishes cache slots without synchronisation (the race build compiles a mutex-protected variant instead, which is why the ordinary race detector run never sees it)",
      "any other race whose writing side is one of the compile-time constructors, in the raceprod variant only; races of the ordinary race build are matched against entry 'race' and are not covered",
      "deliberate upstream design (lock-free fast path); a fix needs atomic slot loads/stores in both packages")

# ------------------------------------------------------------------ C16

# ------------------------------------------------------------------ C17
known("KF-C17-01", "C17", "str-encode", r"DisableNormalizeUTF8", r"raw-u2028/9", r"(value|key):.*u2028/9.*",
      'MarshalWithOption("\\u2028", DisableNormalizeUTF8()) emits the raw three bytes although HTML escaping is on', "internal/encoder/string.go: U+2028/9 are escaped by the UTF-8 normalising tables only",
      "nothing else (exact class)", "the option is documented as switching the whole normalising pass off")

# ------------------------------------------------------------------ C02
FEATURE_ROOT.update({
 "unmarshaler-types": ("KF-C02-UNM", "Unmarshaler/TextUnmarshaler implementers accept documents of kinds for which encoding/json reports a type error (e.g. true into a TextUnmarshaler)"),
 "ptr-to-container": ("KF-C02-PTRC", "pointers to slices/maps/arrays/bytes: null / reuse handling differs"),
 "iface-nonempty": ("KF-C02-IFNE", "non-empty interface destinations"),
 "recmap": ("KF-C01-PTR2", "RecMap contains **RecMap"),
 "array0-or-1-plain": ("KF-C02-ARR01", "arrays of length 0/1 as destinations"),
})
DEC = r"(ok-vs-err|err-vs-ok|value:.+|ill-formed-destination|stream-differs-from-buffer|field-selection:.+)"
feature_entries("C02", "dec-diff", "KF-C02", DEC, ["ptr2\\+", "array1-ptr-shaped-elem", "struct-ptr-shaped", "mapkey-marshaler", "embedded-conflicts", "embedded-structof",
                "marshalerP-by-value", "nilable-marshalerV", "omitempty-marshaler", "ptr-to-marshaler", "string-opt-nonscalar", "string-opt-float-or-string", "name-collisions", "tags-zoo",
                "unmarshaler-types", "ptr-to-container", "iface-nonempty", "recmap", "array0-or-1-plain", "array0-omitempty"])
D = "dec-diff"
known("KF-C02-IH1", "C02", D, None, r"iface-holding:verdict", r"\*TextUnmarshaler:form\d",
      'var i any = &T{} (T a TextUnmarshaler); Unmarshal("true", &i) = nil (encoding/json: cannot unmarshal bool)', "internal/decoder/interface.go decodeTextUnmarshaler: a non-string value is handed to UnmarshalText as its raw text",
      "other verdict differences for an interface{} that holds a pointer to a TextUnmarshaler", "rare shape (an interface pre-loaded with a pointer); left as a finding")
known("KF-C02-IH2", "C02", D, None, r"iface-holding:value", r"(\*\*int|\*any):form\d",
      'var i any = &p (p *int or an interface{} variable); Unmarshal("null", &i) / Unmarshal(`{"A":7}`, &i): go-json replaces the content of i (nil / a new map), encoding/json keeps the pointer and stores through it',
      "internal/decoder/interface.go Decode/DecodeStream: only one pointer level of a pre-loaded interface{} is followed, and a pointer to an interface is not followed at all",
      "other value differences for an interface{} pre-loaded with a pointer to a pointer or to an interface", "rare shape; left as a finding")
known("KF-C02-06", "C02", D, None, r"field-selection:case-insensitive-match", r"(core|feature:.*)",
      '{"C":-1} does not reach the field tagged `json:"c,omitempty"` of an embedded struct; {"B":1} into EmbDeep is not reported as a type error (encoding/json matches case-insensitively)', "internal/decoder/struct.go: case-insensitive lookup is missing for fields promoted from embedded structs (see C15)",
      "any disagreement that disappears when keys are spelled exactly like their fields", "see C15")


# ------------------------------------------------------------------ C07

# ------------------------------------------------------------------ C15
FS = "field-selection"
known("KF-C15-01", "C15", FS, "decode", r"fields-set-differ", r"fallback:casefold-(ascii|unicode)(\(ambiguous\))?(\(long\))?:[a-z+-]+:(buffer|stream):(missed|wrong-field)",
      '{"K19":1} does not reach the field tagged k19 of a 19-field struct; {"aB":1} with fields Ab and AB; any struct with a name > 64 bytes or an upper-case non-ASCII letter', "internal/decoder/struct.go decodeKey (map fallback used when tryOptimize gives up): exact or all-lower-case keys only",
      "other missed case-insensitive matches on structs that use the fallback lookup", "fallback would need a folded-name table like encoding/json's")
known("KF-C15-02", "C15", FS, "decode", r"fields-set-differ", r"bitmap(8|16):casefold-unicode(\(ambiguous\))?:[a-z+-]+:(buffer|stream):(missed|wrong-field)",
      '{"BB\u00c9":1} does not reach the field tagged bb\u00e9 (encoding/json folds non-ASCII letters too)', "internal/decoder/struct.go largeToSmallTable: ASCII-only folding in the bitmap lookup",
      "other missed non-ASCII case folds", "needs Unicode simple folding in the bitmap tables")
known("KF-C15-04", "C15", FS, "decode", r"verdict", r"bitmap(8|16):[a-z()-]+:full-escaped:stream:go-error",
      'Decoder fed 5-byte chunks fails on {"\\u0062\\u0062":1} with "invalid character u as escaped char"', "internal/decoder/struct.go decodeKeyCharByUnicodeRuneStream: refill inside a \\u escape of a key (see C09)",
      "other stream errors on fully escaped keys", "see C09")
known("KF-C15-05", "C15", FS, "decode-embedded", r"(verdict|fields-set-differ)", r"(EmbVal|EmbDeep|EmbPtr|EmbConflict|EmbL3|EmbL3Ptr|EmbShadow|EmbDepthWins|EmbTaggedWins|Tags|EmbCase|EmbTagged|EmbPtrCase|EmbValCase|EmbPtrColl|EmbValColl|EmbValPtrColl|EmbTwoPtrColl|EmbHidVal|EmbHidPtr|EmbHidDeep):casefold-ascii(\(ambiguous\))?",
      '{"B":7} into EmbVal (field b promoted from EmbInner) is ignored; encoding/json reports a type error', "internal/decoder/compile.go: promoted fields of embedded structs are registered under their exact name only",
      "other case-insensitive misses on promoted fields", "field registration for anonymous structs")
known("KF-C15-06", "C15", FS, "decode-embedded", r"(verdict|fields-set-differ)", r"(EmbL3|EmbL3Ptr):exact",
      '{"L1":7} into EmbL3 (embedded struct L1 that has a field L1) is dropped', "internal/decoder/compile.go / internal/encoder/compiler.go: an embedded struct whose type name equals one of its own field names hides that field",
      "other drops on EmbL3/EmbL3Ptr", "anonymous-field flattening")
known("KF-C15-07", "C15", FS, "decode-embedded", r"(verdict|fields-set-differ)", r"(EmbTaggedWins|EmbShadow):exact",
      '{"W":7} into EmbTaggedWins (tagged W beats untagged W at the same depth) is dropped; {"b":7} into EmbShadow is not a type error', "dominance rules (tagged wins, ambiguity) not implemented in the decoder",
      "other dominance differences on these two types", "see KF-C01-EMB")
known("KF-C15-08", "C15", "member-names", "Marshal", r"members-differ", r"embedded:(EmbL3|EmbShadow|EmbL3Ptr)",
      'Marshal(EmbL3{}) omits L3, L2, L1', "see KF-C15-06 / KF-C01-EMB", "other member-set differences on these types", "see KF-C01-EMB")

# ------------------------------------------------------------------ C09
SB = "stream-vs-buffer"
for n, rx, same in (("01", "stream:nul-skipped", "KF-C05-05"), 
                    ("05", "stream:leading-comma-or-colon-skipped", "KF-C05-09"), ("06", "stream:skip-ignores-junk-before-value", "KF-C05-10"),
                    ("07", "stream:trailing-after-top", "KF-C05-11"), ("08", "skip:unvalidated", "KF-C05-04"), ("09", "nul-terminates", "KF-C05-03"),
                    ("10", "num:parsefloat-grammar", "KF-C05-01"), ("11", "str:raw-ctl", "KF-C05-02")):
    known("KF-C09-R" + n, "C09", SB, None, r"verdict:stream-ok-buffer-err", r"relax=" + re.escape(rx),
          "Decoder accepts an invalid text that Unmarshal rejects; the acceptance is explained by the stream lenience '%s' (%s)" % (rx, same), "see " + same, "see " + same, "see " + same)
known("KF-C09-03", "C09", "stream-seq", "InputOffset", r"offset-differs", r"(string|object|array):escapes=true",
      'after decoding "helloAb\\f" from a stream InputOffset is 10, not 11', "internal/decoder/string.go: escapes are resolved in place in the stream buffer and the removed bytes are not added to the offset",
      "other offset differences after documents containing escapes", "offset bookkeeping of in-place unescaping")

known("KF-C09-04", "C09", SB, None, r"value-differs-on-invalid-doc", r"embedded-nul: buffer terminates, stream skips",
      '"96.201e1\\x008" is 962.01 for Unmarshal and 96201000000000000000 for Decoder', "see KF-C05-03 and KF-C05-05: the two modes treat an embedded NUL differently", "other value differences on texts with an embedded NUL", "sentinel design")

for n, rx, same in (("01", "nul-terminates", "KF-C05-03"), ("02", "num:parsefloat-grammar", "KF-C05-01"), ("03", "str:raw-ctl", "KF-C05-02"), ("04", "skip:unvalidated", "KF-C05-04")):
    known("KF-C09-B" + n, "C09", SB, None, r"verdict:stream-err-buffer-ok-on-invalid-doc", r"relax=" + re.escape(rx),
          "Unmarshal accepts an invalid text (lenience '%s', %s) that Decoder rejects" % (rx, same), "see " + same, "see " + same, "see " + same)
known("KF-C09-05", "C09", SB, None, r"value-differs:.+", r"valid-doc:[a-z-]+:[a-z/-]+(:doc-has-u-escapes)?:doc-not-utf8",
      'a key containing the byte 0xff is stored as U+FFFD by Decoder and raw by Unmarshal', "internal/decoder/string.go: only the stream string scanner replaces invalid UTF-8", "other value differences on documents that are not valid UTF-8", "the two scanners differ by design here")
known("KF-C09-06", "C09", SB, None, r"verdict:stream-ok-buffer-err", r"valid-doc:[a-z-]+:buffer-error=.*:doc-has-u-escapes",
      'a struct member spelled with an escaped key and a wrong-kind value is silently skipped by Decoder where Unmarshal reports the type error', "see KF-C09-02 (escaped keys in stream mode)", "see KF-C09-02", "see KF-C09-02")

known("KF-C09-R12", "C09", SB, None, r"verdict:stream-ok-buffer-err", r"relax=stream:nul-skipped-unmodelled",
      'Decoder accepts "{\\n\\x00a.b\\":{}}" (NUL where the opening quote of a key should be)', "see KF-C05-05: NUL bytes are stepped over by several stream scanners in ways the recogniser's relaxation does not reproduce exactly", "other stream-only acceptances of texts with an embedded NUL", "sentinel design")

# ------------------------------------------------------------------ C19
PJ = "projection"
known("KF-C19-01", "C19", PJ, None, r"projection-mismatch", r"via:(slice|array|map|top-level-container):(extra-members|other-members|missing-members|missing-promoted-members|string)",
      'query [Sl[X]] on QOuter: the elements of Sl keep all their members (sub-queries are not applied through slices, arrays, maps or a top-level container); a context-aware marshaler inside a slice element is handed no sub-query (its "seen" string stays empty)', "internal/encoder/code.go SliceCode/ArrayCode/MapCode.Filter return the code unchanged",
      "any other projection difference located below a slice, array or map", "Filter would have to rebuild element codes")
known("KF-C19-02", "C19", PJ, None, r"projection-mismatch", r"via:recursive-(ptr|slice|map|struct|array):(extra-members|other-members|missing-members|missing-promoted-members)",
      'query [A,Rec[b]] on QOuter: the inner level is filtered with the outer field set', "internal/encoder/compiler.go: recursive struct types jump back into the already filtered outer program",
      "any other projection difference below a recursive member", "recursive code is shared per type, not per query position")
known("KF-C19-03", "C19", PJ, None, r"projection-mismatch", r"via:iface(-member)?:(extra-members|other-members|missing-members|missing-promoted-members)",
      'query [If[P,X]] with If holding *QInner{X:29}: output {} instead of {"X":29}', "internal/encoder/vm OpInterface with FieldQueryOption: the query is applied to the dynamic value with the wrong program (pointer dynamic types, maps)",
      "any other projection difference below an interface member", "interface ops compile the dynamic type at run time with the context query")
known("KF-C19-04", "C19", PJ, None, r"projection-mismatch", r"direct:[A-Za-z]+>[a-z>-]*:missing-promoted-members",
      'query [P] on QOuter (P promoted from the embedded QLeaf) selects nothing', "internal/encoder/code.go StructCode.Filter matches the keys of the struct's own fields; promoted fields live in a nested anonymous StructCode",
      "other missing promoted members", "Filter would have to descend into anonymous fields")

# ------------------------------------------------------------------ C20
known("KF-C20-01", "C20", "path-select", r"(Extract|Path\.Unmarshal)", r"(selection-mismatch:.+|unmarshal-differs-from-extract)", r"recursive-descent",
      '$..b on {"a":{"b":1},"b":2} does not return [1 2]: recursive descent follows only some members and returns scalars only', "internal/decoder/path.go PathRecursiveNode + the DecodePath methods of map/slice decoders",
      "any other mis-selection on paths that contain a recursive-descent step", "needs a real descent in every DecodePath implementation")
known("KF-C20-02", "C20", "path-select", r"Extract", r"selection-mismatch:scalar-returned-for-selector", r"(child-only|index|wildcard|multi-wildcard)",
      '$.x.id on 1 returns ["1"]; $[*].k on [{"k":null},7] returns [null 7]; on a string the unquoted contents are returned', "internal/decoder/*.go DecodePath of the scalar decoders return the scalar itself whatever selectors remain",
      "nothing else (the predicate reproduces go-json's parts exactly)", "scalar decoders would have to report 'not found'")

known("KF-C08-ASAN-01", "C08", "process", r"asan.*", r"asan:(use-after-poison|unknown-crash)", r"/internal/encoder/vm[a-z_]*\.ptrToPtr @ (core|feature:.*)",
      'Marshal(&struct{H [3][2]uint32; Id struct{} `json:",omitempty"`}{}) reads 8 bytes at the offset of the trailing zero-size field: 4 of them lie in the poisoned tail of the allocation', "internal/encoder/vm*/vm.go omitempty opcodes for struct-kind fields load a pointer-sized word at the field offset whatever the field size",
      "other ASan reports whose innermost frame is ptrToPtr", "generated opcodes x 4 interpreters")

json.dump({"comment": "generated by tools/gen_known.py; never written at check time", "findings": F},
          open(os.path.join(os.path.dirname(os.path.abspath(__file__)), "..", "known_findings.json"), "w"), indent=1, ensure_ascii=False)
print(len(F), "entries")

# lint: every pattern compiles and none contains a doubled backslash (a classic slip when the
# entry text is pasted through several quoting layers)
for _e in F:
    if _e["status"] != "known":
        continue
    for _f, _v in _e["match"].items():
        if _v is None:
            continue
        re.compile(_v)
        assert "\\\\" not in _v, "doubled backslash in %s.%s: %s" % (_e["id"], _f, _v)
