#!/usr/bin/env python3
"""Source of /verif/known_findings.json (run by hand after triage; never at check time).

Each entry is one ROOT CAUSE. `match` holds full-match regular expressions over the fields of a
violation signature (monitor, entry, kind, ctx); kind and ctx are mandatory. A violation whose ctx
has several ' + '-separated components is known only if every component matches some entry.
status: "known" (suppresses, prints KNOWN-FINDING) or "fixed" (suppresses nothing; bookkeeping).
"""
import json, os, re

F = []

def known(id, prop, monitor, entry, kind, ctx, witness, where, masks, why):
    F.append({"id": id, "property": prop, "status": "known",
              "match": {"monitor": monitor, "entry": entry, "kind": kind, "ctx": ctx},
              "witness": witness, "where": where, "masks": masks, "why_not_fixed": why})

def fixed(id, prop, commit, what):
    F.append({"id": id, "property": prop, "status": "fixed", "commit": commit,
              "line": "fixed: property=%s %s %s" % (prop, commit, what)})

def alt(*xs):
    return "(" + "|".join(re.escape(x) for x in xs) + ")"

# ------------------------------------------------------------------ fixed (see git log of /repo)
fixed("FX-C07-01", "C07", "6f804e4", "short JSON array: tail zero-fill wrote a pointer-sized word per element ({\"A\":[1]} into [3]uint8 between canaries; [3]string left with nil data and stale len)")
fixed("FX-C16-01", "C16", "d4dc62a", "9223372036854775808 / -9223372036854775809 / 18446744073709551616 wrapped silently into int64/uint64")
fixed("FX-C02-01", "C02", "d4dc62a", "same 64-bit wrap seen through the encoding/json differential")
fixed("FX-C14-01", "C14", "52d0f82", "decoder cache fast path had no lower bound on the type address (index underflow for descriptors below the typelinks base)")
fixed("FX-C11-01", "C11", "c1a4ff3", "Path.node advanced in the shared Path and not restored when Extract failed: a later Extract on a good document returned []")
fixed("FX-C20-01", "C20", "c1a4ff3", "same Path corruption seen as reuse-after-error and as cross-goroutine interference")
fixed("FX-C10-01", "C10", "c1a4ff3", "shared Path mutated by concurrent Extract calls")
fixed("FX-C18-01", "C18", "1a5e726", "Compact into a non-empty bytes.Buffer duplicated the existing contents (PRE -> PREPRE{...})")
fixed("FX-C06-01", "C06", "ddedbc1", "Path.Get on a struct panicked (reflect: Len of non-array type)")
fixed("FX-C10-02", "C10", "224a224", "race build: nested setsMu.RLock through FieldQuery.Hash -> Marshal deadlocked with a queued writer")
fixed("FX-C08-01", "C08", "fae98e2", "Interface op inside recursive code had Length 0: callee frame overlapped the caller's return slots (struct{A,B,C,D int; M map[string]interface{}; R *Self})")
fixed("FX-C01-01", "C01", "fae98e2", "same frame overlap seen as a crash/garbled output in the encoding/json differential")

# ------------------------------------------------------------------ C05
ALL15 = r"(Valid|Unmarshal:.+|Decode:.+)"
STREAM = r"(Valid|Decode:.+)"
SKIPPERS = r"(Valid|Decode:.+|Unmarshal:(struct\{\}|struct\{A\}|\[0\]int|\[1\]iface|RawMessage|Unmarshaler|\[\]RawMessage|map\[string\]Unmarshaler))"
M = "accept-language"
known("KF-C05-01", "C05", M, ALL15, "ok-vs-err", r"relax=num:parsefloat-grammar",
      'Unmarshal("01"), ("1."), ("-.5"), ("1.e1") succeed',
      "internal/decoder/float.go, number.go, interface.go: a number token is [-0-9][0-9.eE+-]* handed to strconv.ParseFloat, whose grammar is wider than RFC 8259",
      "another number-grammar lenience that strconv.ParseFloat also accepts",
      "every numeric decoder shares the floatTable scanner; a strict scanner changes behaviour upstream tests and users rely on")
known("KF-C05-02", "C05", M, ALL15, "ok-vs-err", r"relax=str:raw-ctl",
      'Unmarshal("\\"a\\nb\\"") with a raw LF / 0x01 inside the string succeeds',
      "internal/decoder/string.go: the string scanners only look for quote, backslash and NUL",
      "another unescaped-control-character acceptance inside strings",
      "needs a control-character test in every string scanner (buffer, stream, skip); behavioural change")
known("KF-C05-03", "C05", M, ALL15, "ok-vs-err", r"relax=nul-terminates",
      'Unmarshal("1\\x00garbage") = nil, v = 1',
      "decode.go validateEndBuf / internal/decoder: the first NUL byte is taken for the sentinel appended to the private copy",
      "any other over-acceptance that needs an embedded NUL byte to end the text",
      "the NUL sentinel is the end-of-input convention of every scanner in the decoder")
known("KF-C05-04", "C05", M, SKIPPERS, "ok-vs-err", r"relax=skip:unvalidated",
      'Unmarshal("{\\"x\\":0-2}", &struct{}{}), Unmarshal("[E0]", &[0]int{}), Unmarshal("-", &RawMessage{}) succeed',
      "internal/decoder/context.go skipValue/skipObject/skipArray and Stream.skip*: skipped values are only bracket-matched; numbers are a run of [0-9.eE+-], strings are not validated",
      "any malformed content inside a part of the document that the destination skips",
      "validating skipped values needs a full validating scanner in both decoders")
known("KF-C05-05", "C05", M, STREAM, "ok-vs-err", r"relax=stream:nul-skipped",
      'Valid("[1\\x00]") / NewDecoder("1\\x00").Decode: an embedded NUL is taken for the end of the buffer and dropped when the reader can still be asked for data',
      "internal/decoder/stream.go: every scanner treats NUL as 'refill and retry'",
      "stream-mode acceptances that need an embedded NUL",
      "same sentinel design as KF-C05-03")
known("KF-C05-06", "C05", M, STREAM, "ok-vs-err", r"relax=stream:literal-prefix-at-EOF",
      'Valid("tru"), Valid("nul") are true',
      "internal/decoder/stream.go / bool.go / interface.go stream literal readers: running out of input inside true/false/null is not an error",
      "other truncated-literal acceptances in stream mode", "stream literal scanners need an EOF check at each letter (several copies)")
known("KF-C05-07", "C05", M, STREAM, "ok-vs-err", r"relax=stream:literal-letters-unchecked",
      'Valid("txxx")-style inputs: letters after the first of true/false/null are not compared in some stream paths',
      "internal/decoder stream literal readers (retry after refill skips the comparison)",
      "other wrong-letter literal acceptances in stream mode", "as KF-C05-06")
known("KF-C05-08", "C05", M, STREAM, "ok-vs-err", r"relax=stream:hex-unchecked",
      'Valid("\\"\\\\uZZZZ\\"") is true',
      "internal/decoder/string.go stream \\u handling does not validate the four hex digits",
      "other bad-\\u acceptances in stream mode", "needs validation in the stream unescape path")
known("KF-C05-09", "C05", M, STREAM, "ok-vs-err", r"relax=stream:leading-comma-or-colon-skipped",
      'Valid(",0") and Valid(":0") are true',
      "internal/decoder/stream.go PrepareForDecode skips one ',' or ':' before every value (used for Token-driven streaming)",
      "stream acceptances that start with one separator", "PrepareForDecode is also what makes Decode work after Token(); needs state to tell the cases apart")
known("KF-C05-10", "C05", M, STREAM, "ok-vs-err", r"relax=stream:skip-ignores-junk-before-value",
      'NewDecoder("x1").Decode(&RawMessage) = "x1", nil',
      "internal/decoder/stream.go skipValue: bytes that cannot start a value are stepped over",
      "stream acceptances with junk before a skipped value", "part of the unvalidated skip scanner (KF-C05-04)")
known("KF-C05-11", "C05", M, STREAM, "ok-vs-err", r"relax=stream:trailing-after-top",
      'Valid("{ }]") is true',
      "json.go Valid: returns true when More() is false, and More() is false for ']' and '}'; Decoder leaves trailing bytes to the next Decode, which reports EOF for some",
      "other trailing-garbage acceptances by Valid / a drained Decoder", "Valid is defined through the stream decoder")
known("KF-C05-12", "C05", M, "Valid", "err-vs-ok", r"valid-text-rejected:float64-range-number",
      'Valid("6e5535") is false (encoding/json.Valid: true)',
      "json.go Valid decodes into interface{}, so a number beyond float64 fails with a range error",
      "Valid rejecting another valid text that contains an out-of-range number", "Valid would need a non-converting scanner")

json.dump({"comment": "generated by tools/gen_known.py; never written at check time", "findings": F},
          open(os.path.join(os.path.dirname(os.path.abspath(__file__)), "..", "known_findings.json"), "w"), indent=1, ensure_ascii=False)
print(len(F), "entries")
