#!/usr/bin/env python3
"""Writes /verif/MANIFEST.json from the table below (keeps the manifest valid and consistent)."""
import json, os, subprocess
V = os.path.join(os.path.dirname(os.path.abspath(__file__)), "..")
props = [json.loads(l) for l in open(os.path.join(V, "properties.jsonl"))]
ids = [p["id"] for p in props]

# id -> (technique, level text, level_note, design_ref)
CLAIMED = json.load(open(os.path.join(V, "tools", "claimed.json")))
NA = json.load(open(os.path.join(V, "tools", "not_applicable.json")))

hooks = subprocess.run(["git", "-C", "/repo", "log", "--format=%H %s"], capture_output=True, text=True).stdout.splitlines()
hook_commits = [l.split()[0] for l in hooks if " verif hook:" in " " + l]

checks = []
for i in ids:
    if i not in CLAIMED:
        continue
    c = CLAIMED[i]
    checks.append({
        "property_id": i,
        "quick_cmd": "./check.sh %s quick" % i,
        "thorough_cmd": "./check.sh %s thorough" % i,
        "evidence_file": "/verif/evidence/%s.json" % i,
        "replay_cmd_template": "./check.sh replay {path}",
        "engine": "vdriver",
        "level_claimed": {"category": "exploration", "text": c["text"], "design_ref": c.get("design_ref", "DESIGN.md §3 " + i)},
        "level_note": c["note"],
        "technique": c["technique"],
    })
man = {
    "version": 1,
    "setup_cmd": "./setup.sh",
    "hooks": {
        "guard": "verif",
        "enable": "go build -tags verif (module /verif/harness, replace github.com/goccy/go-json => /repo); hooks are dormant until a monitor arms them through json.Verif* functions",
        "baseline_off_cmd": "/verif/tools/baseline_off.sh",
        "source_commits": hook_commits,
        "add_only": True,
    },
    "engines": [{"name": "vdriver", "path": "/verif/vdriver.py", "serves_properties": [c["property_id"] for c in checks],
                 "kind_free_text": "Python driver (does not link go-json) + Go worker processes built from /repo's working tree with -tags verif and a sanitizer variant (plain, -race, checkptr, -asan); journalled cases, crash attribution, known-findings matching, evidence writer"}],
    "checks": checks,
    "not_applicable": [{"property_id": i, "reason": NA.get(i, "check not built yet in this tree; see DESIGN.md")} for i in ids if i not in CLAIMED],
    "notes": "Runtime monitoring and sanitizers only. Every verdict comes from oracles observing executions of go-json built from /repo's current working tree. Known genuine defects are listed in known_findings.json (generated from tools/gen_known.py, never written at run time). Exit 0 held, 1 violation, 2 inconclusive.",
}
json.dump(man, open(os.path.join(V, "MANIFEST.json"), "w"), indent=1)
print("claimed:", [c["property_id"] for c in checks])
