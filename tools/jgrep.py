#!/usr/bin/env python3
"""jgrep.py <scratch-dir> <regex over 'monitor|entry|kind|ctx'> [n] — print violation details from kept journals (VERIF_KEEP=1)."""
import json,sys,re,glob
pat=re.compile(sys.argv[2]); n=int(sys.argv[3]) if len(sys.argv)>3 else 5
for f in glob.glob(sys.argv[1]+'/*/journal.jsonl'):
    for l in open(f,errors='replace'):
        try: r=json.loads(l)
        except Exception: continue
        for v in r.get('v') or []:
            sig="%s|%s|%s|%s"%(v['monitor'],v['entry'],v['kind'],v.get('ctx',''))
            if pat.search(sig):
                print(sig); print('   ',v.get('detail','')[:1200]); n-=1
                if n<=0: sys.exit(0)
