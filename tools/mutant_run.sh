#!/bin/bash
# mutant_run.sh <seeded-id> <tier> <PROP>...   — run checks against an archived seeded change.
# Default: git -C /repo apply the patch, run the checks, git -C /repo checkout -- . (as the brief prescribes).
# TREE=1: apply the patch in a scratch worktree of /repo under /tmp instead and build the workers against it
# (VERIF_REPO_DIR), so that /repo is not touched while background runs are using it.
# Evidence of these runs goes to a scratch directory, never to /verif/evidence.
ID=$1; TIER=$2; shift 2
export VERIF_EVIDENCE_DIR=/tmp/mutant-evidence-$ID; mkdir -p $VERIF_EVIDENCE_DIR
if [ -n "$TREE" ]; then
  W=/tmp/mutant-tree-$ID
  git -C /repo worktree remove --force $W 2>/dev/null
  git -C /repo worktree add -q --detach $W HEAD || exit 2
  trap 'git -C /repo worktree remove --force $W 2>/dev/null' EXIT
  git -C $W apply /verif/seeded/$ID/patch.diff || exit 2
  export VERIF_REPO_DIR=$W
else
  cd /repo && [ -z "$(git status --porcelain)" ] || { echo "/repo not clean"; exit 2; }
  git -C /repo apply /verif/seeded/$ID/patch.diff || exit 2
  trap 'git -C /repo checkout -- .' EXIT
fi
# SNAP=1: run from a snapshot of /verif taken now (under /tmp, removed afterwards), so that edits
# made to the harness while a long matrix is running do not break its worker builds
V=/verif
if [ -n "$SNAP" ]; then
  V=/tmp/verif-snap-$ID-$$
  mkdir -p $V && rsync -a --exclude evidence --exclude seeded --exclude replays --exclude .git /verif/ $V/
  trap 'rm -rf '$V'; [ -n "$TREE" ] && git -C /repo worktree remove --force /tmp/mutant-tree-'$ID' 2>/dev/null; [ -z "$TREE" ] && git -C /repo checkout -- .' EXIT
fi
for P in "$@"; do
  $V/check.sh $P $TIER > /tmp/mutant-$ID-$P.out 2>&1; RC=$?
  echo "seeded=$ID check=$P tier=$TIER exit=$RC violations=$(grep -ac '^VIOLATION' /tmp/mutant-$ID-$P.out)"
  grep -a '^VIOLATION' /tmp/mutant-$ID-$P.out | head -4
  tail -1 /tmp/mutant-$ID-$P.out
done
