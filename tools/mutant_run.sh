#!/bin/bash
# mutant_run.sh <seeded-id> <tier> <PROP>...   — apply /verif/seeded/<id>/patch.diff to /repo, run the checks,
# undo. Evidence of these runs goes to a scratch directory, never to /verif/evidence.
ID=$1; TIER=$2; shift 2
cd /repo && [ -z "$(git status --porcelain)" ] || { echo "/repo not clean"; exit 2; }
git -C /repo apply /verif/seeded/$ID/patch.diff || exit 2
trap 'git -C /repo checkout -- .' EXIT
export VERIF_EVIDENCE_DIR=/tmp/mutant-evidence-$ID; mkdir -p $VERIF_EVIDENCE_DIR
for P in "$@"; do
  /verif/check.sh $P $TIER > /tmp/mutant-$ID-$P.out 2>&1; RC=$?
  echo "seeded=$ID check=$P tier=$TIER exit=$RC violations=$(grep -ac '^VIOLATION' /tmp/mutant-$ID-$P.out)"
  grep -a '^VIOLATION' /tmp/mutant-$ID-$P.out | head -4
  tail -1 /tmp/mutant-$ID-$P.out
done
