#!/bin/bash
# seeded_matrix.sh [ids...] — run every archived seeded change against the checks expected to catch it (quick
# tier, scratch-worktree mode so that /repo is not touched) and print one line per (change, check).
declare -A CHECKS=( [C01]="C01 C03" [C02]="C02" [C03]="C03" [C04]="C04 C09" [C05]="C05" [C06]="C06" [C07]="C07" [C08]="C08" [C09]="C09" [C10]="C10"
 [C11]="C11 C19" [C12]="C12 C07" [C13]="C13" [C14]="C14" [C15]="C15" [C16]="C16" [C17]="C17 C03" [C18]="C18" [C19]="C19" [C20]="C20"
 [C01b]="C01 C08" [C02b]="C02" [C03b]="C03 C01" [C04b]="C04 C17" [C05b]="C11" [C06b]="C06" [C07b]="C07" [C08b]="C08 C11" [C09b]="C09" [C10b]="C10"
 [C11b]="C11" [C12b]="C12" [C13b]="C13" [C14b]="C14" [C15b]="C15" [C16b]="C16 C09" [C17b]="C15 C02" [C18b]="C10" [C19b]="C19" [C20b]="C20"
 [C01c]="C01" [C02c]="C15" [C03c]="C03" [C04c]="C04 C12" [C05c]="C05 C09" [C06c]="C06" [C07c]="C07" [C08c]="C08" [C09c]="C09" [C10c]="C10"
 [C11c]="C11" [C12c]="C12" [C13c]="C13" [C14c]="C14 C19" [C15c]="C15" [C16c]="C16" [C17c]="C17" [C18c]="C18" [C19c]="C19" [C20c]="C20"
 [C01d]="C01" [C02d]="C02" [C03d]="C03" [C04d]="C04" [C05d]="C05" [C06d]="C06" [C07d]="C15 C07" [C08d]="C08" [C09d]="C09" [C10d]="C10"
 [C11d]="C11" [C12d]="C12" [C13d]="C13" [C14d]="C14 C10" [C15d]="C15" [C16d]="C16" [C17d]="C17" [C18d]="C18 C06" [C19d]="C19" [C20d]="C20"
 [C01e]="C01 C15" [C02e]="C02" [C03e]="C03" [C04e]="C04" [C05e]="C05" [C06e]="C06 C11 C10" [C07e]="C07" [C08e]="C08 C11" [C09e]="C09 C02" [C10e]="C10 C08"
 [C11e]="C11" [C12e]="C12" [C13e]="C13 C11" [C14e]="C14 C13" [C15e]="C15" [C16e]="C16" [C17e]="C17" [C18e]="C18 C17" [C19e]="C19" [C20e]="C20"
 [C01f]="C01" [C02f]="C02 C16" [C03f]="C03 C01" [C04f]="C04" [C05f]="C05" [C06f]="C06" [C07f]="C07" [C08f]="C08" [C09f]="C09" [C10f]="C10"
 [C11f]="C11" [C12f]="C12" [C13f]="C13" [C14f]="C14" [C15f]="C15" [C16f]="C16" [C17f]="C17" [C18f]="C18" [C19f]="C19" [C20f]="C20"
 [C01g]="C01" [C02g]="C02" [C03g]="C03" [C04g]="C04" [C05g]="C05" [C06g]="C06" [C07g]="C07" [C08g]="C08 C01" [C09g]="C09" [C10g]="C10"
 [C11g]="C11" [C12g]="C12" [C13g]="C13" [C14g]="C14" [C15g]="C15" [C16g]="C16" [C17g]="C17" [C18g]="C18" [C19g]="C19" [C20g]="C20"
 [C01h]="C01" [C02h]="C02" [C03h]="C03" [C04h]="C04" [C05h]="C05" [C06h]="C06" [C07h]="C07" [C08h]="C08" [C09h]="C09" [C10h]="C10" [C11h]="C11" [C12h]="C12" [C13h]="C13" [C14h]="C14" [C15h]="C15" [C16h]="C16" [C17h]="C17" [C18h]="C18" [C19h]="C19" [C20h]="C20"
 [C01i]="C01" [C02i]="C02" [C03i]="C03" [C04i]="C04" [C05i]="C05" [C06i]="C06" [C07i]="C07" [C08i]="C08" [C09i]="C09" [C10i]="C10" [C11i]="C11" [C12i]="C12" [C13i]="C13" [C14i]="C14" [C15i]="C15" [C16i]="C16" [C17i]="C17" [C18i]="C18" [C19i]="C19" [C20i]="C20"
 [C01j]="C01" [C02j]="C02" [C03j]="C03" [C04j]="C04" [C05j]="C05" [C06j]="C06" [C07j]="C07" [C08j]="C08" [C09j]="C09" [C10j]="C10" [C11j]="C11" [C12j]="C12" [C13j]="C13" [C14j]="C14" [C15j]="C15" [C16j]="C16" [C17j]="C17" [C18j]="C18" [C19j]="C19" [C20j]="C20"
 [C01k]="C01" [C02k]="C02" [C03k]="C03" [C04k]="C04" [C05k]="C05" [C06k]="C06" [C07k]="C07" [C08k]="C08" [C09k]="C09" [C10k]="C10" [C11k]="C11" [C12k]="C12" [C13k]="C13" [C14k]="C14" [C15k]="C15" [C16k]="C16" [C17k]="C17" [C18k]="C18" [C19k]="C19" [C20k]="C20" )
ALL="C01 C02 C03 C04 C05 C06 C07 C08 C09 C10 C11 C12 C13 C14 C15 C16 C17 C18 C19 C20 C01b C02b C03b C04b C05b C06b C07b C08b C09b C10b C11b C12b C13b C14b C15b C16b C17b C18b C19b C20b C01c C02c C03c C04c C05c C06c C07c C08c C09c C10c C11c C12c C13c C14c C15c C16c C17c C18c C19c C20c C01d C02d C03d C04d C05d C06d C07d C08d C09d C10d C11d C12d C13d C14d C15d C16d C17d C18d C19d C20d C01e C02e C03e C04e C05e C06e C07e C08e C09e C10e C11e C12e C13e C14e C15e C16e C17e C18e C19e C20e C01f C02f C03f C04f C05f C06f C07f C08f C09f C10f C11f C12f C13f C14f C15f C16f C17f C18f C19f C20f C01g C02g C03g C04g C05g C06g C07g C08g C09g C10g C11g C12g C13g C14g C15g C16g C17g C18g C19g C20g C01h C02h C03h C04h C05h C06h C07h C08h C09h C10h C11h C12h C13h C14h C15h C16h C17h C18h C19h C20h C01i C02i C03i C04i C05i C06i C07i C08i C09i C10i C11i C12i C13i C14i C15i C16i C17i C18i C19i C20i C01j C02j C03j C04j C05j C06j C07j C08j C09j C10j C11j C12j C13j C14j C15j C16j C17j C18j C19j C20j C01k C02k C03k C04k C05k C06k C07k C08k C09k C10k C11k C12k C13k C14k C15k C16k C17k C18k C19k C20k"
for id in ${@:-$ALL}; do
  SNAP=${SNAP-1} TREE=${TREE-1} /verif/tools/mutant_run.sh $id ${TIER:-quick} ${CHECKS[$id]} 2>&1 | grep -a "^seeded=\|^error"
done
