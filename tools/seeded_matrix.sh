#!/bin/bash
# seeded_matrix.sh — run every archived seeded change against the checks expected to catch it (quick tier)
# and print one line per (change, check). /repo is restored after each change.
declare -A CHECKS=( [C01]="C01 C03" [C02]="C02" [C03]="C03" [C04]="C04 C09" [C05]="C05" [C06]="C06" [C07]="C07" [C08]="C08" [C09]="C09" [C10]="C10"
 [C11]="C11 C19" [C12]="C12 C07" [C13]="C13" [C14]="C14" [C15]="C15" [C16]="C16" [C17]="C17 C03" [C18]="C18" [C19]="C19" [C20]="C20" )
for id in ${1:-C01 C02 C03 C04 C05 C06 C07 C08 C09 C10 C11 C12 C13 C14 C15 C16 C17 C18 C19 C20}; do
  /verif/tools/mutant_run.sh $id ${TIER:-quick} ${CHECKS[$id]} 2>&1 | grep -a "^seeded="
done
