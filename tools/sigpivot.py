#!/usr/bin/env python3
"""sigpivot.py <file of 'monitor|entry|kind|ctx' lines> — cluster signatures ignoring the entry point."""
import sys,collections
rows=collections.defaultdict(set)
for l in open(sys.argv[1],errors='replace'):
    p=l.rstrip('\n').split('|',3)
    if len(p)<4: continue
    m,e,k,c=p
    rows[(m,k,c)].add(e)
core=[x for x in rows if 'feature:' not in x[2]]
feat=[x for x in rows if 'feature:' in x[2]]
print("== core / other (%d)"%len(core))
for x in sorted(core): print(len(rows[x]),x[0],x[1],'||',x[2])
print("== feature (%d)"%len(feat))
byf=collections.defaultdict(set)
for m,k,c in feat:
    byf[c.split('feature:')[1]].add(k)
for f,ks in sorted(byf.items()): print(f,'::',', '.join(sorted(ks)))
