#!/bin/bash
# sweep.sh PROP TIER SEED...  — run a check over several seeds and print only new signatures (summarised)
P=$1; T=$2; shift 2
for s in "$@"; do
  VERIF_SEED=$s ./check.sh $P $T > /tmp/sweep.$P.$s.out 2>&1
  tail -1 /tmp/sweep.$P.$s.out | grep -a "seed=" | cut -c1-200 || tail -3 /tmp/sweep.$P.$s.out
  grep -a "signature:" /tmp/sweep.$P.$s.out | sed 's/^ *signature: //' | awk -F'|' '{print "    " $1 "|*|" $3 "|" $4}' | sort | uniq -c | sort -rn | head -${SWEEP_N:-8} | cut -c1-260
done
