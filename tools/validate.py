#!/opt/veriftools/pyvenv/bin/python
import json, jsonschema, glob, sys
jsonschema.validate(json.load(open('/verif/MANIFEST.json')), json.load(open('/root/.vp/MANIFEST.schema.json')))
n = 0
for f in glob.glob('/verif/evidence/*.json'):
    jsonschema.validate(json.load(open(f)), json.load(open('/root/.vp/EVIDENCE.schema.json'))); n += 1
print("manifest valid; %d evidence files valid" % n)
