#!/usr/bin/env python3
"""vdriver — driver of the runtime-monitoring checks (see DESIGN.md §2.1).

  vdriver.py <PROP> <quick|thorough>       run one property's check
  vdriver.py replay <replay.json>          re-execute one recorded case

The driver never imports or links go-json. It rebuilds the worker binary from /repo's current
working tree (harness module has `replace github.com/goccy/go-json => /repo`), shards the
property's batch list over worker processes, attributes process deaths to the sub-case that
was journalled in the worker's cur cell, matches every violation signature against
known_findings.json, prints KNOWN-FINDING / VIOLATION lines and writes evidence/<PROP>.json.
Exit status: 0 held (possibly with known findings), 1 violation, 2 inconclusive/broken run.
"""
import concurrent.futures as cf
import hashlib
import json
import os
import re
import shutil
import signal
import struct
import subprocess
import sys
import tempfile
import time

VERIF = os.path.dirname(os.path.abspath(__file__))
HARNESS = os.path.join(VERIF, "harness")
ENV = dict(os.environ, GOFLAGS="-mod=mod", GOPROXY="off", GOSUMDB="off", GOTOOLCHAIN="local")
NCPU = os.cpu_count() or 4

# per property: build variants per tier, shards, per-worker watchdog (s), extra env
CONFIG = {
    "default": {"quick": ["plain"], "thorough": ["plain", "checkptr"], "shards": 16, "watchdog": 900, "watchdog_thorough": 7200},
}
PROPCFG = {}

VARIANT_FLAGS = {
    "plain": [],
    "race": ["-race"],
    # the race detector over the code the production (!race) build runs: go-json compiles different
    # cache-publication code under the race tag, so the ordinary race build never executes the
    # unsynchronised slot stores of compiler_norace.go / compile_norace.go
    "raceprod": ["-race"],
    "checkptr": ["-gcflags=all=-d=checkptr"],
    "asan": ["-asan"],
}


def cfg(prop, key, tier=None):
    d = dict(CONFIG["default"])
    d.update(PROPCFG.get(prop, {}))
    if tier and key + "_" + tier in d:
        return d[key + "_" + tier]
    return d[key]


def load_propcfg():
    p = os.path.join(VERIF, "propcfg.json")
    if os.path.exists(p):
        PROPCFG.update(json.load(open(p)))


def base_variant(variant):
    return variant.split("+")[0]


def build_worker(scratch, variant):
    """variant = base[+zoo14:N[:ptr]] — the suffix selects a generated type population for C14,
    injected into package zoo14 with `go build -overlay`."""
    base = base_variant(variant)
    out = os.path.join(scratch, "vworker-" + re.sub(r"[^A-Za-z0-9]", "_", variant))
    cmd = ["go", "build", "-tags", "verif"] + VARIANT_FLAGS[base]
    env = dict(ENV)
    if base == "asan":
        env["CGO_ENABLED"] = "1"
    t0 = time.time()
    for extra in variant.split("+")[1:]:
        if extra.startswith("zoo14:"):
            parts = extra.split(":")
            gen = os.path.join(scratch, "types_gen_%s.go" % "_".join(parts[1:]))
            gcmd = ["go", "run", "./cmd/vgen", "-n", parts[1], "-o", gen] + (["-ptr"] if "ptr" in parts[2:] else [])
            r = subprocess.run(gcmd, cwd=HARNESS, env=ENV, capture_output=True, text=True)
            if r.returncode != 0:
                sys.stderr.write("vgen failed: %s\n" % r.stderr[-2000:])
                return None, time.time() - t0
            ov = os.path.join(scratch, "overlay_%s.json" % "_".join(parts[1:]))
            json.dump({"Replace": {os.path.join(HARNESS, "zoo14", "types_gen.go"): gen}}, open(ov, "w"))
            cmd += ["-overlay", ov]
    if os.environ.get("VERIF_COVER"):
        # development aid (tools/coverage.sh): statement coverage of go-json under the checks, to find
        # code no monitor ever executes. Workers write their counters to $GOCOVERDIR at exit.
        cmd += ["-cover", "-coverpkg=all"]
    alt = os.environ.get("VERIF_REPO_DIR")
    if alt:
        # development aid (tools/mutant_run.sh --tree): build against another checkout of go-json (a
        # scratch worktree carrying a seeded change) without touching /repo. Registered commands never
        # set it: they rebuild from /repo's working tree.
        mod = open(os.path.join(HARNESS, "go.mod")).read().replace("=> /repo", "=> " + alt)
        mf = os.path.join(scratch, "alt.mod")
        open(mf, "w").write(mod)
        shutil.copy(os.path.join(HARNESS, "go.sum"), os.path.join(scratch, "alt.sum"))
        cmd += ["-modfile", mf]
    if base == "raceprod":
        repo = alt or "/repo"
        repl = {}
        for rel in ("internal/encoder/compiler_norace.go", "internal/encoder/compiler_race.go", "internal/decoder/compile_norace.go", "internal/decoder/compile_race.go"):
            src = open(os.path.join(repo, rel)).read()
            if "_norace" in rel:
                src = src.replace("//go:build !race", "//go:build race").replace("// +build !race", "// +build race")
            else:
                src = src.replace("//go:build race", "//go:build !race").replace("// +build race", "// +build !race")
            dst = os.path.join(scratch, "raceprod_" + rel.replace("/", "_"))
            open(dst, "w").write(src)
            repl[os.path.join(repo, rel)] = dst
        ovs = [a for a in cmd if a.endswith(".json") and "overlay_" in a]
        if ovs:
            j = json.load(open(ovs[0]))
            j["Replace"].update(repl)
            json.dump(j, open(ovs[0], "w"))
        else:
            ov = os.path.join(scratch, "overlay_raceprod.json")
            json.dump({"Replace": repl}, open(ov, "w"))
            cmd += ["-overlay", ov]
    cmd += ["-o", out, "./cmd/vworker"]
    r = subprocess.run(cmd, cwd=HARNESS, env=env, capture_output=True, text=True)
    if r.returncode != 0:
        sys.stderr.write("BUILD FAILED (%s):\n%s\n" % (variant, r.stderr[-4000:]))
        return None, time.time() - t0
    return out, time.time() - t0


def read_cur(path):
    try:
        b = open(path, "rb").read()
    except OSError:
        return None, None
    if len(b) < 8:
        return None, None
    n = struct.unpack("<I", b[:4])[0]
    if n == 0 or n > len(b) - 8:
        return None, None
    s = b[8:8 + n].decode("utf-8", "replace")
    key, _, desc = s.partition("\n")
    return key, desc


FATAL_PATTERNS = [
    (r"fatal error: checkptr: ([^\n]*)", "checkptr"),
    (r"ERROR: AddressSanitizer: ([a-zA-Z0-9_-]+)", "asan"),
    (r"fatal error: stack overflow|goroutine stack exceeds", "stack-overflow"),
    (r"fatal error: runtime: out of memory|fatal error: out of memory|cannot allocate memory", "out-of-memory"),
    (r"fatal error: found bad pointer in Go heap|invalid pointer found on stack|fatal error: invalid pointer", "gc-invalid-pointer"),
    (r"fatal error: all goroutines are asleep - deadlock", "deadlock"),
    (r"fatal error: concurrent map (read and map write|writes|iteration and map write)", "concurrent-map"),
    (r"unexpected fault address|SIGSEGV|SIGBUS|signal SIGSEGV", "segv"),
    (r"fatal error: ([^\n]*)", "fatal"),
    (r"^panic: ([^\n]*)", "panic"),
]


def classify_death(stderr_text, rc):
    kind = None
    for pat, name in FATAL_PATTERNS:
        m = re.search(pat, stderr_text, re.M)
        if m:
            kind = name
            if name == "checkptr":
                kind = "checkptr:" + re.sub(r"0x[0-9a-f]+|\d+", "N", m.group(1)).strip().replace(" ", "-")[:60]
            if name == "asan":
                kind = "asan:" + m.group(1)
            if name == "fatal":
                kind = "fatal:" + re.sub(r"0x[0-9a-f]+|\d+", "N", m.group(1)).strip().replace(" ", "-")[:60]
            break
    if kind is None:
        kind = "exit:%s" % rc
    frame = ""
    # innermost go-json frame of the first goroutine that carries one after the fatal header
    for l in stderr_text.split("\n"):
        l = l.strip()
        if l.startswith("github.com/goccy/go-json"):
            l = l.split("(")[0] if not l.startswith("github.com/goccy/go-json/internal/") else l
            l = re.sub(r"\(.*$", "", l)
            frame = l.replace("github.com/goccy/go-json", "")
            break
        m = re.match(r"#\d+ 0x[0-9a-f]+ in (github\.com/goccy/go-json[^\s]*)", l)
        if m:
            frame = m.group(1).replace("github.com/goccy/go-json", "")
            break
    return kind, frame


class Shard:
    def __init__(self, prop, tier, seed, variant, binary, shard, nshards, scratch):
        self.prop, self.tier, self.seed, self.variant, self.binary = prop, tier, seed, variant, binary
        self.shard, self.nshards = shard, nshards
        self.dir = os.path.join(scratch, "%s-%d" % (re.sub(r"[^A-Za-z0-9]", "_", variant), shard))
        os.makedirs(self.dir, exist_ok=True)
        self.journal = os.path.join(self.dir, "journal.jsonl")
        self.cur = os.path.join(self.dir, "cur")
        self.skip = []
        self.deaths = []  # synthesized violations
        self.inconclusive = []
        self.restarts = 0
        self.done = False

    def last_begun(self):
        last = -1
        done = False
        try:
            for l in open(self.journal, "rb"):
                try:
                    r = json.loads(l)
                except Exception:
                    continue
                if "b" in r:
                    last = r["b"]
                if "e" in r and r["e"] == last:
                    pass
                if r.get("canary") == "done":
                    done = True
        except OSError:
            pass
        return last, done

    def completed_batches(self):
        s = set()
        try:
            for l in open(self.journal, "rb"):
                try:
                    r = json.loads(l)
                except Exception:
                    continue
                if "e" in r:
                    s.add(r["e"])
        except OSError:
            pass
        return s

    def run_once(self, start, watchdog, only=None, extra_env=None):
        cmd = [self.binary, "-prop", self.prop, "-tier", self.tier, "-seed", str(self.seed), "-shard", str(self.shard),
               "-nshards", str(self.nshards), "-journal", self.journal if only is None else os.path.join(self.dir, "only.jsonl"),
               "-cur", self.cur if only is None else os.path.join(self.dir, "only.cur"),
               "-start", str(start), "-variant", self.variant]
        if self.skip:
            cmd += ["-skip", ",".join(self.skip)]
        if only is not None:
            cmd += ["-only", only]
        env = dict(ENV)
        env.update(worker_env(self.prop, self.variant, self.dir))
        if extra_env:
            env.update(extra_env)
        errpath = os.path.join(self.dir, "stderr.%d" % self.restarts if only is None else "only.stderr")
        limit = None
        if base_variant(self.variant) in ("plain", "checkptr"):
            limit = PROPCFG.get(self.prop, {}).get("mem_limit_mb", 6144) * 1024 * 1024

        def pre():
            # a wild read in the library can ask the allocator for terabytes: make that die fast
            # instead of pushing the machine into the OOM killer (sanitizer builds need their
            # shadow mappings, so they run without the address-space limit)
            if limit:
                import resource
                resource.setrlimit(resource.RLIMIT_AS, (limit, limit))
        with open(errpath, "wb") as ef:
            p = subprocess.Popen(cmd, stdout=ef, stderr=ef, env=env, cwd=self.dir, preexec_fn=pre)
            timed_out = False
            t0 = time.time()
            fatal_seen = None
            rc = None
            while rc is None:
                try:
                    rc = p.wait(timeout=5)
                    break
                except subprocess.TimeoutExpired:
                    pass
                if time.time() - t0 >= watchdog:
                    timed_out = True
                    p.send_signal(signal.SIGQUIT)  # goroutine dump into the stderr file
                    try:
                        rc = p.wait(timeout=20)
                    except subprocess.TimeoutExpired:
                        p.kill()
                        rc = p.wait()
                    break
                # a worker that has printed a runtime fatal error is dying; some of them (a fatal
                # error raised inside the collector with GOTRACEBACK=all) never finish the dump and
                # sit idle - do not wait for the watchdog, the report is already in the file
                if fatal_seen is None:
                    try:
                        with open(errpath, "rb") as chk:
                            if b"fatal error: " in chk.read(200000):
                                fatal_seen = time.time()
                    except OSError:
                        pass
                elif time.time() - fatal_seen > 45:
                    p.kill()
                    rc = p.wait()
                    break
        with open(errpath, "rb") as ef:
            ef.seek(0, 2)
            size = ef.tell()
            ef.seek(0)
            head = ef.read(20000).decode("utf-8", "replace")
            tail = ""
            if size > 20000:
                ef.seek(max(20000, size - 8000))
                tail = ef.read().decode("utf-8", "replace")
        return rc, timed_out, head + tail

    def run(self, watchdog):
        start = 0
        while True:
            if os.path.exists(self.cur):
                try:
                    os.remove(self.cur)
                except OSError:
                    pass
            rc, timed_out, err = self.run_once(start, watchdog)
            last, done = self.last_begun()
            if rc == 0 and done:
                self.done = True
                return
            key, desc = read_cur(self.cur)
            self.restarts += 1
            if rc == 75 and not timed_out and not key:
                # the worker asked to be replaced after a complete batch: it reported a call that
                # did not return within its in-worker deadline and left it behind on a goroutine
                start = last + 1
                continue
            if timed_out:
                # hang protocol: re-run the journalled sub-case alone with a 3x deadline
                if key:
                    rc2, to2, err2 = self.run_once(0, min(watchdog * 3, 3 * 3600), only=key)
                    if to2 and goroutines_in_gojson(err) and goroutines_in_gojson(err2):
                        self.deaths.append({"monitor": "process", "entry": self.variant, "kind": "hang", "ctx": common_gojson_frame(err, err2),
                                            "detail": "sub-case %s did not return twice (%.0fs, %.0fs); %s" % (key, watchdog, watchdog * 3, desc[:300]),
                                            "input": desc, "sub": key, "idx": int(key.split(".")[0])})
                    else:
                        self.inconclusive.append("watchdog fired at %s and the lone re-run %s" % (key, "also timed out without go-json frames" if to2 else "returned"))
                    self.skip.append(key)
                else:
                    self.inconclusive.append("watchdog fired with no sub-case in flight (batch %d)" % last)
                    start = last + 1
            elif key:
                kind, frame = classify_death(err, rc)
                # confirm alone once: deterministic vs history-dependent
                rc2, to2, err2 = self.run_once(0, watchdog, only=key)
                k2, f2 = classify_death(err2, rc2) if rc2 != 0 else ("survived-alone", "")
                det = "deterministic" if (k2 == kind) else "history-dependent(alone:%s)" % k2
                fr = frame or "no-gojson-frame"
                shapes = []
                m = re.match(r"shapes=([^\n]*)\n", desc or "")
                if m:
                    shapes = [x for x in m.group(1).split(";") if x]
                ctxs = " + ".join("%s @ %s" % (fr, sh) for sh in shapes) if shapes else fr
                self.deaths.append({"monitor": "process", "entry": self.variant, "kind": "fatal:" + kind if not kind.startswith(("fatal:", "checkptr", "asan")) else kind,
                                    "ctx": ctxs, "match_any": True,
                                    "detail": "worker died (rc=%s, %s) on sub-case %s: %s | %s" % (rc, det, key, desc[:300], first_lines(err)),
                                    "input": desc, "sub": key, "idx": int(key.split(".")[0])})
                self.skip.append(key)
            else:
                kind, frame = classify_death(err, rc)
                self.inconclusive.append("worker exited rc=%s with no sub-case in flight (batch %d): %s %s | %s" % (rc, last, kind, frame, first_lines(err)))
                if last + 1 <= start:
                    # no progress at all (the worker cannot even start): give up on this shard
                    self.inconclusive.append("shard abandoned: the worker makes no progress")
                    return
                start = last + 1
            if key:
                # resume at the batch that died: its earlier sub-cases are re-run, the fatal one is
                # skipped; only complete batches are journalled with "e", so nothing is counted twice
                start = int(key.split(".")[0])
            if self.restarts > PROPCFG.get(self.prop, {}).get("max_restarts", 300):
                self.inconclusive.append("too many worker restarts (%d); shard abandoned at batch %d" % (self.restarts, last))
                return


def first_lines(err, n=3):
    ls = [l for l in err.split("\n") if l.strip()]
    return " / ".join(ls[:n])[:400]


def goroutines_in_gojson(dump):
    return "github.com/goccy/go-json" in dump


def common_gojson_frame(a, b):
    fa = re.findall(r"^(github\.com/goccy/go-json[^\s(]*)", a, re.M)
    fb = set(re.findall(r"^(github\.com/goccy/go-json[^\s(]*)", b, re.M))
    for f in fa:
        if f in fb:
            return f.replace("github.com/goccy/go-json", "")
    return "no-common-frame"


def worker_env(prop, variant, d):
    env = {"GODEBUG": "invalidptr=1", "GOTRACEBACK": "all"}
    if base_variant(variant) in ("race", "raceprod"):
        env["GORACE"] = "halt_on_error=0 exitcode=0 log_path=%s/race history_size=3" % d
    if base_variant(variant) == "asan":
        env["ASAN_OPTIONS"] = "detect_leaks=0:abort_on_error=0:halt_on_error=1"
    env.update(PROPCFG.get(prop, {}).get("env", {}))
    return env


# ---------------------------------------------------------------------------------------------
# known findings

def load_known():
    p = os.path.join(VERIF, "known_findings.json")
    if not os.path.exists(p):
        return []
    return json.load(open(p))["findings"]


def entry_matches(ent, prop, v, ctx_component):
    if ent.get("status") != "known" or ent.get("property") != prop:
        return False
    m = ent["match"]
    for field, val in (("monitor", v["monitor"]), ("entry", v["entry"]), ("kind", v["kind"]), ("ctx", ctx_component)):
        pat = m.get(field)
        if pat is None:
            if field in ("kind", "ctx"):
                return False  # no catch-alls on the mismatch kind or the localized context
            continue
        if not re.fullmatch(pat, val, re.S):
            return False
    return True


def match_known(known, prop, v):
    """A violation is known iff every ' + '-separated component of its ctx matches an entry."""
    comps = v["ctx"].split(" + ") if v.get("ctx") else [""]
    hit = []
    if v.get("match_any"):
        for c in comps:
            e = next((e for e in known if entry_matches(e, prop, v, c)), None)
            if e is not None:
                return [e]
        return None
    for c in comps:
        e = next((e for e in known if entry_matches(e, prop, v, c)), None)
        if e is None:
            return None
        hit.append(e)
    return hit


# ---------------------------------------------------------------------------------------------

def race_reports(scratch):
    """Parse GORACE log files: returns list of (signature, text)."""
    out = []
    for root, _, files in os.walk(scratch):
        for f in files:
            if not f.startswith("race."):
                continue
            txt = open(os.path.join(root, f), errors="replace").read()
            for block in txt.split("WARNING: DATA RACE")[1:]:
                block = block.split("==================")[0]
                out.append(block)
    return out


def race_signature(block):
    """(innermost go-json function of the first access, of the second access), line numbers stripped."""
    parts = re.split(r"\n(?=Previous |Goroutine )", block)
    sides = []
    for part in parts[:2]:
        fn = ""
        for l in part.split("\n"):
            l = l.strip()
            m = re.match(r"(github\.com/goccy/go-json\S*)\(\)$", l)
            if m:
                fn = m.group(1).replace("github.com/goccy/go-json", "")
                break
        kind = "W" if re.match(r"\s*(Previous )?[Ww]rite", part.strip()) else "R"
        sides.append(kind + ":" + (fn or "no-gojson-frame"))
    while len(sides) < 2:
        sides.append("?:?")
    return " / ".join(sorted(sides))


_print = print


def print(*a, **k):  # noqa: A001 - all output lines are made printable (witnesses contain raw bytes)
    txt = " ".join(str(x) for x in a)
    txt = "".join(ch if (ch == "\n" or 32 <= ord(ch) < 127 or ord(ch) > 160) else "\\x%02x" % ord(ch) for ch in txt)
    _print(txt, **k)


def main():
    load_propcfg()
    if len(sys.argv) >= 3 and sys.argv[1] == "replay":
        return replay(sys.argv[2])
    if len(sys.argv) < 3:
        print(__doc__)
        return 2
    prop, tier = sys.argv[1], sys.argv[2]
    seed = int(os.environ.get("VERIF_SEED", "1") or "1")
    t0 = time.time()
    scratch = tempfile.mkdtemp(prefix="verif-%s-" % prop)
    try:
        return run_check(prop, tier, seed, scratch, t0)
    finally:
        if not os.environ.get("VERIF_KEEP"):
            shutil.rmtree(scratch, ignore_errors=True)
        else:
            print("scratch kept:", scratch)


def run_check(prop, tier, seed, scratch, t0):
    variants = cfg(prop, tier)
    nshards = min(cfg(prop, "shards"), NCPU)
    watchdog = cfg(prop, "watchdog", tier)
    known = load_known()
    merged = {"evals": 0, "fp": set(), "nt_enum": 0, "obs": {}, "obsmax": {}, "sets": {}, "samples": [], "viol": [], "inconcl": [],
              "batches": 0, "restarts": 0, "per_variant": {}}
    build_s = {}
    for variant in variants:
        binary, bs = build_worker(scratch, variant)
        build_s[variant] = round(bs, 1)
        if binary is None:
            merged["inconcl"].append("worker build failed for variant " + variant)
            continue
        nb = int(subprocess.run([binary, "-prop", prop, "-tier", tier, "-seed", str(seed), "-count"], capture_output=True, text=True, env=ENV).stdout.strip() or "0")
        ns = max(1, min(nshards, nb))
        shards = [Shard(prop, tier, seed, variant, binary, i, ns, scratch) for i in range(ns)]
        with cf.ThreadPoolExecutor(max_workers=ns) as ex:
            list(ex.map(lambda s: s.run(watchdog), shards))
        vev = 0
        for s in shards:
            merged["restarts"] += s.restarts
            merged["inconcl"] += ["[%s shard %d] %s" % (variant, s.shard, x) for x in s.inconclusive]
            for d in s.deaths:
                d["variant"] = variant
                merged["viol"].append(d)
            seen_batches = set()
            try:
                lines = open(s.journal, "rb").read().split(b"\n")
            except OSError:
                lines = []
            for l in lines:
                if not l.strip():
                    continue
                try:
                    r = json.loads(l)
                except Exception:
                    merged["inconcl"].append("[%s shard %d] torn journal record" % (variant, s.shard))
                    continue
                if "e" not in r or r["e"] in seen_batches:
                    continue
                seen_batches.add(r["e"])
                merged["batches"] += 1
                merged["evals"] += r.get("n", 0)
                vev += r.get("n", 0)
                merged["fp"].update(r.get("fp") or [])
                merged["nt_enum"] += r.get("nt_enum", 0) if variant == variants[0] else 0
                for k, v in (r.get("obs") or {}).items():
                    merged["obs"][k] = merged["obs"].get(k, 0) + v
                for k, v in (r.get("obsmax") or {}).items():
                    merged["obsmax"][k] = max(merged["obsmax"].get(k, 0), v)
                for k, v in (r.get("sets") or {}).items():
                    merged["sets"].setdefault(k, set()).update(v)
                if len(merged["samples"]) < 6:
                    merged["samples"] += (r.get("samples") or [])[:1]
                for v in r.get("v") or []:
                    v["variant"] = variant
                    v["idx"] = r["e"]
                    merged["viol"].append(v)
                merged["inconcl"] += ["[%s batch %d] %s" % (variant, r["e"], x) for x in (r.get("inconclusive") or [])]
        merged["per_variant"][variant] = {"evaluations": vev, "batches": nb, "shards": ns}
        if base_variant(variant) in ("race", "raceprod"):
            blocks = race_reports(scratch)
            sigs = {}
            for b in blocks:
                sigs.setdefault(race_signature(b), []).append(b)
            merged["obs"]["race_reports_raw"] = len(blocks)
            merged["obs"]["race_reports_distinct"] = len(sigs)
            for sg, bs in sigs.items():
                merged["viol"].append({"monitor": "race-detector", "entry": base_variant(variant), "kind": "race", "ctx": sg,
                                       "detail": "%d report(s); first:%s" % (len(bs), bs[0][:1500]), "variant": "race", "idx": -1, "sub": -1})

    # ---- verdict
    viol_lines, known_hits, unknown = [], {}, []
    os.makedirs(os.path.join(VERIF, "replays", prop), exist_ok=True)
    sig_hist = {}
    for v in merged["viol"]:
        sig = "%s|%s|%s|%s" % (v["monitor"], v["entry"], v["kind"], v.get("ctx", ""))
        sig_hist[sig] = sig_hist.get(sig, 0) + 1
        hit = match_known(known, prop, v)
        if hit:
            for e in hit:
                known_hits.setdefault(e["id"], e)
        else:
            unknown.append((sig, v))
    printed = set()
    for sig, v in unknown:
        if sig in printed:
            continue
        printed.add(sig)
        h = hashlib.sha1(sig.encode()).hexdigest()[:12]
        rp = os.path.join("replays", prop, h + ".json")
        json.dump({"property": prop, "tier": tier, "seed": seed, "variant": v.get("variant"), "batch": v.get("idx"), "sub": v.get("sub"),
                   "signature": sig, "detail": v.get("detail"), "input": v.get("input")}, open(os.path.join(VERIF, rp), "w"), indent=1, ensure_ascii=False)
        print("VIOLATION property=%s replay=%s" % (prop, rp))
        print("  signature: " + sig)
        print("  detail: " + str(v.get("detail", ""))[:700].replace("\n", "\\n"))
    for kid, e in sorted(known_hits.items()):
        print("KNOWN-FINDING: property=%s %s %s" % (prop, kid, e.get("witness", "")))
    distinct = len(merged["fp"]) + merged["nt_enum"]
    floor_fail = []
    if merged["evals"] == 0:
        floor_fail.append("no library execution was observed")
    for f in check_floors(prop, tier, merged):
        floor_fail.append(f)
    inconclusive = merged["inconcl"] + floor_fail
    ev = {
        "property_id": prop, "tier": tier, "seed": seed, "level": "exploration",
        "coverage": {
            "evaluations": merged["evals"], "distinct_nontrivial": distinct,
            "rule": RULES.get(prop, "see DESIGN.md section of this property"),
            "samples": merged["samples"][:6] or [{"note": "no sample recorded"}],
            "batches": merged["batches"], "variants": merged["per_variant"], "build_s": build_s,
            "worker_restarts_after_fatal_cases": merged["restarts"],
            "observations": dict(sorted(merged["obs"].items())), "observations_max": merged["obsmax"],
            "observed_sets": {k: sorted(v)[:64] for k, v in merged["sets"].items()},
            "signature_histogram": dict(sorted(sig_hist.items(), key=lambda kv: -kv[1])[:80]),
            "known_findings_hit": sorted(known_hits), "unknown_signatures": sorted(printed),
            "inconclusive": inconclusive[:40],
        },
        "assumptions": ASSUMPTIONS.get(prop, []) + ["encoding/json, strconv, reflect and the Go runtime of the pinned toolchain are correct",
                                                    "violations are matched against /verif/known_findings.json by (monitor, entry, kind, ctx) patterns"],
        "wall_s": round(time.time() - t0, 1), "violations": len(printed),
    }
    # VERIF_EVIDENCE_DIR: used only when running against a seeded change (tools/mutant_run.sh), so that the
    # committed evidence always describes /repo itself.
    evdir = os.environ.get("VERIF_EVIDENCE_DIR") or os.path.join(VERIF, "evidence")
    os.makedirs(evdir, exist_ok=True)
    json.dump(ev, open(os.path.join(evdir, prop + ".json"), "w"), indent=1, ensure_ascii=False)
    print("%s %s seed=%d: evaluations=%d distinct_nontrivial=%d batches=%d violations(unknown)=%d known=%d inconclusive=%d wall=%.0fs" % (
        prop, tier, seed, merged["evals"], distinct, merged["batches"], len(printed), len(known_hits), len(inconclusive), time.time() - t0))
    if printed:
        return 1
    if inconclusive:
        for x in inconclusive[:10]:
            print("INCONCLUSIVE: " + x[:500])
        return 2
    return 0


def check_floors(prop, tier, merged):
    out = []
    for name, floor in PROPCFG.get(prop, {}).get("floors", {}).items():
        if merged["obs"].get(name, 0) + merged["obsmax"].get(name, 0) < floor:
            out.append("observation floor not reached: %s=%s < %s" % (name, merged["obs"].get(name, 0), floor))
    return out


def replay(path):
    r = json.load(open(path if os.path.isabs(path) else os.path.join(VERIF, path)))
    scratch = tempfile.mkdtemp(prefix="verif-replay-")
    try:
        variant = r.get("variant") or "plain"
        if base_variant(variant) not in VARIANT_FLAGS:
            variant = "plain"
        binary, _ = build_worker(scratch, variant)
        if binary is None:
            return 2
        key = "%s.%s" % (r["batch"], r["sub"]) if "." not in str(r["sub"]) else str(r["sub"])
        if r["batch"] in (None, -1):
            print("this record (e.g. a race report) has no single sub-case; re-run the check with VERIF_SEED=%s" % r["seed"])
            return 2
        s = Shard(r["property"], r["tier"], r["seed"], variant, binary, 0, 1, scratch)
        rc, to, err = s.run_once(0, 3600, only=key)
        print("worker rc=%s timed_out=%s" % (rc, to))
        found = False
        try:
            for l in open(os.path.join(s.dir, "only.jsonl")):
                rec = json.loads(l)
                for v in rec.get("v") or []:
                    sig = "%s|%s|%s|%s" % (v["monitor"], v["entry"], v["kind"], v.get("ctx", ""))
                    print("observed: " + sig + " :: " + str(v.get("detail"))[:500])
                    if sig == r["signature"]:
                        found = True
        except OSError:
            pass
        if rc != 0:
            print(err[:6000])
            found = True
        print("REPRODUCED" if found else "not reproduced")
        return 1 if found else 0
    finally:
        shutil.rmtree(scratch, ignore_errors=True)


RULES = {}
ASSUMPTIONS = {}
rp = os.path.join(VERIF, "rules.json")
if os.path.exists(rp):
    _r = json.load(open(rp))
    RULES = _r.get("rules", {})
    ASSUMPTIONS = _r.get("assumptions", {})

if __name__ == "__main__":
    sys.exit(main())
